/-
C05 — The active protocol is the newest supported one not newer than the reported version.

`selectVer` is the numeric selection over the generated `PROTOCOL_VERSIONS` keys; `getProtocolX` / `getProtocolE` /
`getProtocol?` model `get_protocol` for EVERY Python string through a model of awesomeversion's comparison
(`Model/AwesomeVersion.lean`); `hVersion` models the version handler and the `protocol_version` setter (resolve
first, store after).  The reported version reaches `hVersion` through the version reply (internal type I_VERSION)
and through the gateway's (node 0) presentation — both via the generated chains.

On the release grammar `d+(.d+){1,3}` the awesomeversion model IS the numeric selection
(`release_grammar_agrees`); for every string `get_protocol` yields a protocol or one of three exception classes
(`select_total`, with `compare_error_iff`, `index_error_iff`, `value_error_needs_long_section`), all named by the
handler's generated except clause (`rejected_report`); an accepted string selects the newest key it is not below
in awesomeversion's order (`select_spec_av`, `select_spec_lifted`).
-/
import AioMySensors.Lemmas.Rel
import AioMySensors.Lemmas.AwesomeVersion

namespace AioMySensors.C05
open AioMySensors M

/-- `x` is at least the key `k` (major.minor, numerically). -/
def keyLe (k x : Nat × Nat) : Prop := k.1 < x.1 ∨ (k.1 = x.1 ∧ k.2 ≤ x.2)

theorem find?_cons_ite {α} (p : α → Bool) (a : α) (as : List α) :
    (a :: as).find? p = if p a = true then some a else as.find? p := by
  simp only [List.find?]; cases p a <;> simp

theorem keyLt_iff (x y : Nat × Nat) : keyLt x y = true ↔ (x.1 < y.1 ∨ (x.1 = y.1 ∧ x.2 < y.2)) := by
  simp [keyLt]

/-- `get_protocol` over the generated keys, as a decision list on major.minor. -/
theorem selectVer_eq (a b : Nat) : selectVer (a, b) =
    if 2 < a ∨ (2 = a ∧ 2 ≤ b) then .v22 else if 2 = a ∧ 1 ≤ b then .v21 else if 2 = a then .v20
    else if (1 = a ∧ 5 ≤ b) then .v15 else .v14 := by
  simp only [selectVer, keysDesc, Gen.versionKeys, Gen.defaultVersion, List.reverse_cons, List.reverse_nil,
    List.nil_append, List.cons_append, find?_cons_ite, List.find?_nil, Bool.not_eq_true', ← Bool.not_eq_true, keyLt_iff]
  repeat' split
  all_goals simp_all
  all_goals grind

theorem Ver.le_def (a b : Ver) : a ≤ b ↔ a.toNat ≤ b.toNat := Iff.rfl

/-- **Selection.** `selectVer x` is the newest supported protocol whose major.minor does not
exceed `x`, and the default protocol (1.4) when every supported one is newer than `x`. -/
theorem select_spec (x : Nat × Nat) :
    (∀ k ∈ Gen.versionKeys, keyLe (k.2.1, k.2.2) x → k.1 ≤ selectVer x) ∧
    ((∃ k ∈ Gen.versionKeys, k.1 = selectVer x ∧ keyLe (k.2.1, k.2.2) x) ∨
     (selectVer x = Gen.defaultVersion ∧ ∀ k ∈ Gen.versionKeys, ¬ keyLe (k.2.1, k.2.2) x)) := by
  obtain ⟨a, b⟩ := x
  rw [selectVer_eq]
  simp only [Gen.versionKeys, Gen.defaultVersion, keyLe, List.mem_cons, List.mem_nil_iff, or_false, forall_eq_or_imp,
    exists_eq_or_imp, forall_eq, exists_eq_left]
  repeat' split
  all_goals simp_all [Ver.le_def, Ver.toNat]
  all_goals grind

/-- The statement's examples. -/
theorem select_examples :
    getProtocol? "2.2.0".toList = some .v22 ∧ getProtocol? "2.3.2".toList = some .v22 ∧
    getProtocol? "2.1.1".toList = some .v21 ∧ getProtocol? "2.0.0".toList = some .v20 ∧
    getProtocol? "1.5.0".toList = some .v15 ∧ getProtocol? "1.4.9".toList = some .v14 ∧
    getProtocol? "0.9".toList = some .v14 ∧ getProtocol? "2.2".toList = some .v22 ∧
    getProtocol? "9999999999999.0".toList = some .v22 ∧ getProtocol? "garbage".toList = none ∧
    getProtocol? "".toList = none ∧ getProtocol? "2.0-beta".toList = none := by decide

/-- The reported version and the active protocol agree. -/
def Coherent (st : St) : Prop :=
  match st.pv with
  | none => st.proto = Gen.defaultVersion
  | some s => getProtocol? s = some st.proto

theorem getProtocolE_ok {s : Str} {v : Ver} (h : getProtocolE s = .ok v) : getProtocol? s = some v :=
  getProtocolE_ok_iff.mp h

/-- The relation "coherence is not lost". -/
def KeepsCoherent : W → W → Prop := OnSt fun s s' => Coherent s → Coherent s'

theorem keeps_of_same {f : St → St} (hpv : ∀ s, (f s).pv = s.pv) (hproto : ∀ s, (f s).proto = s.proto) :
    Rel KeepsCoherent (modifySt f) :=
  Rel.modifySt f fun s h => by simpa [Coherent, hpv s, hproto s] using h

theorem preO : PreO KeepsCoherent := OnSt.preO (fun _ h => h) (fun h1 h2 h => h2 (h1 h))

theorem stepRel (m : Msg) : StepRel KeepsCoherent m where
  pre := preO
  write := fun _ _ => Rel.transportWrite (fun _ h => h) _
  setNode := fun _ => keeps_of_same (fun _ => rfl) (fun _ => rfl)
  alloc := keeps_of_same (fun _ => rfl) (fun _ => rfl)
  erase := fun _ _ _ => keeps_of_same (fun s => by split <;> rfl) (fun s => by split <;> rfl)
  mark := keeps_of_same (fun _ => rfl) (fun _ => rfl)
  unmark := keeps_of_same (fun s => by split <;> rfl) (fun s => by split <;> rfl)
  version := fun v h => Rel.modifySt _ fun s _ => by simpa [Coherent] using getProtocolE_ok h

theorem park_keeps (m : Msg) : Rel KeepsCoherent (parkMod m) := keeps_of_same (fun _ => rfl) (fun _ => rfl)

/-- **Coherence is an invariant of receiving**, whatever the line, the outcome (also a rejected
version report or any other error) and the write faults. -/
theorem coherent_recv (env : Env) (line : Str) (w : W) (h : Coherent w.st) : Coherent (recv env line w).2.st :=
  (rel_recv preO (fun _ m _ => stepRel m) (ParkOK.of_all park_keeps) env).step w h

theorem coherent_send (obj : Option Msg) (b : Bool) (w : W) (h : Coherent w.st) : Coherent (apiSend obj b w).2.st :=
  (rel_apiSend preO (fun _ => Rel.transportWrite (fun _ h => h) _) (fun sm _ => park_keeps sm) obj b).step w h

theorem coherent_step (st : St) (op : Op) (h : Coherent st) : Coherent (stepOp st op).1 := by
  cases op with
  | recv env line faults =>
    have := coherent_recv env line { st := st, faults := faults } h
    simp only [stepOp]; split <;> simp_all
  | send obj b faults =>
    have := coherent_send obj b { st := st, faults := faults } h
    simp only [stepOp]; split <;> simp_all

/-- No version reported yet: protocol 1.4 is active. -/
theorem coherent_init : Coherent {} := by simp [Coherent]

/-- **Every history**: the reported version and the active rules never disagree. -/
theorem coherent_history (ops : List Op) (st : St) (h : Coherent st) : Coherent (stateAfter st ops) := by
  induction ops generalizing st with
  | nil => simpa [stateAfter, run] using h
  | cons op ops ih =>
    have := ih _ (coherent_step st op h)
    simpa [stateAfter, run] using this

/-- An accepted report installs the reported string and the selected protocol together. -/
theorem accepted_report (m : Msg) (v : Ver) (w : W) (h : getProtocol? m.payload = some v) :
    (hVersion m w).2.st.pv = some m.payload ∧ (hVersion m w).2.st.proto = v ∧ (hVersion m w).1 = .ok m := by
  have he : getProtocolE m.payload = .ok v := getProtocolE_ok_iff.mpr h
  simp [hVersion, convertExn, he, M.bind, M.pure, M.seq, M.modifySt]

/-- A rejected report changes nothing and is an invalid message (given the generated except clause). -/
theorem rejected_report (m : Msg) (w : W) (h : getProtocol? m.payload = none) :
    (hVersion m w).2 = w ∧ errOf (hVersion m w).1 = some (.lib .invalidMessage) := by
  have he : ∃ c, getProtocolE m.payload = .error c ∧ pyCaught c (clause Gen.excVersion 0) = true := by
    obtain ⟨e, _, he⟩ := getProtocolE_of_none h
    exact ⟨e.toPy, he, by cases e <;> decide⟩
  obtain ⟨c, hc, hcaught⟩ := he
  simp [hVersion, convertExn, hc, hcaught, M.bind, M.raise, errOf]

/-- **Type gate (internal).** A type that does not exist in the active protocol is refused as
unsupported, before anything else happens. -/
theorem internal_gate_refuses (env : Env) (v : Ver) (m : Msg) (w : W)
    (h : (Gen.internalTypes v).lookup m.type = none) :
    hInternal env v m w = (.error (.lib .unsupported), w) := by
  simp [hInternal, h, M.raise]

/-- A type that exists passes the gate: the outcome is that of the handler named after it. -/
theorem internal_gate_passes (env : Env) (v : Ver) (m : Msg) (name : String)
    (h : (Gen.internalTypes v).lookup m.type = some name) :
    hInternal env v m = runTyped env (((Gen.internalChains v).lookup m.type).join) m := by
  simp [hInternal, h]

theorem stream_gate_refuses (env : Env) (v : Ver) (m : Msg) (w : W) (n : Node)
    (hn : w.st.nodes.get? m.node = some n) (h : (Gen.streamTypes v).lookup m.type = none) :
    hStream env v m w = (.error (.lib .unsupported), w) := by
  simp [hStream, requireNode, M.bind, M.getSt, hn, M.pure, h, M.raise]

/-- The per-version internal tables: what exists where (generated). -/
theorem internal_tables :
    (Gen.internalTypes .v14).map Prod.fst = (List.range 15).map Int.ofNat ∧
    (Gen.internalTypes .v15).map Prod.fst = (List.range 18).map Int.ofNat ∧
    (Gen.internalTypes .v20).map Prod.fst = (List.range 29).map Int.ofNat ∧
    (Gen.internalTypes .v21).map Prod.fst = (List.range 29).map Int.ofNat ∧
    (Gen.internalTypes .v22).map Prod.fst = (List.range 34).map Int.ofNat := by decide

/-! ## Every string the library can be handed -/

/-- **The release grammar.**  On `d+(.d+){1,3}` (ASCII digits, components within the digit limit) the awesomeversion
model selects what the numeric major.minor definition selects: `get_protocol` succeeds with
`selectVer (major, minor)`, and `getProtocol?` coincides with the release-grammar definition `getProtocolRelease?`. -/
theorem release_grammar_agrees (s : Str) (p : List Nat) (hp : verParse? s = some p) :
    getProtocolE s = .ok (selectVer (verKey p)) ∧ getProtocol? s = getProtocolRelease? s := by
  have h := getProtocolX_release hp
  refine ⟨getProtocolE_ok_iff_X.mpr h, ?_⟩
  simp [getProtocol?, h, getProtocolRelease?, hp]

/-- The same, for every string of the grammar at once. -/
theorem release_grammar_agrees_of_isSome (s : Str) (h : (verParse? s).isSome = true) : getProtocol? s = getProtocolRelease? s := by
  obtain ⟨p, hp⟩ := Option.isSome_iff_exists.mp h
  exact (release_grammar_agrees s p hp).2

example : verParse? "2.3.2".toList = some [2, 3, 2] := by decide
example : verParse? "10.0.11.12".toList = some [10, 0, 11, 12] := by decide

/-- Outside the release grammar the two definitions differ (the old one rejected everything). -/
example : getProtocolRelease? "7".toList = none ∧ getProtocol? "7".toList = some .v22 ∧
    getProtocolRelease? "v2.1".toList = none ∧ getProtocol? "v2.1".toList = some .v21 ∧
    getProtocolRelease? "2.2.0-beta".toList = none ∧ getProtocol? "2.2.0-beta".toList = some .v21 ∧
    getProtocolRelease? "2.2.0b1".toList = none ∧ getProtocol? "2.2.0b1".toList = some .v21 ∧
    getProtocolRelease? "latest".toList = none ∧ getProtocol? "latest".toList = some .v22 ∧
    getProtocolRelease? "0x10".toList = none ∧ getProtocol? "0x10".toList = some .v22 ∧
    getProtocolRelease? "2024.6.0".toList = some .v22 ∧ getProtocol? "2024.6.0".toList = some .v22 := by decide +kernel

/-- **Plain integers.**  A reported version that is a bare run of ASCII digits (within the digit limit) — which
awesomeversion accepts as a BuildVer — selects what the release version `n.0` selects: `"7"` gives 2.2, `"2"` gives
2.0, `"1"` gives 1.4 (`select_examples_wide`). -/
theorem plain_integer_selects (s : Str) (hne : s ≠ []) (hd : ∀ c ∈ s, c.isDigit = true)
    (hl : s.length ≤ Gen.pyMaxStrDigits) :
    getProtocolE s = .ok (selectVer (Nat.ofDigitChars 10 s 0, 0)) :=
  getProtocolE_ok_iff_X.mpr (getProtocolX_plain_integer s ⟨hne, hd, hl⟩)

example : "7".toList ≠ [] ∧ (∀ c ∈ "7".toList, c.isDigit = true) ∧ "7".toList.length ≤ Gen.pyMaxStrDigits := by decide

/-- **Totality.**  For every Python string `get_protocol` yields a protocol or raises one of three classes:
`AwesomeVersionCompareException`, `ValueError`, `IndexError` — each of which the version handler's generated
except clause names (`rejected_report`). -/
theorem select_total (s : Str) :
    (∃ v, getProtocolE s = .ok v) ∨ getProtocolE s = .error .AwesomeVersionCompareException ∨
    getProtocolE s = .error .ValueError ∨ getProtocolE s = .error .IndexError := by
  unfold getProtocolE
  cases getProtocolX s with
  | ok v => exact Or.inl ⟨v, rfl⟩
  | error e => cases e <;> simp [AvErr.toPy]

/-- The comparison error is raised exactly for the strings whose strategy is unknown (no pattern matches). -/
theorem compare_error_iff (s : Str) :
    getProtocolE s = .error .AwesomeVersionCompareException ↔ avStrategy (avString (avNorm s)) = .unknown := by
  have hE : getProtocolE s = .error .AwesomeVersionCompareException ↔ getProtocolX s = .error .compare := by
    unfold getProtocolE
    cases getProtocolX s with
    | ok v => simp
    | error e => cases e <;> simp [AvErr.toPy]
  rw [hE]
  constructor
  · intro h
    obtain ⟨k, _, hk⟩ := getProtocolFrom_error h
    rcases avLtKeyOf_error hk with ⟨_, hu⟩ | ⟨he, _⟩ | ⟨he, _⟩
    · exact hu
    · exact absurd he (by simp)
    · exact absurd he (by simp)
  · intro hu
    unfold getProtocolX
    rw [hu]
    have hne : avString (avNorm s) ≠ keyStr 2 2 := by
      intro e
      rw [e] at hu
      revert hu
      decide +kernel
    simp [keysDesc, Gen.versionKeys, getProtocolFrom, avLtKeyOf, hne]

/-- `IndexError` is raised exactly when `AwesomeVersion.sections` fails: a known, non-container strategy, no modifier
type, and a counted section of white space only. -/
theorem index_error_iff (s : Str) :
    getProtocolE s = .error .IndexError ↔
      (avStrategy (avString (avNorm s)) ≠ .unknown ∧ avStrategy (avString (avNorm s)) ≠ .specialContainer ∧
       avSections (avStrategy (avString (avNorm s))) (avString (avNorm s)) = .error .index) := by
  have hE : getProtocolE s = .error .IndexError ↔ getProtocolX s = .error .index := by
    unfold getProtocolE
    cases getProtocolX s with
    | ok v => simp
    | error e => cases e <;> simp [AvErr.toPy]
  rw [hE]
  constructor
  · intro h
    obtain ⟨k, _, hk⟩ := getProtocolFrom_error h
    rcases avLtKeyOf_error hk with ⟨he, _⟩ | ⟨_, h1, h2, h3⟩ | ⟨he, _⟩
    · exact absurd he (by simp)
    · exact ⟨h1, h2, h3⟩
    · exact absurd he (by simp)
  · rintro ⟨h1, h2, h3⟩
    unfold getProtocolX
    have hne : avString (avNorm s) ≠ keyStr 2 2 := by
      intro e
      rw [e] at h3
      have hk : (avSections (avStrategy (keyStr 2 2)) (keyStr 2 2)).toBool = true := by decide +kernel
      rw [h3] at hk
      simp [Except.toBool] at hk
    simp [keysDesc, Gen.versionKeys, getProtocolFrom, avLtKeyOf, hne, h1, h2, h3]

/-- `ValueError` needs a section whose first digit run exceeds the interpreter's digit limit — hence a reported
string longer than that limit (4300 characters). -/
theorem value_error_needs_long_section (s : Str) (h : getProtocolE s = .error .ValueError) :
    (∃ p ∈ splitOn '.' (avString (avNorm s)), ∃ g, reDigit p = some g ∧ Gen.pyMaxStrDigits < g.length) ∧
    Gen.pyMaxStrDigits < s.length := by
  have hX : getProtocolX s = .error .value := by
    unfold getProtocolE at h
    cases hx : getProtocolX s with
    | ok v => simp [hx] at h
    | error e => cases e <;> simp_all [AvErr.toPy]
  obtain ⟨k, _, hk⟩ := getProtocolFrom_error hX
  rcases avLtKeyOf_error hk with ⟨he, _⟩ | ⟨he, _⟩ | ⟨_, _, p, hp, g, hg, hl⟩
  · exact absurd he (by simp)
  · exact absurd he (by simp)
  · refine ⟨⟨p, hp, g, hg, hl⟩, ?_⟩
    have h1 := length_reDigit_le hg
    have h2 := length_le_of_mem_splitOn '.' _ p hp
    have h3 := length_avString_avNorm_le s
    omega

/-- Reported strings of at most 4300 characters: a protocol, the comparison error, or the `IndexError`. -/
theorem short_strings (s : Str) (h : s.length ≤ Gen.pyMaxStrDigits) :
    (∃ v, getProtocolE s = .ok v) ∨ getProtocolE s = .error .AwesomeVersionCompareException ∨
    getProtocolE s = .error .IndexError := by
  rcases select_total s with h1 | h1 | h1 | h1
  · exact Or.inl h1
  · exact Or.inr (Or.inl h1)
  · have := (value_error_needs_long_section s h1).2; omega
  · exact Or.inr (Or.inr h1)

/-- **Selection, for every string** (the property's core on awesomeversion's own order).  Whenever `get_protocol`
accepts `s`, every supported key newer than the selected protocol is one `s` is below, and the selected protocol is
a key `s` is not below — the newest key with `¬ (s < key)` — or the default protocol when `s` is below all keys.
No comparison involved raises. -/
theorem select_spec_av (s : Str) (v : Ver) (h : getProtocolE s = .ok v) :
    (∀ k ∈ Gen.versionKeys, ¬ k.1 ≤ v → avLtKey s k.2.1 k.2.2 = .ok true) ∧
    ((∃ k ∈ Gen.versionKeys, k.1 = v ∧ avLtKey s k.2.1 k.2.2 = .ok false) ∨
     (v = Gen.defaultVersion ∧ ∀ k ∈ Gen.versionKeys, avLtKey s k.2.1 k.2.2 = .ok true)) := by
  have hX := getProtocolE_ok_iff_X.mp h
  unfold getProtocolX at hX
  simp only [keysDesc, Gen.versionKeys, List.reverse_cons, List.reverse_nil, List.nil_append, List.cons_append,
    getProtocolFrom] at hX
  simp only [Gen.versionKeys, Gen.defaultVersion, avLtKey, List.mem_cons, List.mem_nil_iff, or_false, forall_eq_or_imp,
    exists_eq_or_imp, forall_eq, exists_eq_left, Ver.le_def]
  generalize avLtKeyOf (avString (avNorm s)) (avStrategy (avString (avNorm s))) 2 2 = c22 at hX ⊢
  generalize avLtKeyOf (avString (avNorm s)) (avStrategy (avString (avNorm s))) 2 1 = c21 at hX ⊢
  generalize avLtKeyOf (avString (avNorm s)) (avStrategy (avString (avNorm s))) 2 0 = c20 at hX ⊢
  generalize avLtKeyOf (avString (avNorm s)) (avStrategy (avString (avNorm s))) 1 5 = c15 at hX ⊢
  generalize avLtKeyOf (avString (avNorm s)) (avStrategy (avString (avNorm s))) 1 4 = c14 at hX ⊢
  rcases c22 with e | (_ | _) <;> simp at hX <;> try (subst hX; simp [Ver.toNat])
  rcases c21 with e | (_ | _) <;> simp at hX <;> try (subst hX; simp [Ver.toNat])
  rcases c20 with e | (_ | _) <;> simp at hX <;> try (subst hX; simp [Ver.toNat])
  rcases c15 with e | (_ | _) <;> simp at hX <;> try (subst hX; simp [Ver.toNat])
  rcases c14 with e | (_ | _) <;> simp at hX <;> try (subst hX; simp [Ver.toNat, Gen.defaultVersion])

/-- `select_spec`, lifted from the release grammar to every accepted string: no key that `s` is not below is newer
than the selected protocol, and the selected protocol is such a key unless `s` is below every key (then it is the
default protocol).  The order is awesomeversion's (`avLtKey`), which on the release grammar is the numeric order of
major.minor (`release_grammar_agrees`, `select_spec`). -/
theorem select_spec_lifted (s : Str) (v : Ver) (h : getProtocol? s = some v) :
    (∀ k ∈ Gen.versionKeys, avLtKey s k.2.1 k.2.2 = .ok false → k.1 ≤ v) ∧
    ((∃ k ∈ Gen.versionKeys, k.1 = v ∧ avLtKey s k.2.1 k.2.2 = .ok false) ∨
     (v = Gen.defaultVersion ∧ ∀ k ∈ Gen.versionKeys, avLtKey s k.2.1 k.2.2 ≠ .ok false)) := by
  obtain ⟨h1, h2⟩ := select_spec_av s v (getProtocolE_ok_iff.mpr h)
  refine ⟨fun k hk hf => ?_, ?_⟩
  · by_cases hle : k.1 ≤ v
    · exact hle
    · rw [h1 k hk hle] at hf; simp at hf
  · rcases h2 with h2 | ⟨hd, hall⟩
    · exact Or.inl h2
    · exact Or.inr ⟨hd, fun k hk => by rw [hall k hk]; simp⟩

/-- Accepted strings outside the release grammar, one per strategy and handler (what the code does today). -/
theorem select_examples_wide :
    getProtocol? "7".toList = some .v22 ∧ getProtocol? "2".toList = some .v20 ∧ getProtocol? "1".toList = some .v14 ∧
    getProtocol? "v2.1".toList = some .v21 ∧ getProtocol? " 2.0 ".toList = some .v20 ∧ getProtocol? "2.1.".toList = some .v21 ∧
    getProtocol? "|2.1".toList = some .v14 ∧
    getProtocol? "latest".toList = some .v22 ∧ getProtocol? "dev".toList = some .v22 ∧
    getProtocol? "0x10".toList = some .v22 ∧ getProtocol? "0x1".toList = some .v14 ∧
    getProtocol? "2024.6.0".toList = some .v22 ∧
    getProtocol? "2.2.0-beta".toList = some .v21 ∧ getProtocol? "2.2.1-beta".toList = some .v22 ∧
    getProtocol? "2.2.0+build".toList = some .v22 ∧ getProtocol? "2.2.0b1".toList = some .v21 ∧
    getProtocol? "2.1.0.dev0+local".toList = some .v21 ∧ getProtocol? "1!2.2".toList = some .v14 ∧
    getProtocol? "2.2.0.0.0.1".toList = some .v22 ∧
    getProtocol? "v.2.1".toList = none ∧ getProtocol? "2..1".toList = none ∧ getProtocol? "20.1.2.\n.".toList = none := by
  decide +kernel

/-! Non-vacuity -/
example : Coherent { pv := some "2.1.1".toList, proto := .v21 } := by simp [Coherent]; decide
example : ¬ Coherent { pv := some "2.2.0".toList, proto := .v21 } := by simp [Coherent]; decide

end AioMySensors.C05
