/-
C03 — The receive path raises only library errors, whatever arrives on the wire.

`recv` (Model/Handlers.lean) is one iteration of `Gateway.listen` on a line delivered by the
transport.  In the model a non-library exception is the outcome `.error (.foreign c)`; the
theorems say it cannot occur, for every line, configuration, local time, write-fault schedule and
every state satisfying the reachable-state invariant `SbufOK` — using the generated handler
chains, `message_buffer=` flags and `except` tuples (so narrowing an except clause, dropping a
conversion's guard or adding an unknown layer breaks these proofs).  The stream transport's own
read path is C17; the error classes all derive from the library base class by
`lib_errors_derive_from_base`.
-/
import AioMySensors.Lemmas.Safe
import AioMySensors.Model.Gateway

namespace AioMySensors.C03
open AioMySensors

/-- Messages a caller may hand to `send` in the histories below: anything the codec accepts
(command 0-4), or an object that is not a message. -/
def SendOK : Option Msg → Prop
  | none => True
  | some m => m.cmd ∈ [(0 : Int), 1, 2, 3, 4]

def OpOK : Op → Prop
  | .recv _ _ _ => True
  | .send obj _ _ => SendOK obj

/-- **No foreign exception from the receive path**, in any state satisfying the invariant. -/
theorem recv_lib_only (env : Env) (line : Str) (st : St) (faults : List Bool) (h : SbufOK st) (c : PyExn) :
    (recv env line { st := st, faults := faults }).1 ≠ .error (.foreign c) :=
  ((safe_recv env line).run _ h).1 c

/-- The invariant holds again after the step, also when the step ended in an error: the gateway
remains usable and the next line is handled by the same `recv` from a good state. -/
theorem recv_preserves_inv (env : Env) (line : Str) (st : St) (faults : List Bool) (h : SbufOK st) :
    SbufOK (recv env line { st := st, faults := faults }).2.st :=
  ((safe_recv env line).run _ h).2

theorem sendable_of_range {cmd : Int} (h : cmd ∈ [(0 : Int), 1, 2, 3, 4]) : sendable cmd = true :=
  (commandChains_ok .v14 cmd h).2

theorem send_lib_only (obj : Option Msg) (b : Bool) (st : St) (faults : List Bool) (h : SbufOK st) (ho : SendOK obj)
    (c : PyExn) : (apiSend obj b { st := st, faults := faults }).1 ≠ .error (.foreign c) := by
  refine ((safe_apiSend obj b ?_).run _ h).1 c
  intro m hm; subst hm; exact sendable_of_range ho

theorem send_preserves_inv (obj : Option Msg) (b : Bool) (st : St) (faults : List Bool) (h : SbufOK st) (ho : SendOK obj) :
    SbufOK (apiSend obj b { st := st, faults := faults }).2.st := by
  refine ((safe_apiSend obj b ?_).run _ h).2
  intro m hm; subst hm; exact sendable_of_range ho

theorem step_inv (st : St) (op : Op) (h : SbufOK st) (ho : OpOK op) : SbufOK (stepOp st op).1 := by
  cases op with
  | recv env line faults =>
    have := recv_preserves_inv env line st faults h
    simp only [stepOp]
    split <;> simp_all
  | send obj b faults =>
    have := send_preserves_inv obj b st faults h ho
    simp only [stepOp]
    split <;> simp_all

theorem step_lib_only (st : St) (op : Op) (h : SbufOK st) (ho : OpOK op) (c : PyExn) :
    (stepOp st op).2.out ≠ .error (.foreign c) := by
  cases op with
  | recv env line faults =>
    have := recv_lib_only env line st faults h c
    simp only [stepOp]
    split <;> simp_all
  | send obj b faults =>
    have := send_lib_only obj b st faults h ho c
    simp only [stepOp]
    split <;> simp_all

/-- **Every history.** Starting from a fresh gateway, along any sequence of received lines
(arbitrary text) and send calls, with arbitrary write faults, no step ends in a non-library
exception — in particular every step after an error is handled normally. -/
theorem history_lib_only (ops : List Op) (hops : ∀ op ∈ ops, OpOK op) (st : St) (h : SbufOK st) :
    ∀ o ∈ (run st ops).2, ∀ c, o.out ≠ .error (.foreign c) := by
  induction ops generalizing st with
  | nil => intro o ho; simp [run] at ho
  | cons op ops ih =>
    intro o ho c
    simp only [run, List.mem_cons] at ho
    rcases ho with rfl | ho
    · exact step_lib_only st op h (hops op (by simp)) c
    · exact ih (fun op' h' => hops op' (by simp [h'])) _ (step_inv st op h (hops op (by simp))) o ho c

theorem fresh_gateway_inv : SbufOK ({} : St) := SbufOK_init

/-- Every error class defined in `exceptions.py` derives from `AIOMySensorsError` (read from the
live classes by the translator). -/
theorem lib_errors_derive_from_base : Gen.libErrorsDeriveFromBase = true := by decide

/-- The conversions' except clauses cover what the conversions can raise (generated tuples). -/
theorem conversions_caught :
    pyCaught .ValueError (clause Gen.excBattery 0) = true ∧ pyCaught .OverflowError (clause Gen.excBattery 0) = true ∧
    pyCaught .ValueError (clause Gen.excHeartbeat20 0) = true ∧ pyCaught .ValueError (clause Gen.excHeartbeat22 0) = true ∧
    pyCaught .AwesomeVersionCompareException (clause Gen.excVersion 0) = true ∧
    pyCaught .ValueError (clause Gen.excVersion 0) = true ∧
    pyCaught .ValidationError (clause Gen.excListen 0) = true := by decide

end AioMySensors.C03
