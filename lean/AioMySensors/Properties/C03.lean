/-
C03 — The receive path raises only library errors, whatever arrives on the wire.

`recv` (Model/Handlers.lean) is one iteration of `Gateway.listen` on a line delivered by the
transport.  In the model a non-library exception is the outcome `.error (.foreign c)`; the
theorems say it cannot occur, for every line, configuration, local time, write-fault schedule and
every state satisfying the reachable-state invariant `SbufOK` — except for the `CancelledError` of
a cancellation that the environment delivers while the task waits in a transport write
(`Fault.cancel`), which is not the library's to catch and after which the gateway is still in a
good state — using the generated handler
chains, `message_buffer=` flags and `except` tuples (so narrowing an except clause, dropping a
conversion's guard or adding an unknown layer breaks these proofs).  The stream transport's own
read path is C17; the error classes all derive from the library base class by
`lib_errors_derive_from_base`.
-/
import AioMySensors.Lemmas.Safe
import AioMySensors.Model.Gateway

namespace AioMySensors.C03
open AioMySensors

/-- Messages a caller may hand to `send` in the histories below: anything the codec accepts
(command 0-4), or an object that is not a message. -/
def SendOK : Option Msg → Prop
  | none => True
  | some m => m.cmd ∈ [(0 : Int), 1, 2, 3, 4]

def OpOK : Op → Prop
  | .recv _ _ _ => True
  | .send obj _ _ => SendOK obj

/-- The fault schedule of an operation. -/
def opFaults : Op → List Fault
  | .recv _ _ faults => faults
  | .send _ _ faults => faults

/-- **No foreign exception from the receive path**, in any state satisfying the invariant — with
the one exception that is not the library's to prevent: if the environment cancels the listening
task while it waits in a transport write (`Fault.cancel` in the schedule), that `CancelledError`
propagates.  Nothing else does. -/
theorem recv_lib_only_or_cancelled (env : Env) (line : Str) (st : St) (faults : List Fault) (h : SbufOK st) (c : PyExn)
    (hc : (recv env line { st := st, faults := faults }).1 = .error (.foreign c)) :
    c = .CancelledError ∧ Fault.cancel ∈ faults :=
  ((safe_recv env line).run _ h).1 c hc

/-- Without a cancellation, whatever the write faults: no non-library exception at all. -/
theorem recv_lib_only (env : Env) (line : Str) (st : St) (faults : List Fault) (h : SbufOK st)
    (hf : Fault.cancel ∉ faults) (c : PyExn) :
    (recv env line { st := st, faults := faults }).1 ≠ .error (.foreign c) :=
  fun hc => hf (recv_lib_only_or_cancelled env line st faults h c hc).2

/-- The invariant holds again after the step, also when the step ended in an error or was aborted
by a cancellation: the gateway remains usable and the next line is handled from a good state. -/
theorem recv_preserves_inv (env : Env) (line : Str) (st : St) (faults : List Fault) (h : SbufOK st) :
    SbufOK (recv env line { st := st, faults := faults }).2.st :=
  ((safe_recv env line).run _ h).2.1

theorem sendable_of_range {cmd : Int} (h : cmd ∈ [(0 : Int), 1, 2, 3, 4]) : sendable cmd = true :=
  (commandChains_ok .v14 cmd h).2

theorem send_lib_only_or_cancelled (obj : Option Msg) (b : Bool) (st : St) (faults : List Fault) (h : SbufOK st)
    (ho : SendOK obj) (c : PyExn) (hc : (apiSend obj b { st := st, faults := faults }).1 = .error (.foreign c)) :
    c = .CancelledError ∧ Fault.cancel ∈ faults := by
  refine ((safe_apiSend obj b ?_).run _ h).1 c hc
  intro m hm; subst hm; exact sendable_of_range ho

theorem send_lib_only (obj : Option Msg) (b : Bool) (st : St) (faults : List Fault) (h : SbufOK st) (ho : SendOK obj)
    (hf : Fault.cancel ∉ faults) (c : PyExn) : (apiSend obj b { st := st, faults := faults }).1 ≠ .error (.foreign c) :=
  fun hc => hf (send_lib_only_or_cancelled obj b st faults h ho c hc).2

theorem send_preserves_inv (obj : Option Msg) (b : Bool) (st : St) (faults : List Fault) (h : SbufOK st) (ho : SendOK obj) :
    SbufOK (apiSend obj b { st := st, faults := faults }).2.st := by
  refine ((safe_apiSend obj b ?_).run _ h).2.1
  intro m hm; subst hm; exact sendable_of_range ho

theorem step_inv (st : St) (op : Op) (h : SbufOK st) (ho : OpOK op) : SbufOK (stepOp st op).1 := by
  cases op with
  | recv env line faults =>
    have := recv_preserves_inv env line st faults h
    simp only [stepOp]
    split <;> simp_all
  | send obj b faults =>
    have := send_preserves_inv obj b st faults h ho
    simp only [stepOp]
    split <;> simp_all

theorem step_lib_only_or_cancelled (st : St) (op : Op) (h : SbufOK st) (ho : OpOK op) (c : PyExn)
    (hc : (stepOp st op).2.out = .error (.foreign c)) : c = .CancelledError ∧ Fault.cancel ∈ opFaults op := by
  cases op with
  | recv env line faults =>
    have := recv_lib_only_or_cancelled env line st faults h c
    simp only [stepOp] at hc
    split at hc <;> simp_all [opFaults]
  | send obj b faults =>
    have := send_lib_only_or_cancelled obj b st faults h ho c
    simp only [stepOp] at hc
    split at hc <;> simp_all [opFaults]

theorem step_lib_only (st : St) (op : Op) (h : SbufOK st) (ho : OpOK op) (hf : Fault.cancel ∉ opFaults op) (c : PyExn) :
    (stepOp st op).2.out ≠ .error (.foreign c) :=
  fun hc => hf (step_lib_only_or_cancelled st op h ho c hc).2

/-- **Every history.** Starting from a fresh gateway, along any sequence of received lines
(arbitrary text) and send calls, with arbitrary write faults and with cancellations of the waiting
task at arbitrary writes, the only non-library exception a step can end in is the `CancelledError`
of a cancellation injected in that very step — in particular every step after an error or after a
cancellation is handled normally. -/
theorem history_lib_only_or_cancelled (ops : List Op) (hops : ∀ op ∈ ops, OpOK op) (st : St) (h : SbufOK st) :
    ∀ o ∈ (run st ops).2, ∀ c, o.out = .error (.foreign c) → c = .CancelledError := by
  induction ops generalizing st with
  | nil => intro o ho; simp [run] at ho
  | cons op ops ih =>
    intro o ho c hc
    simp only [run, List.mem_cons] at ho
    rcases ho with rfl | ho
    · exact (step_lib_only_or_cancelled st op h (hops op (by simp)) c hc).1
    · exact ih (fun op' h' => hops op' (by simp [h'])) _ (step_inv st op h (hops op (by simp))) o ho c hc

/-- **Every history without cancellations**: no step ends in a non-library exception. -/
theorem history_lib_only (ops : List Op) (hops : ∀ op ∈ ops, OpOK op) (hf : ∀ op ∈ ops, Fault.cancel ∉ opFaults op)
    (st : St) (h : SbufOK st) :
    ∀ o ∈ (run st ops).2, ∀ c, o.out ≠ .error (.foreign c) := by
  induction ops generalizing st with
  | nil => intro o ho; simp [run] at ho
  | cons op ops ih =>
    intro o ho c
    simp only [run, List.mem_cons] at ho
    rcases ho with rfl | ho
    · exact step_lib_only st op h (hops op (by simp)) (hf op (by simp)) c
    · exact ih (fun op' h' => hops op' (by simp [h'])) (fun op' h' => hf op' (by simp [h'])) _
        (step_inv st op h (hops op (by simp))) o ho c

theorem fresh_gateway_inv : SbufOK ({} : St) := SbufOK_init

/-- Every error class defined in `exceptions.py` derives from `AIOMySensorsError` (read from the
live classes by the translator). -/
theorem lib_errors_derive_from_base : Gen.libErrorsDeriveFromBase = true := by decide

/-- The conversions' except clauses cover what the conversions can raise (generated tuples). -/
theorem conversions_caught :
    pyCaught .ValueError (clause Gen.excBattery 0) = true ∧ pyCaught .OverflowError (clause Gen.excBattery 0) = true ∧
    pyCaught .ValueError (clause Gen.excHeartbeat20 0) = true ∧ pyCaught .ValueError (clause Gen.excHeartbeat22 0) = true ∧
    pyCaught .AwesomeVersionCompareException (clause Gen.excVersion 0) = true ∧
    pyCaught .ValueError (clause Gen.excVersion 0) = true ∧
    pyCaught .IndexError (clause Gen.excVersion 0) = true ∧
    pyCaught .ValidationError (clause Gen.excListen 0) = true := by decide

/-- The version conversion raises nothing but what its clause names: every class `get_protocol` can end in
(comparison error, `int()` digit limit, awesomeversion's `IndexError` on a CalVer string ending in `".\n"`), for
every Python string. -/
theorem version_conversion_caught (s : Str) (c : PyExn) (h : getProtocolE s = .error c) :
    pyCaught c (clause Gen.excVersion 0) = true := getProtocolE_caught s c h

/-- The `IndexError` class is really produced (the witness of defect F16). -/
example : (match getProtocolE "20.1.2.\n.".toList with | .error .IndexError => true | _ => false) = true := by
  decide +kernel

end AioMySensors.C03
