/-
C17 — Serial/TCP transport delivers exactly the lines of the byte stream.

Model: `Model/Stream.lean` (`Reader` = `asyncio.StreamReader.readuntil` as measured on CPython
3.12, `Transport` = `StreamTransport` with the exception mapping read from the generated `except`
tuples `Gen.excStreamRead/Write/Connect/Disconnect`).  UTF-8 decoding is the parameter
`decodeUtf8` of every theorem.  Modelled, not verified: `asyncio.StreamReader` itself and the OS.
-/
import AioMySensors.Lemmas.Stream

namespace AioMySensors.C17
open AioMySensors AioMySensors.Stream

/-- `c` is `OSError` or one of its subclasses, according to the generated subclass table. -/
abbrev IsOSError (c : PyExn) : Prop := pyCaught c [.OSError] = true

/-- The model's newline is the code's `TERMINATOR`. -/
theorem nl_is_terminator : nl.toNat = Gen.terminator.toNat := by decide

/-! ### The specification of reading -/

/-- What a read returns for one complete line: its text, or a transport read error if the bytes are
not UTF-8. -/
def decodeLine (decodeUtf8 : Bytes → Option Str) (b : Bytes) : ReadRes :=
  match decodeUtf8 b with
  | some s => .ok s
  | none => .err (.lib .transportRead)

/-- The results of `n` successive reads of a stream whose complete lines (without their newlines) are
`ls`: the lines in order, one per read, up to the first one longer than the limit `L`; that read and
every later one — likewise every read after the last complete line, whatever unterminated rest
follows it — is a `TransportReadError`. -/
def spec (L : Nat) (decodeUtf8 : Bytes → Option Str) (ls : List Bytes) (n : Nat) : List ReadRes :=
  ((ls.takeWhile fun (l : Bytes) => l.length ≤ L).map (fun l => decodeLine decodeUtf8 (l ++ [nl]))
    ++ List.replicate n (ReadRes.err (.lib .transportRead))).take n

/-! ### The generated `except` tuples map every anticipated exception to a transport error -/

theorem mapReadExn_overrun : mapReadExn .LimitOverrunError = .lib .transportRead := by decide
theorem mapReadExn_incomplete : mapReadExn .IncompleteReadError = .lib .transportRead := by decide
theorem decodeExn_lib : decodeExn = .lib .transportRead := by decide

theorem mapReadExn_oserror : ∀ c, IsOSError c → mapReadExn c = .lib .transportFailed := by
  intro c; cases c <;> decide

theorem write_fault_is_transport_error :
    ∀ c, IsOSError c → mapBy (clause Gen.excStreamWrite 0) .transportFailed c = .lib .transportFailed := by
  intro c; cases c <;> decide

theorem connect_fault_is_transport_error :
    ∀ c, IsOSError c → mapBy (clause Gen.excStreamConnect 0) .transportError c = .lib .transportError := by
  intro c; cases c <;> decide

theorem absorb_oserror : ∀ c, IsOSError c → absorb c = none := by
  intro c; cases c <;> decide

theorem finish_line (d : Bytes → Option Str) (b : Bytes) : finish d (.line b) = decodeLine d b := by
  simp only [finish, decodeLine, decodeExn_lib]
  split <;> rename_i h <;> simp [h]

theorem specRaw_eq_spec (L : Nat) (d : Bytes → Option Str) (ls : List Bytes) (tail : Bytes) (n : Nat) :
    (specRaw L ls tail n).map (finish d) = spec L d ls n := by
  induction ls generalizing n with
  | nil =>
    cases n with
    | zero => simp [specRaw, spec]
    | succ n =>
      by_cases hl : L < tail.length
      · simp [specRaw, spec, hl, finish, mapReadExn_overrun]
      · simp [specRaw, spec, hl, finish, mapReadExn_incomplete, List.replicate_succ]
  | cons l ls ih =>
    cases n with
    | zero => simp [specRaw, spec]
    | succ n =>
      by_cases hl : l.length ≤ L
      · have := ih n
        simp only [spec] at this
        simp only [specRaw, spec, hl, if_true, List.map_cons, finish_line, this, decide_true,
          List.takeWhile_cons, List.cons_append, List.take_succ_cons, List.cons.injEq, true_and]
        exact (take_append_replicate _ _ n (n + 1) (by omega)).symm
      · simp [specRaw, spec, hl, finish, mapReadExn_overrun]

/-! ### Reading: exactly the lines, whatever the chunking and the interleaving -/

/-- What a schedule's completed reads are, in terms of the state after all its arrivals. -/
theorem run_connected (L : Nat) (d : Bytes → Option Str) (evs : List Ev) (hwf : WF false evs) :
    Transport.run d (connected L) 0 evs =
      (Transport.readN d (readsOf evs)
        { conn := some { reader := { buf := (feedsOf evs).flatten, eof := hasEof evs, limit := L } } }).1 := by
  rw [run_eq d evs false (connected L) 0 (by simp [Transport.eofSeen, connected]) hwf (by simp [Transport.readN])]
  simp [connected, arriveAll_conn]

/-- **Chunking independence.** Two schedules that deliver the same bytes (however split into
chunks), both with or both without end of stream, and ask for the same number of lines (however
the requests are interleaved with the arrivals) complete the same reads with the same results. -/
theorem chunking_independent (L : Nat) (decodeUtf8 : Bytes → Option Str) (evs₁ evs₂ : List Ev)
    (hwf₁ : WF false evs₁) (hwf₂ : WF false evs₂)
    (hbytes : (feedsOf evs₁).flatten = (feedsOf evs₂).flatten)
    (heof : hasEof evs₁ = hasEof evs₂) (hreads : readsOf evs₁ = readsOf evs₂) :
    Transport.run decodeUtf8 (connected L) 0 evs₁ = Transport.run decodeUtf8 (connected L) 0 evs₂ := by
  rw [run_connected L decodeUtf8 evs₁ hwf₁, run_connected L decodeUtf8 evs₂ hwf₂, hbytes, heof, hreads]

/-- **C17, reading.** For every byte stream — written as its complete lines `ls` (bodies without
newline) followed by an unterminated rest `tail`; `splitLines_spec`/`joinLines_inj` show every byte
string is of this form in exactly one way — every way `chunks` of splitting it on arrival, every
limit `L`, and every schedule `evs` that feeds those chunks in order, interleaves any number of
read requests at any positions (a read that has to wait is resumed by the next arrival) and
contains the end of stream: the reads return, one per read and in order, exactly `spec`:
the lines decoded as UTF-8 (`TransportReadError` for an undecodable one), up to the first line
longer than the limit, from which on every read is a `TransportReadError`, as is every read after
the last complete line (the stream ended, mid-line or not). -/
theorem reads_eq_lines (L : Nat) (decodeUtf8 : Bytes → Option Str)
    (ls : List Bytes) (tail : Bytes) (hls : ∀ l ∈ ls, nl ∉ l) (htail : nl ∉ tail)
    (stream : Bytes) (hstream : stream = joinLines ls ++ tail)
    (chunks : List Bytes) (hchunks : chunks.flatten = stream)
    (evs : List Ev) (hfeeds : feedsOf evs = chunks) (hwf : WF false evs) (heof : Ev.eof ∈ evs) :
    Transport.run decodeUtf8 (connected L) 0 evs = spec L decodeUtf8 ls (readsOf evs) := by
  rw [run_connected L decodeUtf8 evs hwf, hfeeds, hchunks, hstream, (hasEof_iff evs).2 heof]
  exact (readN_fed decodeUtf8 L ls tail {} hls htail (readsOf evs)).trans
    (specRaw_eq_spec L decodeUtf8 ls tail (readsOf evs))

/-- The same, for an arbitrary byte string, with its lines computed by `splitLines`. -/
theorem reads_eq_lines_of_stream (L : Nat) (decodeUtf8 : Bytes → Option Str) (stream : Bytes)
    (chunks : List Bytes) (hchunks : chunks.flatten = stream)
    (evs : List Ev) (hfeeds : feedsOf evs = chunks) (hwf : WF false evs) (heof : Ev.eof ∈ evs) :
    Transport.run decodeUtf8 (connected L) 0 evs = spec L decodeUtf8 (splitLines stream).1 (readsOf evs) :=
  reads_eq_lines L decodeUtf8 _ _ (splitLines_spec stream).2.1 (splitLines_spec stream).2.2 stream
    (splitLines_spec stream).1 chunks hchunks evs hfeeds hwf heof

/-- **Prefix consistency.** At any moment of such a schedule (after the prefix `evs₁`) the reads
completed so far are an initial segment of `spec`, and there is at most one result per read. -/
theorem reads_prefix_consistent (L : Nat) (decodeUtf8 : Bytes → Option Str)
    (ls : List Bytes) (tail : Bytes) (hls : ∀ l ∈ ls, nl ∉ l) (htail : nl ∉ tail)
    (evs₁ evs₂ : List Ev) (hfeeds : (feedsOf (evs₁ ++ evs₂)).flatten = joinLines ls ++ tail)
    (hwf : WF false (evs₁ ++ evs₂)) (heof : Ev.eof ∈ evs₁ ++ evs₂) :
    Transport.run decodeUtf8 (connected L) 0 evs₁ <+: spec L decodeUtf8 ls (readsOf (evs₁ ++ evs₂)) ∧
      (Transport.run decodeUtf8 (connected L) 0 evs₁).length ≤ readsOf evs₁ := by
  constructor
  · obtain ⟨ys, hys⟩ := run_append_prefix decodeUtf8 evs₁ evs₂ (connected L) 0
    rw [← reads_eq_lines L decodeUtf8 ls tail hls htail _ rfl _ hfeeds (evs₁ ++ evs₂) rfl hwf heof, hys]
    exact List.prefix_append _ _
  · simpa using run_length_le decodeUtf8 evs₁ (connected L) 0

/-- One result per read once the stream has ended: no read is left waiting. -/
theorem one_result_per_read (L : Nat) (decodeUtf8 : Bytes → Option Str) (evs : List Ev)
    (hwf : WF false evs) (heof : Ev.eof ∈ evs) :
    (Transport.run decodeUtf8 (connected L) 0 evs).length = readsOf evs := by
  rw [reads_eq_lines_of_stream L decodeUtf8 _ _ rfl evs rfl hwf heof]
  simp [spec]

/-! ### Only library errors -/

/-- `read` never lets a non-library exception escape: in every state of the transport (connected or
not, any buffer, at EOF or not) whose reader carries no exception other than an `OSError`
(what `connection_lost(exc)` sets), and for every decoder, the result is a line, a wait, or one of
the three transport errors.  Rests on the generated `Gen.excStreamRead`. -/
theorem read_lib_only (decodeUtf8 : Bytes → Option Str) (t : Transport)
    (hexc : ∀ cn c, t.conn = some cn → cn.reader.exc = some c → IsOSError c) (c : PyExn) :
    (Transport.read decodeUtf8 t).1 ≠ .err (.foreign c) := by
  unfold Transport.read
  cases hc : t.conn with
  | none => simp
  | some cn =>
    simp only
    obtain ⟨⟨buf, eof, limit, exc⟩, w⟩ := cn
    unfold Reader.readuntil
    cases exc with
    | some e =>
      have := mapReadExn_oserror e (hexc _ e hc rfl)
      simp [finish, this]
    | none =>
      simp only
      cases splitNl buf with
      | some p =>
        obtain ⟨body, rest⟩ := p
        by_cases hl : body.length ≤ limit
        · simp only [hl, if_true, finish_line, decodeLine]
          split <;> simp
        · simp [hl, finish, mapReadExn_overrun]
      | none =>
        by_cases hl : limit < buf.length
        · simp [hl, finish, mapReadExn_overrun]
        · cases eof <;> simp [hl, finish, mapReadExn_incomplete]

/-- An I/O error on the connection surfaces from `read` as `TransportFailedError`. -/
theorem read_io_error_is_transport_error (decodeUtf8 : Bytes → Option Str) (cn : Conn) (c : PyExn)
    (hexc : cn.reader.exc = some c) (hc : IsOSError c) :
    Transport.read decodeUtf8 { conn := some cn } = (.err (.lib .transportFailed), { conn := some cn }) := by
  obtain ⟨⟨buf, eof, limit, exc⟩, w⟩ := cn
  simp only at hexc
  subst hexc
  simp [Transport.read, Reader.readuntil, finish, mapReadExn_oserror c hc]

/-! ### Writing -/

/-- Successive `write` calls with their injected faults. -/
def writeAll : Transport → List (Str × WriteFault) → List (Option TExn) × Transport
  | t, [] => ([], t)
  | t, (l, f) :: ws =>
    match t.write l f with
    | (r, t') =>
      match writeAll t' ws with
      | (rs, t'') => (r :: rs, t'')

/-- Did the stream accept the bytes of this call? (Not if `writer.write` itself raised.) -/
def accepted : WriteFault → Bool
  | .atWrite _ => false
  | _ => true

/-- **C17, writing.** After any sequence of writes on a connected transport, with any faults, the
stream holds exactly the UTF-8 bytes of the lines whose `writer.write` call went through, in call
order, appended to what it held before; a call without fault returns normally. -/
theorem write_bytes_in_order (cn : Conn) (ws : List (Str × WriteFault)) :
    (writeAll { conn := some cn } ws).2 =
      { conn := some { cn with writer := { cn.writer with
          out := cn.writer.out ++ ((ws.filter fun w => accepted w.2).map fun w => encodeUtf8 w.1).flatten } } } ∧
    ∀ i (h : i < ws.length), (ws[i]).2 = .clean →
      (writeAll { conn := some cn } ws).1[i]? = some none := by
  induction ws generalizing cn with
  | nil => simp [writeAll]
  | cons w ws ih =>
    obtain ⟨l, f⟩ := w
    cases f with
    | clean =>
      obtain ⟨h1, h2⟩ := ih { cn with writer := { cn.writer with out := cn.writer.out ++ encodeUtf8 l } }
      refine ⟨by simp [writeAll, Transport.write, accepted, h1], ?_⟩
      intro i hi hf
      cases i with
      | zero => simp [writeAll, Transport.write]
      | succ i => simpa [writeAll, Transport.write] using h2 i (by simpa using hi) (by simpa using hf)
    | atWrite c =>
      obtain ⟨h1, h2⟩ := ih cn
      refine ⟨by simp [writeAll, Transport.write, accepted, h1], ?_⟩
      intro i hi hf
      cases i with
      | zero => simp at hf
      | succ i => simpa [writeAll, Transport.write] using h2 i (by simpa using hi) (by simpa using hf)
    | atDrain c =>
      obtain ⟨h1, h2⟩ := ih { cn with writer := { cn.writer with out := cn.writer.out ++ encodeUtf8 l } }
      refine ⟨by simp [writeAll, Transport.write, accepted, h1], ?_⟩
      intro i hi hf
      cases i with
      | zero => simp at hf
      | succ i => simpa [writeAll, Transport.write] using h2 i (by simpa using hi) (by simpa using hf)

/-- Without faults: the stream holds the encoded lines in call order and every call succeeded. -/
theorem write_bytes_no_fault (cn : Conn) (lines : List Str) :
    writeAll { conn := some cn } (lines.map fun l => (l, .clean)) =
      (lines.map fun _ => none,
       { conn := some { cn with writer := { cn.writer with
           out := cn.writer.out ++ (lines.map encodeUtf8).flatten } } }) := by
  induction lines generalizing cn with
  | nil => simp [writeAll]
  | cons l ls ih => simp [writeAll, Transport.write, ih]

/-- A write that meets an I/O error (in `writer.write` or in `drain`) raises `TransportFailedError`;
no write ever raises anything but a transport error as long as the injected faults are `OSError`s. -/
theorem write_errors_are_transport_errors (t : Transport) (l : Str) (f : WriteFault)
    (hf : ∀ c, f.exn? = some c → IsOSError c) :
    (t.write l f).1 = none ∨ (t.write l f).1 = some (.lib .transportError) ∨
      (t.write l f).1 = some (.lib .transportFailed) := by
  unfold Transport.write
  cases t.conn with
  | none => simp
  | some cn =>
    cases f with
    | clean => simp
    | atWrite c => simp [write_fault_is_transport_error c (hf c rfl)]
    | atDrain c => simp [write_fault_is_transport_error c (hf c rfl)]

theorem write_fault_raises_failed (cn : Conn) (l : Str) (f : WriteFault) (c : PyExn)
    (hf : f.exn? = some c) (hc : IsOSError c) :
    (Transport.write { conn := some cn } l f).1 = some (.lib .transportFailed) := by
  cases f with
  | clean => simp [WriteFault.exn?] at hf
  | atWrite c' =>
    simp only [WriteFault.exn?, Option.some.injEq] at hf; subst hf
    simp [Transport.write, write_fault_is_transport_error c' hc]
  | atDrain c' =>
    simp only [WriteFault.exn?, Option.some.injEq] at hf; subst hf
    simp [Transport.write, write_fault_is_transport_error c' hc]

/-! ### Connection life cycle -/

/-- Using the transport before it was connected — never connected, or after a connection attempt
that failed — raises `TransportError` from both `read` and `write` and changes nothing. -/
theorem not_connected_raises_transport (decodeUtf8 : Bytes → Option Str) (t : Transport) (h : t.conn = none)
    (l : Str) (f : WriteFault) :
    Transport.read decodeUtf8 t = (.err (.lib .transportError), t) ∧
      t.write l f = (some (.lib .transportError), t) := by
  simp [Transport.read, Transport.write, h]

/-- A new transport is not connected, and a failed connection attempt leaves it as it was. -/
theorem not_connected_initially_and_after_failure (t : Transport) (L : Nat) (c : PyExn) :
    ({} : Transport).conn = none ∧ (t.connect L (some c)).2 = t := by
  simp [Transport.connect]

/-- A connection attempt that fails with an `OSError` raises `TransportError`. -/
theorem connect_failure_is_transport_error (t : Transport) (L : Nat) (c : PyExn) (hc : IsOSError c) :
    t.connect L (some c) = (some (.lib .transportError), t) := by
  simp [Transport.connect, connect_fault_is_transport_error c hc]

/-- A successful connection attempt yields the connected transport the reading theorems start from. -/
theorem connect_success (t : Transport) (L : Nat) : t.connect L none = (none, connected L) := rfl

/-- A call made on a transport that has no connection: `read`, `write` (whatever the stream would do), `disconnect`
(whatever closing would do), or a `connect` whose attempt fails with some exception. -/
inductive PreCall where
  | read
  | write (l : Str) (f : WriteFault)
  | disconnect (f : CloseFault)
  | connectFails (L : Nat) (c : PyExn)

/-- The transport after such a call. -/
def PreCall.after (decodeUtf8 : Bytes → Option Str) (t : Transport) : PreCall → Transport
  | .read => (Transport.read decodeUtf8 t).2
  | .write l f => (t.write l f).2
  | .disconnect f => (t.disconnect f).2
  | .connectFails L c => (t.connect L (some c)).2

/-- **C17, every state without a connection.** Starting from a transport that is not connected (a new one in
particular), after ANY sequence of reads, writes, disconnects and failed connection attempts, in any order, the
transport is what it was; there `read` and `write` raise `TransportError`, `disconnect` returns normally whatever
closing would do, and a further attempt that fails with an `OSError` raises `TransportError`. -/
theorem no_connection_is_stable (decodeUtf8 : Bytes → Option Str) (t : Transport) (h : t.conn = none)
    (calls : List PreCall) :
    calls.foldl (PreCall.after decodeUtf8) t = t ∧
    Transport.read decodeUtf8 (calls.foldl (PreCall.after decodeUtf8) t) = (.err (.lib .transportError), t) ∧
    (∀ l f, (calls.foldl (PreCall.after decodeUtf8) t).write l f = (some (.lib .transportError), t)) ∧
    (∀ f, (calls.foldl (PreCall.after decodeUtf8) t).disconnect f = (none, t)) ∧
    (∀ L c, IsOSError c →
      (calls.foldl (PreCall.after decodeUtf8) t).connect L (some c) = (some (.lib .transportError), t)) := by
  have hfix : calls.foldl (PreCall.after decodeUtf8) t = t := by
    induction calls with
    | nil => rfl
    | cons c cs ih =>
      have hc : PreCall.after decodeUtf8 t c = t := by
        cases c <;> simp [PreCall.after, Transport.read, Transport.write, Transport.disconnect, Transport.connect, h]
      simpa [List.foldl, hc] using ih
  rw [hfix]
  refine ⟨rfl, ?_, ?_, ?_, ?_⟩
  · simp [Transport.read, h]
  · intro l f; simp [Transport.write, h]
  · intro f; simp [Transport.disconnect, h]
  · intro L c hc; exact connect_failure_is_transport_error t L c hc

/-- `disconnect` absorbs OS-level errors, from `close()` as well as from `wait_closed()`, connected
or not. -/
theorem disconnect_absorbs_oserror (t : Transport) (f : CloseFault) (hf : ∀ c, f.exn? = some c → IsOSError c) :
    (t.disconnect f).1 = none := by
  unfold Transport.disconnect
  cases t.conn with
  | none => rfl
  | some cn =>
    cases f with
    | clean => rfl
    | atClose c => simp [absorb_oserror c (hf c rfl)]
    | atWaitClosed c => simp [absorb_oserror c (hf c rfl)]

/-- `disconnect` never takes bytes off the stream: whatever the writes put there is still there afterwards,
whether `close()` / `wait_closed()` raised or not (what the peer of the connection is to receive before the end
of the stream). -/
theorem disconnect_keeps_written_bytes (cn : Conn) (f : CloseFault) :
    ((Transport.disconnect { conn := some cn } f).2.conn.map fun c => c.writer.out) = some cn.writer.out := by
  cases f <;> simp [Transport.disconnect]

/-- **C17, a whole session.** `connect`, any number of `write`s, `disconnect`, without faults: every call returns
normally, and the connection's stream holds exactly the UTF-8 bytes of the lines, in call order, and is closed —
i.e. the peer receives every line written before the disconnect and then the end of the stream. -/
theorem session_delivers_lines_then_closes (t : Transport) (L : Nat) (lines : List Str) :
    (t.connect L none).1 = none ∧
    (writeAll (t.connect L none).2 (lines.map fun l => (l, .clean))).1 = lines.map (fun _ => none) ∧
    ((writeAll (t.connect L none).2 (lines.map fun l => (l, .clean))).2.disconnect .clean).1 = none ∧
    (((writeAll (t.connect L none).2 (lines.map fun l => (l, .clean))).2.disconnect .clean).2.conn.map fun c => c.writer) =
      some { out := (lines.map encodeUtf8).flatten, closed := true } := by
  have h := write_bytes_no_fault { reader := { limit := L } } lines
  simp only [connect_success, connected]
  rw [h]
  simp [Transport.disconnect]

/-! ### Non-vacuity -/

/-- A stand-in decoder for the examples: ASCII only. -/
def asciiDecode (b : Bytes) : Option Str :=
  if b.all (· < 128) then some (b.map fun x => Char.ofNat x.toNat) else none

/-- `"ab\ncd\n"` arriving as `a | b\nc | d\n` with reads before, between and after the chunks. -/
example :
    Transport.run asciiDecode (connected 4) 0
      [.read, .feed [97], .feed [98, 10, 99], .read, .feed [100, 10], .eof, .read] =
    [.ok ['a', 'b', '\n'], .ok ['c', 'd', '\n'], .err (.lib .transportRead)] := by decide

/-- The hypotheses of `reads_eq_lines` hold for that schedule. -/
example : WF false [.read, .feed [97], .feed [98, 10, 99], .read, .feed [100, 10], .eof, .read] ∧
    (feedsOf [.read, .feed [97], .feed [98, 10, 99], .read, .feed [100, 10], .eof, .read]).flatten =
      joinLines [[97, 98], [99, 100]] ++ [] ∧
    Ev.eof ∈ [Ev.read, .feed [97], .feed [98, 10, 99], .read, .feed [100, 10], .eof, .read] := by
  simp [WF, feedsOf, joinLines, nl]

/-- The F13 witness `ff fe 0a`, then an over-long line: undecodable → transport read error, the next
line is still delivered, the over-long line and everything after it are transport read errors. -/
example :
    spec 4 asciiDecode [[0xff, 0xfe], [120], [97, 98, 99, 100, 101], [121]] 5 =
    [.err (.lib .transportRead), .ok ['x', '\n'], .err (.lib .transportRead), .err (.lib .transportRead),
     .err (.lib .transportRead)] := by decide

example : Transport.run asciiDecode (connected 4) 0
      [.feed [0xff], .read, .feed [0xfe, 10, 120], .feed [10, 97, 98, 99, 100], .read, .read, .feed [101],
       .read, .feed [10, 121, 10], .eof, .read] =
    [.err (.lib .transportRead), .ok ['x', '\n'], .err (.lib .transportRead), .err (.lib .transportRead),
     .err (.lib .transportRead)] := by decide

/-- A stream ending mid-line. -/
example : Transport.run asciiDecode (connected 4) 0 [.feed [97, 10, 98], .read, .read, .eof, .read] =
    [.ok ['a', '\n'], .err (.lib .transportRead), .err (.lib .transportRead)] := by decide

/-- The hypothesis of `read_lib_only` holds for a fresh connection and for one that lost its
connection with an `OSError`; the F13 witness read from such a transport is a library error. -/
example : ∀ cn c, (connected 4).conn = some cn → cn.reader.exc = some c → IsOSError c := by
  intro cn c h
  simp only [connected, Option.some.injEq] at h
  subst h
  simp

example : ∀ cn c, (Transport.mk (some { reader := { limit := 4, exc := some .FileNotFoundError } })).conn = some cn →
    cn.reader.exc = some c → IsOSError c := by
  intro cn c h
  simp only [Option.some.injEq] at h
  subst h
  intro h2
  simp only [Option.some.injEq] at h2
  subst h2
  decide

example : (Transport.read asciiDecode (fed 64 [0xff, 0xfe, 10] {})).1 = .err (.lib .transportRead) := by decide

/-- `OSError` and `FileNotFoundError` are the `IsOSError` classes of the vocabulary. -/
example : IsOSError .OSError ∧ IsOSError .FileNotFoundError ∧ ¬ IsOSError .ValueError := by decide

example : (writeAll (connected 8) [(['a'], .clean), (['b'], .atWrite .OSError), (['c'], .atDrain .OSError),
    (['d'], .clean)]).1 = [none, some (.lib .transportFailed), some (.lib .transportFailed), none] := by decide

/-- A session of two lines: both reach the stream, in order, and the stream is closed. -/
example : (((writeAll ((({} : Transport).connect 8 none).2) [(['a', '\n'], .clean), (['b', '\n'], .clean)]).2.disconnect
    .clean).2.conn.map fun c => c.writer) =
      some { out := encodeUtf8 ['a', '\n'] ++ encodeUtf8 ['b', '\n'], closed := true } := by
  simp [writeAll, Transport.write, Transport.disconnect, Transport.connect]

end AioMySensors.C17
