/-
C11 — Node ids handed out are fresh, in range, and never handed out twice.

`hIdRequest` models `handle_i_id_request` (reached for internal type I_ID_REQUEST in every version —
`internal_id_request`); `nextId` is `max(gateway.nodes) + 1 if gateway.nodes else 1`, the bound is the
generated `MAX_NODE_ID`.
-/
import AioMySensors.Lemmas.Exact
import AioMySensors.Model.Persist

namespace AioMySensors.C11
open AioMySensors M

theorem le_foldl_max (l : List Int) (a : Int) : a ≤ l.foldl max a ∧ ∀ k ∈ l, k ≤ l.foldl max a := by
  induction l generalizing a with
  | nil => simp
  | cons x xs ih =>
    obtain ⟨h1, h2⟩ := ih (max a x)
    simp only [List.foldl_cons, List.mem_cons]
    refine ⟨by omega, ?_⟩
    rintro k (rfl | hk)
    · omega
    · exact h2 k hk

/-- The next id is above every registered id … -/
theorem nextId_gt_keys (nodes : PDict Int Node) : ∀ k ∈ nodes.keys, k < nextId nodes := by
  intro k hk
  unfold nextId
  cases hks : nodes.keys with
  | nil => simp [hks] at hk
  | cons a l =>
    rw [hks] at hk
    obtain ⟨h1, h2⟩ := le_foldl_max l a
    simp only [List.mem_cons] at hk
    rcases hk with rfl | hk
    · simp; omega
    · have := h2 k hk; simp; omega

/-- … hence **fresh**: not registered. -/
theorem nextId_fresh (nodes : PDict Int Node) : nodes.has (nextId nodes) = false := by
  cases h : nodes.has (nextId nodes) with
  | false => rfl
  | true =>
    have := nextId_gt_keys nodes _ ((PDict.has_iff_mem_keys _ _).mp h)
    omega

/-- With ids that are not negative (they are 0-255 from the wire and from persistence), the next id is at least 1. -/
theorem nextId_pos (nodes : PDict Int Node) (h : ∀ k ∈ nodes.keys, 0 ≤ k) : 1 ≤ nextId nodes := by
  unfold nextId
  cases hks : nodes.keys with
  | nil => simp
  | cons a l =>
    have := (le_foldl_max l a).1
    have := h a (by simp [hks])
    simp; omega

theorem max_node_id : Gen.maxNodeId = 254 := by decide

/-- The id response: addressed like the request, type I_ID_RESPONSE, the id as payload. -/
def idResponse (m : Msg) (id : Int) : Msg := ⟨m.node, m.child, m.cmd, 0, Gen.iIdResponse, dec id⟩

/-- **An id is handed out**: it is registered (placeholder node) and the answer is written. -/
theorem id_handed_out (m : Msg) (w : W) (hcmd : m.cmd = 3) (hle : nextId w.st.nodes ≤ Gen.maxNodeId)
    (hf : w.faults = []) :
    hIdRequest m w = (.ok m, { w with
      st := { w.st with nodes := w.st.nodes.set (nextId w.st.nodes) placeholderNode },
      writes := w.writes ++ [⟨encode (idResponse m (nextId w.st.nodes)), true⟩] }) := by
  have hng : ¬ nextId w.st.nodes > Gen.maxNodeId := by omega
  have hs := gwSend_direct (idResponse m (nextId w.st.nodes)) Gen.bufIdResponse (Or.inr (Or.inr (Or.inl hcmd)))
  simp only [idResponse] at hs
  simp only [hIdRequest, M.bind, M.getSt, hng, if_false, M.seq, allocNode, M.modifySt, hs]
  rw [transportWrite_ok _ _ (by simpa using hf)]
  simp [M.pure, idResponse]

/-- **Registered before the answer is written**: when the write of the answer does not complete —
it fails, or the listening task is cancelled while it waits there (`f.exn = some x`) — the id is
nevertheless taken, so it is not handed out again. -/
theorem registered_before_written (m : Msg) (w : W) (f : Fault) (x : Exn) (rest : List Fault) (hcmd : m.cmd = 3)
    (hle : nextId w.st.nodes ≤ Gen.maxNodeId) (hf : w.faults = f :: rest) (hx : f.exn = some x) :
    (hIdRequest m w).1 = .error x ∧
    (hIdRequest m w).2.st.nodes.has (nextId w.st.nodes) = true := by
  have hng : ¬ nextId w.st.nodes > Gen.maxNodeId := by omega
  have hs := gwSend_direct (idResponse m (nextId w.st.nodes)) Gen.bufIdResponse (Or.inr (Or.inr (Or.inl hcmd)))
  simp only [idResponse] at hs
  simp only [hIdRequest, M.bind, M.getSt, hng, if_false, M.seq, allocNode, M.modifySt, hs]
  rw [transportWrite_abort _ _ f x rest (by simpa using hf) hx]
  simp [PDict.has_set_self]

/-- **No id left**: the too-many-nodes error, nothing written, registry unchanged. -/
theorem too_many (m : Msg) (w : W) (h : nextId w.st.nodes > Gen.maxNodeId) :
    hIdRequest m w = (.error (.lib .tooManyNodes), w) := by
  simp [hIdRequest, M.bind, M.getSt, h, M.raise]

/-- That error is never raised while an id above the highest registered id is still free: it
requires a registered id of 254 or more. -/
theorem too_many_only_when_full (nodes : PDict Int Node) (h : nextId nodes > Gen.maxNodeId) :
    ∃ k ∈ nodes.keys, 254 ≤ k ∧ ∀ k' ∈ nodes.keys, k' ≤ k := by
  rw [max_node_id] at h
  unfold nextId at h
  cases hks : nodes.keys with
  | nil => simp [hks] at h
  | cons a l =>
    simp only [hks] at h
    have hmem : l.foldl max a ∈ a :: l := by
      clear h hks
      induction l generalizing a with
      | nil => simp
      | cons x xs ih =>
        have := ih (max a x)
        simp only [List.foldl_cons, List.mem_cons] at this ⊢
        rcases this with h | h
        · rcases Int.le_total a x with hax | hax
          · right; left; rw [h]; omega
          · left; rw [h]; omega
        · right; right; exact h
    refine ⟨l.foldl max a, hmem, by omega, ?_⟩
    intro k' hk'
    obtain ⟨h1, h2⟩ := le_foldl_max l a
    simp only [List.mem_cons] at hk'
    rcases hk' with rfl | hk'
    · exact h1
    · exact h2 k' hk'

/-- The id handed out is in range and fresh. -/
theorem id_in_range_and_fresh (nodes : PDict Int Node) (hk : ∀ k ∈ nodes.keys, 0 ≤ k)
    (hle : nextId nodes ≤ Gen.maxNodeId) :
    1 ≤ nextId nodes ∧ nextId nodes ≤ 254 ∧ nodes.has (nextId nodes) = false :=
  ⟨nextId_pos nodes hk, by rw [max_node_id] at hle; exact hle, nextId_fresh nodes⟩

/-- Every version handles the id request type with this handler (generated chains). -/
theorem id_request_dispatch (env : Env) (v : Ver) (m : Msg) (hcmd : m.cmd = 3) (ht : m.type = 3) :
    dispatch env v m = wrapMissingPV hIdRequest m := by
  rw [dispatch_internal env v m hcmd]
  have : hInternal env v = fun m' => hInternal env v m' := rfl
  simp only [wrapMissingPV, internal_id_request env v m ht]

/-! ### Ids are never handed out twice: registered ids stay registered -/

def KeysGrow : W → W → Prop := OnSt fun s s' => ∀ k, s.nodes.has k = true → s'.nodes.has k = true

theorem keysGrow_preO : PreO KeysGrow := OnSt.preO (fun _ _ h => h) (fun h1 h2 k h => h2 k (h1 k h))

theorem nodes_same {f : St → St} (h : ∀ s, (f s).nodes = s.nodes) : Rel KeysGrow (modifySt f) :=
  Rel.modifySt f fun s k hk => by simpa [h s] using hk

theorem has_set_mono (d : PDict Int Node) (k k' : Int) (n : Node) (h : d.has k' = true) : (d.set k n).has k' = true := by
  by_cases e : k' = k
  · subst e; exact PDict.has_set_self d _ n
  · rw [PDict.has_set_ne d n e]; exact h

theorem keysGrow_stepRel (m : Msg) : StepRel KeysGrow m where
  pre := keysGrow_preO
  write := fun _ _ => Rel.transportWrite (fun _ _ h => h) _
  setNode := fun n => Rel.modifySt _ fun s k hk => has_set_mono _ _ _ _ hk
  alloc := Rel.modifySt _ fun s k hk => has_set_mono _ _ _ _ hk
  erase := fun _ _ _ => nodes_same fun s => by split <;> rfl
  mark := nodes_same fun _ => rfl
  unmark := nodes_same fun s => by split <;> rfl
  version := fun _ _ => nodes_same fun _ => rfl

/-- **No operation removes a node**, whatever the line, the outcome and the faults. -/
theorem keys_monotone_recv (env : Env) (line : Str) (w : W) (k : Int) (h : w.st.nodes.has k = true) :
    (recv env line w).2.st.nodes.has k = true :=
  (rel_recv keysGrow_preO (fun _ m _ => keysGrow_stepRel m) (ParkOK.of_all fun _ => nodes_same fun _ => rfl) env).step w k h

theorem keys_monotone_send (obj : Option Msg) (b : Bool) (w : W) (k : Int) (h : w.st.nodes.has k = true) :
    (apiSend obj b w).2.st.nodes.has k = true :=
  (rel_apiSend keysGrow_preO (fun _ => Rel.transportWrite (fun _ _ h => h) _) (fun _ _ => nodes_same fun _ => rfl) obj b).step w k h

theorem keys_monotone_history (ops : List Op) (st : St) (k : Int) (h : st.nodes.has k = true) :
    (stateAfter st ops).nodes.has k = true := by
  induction ops generalizing st with
  | nil => simpa [stateAfter, run] using h
  | cons op ops ih =>
    have hstep : (stepOp st op).1.nodes.has k = true := by
      cases op with
      | recv env line faults =>
        have := keys_monotone_recv env line { st := st, faults := faults } k h
        simp only [stepOp]; split <;> simp_all
      | send obj b faults =>
        have := keys_monotone_send obj b { st := st, faults := faults } k h
        simp only [stepOp]; split <;> simp_all
    simpa [stateAfter, run] using ih _ hstep

/-- **Never twice.** An id handed out in some state is still registered after any further history,
so the id handed out then is a different one. -/
theorem never_handed_out_twice (st : St) (ops : List Op) :
    let id := nextId st.nodes
    let st1 : St := { st with nodes := st.nodes.set id placeholderNode }
    nextId (stateAfter st1 ops).nodes ≠ id := by
  intro id st1 e
  have h1 : st1.nodes.has id = true := PDict.has_set_self _ _ _
  have h2 := keys_monotone_history ops st1 id h1
  have h3 := nextId_fresh (stateAfter st1 ops).nodes
  rw [e] at h3
  rw [h3] at h2
  exact absurd h2 (by simp)

/-! ### Across sessions: entering the context again (or any `Persistence.load`) never forgets a registered id

`Gateway.__aenter__` calls `Persistence.load` on every entry; `load` (`Persist.loadFile`: `Lemmas/PersistBodiesEq.load_eq`
ties it to the code) updates the registry node by node — it only ever ADDS or REPLACES entries.  A *life* of a gateway
object is a history of receives and sends interleaved with loads of arbitrary files; the id handed out after any life is
still different from every id registered before it. -/

theorem loadNodes_keeps (k : Int) : ∀ (kvs : List (Str × Json)) (acc r : PDict Int Node),
    Persist.loadNodes acc kvs = .ok r → acc.has k = true → r.has k = true := by
  intro kvs
  induction kvs with
  | nil => intro acc r h hk; simp only [Persist.loadNodes, Except.ok.injEq] at h; subst h; exact hk
  | cons x xs ih =>
    intro acc r h hk
    obtain ⟨key, v⟩ := x
    simp only [Persist.loadNodes] at h
    split at h
    · next id n _ => exact ih _ _ h (has_set_mono acc id k n hk)
    · simp at h

/-- **A successful load keeps every registered id** (whatever the file holds). -/
theorem load_keeps_registered_ids (cur : PDict Int Node) (fs : Persist.FileState) (res : Persist.Loaded) (k : Int)
    (h : Persist.loadFile cur fs = .ok res) (hk : cur.has k = true) : res.nodes.has k = true := by
  simp only [Persist.loadFile] at h
  split at h
  · next j _ =>
    simp only [Persist.loadInto, Persist.mapRead] at h
    split at h
    · next r hr =>
      split at hr
      · next r' hr' =>
        simp only [Except.ok.injEq] at hr h
        subst hr; subst h
        cases j <;> simp only [Persist.loadRaw] at hr' <;> first
          | exact loadNodes_keeps k _ _ _ hr' hk
          | simp at hr'
      · split at hr <;> simp at hr
    · simp at h
  · split at h
    · simp only [Except.ok.injEq] at h; subst h; exact hk
    · split at h <;> simp at h

/-- The registry a `load` leaves behind: the loop `for node_data in data.values(): … self.nodes[id] = node` has
already stored every entry BEFORE the one that fails, and the `except` clause does not undo that. -/
def loadNodesPartial (acc : PDict Int Node) : List (Str × Json) → PDict Int Node
  | [] => acc
  | (_, v) :: rest =>
    match Schema.loadNode v with
    | .ok (id, n) => loadNodesPartial (acc.set id n) rest
    | .error _ => acc

/-- The registry after `Persistence.load`, whether it returned or raised. -/
def registryAfterLoad (cur : PDict Int Node) (fs : Persist.FileState) : PDict Int Node :=
  match Persist.readFile fs with
  | .ok (.obj kvs) => loadNodesPartial cur kvs
  | _ => cur

theorem loadNodesPartial_ok : ∀ (kvs : List (Str × Json)) (acc r : PDict Int Node),
    Persist.loadNodes acc kvs = .ok r → loadNodesPartial acc kvs = r := by
  intro kvs
  induction kvs with
  | nil => intro acc r h; simpa [Persist.loadNodes, loadNodesPartial] using h
  | cons x xs ih =>
    intro acc r h
    obtain ⟨key, v⟩ := x
    simp only [Persist.loadNodes] at h
    simp only [loadNodesPartial]
    split at h
    · next id n hv => rw [hv]; exact ih _ _ h
    · simp at h

theorem loadNodesPartial_keeps (k : Int) : ∀ (kvs : List (Str × Json)) (acc : PDict Int Node),
    acc.has k = true → (loadNodesPartial acc kvs).has k = true := by
  intro kvs
  induction kvs with
  | nil => intro acc hk; exact hk
  | cons x xs ih =>
    intro acc hk
    obtain ⟨key, v⟩ := x
    simp only [loadNodesPartial]
    split
    · next id n _ => exact ih _ (has_set_mono acc id k n hk)
    · exact hk

/-- When `load` returns normally, `registryAfterLoad` is the registry it returns. -/
theorem registryAfterLoad_ok (cur : PDict Int Node) (fs : Persist.FileState) (res : Persist.Loaded)
    (h : Persist.loadFile cur fs = .ok res) : registryAfterLoad cur fs = res.nodes := by
  simp only [Persist.loadFile] at h
  simp only [registryAfterLoad]
  split at h
  · next j hj =>
    rw [hj]
    simp only [Persist.loadInto, Persist.mapRead] at h
    split at h
    · next r hr =>
      simp only [Except.ok.injEq] at h; subst h
      split at hr
      · next r' hr' =>
        simp only [Except.ok.injEq] at hr; subst hr
        cases j <;> simp only [Persist.loadRaw] at hr' <;> first
          | exact loadNodesPartial_ok _ _ _ hr'
          | simp at hr'
      · split at hr <;> simp at hr
    · simp at h
  · next c hc =>
    rw [hc]
    split at h
    · simp only [Except.ok.injEq] at h; subst h; rfl
    · split at h <;> simp at h

/-- **Any load — returning or raising — keeps every registered id.** -/
theorem registryAfterLoad_keeps (cur : PDict Int Node) (fs : Persist.FileState) (k : Int) (hk : cur.has k = true) :
    (registryAfterLoad cur fs).has k = true := by
  simp only [registryAfterLoad]
  split
  · exact loadNodesPartial_keeps k _ _ hk
  · exact hk

/-- One event in the life of a gateway object: traffic, or a load of whatever is at the path (on entering the context
again, or called by the application).  A load that raises half-way has still stored the entries before the failing one
(`registryAfterLoad`); a load that returns leaves what `Persist.loadFile` returns (`registryAfterLoad_ok`). -/
inductive LifeOp where
  | gw (op : Op)
  | load (fs : Persist.FileState)

def lifeStep (st : St) : LifeOp → St
  | .gw op => (stepOp st op).1
  | .load fs => { st with nodes := registryAfterLoad st.nodes fs }

def lifeAfter (st : St) (ops : List LifeOp) : St := ops.foldl lifeStep st

theorem keys_monotone_life (ops : List LifeOp) (st : St) (k : Int) (h : st.nodes.has k = true) :
    (lifeAfter st ops).nodes.has k = true := by
  induction ops generalizing st with
  | nil => exact h
  | cons op ops ih =>
    refine ih _ ?_
    cases op with
    | gw o =>
      have := keys_monotone_history [o] st k h
      simpa [lifeStep, stateAfter, run] using this
    | load fs => exact registryAfterLoad_keeps st.nodes fs k h

/-- **Never twice, over the whole life of the object** — sessions, reloads of any file (also one that lacks the id,
was replaced, or is damaged) and traffic in any order. -/
theorem never_handed_out_twice_life (st : St) (ops : List LifeOp) :
    let id := nextId st.nodes
    let st1 : St := { st with nodes := st.nodes.set id placeholderNode }
    nextId (lifeAfter st1 ops).nodes ≠ id := by
  intro id st1 e
  have h1 : st1.nodes.has id = true := PDict.has_set_self _ _ _
  have h2 := keys_monotone_life ops st1 id h1
  have h3 := nextId_fresh (lifeAfter st1 ops).nodes
  rw [e] at h3
  rw [h3] at h2
  exact absurd h2 (by simp)

/-! Non-vacuity -/
example : nextId ([(1, placeholderNode), (7, placeholderNode), (3, placeholderNode)] : PDict Int Node) = 8 := by decide
example : nextId ([] : PDict Int Node) = 1 := by decide

end AioMySensors.C11
