/-
C11 — Node ids handed out are fresh, in range, and never handed out twice.

`hIdRequest` models `handle_i_id_request` (reached for internal type I_ID_REQUEST in every version —
`internal_id_request`); `nextId` is `max(gateway.nodes) + 1 if gateway.nodes else 1`, the bound is the
generated `MAX_NODE_ID`.
-/
import AioMySensors.Lemmas.Exact
import AioMySensors.Model.Persist
import AioMySensors.Lemmas.PersistReach

namespace AioMySensors.C11
open AioMySensors M

theorem le_foldl_max (l : List Int) (a : Int) : a ≤ l.foldl max a ∧ ∀ k ∈ l, k ≤ l.foldl max a := by
  induction l generalizing a with
  | nil => simp
  | cons x xs ih =>
    obtain ⟨h1, h2⟩ := ih (max a x)
    simp only [List.foldl_cons, List.mem_cons]
    refine ⟨by omega, ?_⟩
    rintro k (rfl | hk)
    · omega
    · exact h2 k hk

/-- The next id is above every registered id … -/
theorem nextId_gt_keys (nodes : PDict Int Node) : ∀ k ∈ nodes.keys, k < nextId nodes := by
  intro k hk
  unfold nextId
  cases hks : nodes.keys with
  | nil => simp [hks] at hk
  | cons a l =>
    rw [hks] at hk
    obtain ⟨h1, h2⟩ := le_foldl_max l a
    simp only [List.mem_cons] at hk
    rcases hk with rfl | hk
    · simp; omega
    · have := h2 k hk; simp; omega

/-- … hence **fresh**: not registered. -/
theorem nextId_fresh (nodes : PDict Int Node) : nodes.has (nextId nodes) = false := by
  cases h : nodes.has (nextId nodes) with
  | false => rfl
  | true =>
    have := nextId_gt_keys nodes _ ((PDict.has_iff_mem_keys _ _).mp h)
    omega

/-- With ids that are not negative (they are 0-255 from the wire and from persistence), the next id is at least 1. -/
theorem nextId_pos (nodes : PDict Int Node) (h : ∀ k ∈ nodes.keys, 0 ≤ k) : 1 ≤ nextId nodes := by
  unfold nextId
  cases hks : nodes.keys with
  | nil => simp
  | cons a l =>
    have := (le_foldl_max l a).1
    have := h a (by simp [hks])
    simp; omega

theorem max_node_id : Gen.maxNodeId = 254 := by decide

/-- The id response: addressed like the request, type I_ID_RESPONSE, the id as payload. -/
def idResponse (m : Msg) (id : Int) : Msg := ⟨m.node, m.child, m.cmd, 0, Gen.iIdResponse, dec id⟩

/-- **An id is handed out**: it is registered (placeholder node) and the answer is written. -/
theorem id_handed_out (m : Msg) (w : W) (hcmd : m.cmd = 3) (hle : nextId w.st.nodes ≤ Gen.maxNodeId)
    (hf : w.faults = []) :
    hIdRequest m w = (.ok m, { w with
      st := { w.st with nodes := w.st.nodes.set (nextId w.st.nodes) placeholderNode },
      writes := w.writes ++ [⟨encode (idResponse m (nextId w.st.nodes)), true⟩] }) := by
  have hng : ¬ nextId w.st.nodes > Gen.maxNodeId := by omega
  have hs := gwSend_direct (idResponse m (nextId w.st.nodes)) Gen.bufIdResponse (Or.inr (Or.inr (Or.inl hcmd)))
  simp only [idResponse] at hs
  simp only [hIdRequest, M.bind, M.getSt, hng, if_false, M.seq, allocNode, M.modifySt, hs]
  rw [transportWrite_ok _ _ (by simpa using hf)]
  simp [M.pure, idResponse]

/-- **Registered before the answer is written**: when the write of the answer does not complete —
it fails, or the listening task is cancelled while it waits there (`f.exn = some x`) — the id is
nevertheless taken, so it is not handed out again. -/
theorem registered_before_written (m : Msg) (w : W) (f : Fault) (x : Exn) (rest : List Fault) (hcmd : m.cmd = 3)
    (hle : nextId w.st.nodes ≤ Gen.maxNodeId) (hf : w.faults = f :: rest) (hx : f.exn = some x) :
    (hIdRequest m w).1 = .error x ∧
    (hIdRequest m w).2.st.nodes.has (nextId w.st.nodes) = true := by
  have hng : ¬ nextId w.st.nodes > Gen.maxNodeId := by omega
  have hs := gwSend_direct (idResponse m (nextId w.st.nodes)) Gen.bufIdResponse (Or.inr (Or.inr (Or.inl hcmd)))
  simp only [idResponse] at hs
  simp only [hIdRequest, M.bind, M.getSt, hng, if_false, M.seq, allocNode, M.modifySt, hs]
  rw [transportWrite_abort _ _ f x rest (by simpa using hf) hx]
  simp [PDict.has_set_self]

/-- **No id left**: the too-many-nodes error, nothing written, registry unchanged. -/
theorem too_many (m : Msg) (w : W) (h : nextId w.st.nodes > Gen.maxNodeId) :
    hIdRequest m w = (.error (.lib .tooManyNodes), w) := by
  simp [hIdRequest, M.bind, M.getSt, h, M.raise]

/-- That error is never raised while an id above the highest registered id is still free: it
requires a registered id of 254 or more. -/
theorem too_many_only_when_full (nodes : PDict Int Node) (h : nextId nodes > Gen.maxNodeId) :
    ∃ k ∈ nodes.keys, 254 ≤ k ∧ ∀ k' ∈ nodes.keys, k' ≤ k := by
  rw [max_node_id] at h
  unfold nextId at h
  cases hks : nodes.keys with
  | nil => simp [hks] at h
  | cons a l =>
    simp only [hks] at h
    have hmem : l.foldl max a ∈ a :: l := by
      clear h hks
      induction l generalizing a with
      | nil => simp
      | cons x xs ih =>
        have := ih (max a x)
        simp only [List.foldl_cons, List.mem_cons] at this ⊢
        rcases this with h | h
        · rcases Int.le_total a x with hax | hax
          · right; left; rw [h]; omega
          · left; rw [h]; omega
        · right; right; exact h
    refine ⟨l.foldl max a, hmem, by omega, ?_⟩
    intro k' hk'
    obtain ⟨h1, h2⟩ := le_foldl_max l a
    simp only [List.mem_cons] at hk'
    rcases hk' with rfl | hk'
    · exact h1
    · exact h2 k' hk'

/-- The id handed out is in range and fresh. -/
theorem id_in_range_and_fresh (nodes : PDict Int Node) (hk : ∀ k ∈ nodes.keys, 0 ≤ k)
    (hle : nextId nodes ≤ Gen.maxNodeId) :
    1 ≤ nextId nodes ∧ nextId nodes ≤ 254 ∧ nodes.has (nextId nodes) = false :=
  ⟨nextId_pos nodes hk, by rw [max_node_id] at hle; exact hle, nextId_fresh nodes⟩

/-- Every version handles the id request type with this handler (generated chains). -/
theorem id_request_dispatch (env : Env) (v : Ver) (m : Msg) (hcmd : m.cmd = 3) (ht : m.type = 3) :
    dispatch env v m = wrapMissingPV hIdRequest m := by
  rw [dispatch_internal env v m hcmd]
  have : hInternal env v = fun m' => hInternal env v m' := rfl
  simp only [wrapMissingPV, internal_id_request env v m ht]

/-! ### Ids are never handed out twice: registered ids stay registered -/

def KeysGrow : W → W → Prop := OnSt fun s s' => ∀ k, s.nodes.has k = true → s'.nodes.has k = true

theorem keysGrow_preO : PreO KeysGrow := OnSt.preO (fun _ _ h => h) (fun h1 h2 k h => h2 k (h1 k h))

theorem nodes_same {f : St → St} (h : ∀ s, (f s).nodes = s.nodes) : Rel KeysGrow (modifySt f) :=
  Rel.modifySt f fun s k hk => by simpa [h s] using hk

theorem has_set_mono (d : PDict Int Node) (k k' : Int) (n : Node) (h : d.has k' = true) : (d.set k n).has k' = true := by
  by_cases e : k' = k
  · subst e; exact PDict.has_set_self d _ n
  · rw [PDict.has_set_ne d n e]; exact h

theorem keysGrow_stepRel (m : Msg) : StepRel KeysGrow m where
  pre := keysGrow_preO
  write := fun _ _ => Rel.transportWrite (fun _ _ h => h) _
  setNode := fun n => Rel.modifySt _ fun s k hk => has_set_mono _ _ _ _ hk
  alloc := Rel.modifySt _ fun s k hk => has_set_mono _ _ _ _ hk
  erase := fun _ _ _ => nodes_same fun s => by split <;> rfl
  mark := nodes_same fun _ => rfl
  unmark := nodes_same fun s => by split <;> rfl
  version := fun _ _ => nodes_same fun _ => rfl

/-- **No operation removes a node**, whatever the line, the outcome and the faults. -/
theorem keys_monotone_recv (env : Env) (line : Str) (w : W) (k : Int) (h : w.st.nodes.has k = true) :
    (recv env line w).2.st.nodes.has k = true :=
  (rel_recv keysGrow_preO (fun _ m _ => keysGrow_stepRel m) (ParkOK.of_all fun _ => nodes_same fun _ => rfl) env).step w k h

theorem keys_monotone_send (obj : Option Msg) (b : Bool) (w : W) (k : Int) (h : w.st.nodes.has k = true) :
    (apiSend obj b w).2.st.nodes.has k = true :=
  (rel_apiSend keysGrow_preO (fun _ => Rel.transportWrite (fun _ _ h => h) _) (fun _ _ => nodes_same fun _ => rfl) obj b).step w k h

theorem keys_monotone_history (ops : List Op) (st : St) (k : Int) (h : st.nodes.has k = true) :
    (stateAfter st ops).nodes.has k = true := by
  induction ops generalizing st with
  | nil => simpa [stateAfter, run] using h
  | cons op ops ih =>
    have hstep : (stepOp st op).1.nodes.has k = true := by
      cases op with
      | recv env line faults =>
        have := keys_monotone_recv env line { st := st, faults := faults } k h
        simp only [stepOp]; split <;> simp_all
      | send obj b faults =>
        have := keys_monotone_send obj b { st := st, faults := faults } k h
        simp only [stepOp]; split <;> simp_all
    simpa [stateAfter, run] using ih _ hstep

/-- **Never twice.** An id handed out in some state is still registered after any further history,
so the id handed out then is a different one. -/
theorem never_handed_out_twice (st : St) (ops : List Op) :
    let id := nextId st.nodes
    let st1 : St := { st with nodes := st.nodes.set id placeholderNode }
    nextId (stateAfter st1 ops).nodes ≠ id := by
  intro id st1 e
  have h1 : st1.nodes.has id = true := PDict.has_set_self _ _ _
  have h2 := keys_monotone_history ops st1 id h1
  have h3 := nextId_fresh (stateAfter st1 ops).nodes
  rw [e] at h3
  rw [h3] at h2
  exact absurd h2 (by simp)

/-! ### Across sessions: entering the context again (or any `Persistence.load`) never forgets a registered id

`Gateway.__aenter__` calls `Persistence.load` on every entry; `load` (`Persist.loadFile`: `Lemmas/PersistBodiesEq.load_eq`
ties it to the code) updates the registry node by node — it only ever ADDS or REPLACES entries.  A *life* of a gateway
object is a history of receives and sends interleaved with loads of arbitrary files; the id handed out after any life is
still different from every id registered before it. -/

theorem loadNodes_keeps (k : Int) : ∀ (kvs : List (Str × Json)) (acc r : PDict Int Node),
    Persist.loadNodes acc kvs = .ok r → acc.has k = true → r.has k = true := by
  intro kvs
  induction kvs with
  | nil => intro acc r h hk; simp only [Persist.loadNodes, Except.ok.injEq] at h; subst h; exact hk
  | cons x xs ih =>
    intro acc r h hk
    obtain ⟨key, v⟩ := x
    simp only [Persist.loadNodes] at h
    split at h
    · next id n _ => exact ih _ _ h (has_set_mono acc id k n hk)
    · simp at h

/-- **A successful load keeps every registered id** (whatever the file holds). -/
theorem load_keeps_registered_ids (cur : PDict Int Node) (fs : Persist.FileState) (res : Persist.Loaded) (k : Int)
    (h : Persist.loadFile cur fs = .ok res) (hk : cur.has k = true) : res.nodes.has k = true := by
  simp only [Persist.loadFile] at h
  split at h
  · next j _ =>
    simp only [Persist.loadInto, Persist.mapRead] at h
    split at h
    · next r hr =>
      split at hr
      · next r' hr' =>
        simp only [Except.ok.injEq] at hr h
        subst hr; subst h
        cases j <;> simp only [Persist.loadRaw] at hr' <;> first
          | exact loadNodes_keeps k _ _ _ hr' hk
          | simp at hr'
      · split at hr <;> simp at hr
    · simp at h
  · split at h
    · simp only [Except.ok.injEq] at h; subst h; exact hk
    · split at h <;> simp at h

/-- The registry a `load` leaves behind: the loop `for node_data in data.values(): … self.nodes[id] = node` has
already stored every entry BEFORE the one that fails, and the `except` clause does not undo that. -/
def loadNodesPartial (acc : PDict Int Node) : List (Str × Json) → PDict Int Node
  | [] => acc
  | (_, v) :: rest =>
    match Schema.loadNode v with
    | .ok (id, n) => loadNodesPartial (acc.set id n) rest
    | .error _ => acc

/-- The registry after `Persistence.load`, whether it returned or raised. -/
def registryAfterLoad (cur : PDict Int Node) (fs : Persist.FileState) : PDict Int Node :=
  match Persist.readFile fs with
  | .ok (.obj kvs) => loadNodesPartial cur kvs
  | _ => cur

theorem loadNodesPartial_ok : ∀ (kvs : List (Str × Json)) (acc r : PDict Int Node),
    Persist.loadNodes acc kvs = .ok r → loadNodesPartial acc kvs = r := by
  intro kvs
  induction kvs with
  | nil => intro acc r h; simpa [Persist.loadNodes, loadNodesPartial] using h
  | cons x xs ih =>
    intro acc r h
    obtain ⟨key, v⟩ := x
    simp only [Persist.loadNodes] at h
    simp only [loadNodesPartial]
    split at h
    · next id n hv => rw [hv]; exact ih _ _ h
    · simp at h

theorem loadNodesPartial_keeps (k : Int) : ∀ (kvs : List (Str × Json)) (acc : PDict Int Node),
    acc.has k = true → (loadNodesPartial acc kvs).has k = true := by
  intro kvs
  induction kvs with
  | nil => intro acc hk; exact hk
  | cons x xs ih =>
    intro acc hk
    obtain ⟨key, v⟩ := x
    simp only [loadNodesPartial]
    split
    · next id n _ => exact ih _ (has_set_mono acc id k n hk)
    · exact hk

/-- When `load` returns normally, `registryAfterLoad` is the registry it returns. -/
theorem registryAfterLoad_ok (cur : PDict Int Node) (fs : Persist.FileState) (res : Persist.Loaded)
    (h : Persist.loadFile cur fs = .ok res) : registryAfterLoad cur fs = res.nodes := by
  simp only [Persist.loadFile] at h
  simp only [registryAfterLoad]
  split at h
  · next j hj =>
    rw [hj]
    simp only [Persist.loadInto, Persist.mapRead] at h
    split at h
    · next r hr =>
      simp only [Except.ok.injEq] at h; subst h
      split at hr
      · next r' hr' =>
        simp only [Except.ok.injEq] at hr; subst hr
        cases j <;> simp only [Persist.loadRaw] at hr' <;> first
          | exact loadNodesPartial_ok _ _ _ hr'
          | simp at hr'
      · split at hr <;> simp at hr
    · simp at h
  · next c hc =>
    rw [hc]
    split at h
    · simp only [Except.ok.injEq] at h; subst h; rfl
    · split at h <;> simp at h

/-- **Any load — returning or raising — keeps every registered id.** -/
theorem registryAfterLoad_keeps (cur : PDict Int Node) (fs : Persist.FileState) (k : Int) (hk : cur.has k = true) :
    (registryAfterLoad cur fs).has k = true := by
  simp only [registryAfterLoad]
  split
  · exact loadNodesPartial_keeps k _ _ hk
  · exact hk

/-- One event in the life of a gateway object: traffic, or a load of whatever is at the path (on entering the context
again, or called by the application).  A load that raises half-way has still stored the entries before the failing one
(`registryAfterLoad`); a load that returns leaves what `Persist.loadFile` returns (`registryAfterLoad_ok`). -/
inductive LifeOp where
  | gw (op : Op)
  | load (fs : Persist.FileState)

def lifeStep (st : St) : LifeOp → St
  | .gw op => (stepOp st op).1
  | .load fs => { st with nodes := registryAfterLoad st.nodes fs }

def lifeAfter (st : St) (ops : List LifeOp) : St := ops.foldl lifeStep st

theorem keys_monotone_life (ops : List LifeOp) (st : St) (k : Int) (h : st.nodes.has k = true) :
    (lifeAfter st ops).nodes.has k = true := by
  induction ops generalizing st with
  | nil => exact h
  | cons op ops ih =>
    refine ih _ ?_
    cases op with
    | gw o =>
      have := keys_monotone_history [o] st k h
      simpa [lifeStep, stateAfter, run] using this
    | load fs => exact registryAfterLoad_keeps st.nodes fs k h

/-- **Never twice, over the whole life of the object** — sessions, reloads of any file (also one that lacks the id,
was replaced, or is damaged) and traffic in any order. -/
theorem never_handed_out_twice_life (st : St) (ops : List LifeOp) :
    let id := nextId st.nodes
    let st1 : St := { st with nodes := st.nodes.set id placeholderNode }
    nextId (lifeAfter st1 ops).nodes ≠ id := by
  intro id st1 e
  have h1 : st1.nodes.has id = true := PDict.has_set_self _ _ _
  have h2 := keys_monotone_life ops st1 id h1
  have h3 := nextId_fresh (lifeAfter st1 ops).nodes
  rw [e] at h3
  rw [h3] at h2
  exact absurd h2 (by simp)

/-! ### Across restarts of the controller: what the final save wrote is what the next gateway object restores

However an `async with gateway:` statement ends — the body ends, an exception leaves it, the task is cancelled —
`Gateway.__aexit__` runs `Persistence.stop`, which saves the registry a final time (C16 is about that it does).  When the
controller is started again, a NEW gateway object (empty registry, nothing buffered, version unknown) loads that file on
entering.  A *controller life* is traffic interleaved with such restarts; over it no registered id is ever forgotten, so
an id handed out in one run is never handed out in a later one.  The registries involved are those `save` can write
back (`RegOK`, C13: every registry reachable from a `RegOK` one — the empty one, a loaded file — by traffic is). -/

theorem persisted_regOK (r : PDict Int Node) (h : RegOK r) : RegOK (Persist.persisted r) := by
  refine ⟨by rw [keys_persisted]; exact h.nodup, ?_⟩
  intro kn hkn
  simp only [Persist.persisted] at hkn
  obtain ⟨kn0, hkn0, rfl⟩ := List.mem_map.mp hkn
  have := h.nodes kn0 hkn0
  exact ⟨this.id_lo, this.id_hi, this.bat_lo, this.bat_hi, this.children_nodup, this.children⟩

/-- The state of the gateway object of the next run: a new object (`{}`) that has loaded the file the final save of
this one wrote.  (Were the load to fail the new object could not be entered; it then holds nothing.) -/
def restartSt (st : St) : St :=
  match Persist.loadFile [] (.value (Persist.save st.nodes)) with
  | .ok res => { nodes := res.nodes }
  | .error _ => {}

/-- The load of the next run succeeds and restores the registry (up to the `reboot` flags, which are not saved). -/
theorem restart_restores (st : St) (h : RegOK st.nodes) : (restartSt st).nodes = Persist.persisted st.nodes := by
  have := load_save_aux st.nodes h
  simp only [Persist.load] at this
  simp [restartSt, Persist.loadFile, Persist.readFile, this]

/-- **A restart forgets no registered id.** -/
theorem restart_keeps_registered_ids (st : St) (h : RegOK st.nodes) (k : Int) (hk : st.nodes.has k = true) :
    (restartSt st).nodes.has k = true := by
  rw [restart_restores st h, PDict.has_iff_mem_keys, keys_persisted, ← PDict.has_iff_mem_keys]
  exact hk

/-- One event in the life of a controller with a persistence file: traffic handled by the current gateway object, or
the end of its last session followed by a restart. -/
inductive RunOp where
  | gw (op : Op)
  | restart

def runStep (st : St) : RunOp → St
  | .gw op => (stepOp st op).1
  | .restart => restartSt st

def runsAfter (st : St) (ops : List RunOp) : St := ops.foldl runStep st

theorem keys_monotone_runs (ops : List RunOp) (st : St) (h : RegOK st.nodes) (k : Int) (hk : st.nodes.has k = true) :
    RegOK (runsAfter st ops).nodes ∧ (runsAfter st ops).nodes.has k = true := by
  induction ops generalizing st with
  | nil => exact ⟨h, hk⟩
  | cons op ops ih =>
    cases op with
    | gw o =>
      refine ih _ (stepOp_regOK st o h) ?_
      have := keys_monotone_history [o] st k hk
      simpa [runStep, stateAfter, run] using this
    | restart =>
      refine ih _ ?_ (restart_keeps_registered_ids st h k hk)
      show RegOK (restartSt st).nodes
      rw [restart_restores st h]
      exact persisted_regOK _ h

/-- **Never twice, over all runs of the controller**: an id handed out by one gateway object (`nextId ≤ MAX_NODE_ID`, so it
was handed out and registered) differs from the id handed out after any further traffic and any number of restarts on
the persistence file. -/
theorem never_handed_out_twice_restarts (st : St) (h : RegOK st.nodes) (hle : nextId st.nodes ≤ Gen.maxNodeId)
    (ops : List RunOp) :
    let id := nextId st.nodes
    let st1 : St := { st with nodes := st.nodes.set id placeholderNode }
    nextId (runsAfter st1 ops).nodes ≠ id := by
  intro id st1 e
  have hmax : Gen.maxNodeId ≤ Gen.nodeIdMax := by decide
  have hreg : RegOK st1.nodes :=
    regOK_set st.nodes _ _ h (nodeOK_fresh _ _ _ (nextId_ge_min _ h) (by omega))
  have h1 : st1.nodes.has id = true := PDict.has_set_self _ _ _
  have h2 := (keys_monotone_runs ops st1 hreg id h1).2
  have h3 := nextId_fresh (runsAfter st1 ops).nodes
  rw [e] at h3
  rw [h3] at h2
  exact absurd h2 (by simp)

/-- Non-vacuity: after a restart the next id is above the ids of the previous run. -/
example : nextId (runsAfter { nodes := [(1, placeholderNode), (7, placeholderNode)] } [.restart]).nodes = 8 := by
  have h : RegOK ([(1, placeholderNode), (7, placeholderNode)] : PDict Int Node) := by decide
  simp only [runsAfter, List.foldl, runStep]
  rw [restart_restores _ h]
  decide

/-! Non-vacuity -/
example : nextId ([(1, placeholderNode), (7, placeholderNode), (3, placeholderNode)] : PDict Int Node) = 8 := by decide
example : nextId ([] : PDict Int Node) = 1 := by decide

end AioMySensors.C11
