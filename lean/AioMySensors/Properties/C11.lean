/-
C11 — Node ids handed out are fresh, in range, and never handed out twice.

`hIdRequest` models `handle_i_id_request` (reached for internal type I_ID_REQUEST in every version —
`internal_id_request`); `nextId` is `max(gateway.nodes) + 1 if gateway.nodes else 1`, the bound is the
generated `MAX_NODE_ID`.
-/
import AioMySensors.Lemmas.Exact
import AioMySensors.Model.Persist
import AioMySensors.Lemmas.PersistReach

namespace AioMySensors.C11
open AioMySensors M

theorem le_foldl_max (l : List Int) (a : Int) : a ≤ l.foldl max a ∧ ∀ k ∈ l, k ≤ l.foldl max a := by
  induction l generalizing a with
  | nil => simp
  | cons x xs ih =>
    obtain ⟨h1, h2⟩ := ih (max a x)
    simp only [List.foldl_cons, List.mem_cons]
    refine ⟨by omega, ?_⟩
    rintro k (rfl | hk)
    · omega
    · exact h2 k hk

/-- The next id is above every registered id … -/
theorem nextId_gt_keys (nodes : PDict Int Node) : ∀ k ∈ nodes.keys, k < nextId nodes := by
  intro k hk
  unfold nextId
  cases hks : nodes.keys with
  | nil => simp [hks] at hk
  | cons a l =>
    rw [hks] at hk
    obtain ⟨h1, h2⟩ := le_foldl_max l a
    simp only [List.mem_cons] at hk
    rcases hk with rfl | hk
    · simp; omega
    · have := h2 k hk; simp; omega

/-- … hence **fresh**: not registered. -/
theorem nextId_fresh (nodes : PDict Int Node) : nodes.has (nextId nodes) = false := by
  cases h : nodes.has (nextId nodes) with
  | false => rfl
  | true =>
    have := nextId_gt_keys nodes _ ((PDict.has_iff_mem_keys _ _).mp h)
    omega

/-- With ids that are not negative (they are 0-255 from the wire and from persistence), the next id is at least 1. -/
theorem nextId_pos (nodes : PDict Int Node) (h : ∀ k ∈ nodes.keys, 0 ≤ k) : 1 ≤ nextId nodes := by
  unfold nextId
  cases hks : nodes.keys with
  | nil => simp
  | cons a l =>
    have := (le_foldl_max l a).1
    have := h a (by simp [hks])
    simp; omega

theorem max_node_id : Gen.maxNodeId = 254 := by decide

/-- The id response: addressed like the request, type I_ID_RESPONSE, the id as payload. -/
def idResponse (m : Msg) (id : Int) : Msg := ⟨m.node, m.child, m.cmd, 0, Gen.iIdResponse, dec id⟩

/-- **An id is handed out**: it is registered (placeholder node) and the answer is written. -/
theorem id_handed_out (m : Msg) (w : W) (hcmd : m.cmd = 3) (hle : nextId w.st.nodes ≤ Gen.maxNodeId)
    (hf : w.faults = []) :
    hIdRequest m w = (.ok m, { w with
      st := { w.st with nodes := w.st.nodes.set (nextId w.st.nodes) placeholderNode },
      writes := w.writes ++ [⟨encode (idResponse m (nextId w.st.nodes)), true⟩] }) := by
  have hng : ¬ nextId w.st.nodes > Gen.maxNodeId := by omega
  have hs := gwSend_direct (idResponse m (nextId w.st.nodes)) Gen.bufIdResponse (Or.inr (Or.inr (Or.inl hcmd)))
  simp only [idResponse] at hs
  simp only [hIdRequest, M.bind, M.getSt, hng, if_false, M.seq, allocNode, M.modifySt, hs]
  rw [transportWrite_ok _ _ (by simpa using hf)]
  simp [M.pure, idResponse]

/-- **Registered before the answer is written**: when the write of the answer does not complete —
it fails, or the listening task is cancelled while it waits there (`f.exn = some x`) — the id is
nevertheless taken, so it is not handed out again. -/
theorem registered_before_written (m : Msg) (w : W) (f : Fault) (x : Exn) (rest : List Fault) (hcmd : m.cmd = 3)
    (hle : nextId w.st.nodes ≤ Gen.maxNodeId) (hf : w.faults = f :: rest) (hx : f.exn = some x) :
    (hIdRequest m w).1 = .error x ∧
    (hIdRequest m w).2.st.nodes.has (nextId w.st.nodes) = true := by
  have hng : ¬ nextId w.st.nodes > Gen.maxNodeId := by omega
  have hs := gwSend_direct (idResponse m (nextId w.st.nodes)) Gen.bufIdResponse (Or.inr (Or.inr (Or.inl hcmd)))
  simp only [idResponse] at hs
  simp only [hIdRequest, M.bind, M.getSt, hng, if_false, M.seq, allocNode, M.modifySt, hs]
  rw [transportWrite_abort _ _ f x rest (by simpa using hf) hx]
  simp [PDict.has_set_self]

/-- **No id left**: the too-many-nodes error, nothing written, registry unchanged. -/
theorem too_many (m : Msg) (w : W) (h : nextId w.st.nodes > Gen.maxNodeId) :
    hIdRequest m w = (.error (.lib .tooManyNodes), w) := by
  simp [hIdRequest, M.bind, M.getSt, h, M.raise]

/-- That error is never raised while an id above the highest registered id is still free: it
requires a registered id of 254 or more. -/
theorem too_many_only_when_full (nodes : PDict Int Node) (h : nextId nodes > Gen.maxNodeId) :
    ∃ k ∈ nodes.keys, 254 ≤ k ∧ ∀ k' ∈ nodes.keys, k' ≤ k := by
  rw [max_node_id] at h
  unfold nextId at h
  cases hks : nodes.keys with
  | nil => simp [hks] at h
  | cons a l =>
    simp only [hks] at h
    have hmem : l.foldl max a ∈ a :: l := by
      clear h hks
      induction l generalizing a with
      | nil => simp
      | cons x xs ih =>
        have := ih (max a x)
        simp only [List.foldl_cons, List.mem_cons] at this ⊢
        rcases this with h | h
        · rcases Int.le_total a x with hax | hax
          · right; left; rw [h]; omega
          · left; rw [h]; omega
        · right; right; exact h
    refine ⟨l.foldl max a, hmem, by omega, ?_⟩
    intro k' hk'
    obtain ⟨h1, h2⟩ := le_foldl_max l a
    simp only [List.mem_cons] at hk'
    rcases hk' with rfl | hk'
    · exact h1
    · exact h2 k' hk'

/-- The id handed out is in range and fresh. -/
theorem id_in_range_and_fresh (nodes : PDict Int Node) (hk : ∀ k ∈ nodes.keys, 0 ≤ k)
    (hle : nextId nodes ≤ Gen.maxNodeId) :
    1 ≤ nextId nodes ∧ nextId nodes ≤ 254 ∧ nodes.has (nextId nodes) = false :=
  ⟨nextId_pos nodes hk, by rw [max_node_id] at hle; exact hle, nextId_fresh nodes⟩

/-- Every version handles the id request type with this handler (generated chains). -/
theorem id_request_dispatch (env : Env) (v : Ver) (m : Msg) (hcmd : m.cmd = 3) (ht : m.type = 3) :
    dispatch env v m = wrapMissingPV hIdRequest m := by
  rw [dispatch_internal env v m hcmd]
  have : hInternal env v = fun m' => hInternal env v m' := rfl
  simp only [wrapMissingPV, internal_id_request env v m ht]

/-! ### Ids are never handed out twice: registered ids stay registered -/

def KeysGrow : W → W → Prop := OnSt fun s s' => ∀ k, s.nodes.has k = true → s'.nodes.has k = true

theorem keysGrow_preO : PreO KeysGrow := OnSt.preO (fun _ _ h => h) (fun h1 h2 k h => h2 k (h1 k h))

theorem nodes_same {f : St → St} (h : ∀ s, (f s).nodes = s.nodes) : Rel KeysGrow (modifySt f) :=
  Rel.modifySt f fun s k hk => by simpa [h s] using hk

theorem has_set_mono (d : PDict Int Node) (k k' : Int) (n : Node) (h : d.has k' = true) : (d.set k n).has k' = true := by
  by_cases e : k' = k
  · subst e; exact PDict.has_set_self d _ n
  · rw [PDict.has_set_ne d n e]; exact h

theorem keysGrow_stepRel (m : Msg) : StepRel KeysGrow m where
  pre := keysGrow_preO
  write := fun _ _ => Rel.transportWrite (fun _ _ h => h) _
  setNode := fun n => Rel.modifySt _ fun s k hk => has_set_mono _ _ _ _ hk
  alloc := Rel.modifySt _ fun s k hk => has_set_mono _ _ _ _ hk
  erase := fun _ _ _ => nodes_same fun s => by split <;> rfl
  mark := nodes_same fun _ => rfl
  unmark := nodes_same fun s => by split <;> rfl
  version := fun _ _ => nodes_same fun _ => rfl

/-- **No operation removes a node**, whatever the line, the outcome and the faults. -/
theorem keys_monotone_recv (env : Env) (line : Str) (w : W) (k : Int) (h : w.st.nodes.has k = true) :
    (recv env line w).2.st.nodes.has k = true :=
  (rel_recv keysGrow_preO (fun _ m _ => keysGrow_stepRel m) (ParkOK.of_all fun _ => nodes_same fun _ => rfl) env).step w k h

theorem keys_monotone_send (obj : Option Msg) (b : Bool) (w : W) (k : Int) (h : w.st.nodes.has k = true) :
    (apiSend obj b w).2.st.nodes.has k = true :=
  (rel_apiSend keysGrow_preO (fun _ => Rel.transportWrite (fun _ _ h => h) _) (fun _ _ => nodes_same fun _ => rfl) obj b).step w k h

theorem keys_monotone_history (ops : List Op) (st : St) (k : Int) (h : st.nodes.has k = true) :
    (stateAfter st ops).nodes.has k = true := by
  induction ops generalizing st with
  | nil => simpa [stateAfter, run] using h
  | cons op ops ih =>
    have hstep : (stepOp st op).1.nodes.has k = true := by
      cases op with
      | recv env line faults =>
        have := keys_monotone_recv env line { st := st, faults := faults } k h
        simp only [stepOp]; split <;> simp_all
      | send obj b faults =>
        have := keys_monotone_send obj b { st := st, faults := faults } k h
        simp only [stepOp]; split <;> simp_all
    simpa [stateAfter, run] using ih _ hstep

/-- **Never twice.** An id handed out in some state is still registered after any further history,
so the id handed out then is a different one. -/
theorem never_handed_out_twice (st : St) (ops : List Op) :
    let id := nextId st.nodes
    let st1 : St := { st with nodes := st.nodes.set id placeholderNode }
    nextId (stateAfter st1 ops).nodes ≠ id := by
  intro id st1 e
  have h1 : st1.nodes.has id = true := PDict.has_set_self _ _ _
  have h2 := keys_monotone_history ops st1 id h1
  have h3 := nextId_fresh (stateAfter st1 ops).nodes
  rw [e] at h3
  rw [h3] at h2
  exact absurd h2 (by simp)

/-! ### Across sessions: entering the context again (or any `Persistence.load`) never forgets a registered id

`Gateway.__aenter__` calls `Persistence.load` on every entry; `load` (`Persist.loadFile`: `Lemmas/PersistBodiesEq.load_eq`
ties it to the code) updates the registry node by node — it only ever ADDS or REPLACES entries.  A *life* of a gateway
object is a history of receives and sends interleaved with loads of arbitrary files; the id handed out after any life is
still different from every id registered before it. -/

theorem loadNodes_keeps (k : Int) : ∀ (kvs : List (Str × Json)) (acc r : PDict Int Node),
    Persist.loadNodes acc kvs = .ok r → acc.has k = true → r.has k = true := by
  intro kvs
  induction kvs with
  | nil => intro acc r h hk; simp only [Persist.loadNodes, Except.ok.injEq] at h; subst h; exact hk
  | cons x xs ih =>
    intro acc r h hk
    obtain ⟨key, v⟩ := x
    simp only [Persist.loadNodes] at h
    split at h
    · next id n _ => exact ih _ _ h (has_set_mono acc id k n hk)
    · simp at h

/-- **A successful load keeps every registered id** (whatever the file holds). -/
theorem load_keeps_registered_ids (cur : PDict Int Node) (fs : Persist.FileState) (res : Persist.Loaded) (k : Int)
    (h : Persist.loadFile cur fs = .ok res) (hk : cur.has k = true) : res.nodes.has k = true := by
  simp only [Persist.loadFile] at h
  split at h
  · next j _ =>
    simp only [Persist.loadInto, Persist.mapRead] at h
    split at h
    · next r hr =>
      split at hr
      · next r' hr' =>
        simp only [Except.ok.injEq] at hr h
        subst hr; subst h
        cases j <;> simp only [Persist.loadRaw] at hr' <;> first
          | exact loadNodes_keeps k _ _ _ hr' hk
          | simp at hr'
      · split at hr <;> simp at hr
    · simp at h
  · split at h
    · simp only [Except.ok.injEq] at h; subst h; exact hk
    · split at h <;> simp at h

/-- The registry a `load` leaves behind: the loop `for node_data in data.values(): … self.nodes[id] = node` has
already stored every entry BEFORE the one that fails, and the `except` clause does not undo that. -/
def loadNodesPartial (acc : PDict Int Node) : List (Str × Json) → PDict Int Node
  | [] => acc
  | (_, v) :: rest =>
    match Schema.loadNode v with
    | .ok (id, n) => loadNodesPartial (acc.set id n) rest
    | .error _ => acc

/-- The registry after `Persistence.load`, whether it returned or raised. -/
def registryAfterLoad (cur : PDict Int Node) (fs : Persist.FileState) : PDict Int Node :=
  match Persist.readFile fs with
  | .ok (.obj kvs) => loadNodesPartial cur kvs
  | _ => cur

theorem loadNodesPartial_ok : ∀ (kvs : List (Str × Json)) (acc r : PDict Int Node),
    Persist.loadNodes acc kvs = .ok r → loadNodesPartial acc kvs = r := by
  intro kvs
  induction kvs with
  | nil => intro acc r h; simpa [Persist.loadNodes, loadNodesPartial] using h
  | cons x xs ih =>
    intro acc r h
    obtain ⟨key, v⟩ := x
    simp only [Persist.loadNodes] at h
    simp only [loadNodesPartial]
    split at h
    · next id n hv => rw [hv]; exact ih _ _ h
    · simp at h

theorem loadNodesPartial_keeps (k : Int) : ∀ (kvs : List (Str × Json)) (acc : PDict Int Node),
    acc.has k = true → (loadNodesPartial acc kvs).has k = true := by
  intro kvs
  induction kvs with
  | nil => intro acc hk; exact hk
  | cons x xs ih =>
    intro acc hk
    obtain ⟨key, v⟩ := x
    simp only [loadNodesPartial]
    split
    · next id n _ => exact ih _ (has_set_mono acc id k n hk)
    · exact hk

/-- When `load` returns normally, `registryAfterLoad` is the registry it returns. -/
theorem registryAfterLoad_ok (cur : PDict Int Node) (fs : Persist.FileState) (res : Persist.Loaded)
    (h : Persist.loadFile cur fs = .ok res) : registryAfterLoad cur fs = res.nodes := by
  simp only [Persist.loadFile] at h
  simp only [registryAfterLoad]
  split at h
  · next j hj =>
    rw [hj]
    simp only [Persist.loadInto, Persist.mapRead] at h
    split at h
    · next r hr =>
      simp only [Except.ok.injEq] at h; subst h
      split at hr
      · next r' hr' =>
        simp only [Except.ok.injEq] at hr; subst hr
        cases j <;> simp only [Persist.loadRaw] at hr' <;> first
          | exact loadNodesPartial_ok _ _ _ hr'
          | simp at hr'
      · split at hr <;> simp at hr
    · simp at h
  · next c hc =>
    rw [hc]
    split at h
    · simp only [Except.ok.injEq] at h; subst h; rfl
    · split at h <;> simp at h

/-- **Any load — returning or raising — keeps every registered id.** -/
theorem registryAfterLoad_keeps (cur : PDict Int Node) (fs : Persist.FileState) (k : Int) (hk : cur.has k = true) :
    (registryAfterLoad cur fs).has k = true := by
  simp only [registryAfterLoad]
  split
  · exact loadNodesPartial_keeps k _ _ hk
  · exact hk

/-- One event in the life of a gateway object: traffic, or a load of whatever is at the path (on entering the context
again, or called by the application).  A load that raises half-way has still stored the entries before the failing one
(`registryAfterLoad`); a load that returns leaves what `Persist.loadFile` returns (`registryAfterLoad_ok`). -/
inductive LifeOp where
  | gw (op : Op)
  | load (fs : Persist.FileState)

def lifeStep (st : St) : LifeOp → St
  | .gw op => (stepOp st op).1
  | .load fs => { st with nodes := registryAfterLoad st.nodes fs }

def lifeAfter (st : St) (ops : List LifeOp) : St := ops.foldl lifeStep st

theorem keys_monotone_life (ops : List LifeOp) (st : St) (k : Int) (h : st.nodes.has k = true) :
    (lifeAfter st ops).nodes.has k = true := by
  induction ops generalizing st with
  | nil => exact h
  | cons op ops ih =>
    refine ih _ ?_
    cases op with
    | gw o =>
      have := keys_monotone_history [o] st k h
      simpa [lifeStep, stateAfter, run] using this
    | load fs => exact registryAfterLoad_keeps st.nodes fs k h

/-- **Never twice, over the whole life of the object** — sessions, reloads of any file (also one that lacks the id,
was replaced, or is damaged) and traffic in any order. -/
theorem never_handed_out_twice_life (st : St) (ops : List LifeOp) :
    let id := nextId st.nodes
    let st1 : St := { st with nodes := st.nodes.set id placeholderNode }
    nextId (lifeAfter st1 ops).nodes ≠ id := by
  intro id st1 e
  have h1 : st1.nodes.has id = true := PDict.has_set_self _ _ _
  have h2 := keys_monotone_life ops st1 id h1
  have h3 := nextId_fresh (lifeAfter st1 ops).nodes
  rw [e] at h3
  rw [h3] at h2
  exact absurd h2 (by simp)

/-! ### Across restarts of the controller: what the final save wrote is what the next gateway object restores

However an `async with gateway:` statement ends — the body ends, an exception leaves it, the task is cancelled —
`Gateway.__aexit__` runs `Persistence.stop`, which saves the registry a final time (C16 is about that it does).  When the
controller is started again, a NEW gateway object (empty registry, nothing buffered, version unknown) loads that file on
entering.  A *controller life* is traffic interleaved with such restarts; over it no registered id is ever forgotten, so
an id handed out in one run is never handed out in a later one.  The registries involved are those `save` can write
back (`RegOK`, C13: every registry reachable from a `RegOK` one — the empty one, a loaded file — by traffic is). -/

theorem persisted_regOK (r : PDict Int Node) (h : RegOK r) : RegOK (Persist.persisted r) := by
  refine ⟨by rw [keys_persisted]; exact h.nodup, ?_⟩
  intro kn hkn
  simp only [Persist.persisted] at hkn
  obtain ⟨kn0, hkn0, rfl⟩ := List.mem_map.mp hkn
  have := h.nodes kn0 hkn0
  exact ⟨this.id_lo, this.id_hi, this.bat_lo, this.bat_hi, this.children_nodup, this.children⟩

/-- The state of the gateway object of the next run: a new object (`{}`) that has loaded the file the final save of
this one wrote.  (Were the load to fail the new object could not be entered; it then holds nothing.) -/
def restartSt (st : St) : St :=
  match Persist.loadFile [] (.value (Persist.save st.nodes)) with
  | .ok res => { nodes := res.nodes }
  | .error _ => {}

/-- The load of the next run succeeds and restores the registry (up to the `reboot` flags, which are not saved). -/
theorem restart_restores (st : St) (h : RegOK st.nodes) : (restartSt st).nodes = Persist.persisted st.nodes := by
  have := load_save_aux st.nodes h
  simp only [Persist.load] at this
  simp [restartSt, Persist.loadFile, Persist.readFile, this]

/-- **A restart forgets no registered id.** -/
theorem restart_keeps_registered_ids (st : St) (h : RegOK st.nodes) (k : Int) (hk : st.nodes.has k = true) :
    (restartSt st).nodes.has k = true := by
  rw [restart_restores st h, PDict.has_iff_mem_keys, keys_persisted, ← PDict.has_iff_mem_keys]
  exact hk

/-- One event in the life of a controller with a persistence file: traffic handled by the current gateway object, or
the end of its last session followed by a restart. -/
inductive RunOp where
  | gw (op : Op)
  | restart

def runStep (st : St) : RunOp → St
  | .gw op => (stepOp st op).1
  | .restart => restartSt st

def runsAfter (st : St) (ops : List RunOp) : St := ops.foldl runStep st

theorem keys_monotone_runs (ops : List RunOp) (st : St) (h : RegOK st.nodes) (k : Int) (hk : st.nodes.has k = true) :
    RegOK (runsAfter st ops).nodes ∧ (runsAfter st ops).nodes.has k = true := by
  induction ops generalizing st with
  | nil => exact ⟨h, hk⟩
  | cons op ops ih =>
    cases op with
    | gw o =>
      refine ih _ (stepOp_regOK st o h) ?_
      have := keys_monotone_history [o] st k hk
      simpa [runStep, stateAfter, run] using this
    | restart =>
      refine ih _ ?_ (restart_keeps_registered_ids st h k hk)
      show RegOK (restartSt st).nodes
      rw [restart_restores st h]
      exact persisted_regOK _ h

/-- **Never twice, over all runs of the controller**: an id handed out by one gateway object (`nextId ≤ MAX_NODE_ID`, so it
was handed out and registered) differs from the id handed out after any further traffic and any number of restarts on
the persistence file. -/
theorem never_handed_out_twice_restarts (st : St) (h : RegOK st.nodes) (hle : nextId st.nodes ≤ Gen.maxNodeId)
    (ops : List RunOp) :
    let id := nextId st.nodes
    let st1 : St := { st with nodes := st.nodes.set id placeholderNode }
    nextId (runsAfter st1 ops).nodes ≠ id := by
  intro id st1 e
  have hmax : Gen.maxNodeId ≤ Gen.nodeIdMax := by decide
  have hreg : RegOK st1.nodes :=
    regOK_set st.nodes _ _ h (nodeOK_fresh _ _ _ (nextId_ge_min _ h) (by omega))
  have h1 : st1.nodes.has id = true := PDict.has_set_self _ _ _
  have h2 := (keys_monotone_runs ops st1 hreg id h1).2
  have h3 := nextId_fresh (runsAfter st1 ops).nodes
  rw [e] at h3
  rw [h3] at h2
  exact absurd h2 (by simp)

/-- Non-vacuity: after a restart the next id is above the ids of the previous run. -/
example : nextId (runsAfter { nodes := [(1, placeholderNode), (7, placeholderNode)] } [.restart]).nodes = 8 := by
  have h : RegOK ([(1, placeholderNode), (7, placeholderNode)] : PDict Int Node) := by decide
  simp only [runsAfter, List.foldl, runStep]
  rw [restart_restores _ h]
  decide

/-! ### Across restarts on a persistence file that was damaged in place

A run of the controller starts with `async with gateway:` on a NEW gateway object: `__aenter__` awaits `Persistence.load`
first and lets its error leave the statement (`Lifecycle.mainStep`: the `.load` phase with a failing load finishes the
statement with `loadErr`, nothing was started — C16 `load_failure_starts_nothing`; `LifecycleBodiesEq` ties that to the text
of `__aenter__`).  So there is a session — and ids are handed out — only when the load RETURNED.  Between the runs the
file may be left in any state by an interrupted save of the library itself (C15: truncate, then write), a failing medium
or a tool: cut short, undecodable, no JSON, nested too deeply, JSON of another shape, one record that is no node among
records that are, unreadable.  None of these can be loaded, so none of them starts a run; and a load that does return has
restored EVERY record of the file.  Over a life of traffic, ends of sessions (final save), starts, and a file that is left
in states which — if they can be loaded at all — still give back the id, an id handed out once is never handed out again.
(Another registry put there by someone else — a loadable file without the id, an empty file, no file — is not such a
state: the file as it stands is then the persisted registry, C14, and nothing is promised.) -/

/-- The start of a run on whatever the persistence file is found to be: the new object's registry when the load
returns; no session when it raises. -/
def startOn (fs : Persist.FileState) : Option St :=
  match Persist.loadFile [] fs with
  | .ok res => some { nodes := res.nodes }
  | .error _ => none

theorem startOn_some (fs : Persist.FileState) (st : St) (h : startOn fs = some st) :
    ∃ res, Persist.loadFile [] fs = .ok res ∧ st = { nodes := res.nodes } := by
  unfold startOn at h
  split at h
  · next res hres => exact ⟨res, hres, by simpa using h.symm⟩
  · simp at h

/-- A path that cannot be read, bytes that are no text, text that is no JSON, an integer or a nesting beyond the
interpreter's limits: no run starts. -/
theorem start_refused_unreadable : startOn .unreadable = none ∧ startOn .undecodable = none ∧ startOn .notJson = none ∧
    startOn .hugeInt = none ∧ startOn .tooDeep = none := by
  refine ⟨?_, ?_, ?_, ?_, ?_⟩ <;> rfl

theorem loadNodes_error_of_bad_record : ∀ (kvs : List (Str × Json)) (acc : PDict Int Node) (kv : Str × Json) (e : PyExn),
    kv ∈ kvs → Schema.loadNode kv.2 = .error e → ∃ e', Persist.loadNodes acc kvs = .error e' := by
  intro kvs
  induction kvs with
  | nil => intro _ _ _ h; simp at h
  | cons x xs ih =>
    intro acc kv e hmem hbad
    obtain ⟨key, v⟩ := x
    simp only [Persist.loadNodes]
    rcases List.mem_cons.mp hmem with rfl | hmem
    · simp only at hbad
      rw [hbad]
      exact ⟨e, rfl⟩
    · split
      · exact ih _ kv e hmem hbad
      · next e' _ => exact ⟨e', rfl⟩

theorem loadFile_error_of_raw (j : Json) (c : PyExn) (h : Persist.loadRaw [] j = .error c) :
    ∃ e, Persist.loadFile [] (.value j) = .error e := by
  cases hp : pyCaught c (clause Gen.excPersistLoad 2) <;>
    simp [Persist.loadFile, Persist.readFile, Persist.loadInto, Persist.mapRead, h, hp]

/-- JSON of another shape than an object, or an object in which ONE record is not a node — wherever it stands among
records that are: no run starts. -/
theorem start_refused_wrong_shape (j : Json) (h : ∀ kvs, j ≠ .obj kvs) : startOn (.value j) = none := by
  unfold startOn
  have : ∃ e, Persist.loadFile [] (.value j) = .error e := by
    apply loadFile_error_of_raw j .AttributeError
    cases j <;> first
      | rfl
      | exact absurd rfl (h _)
  obtain ⟨e, he⟩ := this
  rw [he]

theorem start_refused_bad_record (kvs : List (Str × Json)) (kv : Str × Json) (e : PyExn) (hmem : kv ∈ kvs)
    (hbad : Schema.loadNode kv.2 = .error e) : startOn (.value (.obj kvs)) = none := by
  unfold startOn
  obtain ⟨e', he'⟩ := loadNodes_error_of_bad_record kvs [] kv e hmem hbad
  have : ∃ x, Persist.loadFile [] (.value (.obj kvs)) = .error x :=
    loadFile_error_of_raw _ e' (by simpa [Persist.loadRaw] using he')
  obtain ⟨x, hx⟩ := this
  rw [hx]

theorem loadNodes_restores_all (kvs : List (Str × Json)) : ∀ (acc r : PDict Int Node),
    Persist.loadNodes acc kvs = .ok r →
    ∀ kv ∈ kvs, ∃ id n, Schema.loadNode kv.2 = .ok (id, n) ∧ r.has id = true := by
  induction kvs with
  | nil => intro _ _ _ kv h; simp at h
  | cons x xs ih =>
    intro acc r h kv hmem
    obtain ⟨key, v⟩ := x
    simp only [Persist.loadNodes] at h
    split at h
    · next id n hn =>
      rcases List.mem_cons.mp hmem with rfl | hmem
      · exact ⟨id, n, hn, loadNodes_keeps id xs _ r h (PDict.has_set_self _ _ _)⟩
      · exact ih _ _ h kv hmem
    · simp at h

/-- **A run that starts has restored every record the file holds**: each is a node record, and its id is registered. -/
theorem start_restores_every_record (kvs : List (Str × Json)) (st : St) (h : startOn (.value (.obj kvs)) = some st) :
    ∀ kv ∈ kvs, ∃ id n, Schema.loadNode kv.2 = .ok (id, n) ∧ st.nodes.has id = true := by
  obtain ⟨res, hres, rfl⟩ := startOn_some _ _ h
  simp only [Persist.loadFile, Persist.readFile, Persist.loadInto, Persist.mapRead, Persist.loadRaw] at hres
  split at hres
  · next r hr =>
    split at hr
    · next r' hr' =>
      simp only [Except.ok.injEq] at hr hres
      subst hr; subst hres
      exact loadNodes_restores_all kvs _ _ hr'
    · split at hr <;> simp at hr
  · simp at hres

/-- What the file, left in the state `fs`, is worth for the id `k`: IF it can be loaded at all, loading it gives a
registry that `save` can write back and in which `k` is registered.  (Every state that cannot be loaded is such a state;
the file as last saved is one; a missing or empty file, or a loadable file without `k`, is not.) -/
def FileKeeps (k : Int) (fs : Persist.FileState) : Prop :=
  ∀ res, Persist.loadFile [] fs = .ok res → RegOK res.nodes ∧ res.nodes.has k = true

theorem fileKeeps_of_refused (k : Int) (fs : Persist.FileState) (h : startOn fs = none) : FileKeeps k fs := by
  intro res hres
  simp [startOn, hres] at h

/-- The file as a final save wrote it keeps every registered id. -/
theorem fileKeeps_saved (k : Int) (nodes : PDict Int Node) (h : RegOK nodes) (hk : nodes.has k = true) :
    FileKeeps k (.value (Persist.save nodes)) := by
  intro res hres
  have := load_save_aux nodes h
  simp only [Persist.load] at this
  simp only [Persist.loadFile, Persist.readFile, this, Except.ok.injEq] at hres
  subst hres
  refine ⟨persisted_regOK _ h, ?_⟩
  show (Persist.persisted nodes).has k = true
  rw [PDict.has_iff_mem_keys, keys_persisted, ← PDict.has_iff_mem_keys]
  exact hk

theorem not_fileKeeps_missing_empty (k : Int) : ¬ FileKeeps k .missing ∧ ¬ FileKeeps k .empty := by
  constructor <;> intro h
  · have := (h ⟨[], some (Persist.save [])⟩ rfl).2
    simp [PDict.has, PDict.get?] at this
  · have := (h ⟨[], none⟩ rfl).2
    simp [PDict.has, PDict.get?] at this

/-- A controller with a persistence file: what stands at the path, and the gateway object of the run that is going
(none: stopped, or the last start was refused). -/
structure Ctl where
  file : Persist.FileState
  run : Option St

inductive CtlOp where
  /-- traffic handled by the run that is going (nothing is handled when none is) -/
  | gw (op : Op)
  /-- the session ends, however: `__aexit__` saves the registry a final time -/
  | stop
  /-- the controller is started: a new object loads the file; when the load returns, the scheduled save writes what
  was loaded; when it raises there is no session -/
  | start
  /-- the file is left in the state `fs` (an interrupted save, the medium, a tool, someone's backup) -/
  | touch (fs : Persist.FileState)

def ctlStep (c : Ctl) : CtlOp → Ctl
  | .gw op => { c with run := c.run.map fun st => (stepOp st op).1 }
  | .stop =>
    match c.run with
    | some st => { file := .value (Persist.save st.nodes), run := none }
    | none => c
  | .start =>
    match c.run with
    | some _ => c
    | none =>
      match startOn c.file with
      | some st => { file := .value (Persist.save st.nodes), run := some st }
      | none => c
  | .touch fs => { c with file := fs }

def ctlAfter (c : Ctl) (ops : List CtlOp) : Ctl := ops.foldl ctlStep c

/-- The id `k` is not lost: the run that is going has it registered; with no run going, the file keeps it. -/
def CtlInv (k : Int) (c : Ctl) : Prop :=
  match c.run with
  | some st => RegOK st.nodes ∧ st.nodes.has k = true
  | none => FileKeeps k c.file

/-- The life damages the file only in place, as far as `k` goes: whenever the file is touched while no run is going,
it is left in a state that keeps `k` (any state that cannot be loaded does). -/
def LifeOK (k : Int) : Ctl → List CtlOp → Prop
  | _, [] => True
  | c, op :: ops => (∀ fs, op = .touch fs → c.run = none → FileKeeps k fs) ∧ LifeOK k (ctlStep c op) ops

theorem ctl_keeps (k : Int) : ∀ (ops : List CtlOp) (c : Ctl), CtlInv k c → LifeOK k c ops → CtlInv k (ctlAfter c ops) := by
  intro ops
  induction ops with
  | nil => intro c h _; exact h
  | cons op ops ih =>
    intro c hinv hok
    obtain ⟨htouch, hrest⟩ := hok
    refine ih (ctlStep c op) ?_ hrest
    obtain ⟨file, run⟩ := c
    cases op with
    | gw o =>
      cases run with
      | none => exact hinv
      | some st =>
        obtain ⟨hreg, hk⟩ := hinv
        refine ⟨stepOp_regOK st o hreg, ?_⟩
        have := keys_monotone_history [o] st k hk
        simpa [stateAfter, run] using this
    | stop =>
      cases run with
      | none => exact hinv
      | some st => exact fileKeeps_saved k st.nodes hinv.1 hinv.2
    | start =>
      cases run with
      | some st => exact hinv
      | none =>
        simp only [ctlStep]
        split
        · next st hst =>
          obtain ⟨res, hres, rfl⟩ := startOn_some _ _ hst
          exact hinv res hres
        · exact hinv
    | touch fs =>
      cases run with
      | some st => exact hinv
      | none => exact htouch fs rfl rfl

/-- **Never twice, whatever happens to the file short of another registry being put there**: an id handed out by a run
of the controller differs from the id any later run hands out, over every life of traffic, session ends, starts and
damage to the file — a start on a damaged file is refused, a start that succeeds has the id back. -/
theorem never_handed_out_twice_damaged_file (st : St) (h : RegOK st.nodes) (hle : nextId st.nodes ≤ Gen.maxNodeId)
    (fs0 : Persist.FileState) (ops : List CtlOp) :
    let id := nextId st.nodes
    let st1 : St := { st with nodes := st.nodes.set id placeholderNode }
    LifeOK id ⟨fs0, some st1⟩ ops →
    ∀ st', (ctlAfter ⟨fs0, some st1⟩ ops).run = some st' → nextId st'.nodes ≠ id := by
  intro id st1 hok st' hrun e
  have hmax : Gen.maxNodeId ≤ Gen.nodeIdMax := by decide
  have hreg : RegOK st1.nodes :=
    regOK_set st.nodes _ _ h (nodeOK_fresh _ _ _ (nextId_ge_min _ h) (by omega))
  have h1 : st1.nodes.has id = true := PDict.has_set_self _ _ _
  have hinv : CtlInv id (ctlAfter ⟨fs0, some st1⟩ ops) := ctl_keeps id ops _ ⟨hreg, h1⟩ hok
  unfold CtlInv at hinv
  rw [hrun] at hinv
  have h3 := nextId_fresh st'.nodes
  rw [e, hinv.2] at h3
  exact absurd h3 (by simp)

/-- Non-vacuity: the file is cut short after the run (no JSON any more): the next start is refused; once the file is
back as it was saved, the next run continues above the ids of the first. -/
example :
    let nodes : PDict Int Node := [(1, placeholderNode), (7, placeholderNode)]
    (ctlAfter ⟨.missing, some { nodes := nodes }⟩ [.stop, .touch .notJson, .start]).run.isNone = true ∧
    ((ctlAfter ⟨.missing, some { nodes := nodes }⟩
        [.stop, .touch .notJson, .start, .touch (.value (Persist.save nodes)), .start]).run.map fun s => nextId s.nodes)
      = some 8 := by
  intro nodes
  have h : RegOK nodes := by decide
  have hl : Persist.loadFile [] (.value (Persist.save nodes)) = .ok ⟨Persist.persisted nodes, none⟩ := by
    have := load_save_aux nodes h
    simp only [Persist.load] at this
    simp [Persist.loadFile, Persist.readFile, this]
  have hs : startOn (.value (Persist.save nodes)) = some { nodes := Persist.persisted nodes } := by
    simp [startOn, hl]
  have hn : startOn .notJson = none := rfl
  refine ⟨by simp [ctlAfter, ctlStep, hn], ?_⟩
  simp only [ctlAfter, List.foldl, ctlStep, hn, hs, Option.map]
  decide

/-! Non-vacuity -/
example : nextId ([(1, placeholderNode), (7, placeholderNode), (3, placeholderNode)] : PDict Int Node) = 8 := by decide
example : nextId ([] : PDict Int Node) = 1 := by decide

end AioMySensors.C11
