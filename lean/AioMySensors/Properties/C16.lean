/-
C16 — Gateway context: load on entry, periodic and final save, no leftovers.

  "With a persistence file configured, entering the gateway context loads the file, saves the
   registry once entered and then at least every 15 minutes; leaving the context - normally or
   through an exception, and at whatever moment relative to the background saver's progress -
   disconnects the transport, writes the final registry to the file and leaves no background task
   running. If connecting fails the error propagates and no background task is left behind."

The system is the small-step model of Model/Lifecycle.lean: the main coroutine (`__aenter__`, body,
`__aexit__`, `Persistence.stop`) and the saver task, interleaved by an arbitrary scheduler
(`List Choice`: who runs next, how much virtual time passes, when the body changes the registry,
whether a file operation cancelled in flight still takes effect).  Every theorem quantifies over
ALL schedules `cs`, all fault combinations `f`, every start time and file content; they are proved
by invariants of `step` (Lemmas/Lifecycle.lean), not by sampling.  The `except`/`suppress` clauses of
`Persistence.start` and `Persistence.save` are read from the generated tables, and
`Gen.saveInterval` is the generated `SAVE_INTERVAL`: removing the `suppress(CancelledError)` or the
`except CancelledError: break`, or raising the interval above 900, makes these theorems fail to check.

The ORDER and NESTING of the steps (`if self.persistence`, `try … except BaseException: stop; raise`, `try … finally: stop`,
`stop` = cancel, await under `suppress`, clear, save; the saver's `while True: save; try: sleep except …: break`) is not
assumed either: `tools/translate_lifecycle.py` compiles `__aenter__`, `__aexit__`, `start` (with `save_on_schedule`,
`cancel_save`) and `stop` into control skeletons (`Generated/LifecycleBodies.lean`), and `Lemmas/LifecycleBodiesEq.lean`
proves that the machine interpreting those skeletons passes through exactly the states of `Lifecycle.step` for every fault
record, exception class and schedule (`LL.generated_runs_model`; `LL.exit_clean_generated` is `exit_clean` restated about
the generated text).  That module is an obligation of this property (`tools/ties.json`).

The transport kind does not occur in the model: `Gateway` only calls `connect`/`disconnect`, whose
only relevant behaviours are "returns" / "raises" at a suspension point (the fault flags).

What the model cannot exhibit (DESIGN section 5):
* an executor thread that is still inside `open`/`write`/`close` after its awaiting coroutine was
  cancelled and that lands *after* the final save began (here a cancelled operation lands at the
  moment of cancellation or never: `Choice.saver lands`);
* the OS page cache / `fsync` ordering — the file is what was last written;
* a periodic save that itself fails (`PersistenceWriteError` inside the saver task) — outside the
  fault positions the property quantifies over; see the note at `exit_clean`;
* cancellation of the main coroutine itself while it is inside `disconnect` or `stop` (cancellation while it is inside
  the *body* is the fault `bodyCancelled`, see `cancel_exit_clean`; cancellation while it is inside `load` or `connect`
  of `__aenter__` is a failure of that step with a cancellation-like class - `LL.Classes` in the generated machine:
  `LL.load_failure_touches_nothing_generated`, `LL.connect_failure_leaves_nothing_generated`; the correspondence run
  cancels the task at every loop iteration of the entry: harness/props/enterfail.py).
-/
import AioMySensors.Lemmas.Lifecycle
import AioMySensors.Lemmas.LifecycleChurn
import AioMySensors.Lemmas.LifecycleEnter

namespace AioMySensors.C16
open AioMySensors AioMySensors.Lifecycle

/-- The generated `SAVE_INTERVAL` is at most 15 minutes. -/
theorem save_interval_le_900 : Gen.saveInterval ≤ 900 := by decide

theorem interval_le_900 : interval ≤ 900 := by decide

/-- The expected exception is never a `CancelledError` leaked from awaiting the cancelled saver
(`Exc.cancelled`).  The cancellation of the task running the body is a different exception
(`Exc.bodyCancel`) and is expected exactly when the body was cancelled and no later step failed. -/
theorem expected_not_cancelled (f : Faults) : expectedOutcome f ≠ some .cancelled := by
  obtain ⟨a, b, c, d, e, g⟩ := f
  cases a <;> cases b <;> cases c <;> cases d <;> cases e <;> cases g <;> decide

/-- The body's cancellation is what has to propagate exactly when the body ran, was cancelled, and
neither the disconnect nor the final save failed afterwards. -/
theorem expected_bodyCancel_iff (f : Faults) :
    expectedOutcome f = some .bodyCancel ↔
      f.loadFails = false ∧ f.connectFails = false ∧ f.bodyCancelled = true ∧
      f.disconnectFails = false ∧ f.finalSaveFails = false := by
  obtain ⟨a, b, c, d, e, g⟩ := f
  cases a <;> cases b <;> cases c <;> cases d <;> cases e <;> cases g <;> decide

/-- **Leaving the context is clean**, for every fault combination, every schedule (hence every
position of the saver when `stop` begins: not yet started, inside `open`/`write`/`close` of a save,
sleeping), every start time and initial file: once the context statement has completed,
* no saver task is alive;
* if the context was entered, `disconnect` was attempted;
* if persistence was started, `stop` ran to its end — the final save completed and the file holds
  the registry as of exit — unless the final save itself failed, and then that error propagates;
* the exception that propagates is exactly the failing step's (`expectedOutcome`): the final
  save's, else the disconnect's, else the body's — its own exception, or the `CancelledError` of the
  cancelled task running the body (`Exc.bodyCancel`, fault `bodyCancelled`); never a `CancelledError`
  leaked from awaiting the cancelled saver (`Exc.cancelled`).

(A *periodic* save failing inside the saver task is not a fault position of the property and is not
a transition of the model; in the code it ends the saver task, and `stop` then re-raises that old
error from `await task` and skips the final save.  The harness reports it as an observation.) -/
theorem exit_clean (f : Faults) (t v : Nat) (cs : List Choice)
    (hfin : (run (init f t v) cs).main = .finished) :
    let s := run (init f t v) cs
    s.saver.alive = false ∧
    (s.entered = true → s.disconnectTried = true) ∧
    (s.started = true →
      (s.finalSaveDone = true ∧ s.file = .holds s.reg) ∨ (f.finalSaveFails = true ∧ s.outcome = some .saveErr)) ∧
    s.outcome = expectedOutcome f ∧
    s.outcome ≠ some .cancelled := by
  intro s
  have hi : Lifecycle.Inv s := inv_run _ cs (inv_init f t v)
  have hf : s.faults = f := faults_run _ cs
  unfold Lifecycle.Inv at hi
  rw [show s.main = .finished from hfin] at hi
  obtain ⟨h1, h2, h3, h4, _, _, _⟩ := hi
  rw [hf] at h3 h4
  exact ⟨h1, h2, h3, h4, h4 ▸ expected_not_cancelled f⟩

/-- The registry the final save writes is the registry as of exit: after `load`, nothing but the
body changes it. -/
theorem registry_fixed_outside_body (s : Sys) (c : Choice) (h : s.main ≠ .body) (hl : s.main ≠ .load) :
    (step s c).reg = s.reg :=
  reg_step s c h hl

/-- **A failing connect leaves nothing behind**: the saver task is gone, the context was not
entered, the final save ran, and the connect error is what propagates (unless the final save
failed as well). -/
theorem connect_failure_leaves_nothing (f : Faults) (t v : Nat) (cs : List Choice)
    (hl : f.loadFails = false) (hc : f.connectFails = true)
    (hfin : (run (init f t v) cs).main = .finished) :
    let s := run (init f t v) cs
    s.saver.alive = false ∧ s.entered = false ∧
    s.outcome = (if f.finalSaveFails then some .saveErr else some .connectErr) ∧
    (f.finalSaveFails = false → s.finalSaveDone = true ∧ s.file = .holds s.reg) := by
  intro s
  have hi : Lifecycle.Inv s := inv_run _ cs (inv_init f t v)
  have hf : s.faults = f := faults_run _ cs
  unfold Lifecycle.Inv at hi
  rw [show s.main = .finished from hfin] at hi
  obtain ⟨h1, _, h3, h4, h5, h6, _⟩ := hi
  rw [hf] at h3 h4 h5 h6
  have hent : s.entered = false := (h6 hl).mpr hc
  have hst : s.started = true := by
    cases hs : s.started with
    | true => rfl
    | false => exact absurd (h5 hs).1 (by simp [hl])
  refine ⟨h1, hent, ?_, ?_⟩
  · rw [h4]; simp [expectedOutcome, hl, hc]
  · intro hfs
    rcases h3 hst with h | h
    · exact h
    · exact absurd h.1 (by simp [hfs])

/-- **Leaving by cancellation is clean.**  The task running the context statement is cancelled while
it is inside the body (load and connect succeeded).  For every schedule — hence every position of the
saver at that moment — every start time and initial file, whatever the other fault flags: once the
context statement has finished,
* the context had been entered and `disconnect` was attempted (the cancellation does not skip it);
* no saver task is alive (`stop` cancelled and awaited it; the saver's own `CancelledError` was
  suppressed and did not replace or join the one in flight);
* the final save was performed with the registry as of exit: it completed and the file holds that
  registry — unless the final save itself failed, and then its error is what propagates;
* what propagates is the final save's error, else the disconnect's error, else the body's
  cancellation (`Exc.bodyCancel`) — in particular something always propagates (the cancellation is
  never swallowed), and it is never the saver's leaked `CancelledError` (`Exc.cancelled`).
`bodyRaises` is irrelevant here: a cancelled body does not get to raise (`bodyExit`). -/
theorem cancel_exit_clean (f : Faults) (t v : Nat) (cs : List Choice)
    (hl : f.loadFails = false) (hc : f.connectFails = false) (hb : f.bodyCancelled = true)
    (hfin : (run (init f t v) cs).main = .finished) :
    let s := run (init f t v) cs
    s.entered = true ∧ s.disconnectTried = true ∧
    s.saver.alive = false ∧
    s.started = true ∧
    (f.finalSaveFails = false → s.finalSaveDone = true ∧ s.file = .holds s.reg) ∧
    s.outcome = (if f.finalSaveFails then some .saveErr
                 else if f.disconnectFails then some .disconnectErr else some .bodyCancel) ∧
    s.outcome ≠ none ∧ s.outcome ≠ some .cancelled := by
  intro s
  have hi : Lifecycle.Inv s := inv_run _ cs (inv_init f t v)
  have hf : s.faults = f := faults_run _ cs
  unfold Lifecycle.Inv at hi
  rw [show s.main = .finished from hfin] at hi
  obtain ⟨h1, h2, h3, h4, h5, h6, _⟩ := hi
  rw [hf] at h3 h4 h5 h6
  have hent : s.entered = true := by
    cases he : s.entered with
    | true => rfl
    | false => exact absurd ((h6 hl).mp he) (by simp [hc])
  have hst : s.started = true := by
    cases hs : s.started with
    | true => rfl
    | false => exact absurd (h5 hs).1 (by simp [hl])
  have hout : s.outcome = (if f.finalSaveFails then some .saveErr
      else if f.disconnectFails then some .disconnectErr else some .bodyCancel) := by
    rw [h4]; simp [expectedOutcome, bodyExit, hl, hc, hb]
  refine ⟨hent, h2 hent, h1, hst, ?_, hout, ?_, h4 ▸ expected_not_cancelled f⟩
  · intro hfs
    rcases h3 hst with h | h
    · exact h
    · exact absurd h.1 (by simp [hfs])
  · rw [hout]; repeat' split
    all_goals simp

/-- A failing load propagates before anything was started. -/
theorem load_failure_starts_nothing (f : Faults) (t v : Nat) (cs : List Choice)
    (hl : f.loadFails = true) (hfin : (run (init f t v) cs).main = .finished) :
    let s := run (init f t v) cs
    s.saver = .absent ∧ s.started = false ∧ s.outcome = some .loadErr := by
  intro s
  have hi : Lifecycle.Inv s := inv_run _ cs (inv_init f t v)
  have hf : s.faults = f := faults_run _ cs
  unfold Lifecycle.Inv at hi
  rw [show s.main = .finished from hfin] at hi
  obtain ⟨_, _, _, h4, h5, _, h7⟩ := hi
  rw [hf] at h4 h5 h7
  have hst : s.started = false := h7 hl
  exact ⟨(h5 hst).2, hst, by rw [h4]; simp [expectedOutcome, hl]⟩

/-- **A failing load touches nothing** - at no moment.  For every schedule `cs` (finished or not), start time and file
content: when the load of the statement fails, no saver task was ever created, no save was begun and no final save
performed, the context was not entered and the transport not touched, and THE FILE HOLDS WHAT IT HELD when the statement
began.  (The file is the only copy of the registry between two sessions; a start-up that fails while loading - a
transient I/O error, one entry the loader refuses, a start-up timeout that cancels the task inside `load` - is followed
by another start-up that reads it.  A clean-up handler that "saves a final time" after a load that did not complete
would write the empty or partial registry over it.)  The correspondence run makes the load fail at each of its file
operations, on every class of content the loader refuses, and cancels the task at every loop iteration of the entry,
and compares the file's bytes: harness/props/enterfail.py. -/
theorem load_failure_touches_nothing (f : Faults) (t v : Nat) (cs : List Choice) (hl : f.loadFails = true) :
    let s := run (init f t v) cs
    s.file = .holds v ∧ s.saver = .absent ∧ s.started = false ∧ s.saveStarts = [] ∧ s.finalSaveDone = false ∧
    s.entered = false ∧ s.disconnectTried = false ∧
    (s.main = .finished → s.outcome = some .loadErr) := by
  intro s
  have hf : s.faults = f := faults_run _ cs
  have hi : LoadFailInv v s := loadFail_run v _ cs (loadFail_init f t v)
  obtain ⟨hm, hsv, _, hfile, hss, hfd, hst, _, hen, hdt, _⟩ := hi (by rw [hf]; exact hl)
  refine ⟨hfile, hsv, hst, hss, hfd, hen, hdt, fun hfin => ?_⟩
  rcases hm with ⟨h, _⟩ | ⟨_, h⟩
  · rw [h] at hfin; cases hfin
  · exact h

/-- ... and the statement does complete: one step of the main coroutine ends it with the load's error. -/
theorem load_failure_completes (f : Faults) (t v : Nat) (hl : f.loadFails = true) :
    (run (init f t v) [.main]).main = .finished ∧ (run (init f t v) [.main]).outcome = some .loadErr := by
  simp [run, step, init, mainRunnable, mainStep, hl]

/-- **Cadence.**  In virtual time (file operations take none, a due timer fires before time moves
on), as long as `stop` has not cancelled the saver: whenever the saver has nothing left to do at the
current instant, at least `⌊T / SAVE_INTERVAL⌋ + 1` saves have been started within `[t0, t0 + T]`,
for every stretch `T` of time that has passed since `start()` — together with
`save_interval_le_900` this is "once entered and then at least every 15 minutes".
All schedules, all stretches of time, all fault flags. -/
theorem cadence (f : Faults) (t v : Nat) (cs : List Choice) :
    let s := run (init f t v) cs
    s.started = true → s.cancelReq = false → saverRunnable s = false →
    ∀ T, s.t0 + T ≤ s.now → T / interval + 1 ≤ startsWithin s T := by
  intro s hst hc hr T hT
  have hi : Lifecycle.Inv s := inv_run _ cs (inv_init f t v)
  have hcad : CadInv s := cad_run _ cs (inv_init f t v) (cad_init f t v)
  obtain ⟨hp, hm⟩ := hcad.2 hst hc
  unfold startsWithin
  rw [hp, countP_prog]
  cases hsv : s.saver with
  | sleeping w =>
    rw [hsv] at hm
    obtain ⟨_, hw, _⟩ := hm
    have hlt : s.now < w := by
      have : saverRunnable s = (s.cancelReq || decide (w ≤ s.now)) := by simp [saverRunnable, hsv]
      rw [this, hc] at hr
      simpa using hr
    have : T < s.saveStarts.length * interval := by omega
    have : T / interval < s.saveStarts.length := (Nat.div_lt_iff_lt_mul interval_pos).mpr this
    omega
  | notStarted => simp [saverRunnable, hsv] at hr
  | inSave ph => simp [saverRunnable, hsv] at hr
  | absent => rw [hsv] at hm; exact hm.elim
  | done => rw [hsv] at hm; exact hm.elim
  | cancelled => rw [hsv] at hm; exact hm.elim
  | failed => rw [hsv] at hm; exact hm.elim

/-- The saves began exactly at `t0, t0 + I, t0 + 2I, …` (no drift), and an un-cancelled saver never ends. -/
theorem saves_on_the_grid (f : Faults) (t v : Nat) (cs : List Choice) :
    let s := run (init f t v) cs
    s.started = true → s.cancelReq = false →
    s.saver.alive = true ∧ s.saveStarts = (List.range s.saveStarts.length).map fun k => s.t0 + k * interval := by
  intro s hst hc
  have hcad : CadInv s := cad_run _ cs (inv_init f t v) (cad_init f t v)
  obtain ⟨hp, hm⟩ := hcad.2 hst hc
  refine ⟨?_, hp⟩
  cases hsv : s.saver <;> rw [hsv] at hm <;> first | rfl | exact hm.elim

/-- **Entering loads, then saves.**  Once the context is entered the file has been loaded and the
saver started (in that order), and — until `stop` cancels it — either the saver is about to run its
first save and no virtual time has passed since `start()`, or its first save began at the time of
`start()`. -/
theorem enter_loads_then_saves (f : Faults) (t v : Nat) (cs : List Choice) :
    let s := run (init f t v) cs
    s.entered = true →
    s.loaded = true ∧ s.started = true ∧
    (s.cancelReq = false → (s.saver = .notStarted ∧ s.now = s.t0) ∨ s.saveStarts.head? = some s.t0) := by
  intro s he
  have hl : LoadInv s := load_run _ cs (inv_init f t v) (by simp [LoadInv, init])
  have hst := hl.2 he
  refine ⟨hl.1 hst, hst, fun hc => ?_⟩
  have hcad : CadInv s := cad_run _ cs (inv_init f t v) (cad_init f t v)
  obtain ⟨hp, hm⟩ := hcad.2 hst hc
  cases hsv : s.saver with
  | notStarted => rw [hsv] at hm; exact Or.inl ⟨rfl, hm.2⟩
  | inSave ph => rw [hsv] at hm; right; rw [hp]; exact head_prog _ _ hm.2.1
  | sleeping w => rw [hsv] at hm; right; rw [hp]; exact head_prog _ _ hm.1
  | absent => rw [hsv] at hm; exact hm.elim
  | done => rw [hsv] at hm; exact hm.elim
  | cancelled => rw [hsv] at hm; exact hm.elim
  | failed => rw [hsv] at hm; exact hm.elim

/-- `await task` in `stop` never blocks for good: wherever the saver is when it is cancelled, at most
two of its steps finish it (and the main coroutine has not moved meanwhile). -/
theorem stop_never_blocks (f : Faults) (t v : Nat) (cs : List Choice) (b : Bool) :
    let s := run (init f t v) cs
    s.main = .stopAwait → s.saver.alive = true →
    (step (step s (.saver b)) (.saver b)).saver.alive = false ∧ (step (step s (.saver b)) (.saver b)).main = .stopAwait :=
  fun hm ha => saver_finishes _ b (inv_run _ cs (inv_init f t v)) hm ha

/-- From every reachable state some continuation of the schedule completes the context statement
(no deadlock: together with `exit_clean`, which covers *every* completing schedule). -/
theorem exit_completes (f : Faults) (t v : Nat) (cs : List Choice) :
    ∃ cs2, (run (init f t v) (cs ++ cs2)).main = .finished := by
  obtain ⟨cs2, h⟩ := completes _ (inv_run _ cs (inv_init f t v))
  exact ⟨cs2, by rw [run_append]; exact h⟩

/-! ### Other tasks change the registry, at any moment

`Choice.mutate` lets the registry change while the body runs.  In an application other tasks change it too - the
listener registers a node that presents itself or asks for an id, a node is dropped - and at ANY moment: during
`load`, while a periodic save is between two of its file operations, while `__aexit__` waits for the cancelled saver
or writes the final save.  `ChoiceC.churn` (Lemmas/LifecycleChurn.lean) is such a change, allowed in every state; the
theorems below quantify over all schedules with any number of them anywhere.  They hold because a save takes its
snapshot of the registry in ONE atomic block and no decision of either coroutine depends on the registry; a `save`
that suspends in the middle of its snapshot is a different system (the correspondence run drives registries of up to
254 nodes with a task that changes them at every loop iteration of entering, saving and leaving:
harness/props/churn.py). -/

/-- **Clean exit under churn.**  As `exit_clean`, for every schedule in which other tasks change the registry at
arbitrary moments: no task alive, disconnect attempted, the right exception (never the saver's `CancelledError`), and
the final save completed - the file then holds a registry version `w` that existed (`w ≤ reg`; versions only grow) -
unless the final save itself failed. -/
theorem churn_exit_clean (f : Faults) (t v : Nat) (cs : List ChoiceC)
    (hfin : (runC (init f t v) cs).main = .finished) :
    let s := runC (init f t v) cs
    s.saver.alive = false ∧
    (s.entered = true → s.disconnectTried = true) ∧
    (s.started = true →
      (s.finalSaveDone = true ∧ ∃ w, s.file = .holds w ∧ w ≤ s.reg) ∨ (f.finalSaveFails = true ∧ s.outcome = some .saveErr)) ∧
    s.outcome = expectedOutcome f ∧
    s.outcome ≠ some .cancelled := by
  intro s
  obtain ⟨hm, hsv, _, _, _, _, hst, hen, _, hdt, hfd, hout, _⟩ := ctl_runC f t v cs
  have hfin' : (run (init f t 0) (baseOf cs)).main = .finished := hm ▸ hfin
  obtain ⟨h1, h2, h3, h4, h5⟩ := exit_clean f t 0 (baseOf cs) hfin'
  have hfile : FileInv s := fileInv_runC f t v cs
  unfold FileInv at hfile
  rw [show s.main = .finished from hfin] at hfile
  refine ⟨hsv ▸ h1, fun he => hdt ▸ h2 (hen ▸ he), fun hs => ?_, hout ▸ h4, hout ▸ h5⟩
  rcases h3 (hst ▸ hs) with ⟨h6, _⟩ | ⟨h6, h7⟩
  · have hd : s.finalSaveDone = true := hfd ▸ h6
    exact Or.inl ⟨hd, s.fsnap, (hfile hd).2, (hfile hd).1⟩
  · exact Or.inr ⟨h6, hout ▸ h7⟩

/-- **The final save holds the registry as of exit, under churn.**  Take any moment after the body has ended and
before the final save's snapshot (`as`: the schedule up to there - the context is about to disconnect, or `stop` is
about to cancel the saver or is waiting for it) and any continuation `bs` that completes the statement with the final
save done.  The file then holds a registry version `w` with `reg(at that moment) ≤ w ≤ reg(at the end)`: a state the
registry really was in during the exit, no older than the registry as the body left it.  Without churn in `bs` the two
bounds coincide (`exit_clean`). -/
theorem churn_final_save_window (f : Faults) (t v : Nat) (as bs : List ChoiceC) :
    let s1 := runC (init f t v) as
    let s2 := runC (init f t v) (as ++ bs)
    (s1.main = .disconnect ∨ s1.main = .stopCancel ∨ s1.main = .stopAwait) →
    s2.main = .finished → s2.finalSaveDone = true →
    ∃ w, s2.file = .holds w ∧ s1.reg ≤ w ∧ w ≤ s2.reg := by
  intro s1 s2 hm1 hfin hd
  obtain ⟨hi1, hf1⟩ := fileInv_runC_from (init f t v) as (by rw [erase_init]; exact inv_init f t 0) (fileInv_init f t v)
  have he1 : ExitInv s1.reg s1 := by
    unfold ExitInv
    rcases hm1 with h | h | h <;> rw [h] <;> exact Nat.le_refl _
  have he2 : ExitInv s1.reg s2 := by
    show ExitInv s1.reg (runC (init f t v) (as ++ bs))
    rw [runC_append]
    exact exitInv_runC_from s1.reg s1 bs hi1 hf1 he1
  have hf2 : FileInv s2 := fileInv_runC f t v (as ++ bs)
  unfold ExitInv at he2
  unfold FileInv at hf2
  rw [show s2.main = .finished from hfin] at he2 hf2
  exact ⟨s2.fsnap, (hf2 hd).2, he2 hd, (hf2 hd).1⟩

/-- **The saver survives churn, and keeps its cadence.**  Whatever other tasks do to the registry and whenever, as
long as `stop` has not cancelled it the saver task is alive, its saves began exactly at `t0, t0 + I, t0 + 2I, …`, and
whenever it has nothing left to do at the current instant at least `⌊T / SAVE_INTERVAL⌋ + 1` saves have been started
within `[t0, t0 + T]` for every stretch `T` that has passed. -/
theorem churn_saver_survives (f : Faults) (t v : Nat) (cs : List ChoiceC) :
    let s := runC (init f t v) cs
    s.started = true → s.cancelReq = false →
    s.saver.alive = true ∧
    s.saveStarts = ((List.range s.saveStarts.length).map fun k => s.t0 + k * interval) ∧
    (saverRunnable s = false → ∀ T, s.t0 + T ≤ s.now → T / interval + 1 ≤ startsWithin s T) := by
  intro s hst hc
  obtain ⟨_, hsv, hcr, hnow, ht0, hss, hstd, _⟩ := ctl_runC f t v cs
  have hst' : (run (init f t 0) (baseOf cs)).started = true := hstd ▸ hst
  have hc' : (run (init f t 0) (baseOf cs)).cancelReq = false := hcr ▸ hc
  obtain ⟨h1, h2⟩ := saves_on_the_grid f t 0 (baseOf cs) hst' hc'
  refine ⟨hsv ▸ h1, ?_, fun hr T hT => ?_⟩
  · show s.saveStarts = _
    rw [hss, ht0]; exact h2
  · have hr' : saverRunnable (run (init f t 0) (baseOf cs)) = false := by
      unfold saverRunnable at hr ⊢
      rw [← hsv, ← hcr, ← hnow]; exact hr
    have := cadence f t 0 (baseOf cs) hst' hc' hr' T (by rw [← ht0, ← hnow]; exact hT)
    unfold startsWithin at this ⊢
    rw [hss, ht0]; exact this

/-! ### Non-vacuity: concrete schedules -/

/-- Another task adds a node while the saver is inside `write` of its entry save, one while `stop` waits for the
cancelled saver, one while the final save is inside `open`: the entry save wrote version 0, the final save's snapshot
(version 2) is what the file holds, and the registry has moved on to version 3. -/
example :
    let s := runC (init {})
      [.base .main, .base .main, .base .main, .base (.saver true), .base (.saver true), .churn, .base (.saver true),
       .base (.saver true), .base .main, .base .main, .base .main, .churn, .base (.saver true), .base .main, .churn,
       .base .main, .base .main, .base .main]
    s.main = .finished ∧ s.saver.alive = false ∧ s.finalSaveDone = true ∧ s.file = .holds 2 ∧ s.reg = 3 ∧
    s.outcome = none := by
  decide


/-- Exit before the saver first ran: the task is cancelled unstarted, the final save still happens. -/
example :
    let s := run (init {}) [.main, .main, .main, .main, .main, .main, .saver true, .main, .main, .main, .main]
    s.main = .finished ∧ s.saver = .cancelled ∧ s.saveStarts = [] ∧ s.finalSaveDone = true ∧ s.outcome = none := by
  decide

/-- Exit while the saver is inside `write`; the body raised and the disconnect failed. -/
example :
    let s := run (init { bodyRaises := true, disconnectFails := true })
      [.main, .main, .main, .saver true, .saver true, .mutate, .main, .main, .main, .saver false, .saver false,
       .main, .main, .main, .main]
    s.main = .finished ∧ s.saver = .cancelled ∧ s.file = .holds 1 ∧ s.reg = 1 ∧ s.outcome = some .disconnectErr := by
  decide

/-- The task running the context is cancelled while the saver is inside `write` (the registry was
changed in the body): disconnect, saver gone, final save of the changed registry, and the body's
cancellation propagates.  The hypotheses of `cancel_exit_clean` are satisfiable. -/
example :
    let s := run (init { bodyCancelled := true })
      [.main, .main, .main, .saver true, .saver true, .mutate, .main, .main, .main, .saver false, .saver false,
       .main, .main, .main, .main]
    s.main = .finished ∧ s.disconnectTried = true ∧ s.saver = .cancelled ∧ s.finalSaveDone = true ∧
    s.file = .holds 1 ∧ s.reg = 1 ∧ s.outcome = some .bodyCancel := by
  decide

/-- Cancelled body, then the disconnect fails: the disconnect's error replaces the cancellation; with
`bodyRaises` set as well the cancellation still wins over the body's own exception. -/
example :
    let sched : List Choice := [.main, .main, .main, .main, .main, .main, .saver true, .main, .main, .main, .main]
    (run (init { bodyCancelled := true, disconnectFails := true }) sched).outcome = some .disconnectErr ∧
    (run (init { bodyCancelled := true, bodyRaises := true }) sched).outcome = some .bodyCancel ∧
    (run (init { bodyCancelled := true, finalSaveFails := true }) sched).outcome = some .saveErr := by
  decide

/-- Connect fails while the saver sleeps. -/
example :
    let s := run (init { connectFails := true })
      [.main, .main, .saver true, .saver true, .saver true, .saver true, .tick 5, .main, .main, .saver true,
       .main, .main, .main, .main]
    s.main = .finished ∧ s.saver.alive = false ∧ s.entered = false ∧ s.outcome = some .connectErr ∧ s.finalSaveDone = true := by
  decide

/-- 2000 s in the body: saves at 0, 900 and 1800. -/
example :
    let s := run (init {})
      [.main, .main, .main, .saver true, .saver true, .saver true, .saver true, .tick 2000, .saver true, .saver true,
       .saver true, .saver true, .tick 2000, .saver true, .saver true, .saver true, .saver true, .tick 200]
    s.main = .body ∧ s.now = 2000 ∧ s.saveStarts = [0, 900, 1800] ∧ saverRunnable s = false ∧ startsWithin s 2000 = 3 := by
  decide

end AioMySensors.C16
