/-
C09 — No set command is lost when `send` races with the wake-up flush.

Model: `Model/Flush.lean` — a small-step system whose steps are the atomic blocks between the
suspension points of `_handle_sleep_buffer` (protocol 2.0/2.1/2.2) and of buffered `send` calls;
a schedule is a `List Choice` of any length; a choice whose task is not at that point is skipped.

Scope (stated in every theorem through `init`/`exec`): application tasks call
`gateway.send(message)` with default buffering for the one sleeping node that is being woken; one
listener task (flushes never overlap; any number of wakes may occur during the schedule); all
transport writes succeed (failures are C08).  Unbuffered sends race on the wire itself and are
outside the property as stated.

A *run* is: any schedule from the initial configuration, which must end with all senders done and
the listener idle (`Final`), followed by one more undisturbed wake (`finalWake`).

The theorems hold for ALL schedules: `inv_init`, `inv_step` (every scheduler choice), induction
over the schedule (`inv_exec`), then the three clauses of the property read off the invariant.
`lost_update_old` keeps the negative result for the loop before the repair (commit 78dd245).
-/
import AioMySensors.Lemmas.Flush

namespace AioMySensors.C09
open AioMySensors AioMySensors.Flush

/-- The invariant of the interleaving (`Lemmas/Flush.lean`); in the numbering of DESIGN §7 C09:

* J1 `bufLast`: every entry of the buffer is the last `send` for its key;
* J2 `lastKept`: the last `send` for a key is in the buffer, or it is the last thing written for
  that key; `inFlightLast` (between the wire append and the return of `write`, the written entry is
  the last thing on the wire — nothing else writes) is what makes the removal at `writeEnd` sound;
* J3 `snapBuf`: every key of the snapshot still has an entry in the buffer (only the flush removes,
  and only the key it has just written), so a stale snapshot value is never the last thing written;
* J4 `bufWF`, `snapKeys`: no duplicate keys in the buffer or in the snapshot;
* J5 `snapLog`, `wireLog` (and `bufLast`): snapshot, wire and buffer hold only objects from the send
  log, under the key and with the value they were sent with;
* J6 `wireNodup`, `pendingFresh`, `bufFresh`: no object is on the wire twice; objects still to be
  written are not on the wire; a buffered object is on the wire only while its own write is in
  flight;
* `logIds`, `logNodup`: identities in the send log are distinct and below the fresh counter. -/
abbrev Inv (s : State) : Prop := Flush.Inv s

/-- One scheduler step of the current code. -/
def Step (s : State) (c : Choice) (s' : State) : Prop := step s c = some s'

/-- All application tasks have made all their calls and the listener is back in `listen()`. -/
structure Final (s : State) : Prop where
  sendersDone : ∀ l ∈ s.senders, l = []
  listenerIdle : s.pc = .idle

/-- A complete run: the schedule, then the node wakes once more with nothing else running. -/
def run (cfg : Config) (sched : List Choice) : State := finalWake (exec (init cfg) sched)

/-! ### The invariant holds along every schedule -/

theorem inv_init (cfg : Config) : Inv (init cfg) := inv_initG cfg

/-- Every scheduler choice preserves the invariant. -/
theorem inv_step {s s' : State} {c : Choice} (h : Inv s) (hs : Step s c s') : Inv s' := inv_stepG h hs

theorem inv_exec {s : State} (h : Inv s) (sched : List Choice) : Inv (exec s sched) := inv_execG h sched

theorem inv_reachable (cfg : Config) (sched : List Choice) : Inv (exec (init cfg) sched) :=
  inv_exec (inv_init cfg) sched

/-- The final wake is itself a schedule, so a run is a reachable state. -/
theorem run_eq_exec (cfg : Config) (sched : List Choice) :
    run cfg sched = exec (init cfg) (sched ++ finalSchedule (exec (init cfg) sched)) := by
  simp only [run, finalWake, exec, execG_append]

theorem inv_run (cfg : Config) (sched : List Choice) : Inv (run cfg sched) := by
  rw [run_eq_exec]; exact inv_reachable cfg _

/-- An undisturbed wake of an idle listener writes the whole buffer, in dict order, each entry
once, and leaves the buffer empty; it sends nothing. -/
theorem final_wake_writes_buffer {s : State} (hq : s.pc = .idle) :
    (finalWake s).wire = s.wire ++ s.buf ∧ (finalWake s).log = s.log ∧ (finalWake s).pc = .idle :=
  ⟨(finalWake_spec hq).2.2.1, (finalWake_spec hq).2.2.2.1, (finalWake_spec hq).2.1⟩

theorem final_wake_empties {s : State} (_h : Inv s) (hq : s.pc = .idle) : (finalWake s).buf = [] :=
  (finalWake_spec hq).1

/-! ### Clause 1: the last value sent for each key is the last value written for it -/

/-- For every key, the last object written is the last object sent (both absent if nothing was
ever sent for that key). -/
theorem last_written_is_last_sent (cfg : Config) (sched : List Choice)
    (hf : Final (exec (init cfg) sched)) (k : Key) :
    lastWire k (run cfg sched) = lastSent k (run cfg sched) := by
  have hinv := inv_run cfg sched
  have hbuf : (run cfg sched).buf = [] := final_wake_empties (inv_reachable cfg sched) hf.listenerIdle
  simp only [lastWire, lastSent]
  cases hl : lastFor k (run cfg sched).log with
  | some e =>
    rcases hinv.lastKept k e hl with hb | hw
    · rw [hbuf] at hb; exact absurd hb (by simp)
    · exact hw
  | none =>
    cases hw : lastFor k (run cfg sched).wire with
    | none => rfl
    | some e =>
      obtain ⟨hmem, hk⟩ := lastFor_some hw
      obtain ⟨e', he'⟩ := lastFor_isSome_of_mem (hinv.wireLog e hmem) hk
      rw [hl] at he'; exact absurd he' (by simp)

/-- **No lost update.** For all schedules: once all tasks have finished and the node has woken once
more, for every key something was sent to, the last entry written for it is the last entry sent for
it — the same object, hence the same value. -/
theorem no_lost_update (cfg : Config) (sched : List Choice) (hf : Final (exec (init cfg) sched)) :
    ∀ k, sentTo k (run cfg sched) ≠ [] → lastWire k (run cfg sched) = lastSent k (run cfg sched) :=
  fun k _ => last_written_is_last_sent cfg sched hf k

/-- The same, spelled out: there *is* a last write for the key and it carries the last value. -/
theorem no_lost_update_value (cfg : Config) (sched : List Choice) (hf : Final (exec (init cfg) sched))
    (k : Key) (hs : sentTo k (run cfg sched) ≠ []) :
    ∃ e, lastSent k (run cfg sched) = some e ∧ lastWire k (run cfg sched) = some e ∧
      (sentTo k (run cfg sched)).getLast? = some e := by
  have hsome := List.getLast?_isSome.mpr hs
  obtain ⟨e, he⟩ := Option.isSome_iff_exists.mp hsome
  refine ⟨e, he, ?_, he⟩
  rw [last_written_is_last_sent cfg sched hf k]; exact he

/-- Nothing stays parked at the end of a run. -/
theorem nothing_left_parked (cfg : Config) (sched : List Choice) (hf : Final (exec (init cfg) sched)) :
    (run cfg sched).buf = [] :=
  final_wake_empties (inv_reachable cfg sched) hf.listenerIdle

/-! ### Clause 2: every write carries a value that was actually sent -/

/-- At every point of every schedule, every entry on the wire is an entry of the send log: written
under the key it was sent to, with the value it was sent with, and it is that very object. -/
theorem writes_were_sent (cfg : Config) (sched : List Choice) :
    ∀ e ∈ (exec (init cfg) sched).wire, e ∈ (exec (init cfg) sched).log :=
  (inv_reachable cfg sched).wireLog

theorem writes_were_sent_run (cfg : Config) (sched : List Choice) :
    ∀ e ∈ (run cfg sched).wire, e ∈ (run cfg sched).log :=
  (inv_run cfg sched).wireLog

/-! ### Clause 3: no value is written more often than it was sent -/

/-- At every point of every schedule: no object is written twice (identities on the wire are
duplicate-free), hence every object and every (key, value) pair occurs on the wire at most as
often as in the send log. -/
theorem written_at_most_as_often_as_sent (cfg : Config) (sched : List Choice) :
    let s := exec (init cfg) sched
    (s.wire.map (·.2.2)).Nodup ∧
    (∀ e, s.wire.count e ≤ s.log.count e) ∧
    (∀ k v, (s.wire.countP fun e => e.1 = k ∧ e.2.1 = v) ≤ (s.log.countP fun e => e.1 = k ∧ e.2.1 = v)) := by
  intro s
  have hinv : Inv s := inv_reachable cfg sched
  refine ⟨?_, ?_, ?_⟩
  · apply nodup_map_of_inj_on _ hinv.wireNodup
    intro a ha b hb hab
    exact inj_on_of_nodup_map _ hinv.logNodup a (hinv.wireLog a ha) b (hinv.wireLog b hb) hab
  · intro e
    simpa [List.count] using countP_le_of_nodup_subset (· == e) s.wire s.log hinv.wireNodup hinv.wireLog
  · intro k v
    exact countP_le_of_nodup_subset _ s.wire s.log hinv.wireNodup hinv.wireLog

theorem written_at_most_as_often_as_sent_run (cfg : Config) (sched : List Choice) :
    ((run cfg sched).wire.map (·.2.2)).Nodup ∧
    (∀ e, (run cfg sched).wire.count e ≤ (run cfg sched).log.count e) ∧
    (∀ k v, ((run cfg sched).wire.countP fun e => e.1 = k ∧ e.2.1 = v) ≤
      ((run cfg sched).log.countP fun e => e.1 = k ∧ e.2.1 = v)) := by
  rw [run_eq_exec]; exact written_at_most_as_often_as_sent cfg _

/-! ### The log is the record of the calls made -/

theorem popSender_length {ls ls' : List (List (Key × Val))} {i : Nat} {kv : Key × Val}
    (h : popSender ls i = some (kv, ls')) : (ls.map List.length).sum = (ls'.map List.length).sum + 1 := by
  induction ls generalizing i ls' kv with
  | nil => simp [popSender] at h
  | cons l t ih =>
    cases i with
    | zero =>
      cases l with
      | nil => simp [popSender] at h
      | cons x r =>
        simp only [popSender, Option.some.injEq, Prod.mk.injEq] at h
        obtain ⟨_, rfl⟩ := h
        simp only [List.map_cons, List.sum_cons, List.length_cons]; omega
    | succ j =>
      simp only [popSender] at h
      split at h
      · rename_i kv' t' hp
        simp only [Option.some.injEq, Prod.mk.injEq] at h
        obtain ⟨_, rfl⟩ := h
        have := ih hp
        simp only [List.map_cons, List.sum_cons]; omega
      · exact absurd h (by simp)

/-- Every call made is logged exactly once: completed sends plus outstanding calls is constant. -/
theorem calls_accounted {s s' : State} {c : Choice} (hs : Step s c s') :
    s'.log.length + (s'.senders.map List.length).sum = s.log.length + (s.senders.map List.length).sum := by
  cases c with
  | send i =>
    simp only [Step, step, stepG] at hs
    split at hs
    · rename_i kv rest hp
      simp only [Option.some.injEq] at hs
      subst hs
      have := popSender_length hp
      simp only [park, List.length_append, List.length_cons, List.length_nil]
      omega
    · simp at hs
  | wakeStart =>
    simp only [Step, step, stepG] at hs
    split at hs
    · simp only [Option.some.injEq] at hs; subst hs; rfl
    · simp at hs
  | writeBegin =>
    simp only [Step, step, stepG] at hs
    split at hs
    · simp only [Option.some.injEq] at hs; subst hs; rfl
    · simp at hs
  | wireAppend =>
    simp only [Step, step, stepG] at hs
    split at hs
    · simp only [Option.some.injEq] at hs; subst hs; rfl
    · simp at hs
  | writeEnd =>
    simp only [Step, step, stepG] at hs
    split at hs
    · simp only [Option.some.injEq] at hs; subst hs; rfl
    · simp at hs

theorem calls_accounted_exec (s : State) (sched : List Choice) :
    (exec s sched).log.length + ((exec s sched).senders.map List.length).sum =
      s.log.length + (s.senders.map List.length).sum := by
  induction sched generalizing s with
  | nil => rfl
  | cons c cs ih =>
    simp only [exec, execG]
    cases hs : stepG popIfSame s c with
    | none => exact ih s
    | some s' =>
      have := ih s'
      simp only [exec] at this
      rw [Option.getD_some, this]
      exact calls_accounted hs

theorem init_log (cfg : Config) :
    (init cfg).log.length = cfg.parked.length ∧ (init cfg).senders = cfg.senders := by
  have : ∀ (l : List (Key × Val)) (s : State),
      (l.foldl park s).log.length = s.log.length + l.length ∧ (l.foldl park s).senders = s.senders := by
    intro l
    induction l with
    | nil => intro s; exact ⟨rfl, rfl⟩
    | cons kv t ih =>
      intro s
      have := ih (park s kv)
      simp only [List.foldl_cons, List.length_cons]
      refine ⟨?_, this.2⟩
      rw [this.1]
      simp only [park, List.length_append, List.length_cons, List.length_nil]
      omega
  have := this cfg.parked { senders := cfg.senders }
  simpa [init] using this

/-- At the end of a run the send log holds every call of the configuration: the parked commands
and every call of every application task. -/
theorem all_calls_logged (cfg : Config) (sched : List Choice) (hf : Final (exec (init cfg) sched)) :
    (run cfg sched).log.length = cfg.parked.length + (cfg.senders.map List.length).sum := by
  have h1 := calls_accounted_exec (init cfg) sched
  have hz : ((exec (init cfg) sched).senders.map List.length).sum = 0 := by
    have : ∀ ls : List (List (Key × Val)), (∀ l ∈ ls, l = []) → (ls.map List.length).sum = 0 := by
      intro ls
      induction ls with
      | nil => intro _; rfl
      | cons l t ih =>
        intro h
        have hl := h l List.mem_cons_self
        subst hl
        simpa using ih fun l hl => h l (List.mem_cons_of_mem _ hl)
    exact this _ hf.sendersDone
  rw [run, (final_wake_writes_buffer hf.listenerIdle).2.1]
  rw [(init_log cfg).1, (init_log cfg).2, hz] at h1
  omega

/-! ### The loop before the repair loses an update -/

def k₀ : Key := (1, 0, 2)
/-- One command parked; one task about to send a new value for the same key. -/
def witnessCfg : Config := { parked := [(k₀, ['0'])], senders := [[(k₀, ['1'])]] }
/-- Snapshot `{k: old}`; the listener enters the write of `old`; the bytes go out; the
application sends `(k, new)`; the write returns and the key is popped. -/
def witnessSched : List Choice := [.wakeStart, .writeBegin, .wireAppend, .send 0, .writeEnd]

/-- With the unconditional `pop` (before commit 78dd245) the new value is removed unwritten: after
the final wake the last value written for the key is the old one. -/
theorem lost_update_old :
    ∃ (cfg : Config) (sched : List Choice) (k : Key),
      let s := finalWakeOld (execOld (init cfg) sched)
      Final (execOld (init cfg) sched) ∧ sentTo k s ≠ [] ∧
        lastWire k s = some (k, ['0'], 0) ∧ lastSent k s = some (k, ['1'], 1) ∧ lastWire k s ≠ lastSent k s :=
  ⟨witnessCfg, witnessSched, k₀, ⟨by decide, by decide⟩, by decide, by decide, by decide, by decide⟩

/-- The same schedule on the repaired loop: the new value stays parked and the next wake writes it. -/
example : (run witnessCfg witnessSched).wire = [(k₀, ['0'], 0), (k₀, ['1'], 1)] := by decide
example : (exec (init witnessCfg) witnessSched).buf = [(k₀, ['1'], 1)] := by decide

/-! ### Non-vacuity: a schedule with overwrites during the flush's write -/

def k₁ : Key := (1, 1, 2)
def k₂ : Key := (1, 0, 49)

/-- Two commands parked; task 0 overwrites the first key while the listener is inside the write
for that key; task 1 overwrites the second key while it is still waiting in the snapshot and then
sends to a third key after the flush. -/
def demoCfg : Config :=
  { parked := [(k₀, ['a']), (k₁, ['b'])], senders := [[(k₀, ['c'])], [(k₁, ['d']), (k₂, ['e'])]] }
def demoSched : List Choice :=
  [.wakeStart, .writeBegin, .send 0, .wireAppend, .send 1, .writeEnd,
   .writeBegin, .wireAppend, .writeEnd, .send 1]

example : Final (exec (init demoCfg) demoSched) := ⟨by decide, by decide⟩
/-- The flush wrote the two snapshot values (the second one stale) and removed nothing. -/
example : (exec (init demoCfg) demoSched).wire = [(k₀, ['a'], 0), (k₁, ['b'], 1)] := by decide
example : (exec (init demoCfg) demoSched).buf = [(k₀, ['c'], 2), (k₁, ['d'], 3), (k₂, ['e'], 4)] := by decide
/-- The final wake delivers the three latest values. -/
example : (run demoCfg demoSched).wire =
    [(k₀, ['a'], 0), (k₁, ['b'], 1), (k₀, ['c'], 2), (k₁, ['d'], 3), (k₂, ['e'], 4)] := by decide
example : sentTo k₀ (run demoCfg demoSched) ≠ [] := by decide
example : lastWire k₁ (run demoCfg demoSched) = some (k₁, ['d'], 3) := by decide

/-! ### One flush at a time

The theorems above speak about ONE listener that awaits the flush inline.  What that means for a wake line that
arrives while a write of a flush is suspended is stated here (the correspondence run `flushoverlap` feeds such lines
to the real listener and judges the write log). -/

/-- While the listener is inside a flush, a further wake is not taken: the line stays in the transport's input. -/
theorem wake_waits_for_flush {s : State} (h : s.pc ≠ .idle) : step s .wakeStart = none := by
  cases hp : s.pc with
  | idle => exact absurd hp h
  | flushing snap w => simp [step, stepG, hp]

/-- A wake that arrives during a flush starts nothing: the schedule with it is the schedule without it, so the
flushes of the node never overlap (a second snapshot is never taken while the first one is being written). -/
theorem wake_during_flush_is_skipped {s : State} (h : s.pc ≠ .idle) (cs : List Choice) :
    exec s (.wakeStart :: cs) = exec s cs := by
  have h0 : stepG popIfSame s .wakeStart = none := wake_waits_for_flush h
  show execG popIfSame ((stepG popIfSame s .wakeStart).getD s) cs = execG popIfSame s cs
  rw [h0]
  rfl

/-- A snapshot is only ever taken by an idle listener, and it is the whole buffer at that moment. -/
theorem snapshot_only_when_idle {s s' : State} (hs : Step s .wakeStart s') :
    s.pc = .idle ∧ s'.pc = nextPc s.buf ∧ s'.buf = s.buf ∧ s'.wire = s.wire := by
  unfold Step at hs
  simp only [step, stepG] at hs
  split at hs
  · next hp =>
    cases hs
    exact ⟨hp, rfl, rfl, rfl⟩
  · cases hs

end AioMySensors.C09
