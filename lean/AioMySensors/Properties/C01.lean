/-
C01 — Wire codec round trip: encode then decode returns the same message.

`encode` models `MessageSchema.dump`, `decode` models `MessageSchema.load` (Model/Codec.lean); both read
the delimiter, terminator, ranges and cross-field constants from the generated tables, so the
theorems below are re-checked against what the code says on every run.
-/
import AioMySensors.Lemmas.Codec

namespace AioMySensors.C01
open AioMySensors

/-- The messages C01 quantifies over: ids 0-255, command 0-4, ack 0/1, the cross-field rules, any
integer type (within the interpreter's `int`/`str` digit limit), and a payload without trailing
whitespace.  Payloads may contain the `;` delimiter. -/
structure WF (m : Msg) : Prop where
  fields : WellFormedFields m.node m.child m.cmd m.ack m.type
  typeDigits : digitCount m.type ≤ Gen.pyMaxStrDigits
  stripped : rstrip m.payload = m.payload

/-- The encoded form is exactly `node;child;command;ack;type;payload` plus one newline. -/
theorem encode_shape (m : Msg) :
    encode m = dec m.node ++ ';' :: (dec m.child ++ ';' :: (dec m.cmd ++ ';' :: (dec m.ack ++ ';' ::
      (dec m.type ++ ';' :: (m.payload ++ ['\n']))))) := rfl

/-- A payload free of line terminators gives exactly one newline, at the end. -/
theorem encode_single_newline (m : Msg) (h : '\n' ∉ m.payload) :
    (encode m).count '\n' = 1 ∧ (encode m).getLast? = some '\n' := by
  have hd : ∀ n : Int, (dec n).count '\n' = 0 := by
    intro n
    apply List.count_eq_zero.mpr
    intro hc
    rcases mem_dec hc with h | h <;> revert h <;> decide
  have hp : m.payload.count '\n' = 0 := List.count_eq_zero.mpr h
  constructor
  · simp [encode_shape, List.count_append, hd, hp]
  · have : encode m = (dec m.node ++ ';' :: (dec m.child ++ ';' :: (dec m.cmd ++ ';' :: (dec m.ack ++ ';' ::
        (dec m.type ++ ';' :: m.payload))))) ++ ['\n'] := by simp [encode_shape]
    rw [this, List.getLast?_concat]

theorem rstrip_encode (m : Msg) (h : rstrip m.payload = m.payload) :
    rstrip (encode m) = dec m.node ++ Gen.delimiter :: (dec m.child ++ Gen.delimiter ::
      (dec m.cmd ++ Gen.delimiter :: (dec m.ack ++ Gen.delimiter :: (dec m.type ++ Gen.delimiter :: m.payload)))) := by
  simp only [rstrip, encode] at *
  rw [dropTrailing_append_keep _ _ _ _ delimiter_not_space, dropTrailing_append_keep _ _ _ _ delimiter_not_space,
    dropTrailing_append_keep _ _ _ _ delimiter_not_space, dropTrailing_append_keep _ _ _ _ delimiter_not_space,
    dropTrailing_append_keep _ _ _ _ delimiter_not_space, dropTrailing_snoc_of _ _ _ terminator_space, h]

theorem small_digits {n : Int} (h0 : 0 ≤ n) (h1 : n ≤ 255) : digitCount n ≤ Gen.pyMaxStrDigits := by
  have : digitCount n ≤ 3 := digitCount_le_of_lt (by decide) (by omega)
  have : 3 ≤ Gen.pyMaxStrDigits := by decide
  omega

/-- **Round trip.** For every protocol version and every well-formed message, decoding the encoded
line yields the same message — payloads containing `;` included. -/
theorem decode_encode (v : Ver) (m : Msg) (h : WF m) : decode v (encode m) = some m := by
  obtain ⟨hn0, hn1, hc0, hc1, hk0, hk1, hack, hx1, hx2⟩ := h.fields
  have hack' : 0 ≤ m.ack ∧ m.ack ≤ 255 := by omega
  simp only [decode, rstrip_encode m h.stripped]
  rw [splitN_field _ _ _ _ (delimiter_not_mem_dec _), splitN_field _ _ _ _ (delimiter_not_mem_dec _),
    splitN_field _ _ _ _ (delimiter_not_mem_dec _), splitN_field _ _ _ _ (delimiter_not_mem_dec _),
    splitN_field _ _ _ _ (delimiter_not_mem_dec _), splitN_zero]
  simp only [pyInt?_dec _ (small_digits hn0 hn1), pyInt?_dec _ (small_digits hc0 hc1),
    pyInt?_dec _ (small_digits hk0 (by omega)), pyInt?_dec _ (small_digits hack'.1 hack'.2),
    pyInt?_dec _ h.typeDigits, (fieldsOK_iff v _ _ _ _ _).mpr h.fields, if_true]

/-- The numeric fields of `l` are spelled in plain decimal form (what `str(int)` prints). -/
def Canonical (l : Str) (m : Msg) : Prop :=
  ∃ p, splitN Gen.delimiter 5 (rstrip l) = [dec m.node, dec m.child, dec m.cmd, dec m.ack, dec m.type, p]

/-- **Re-encoding.** Decoding a line whose numeric fields are in plain decimal form and encoding the
result reproduces the line up to trailing whitespace. -/
theorem encode_decode (v : Ver) (l : Str) (m : Msg) (h : decode v l = some m) (hc : Canonical l m) :
    encode m = rstrip l ++ [Gen.terminator] := by
  obtain ⟨p, hp⟩ := hc
  have hj := joinWith_splitN Gen.delimiter 5 (rstrip l)
  simp only [decode, hp] at h
  split at h
  · split at h
    · simp only [Option.some.injEq] at h
      subst h
      rw [hp] at hj
      simp only [joinWith] at hj
      simp [encode, ← hj]
    · exact absurd h (by simp)
  · exact absurd h (by simp)

/-! What one `Transport.write` may carry (`Gateway.send` vs transport write, also when several sends are on their way at
once): a text made of the encodings of `k` messages has `k` newlines, so it is the one-line form iff `k = 1`, and then it
is the encoding of that very message. -/

/-- A text made of the encodings of the messages `ms` (payloads free of line terminators), one after the other,
contains exactly as many newlines as there are messages. -/
theorem joined_newlines (ms : List Msg) (h : ∀ m ∈ ms, '\n' ∉ m.payload) :
    (ms.flatMap encode).count '\n' = ms.length := by
  induction ms with
  | nil => rfl
  | cons m ms ih =>
    have h1 := (encode_single_newline m (h m (List.mem_cons_self ..))).1
    have h2 := ih (fun x hx => h x (List.mem_cons_of_mem _ hx))
    simp only [List.flatMap_cons, List.count_append, h1, h2, List.length_cons]
    omega

/-- Two (or more) encoded messages in one text are never "exactly one line". -/
theorem joined_not_one_line (a b : Msg) (rest : List Msg) (h : ∀ m ∈ a :: b :: rest, '\n' ∉ m.payload) :
    ((a :: b :: rest).flatMap encode).count '\n' ≠ 1 := by
  rw [joined_newlines _ h]
  simp

/-- **One write, one message.** If a text made of the encodings of the well-formed messages `ms` is the one-line form
of a well-formed message `m`, then `ms` is `m` alone: a write that carries anything but the encoding of exactly the
message being sent cannot decode back to it. -/
theorem one_write_one_message (ms : List Msg) (m : Msg) (hms : ∀ x ∈ ms, WF x ∧ '\n' ∉ x.payload)
    (hm : WF m) (hnl : '\n' ∉ m.payload) (h : ms.flatMap encode = encode m) : ms = [m] := by
  have hc := joined_newlines ms (fun x hx => (hms x hx).2)
  rw [h, (encode_single_newline m hnl).1] at hc
  match ms, hms, h, hc with
  | [x], hms, h, _ =>
    have hx : WF x := (hms x (List.mem_singleton_self x)).1
    have e : encode x = encode m := by simpa using h
    have d := decode_encode .v22 x hx
    rw [e, decode_encode .v22 m hm] at d
    simp only [Option.some.injEq] at d
    rw [d]
  | [], _, _, hc => simp at hc
  | _ :: _ :: _, _, _, hc => simp at hc

example : ((([⟨1, 1, 1, 0, 2, "1".toList⟩, ⟨2, 7, 1, 1, 3, "55".toList⟩] : List Msg).flatMap encode).count '\n') = 2 := by
  decide

/-! Non-vacuity: concrete messages that satisfy `WF`. -/

/-- A `V_POSITION`-style payload containing the delimiter. -/
example : WF ⟨1, 2, 1, 0, 49, "55.7;13.0;18".toList⟩ :=
  ⟨by decide, by decide, by decide⟩

/-- The id-request exception: internal command, child 5. -/
example : WF ⟨255, 5, 3, 0, 3, []⟩ := ⟨by decide, by decide, by decide⟩

/-- A negative type number and the broadcast node. -/
example : WF ⟨255, 255, 3, 1, -5, "x y".toList⟩ := ⟨by decide, by decide, by decide⟩

example : decode .v22 (encode ⟨1, 2, 1, 0, 49, "55.7;13.0;18".toList⟩) = some ⟨1, 2, 1, 0, 49, "55.7;13.0;18".toList⟩ := by
  decide

end AioMySensors.C01
