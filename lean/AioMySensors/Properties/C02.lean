/-
C02 — The decoder accepts exactly the well-formed lines and decodes them literally.

"Integer" means what the code implements: CPython's `int(str)` (`pyInt?`, Model/PyNum.lean).
Rejection is the single outcome `none` of `decode` (marshmallow `ValidationError`, which
`Gateway.listen` reports as `InvalidMessageError`); that no *other* failure exists in the code is
what the correspondence run checks on the malformed stream.
-/
import AioMySensors.Lemmas.Codec

namespace AioMySensors.C02
open AioMySensors

/-- The property's acceptance condition: at least six `;`-separated fields (the sixth being the
rest of the line), the first five integers that satisfy the ranges and cross-field rules, and the
decoded message carrying exactly the values the line spells. -/
def Accepts (l : Str) (m : Msg) : Prop :=
  ∃ f0 f1 f2 f3 f4, splitN ';' 5 (rstrip l) = [f0, f1, f2, f3, f4, m.payload] ∧
    pyInt? f0 = some m.node ∧ pyInt? f1 = some m.child ∧ pyInt? f2 = some m.cmd ∧
    pyInt? f3 = some m.ack ∧ pyInt? f4 = some m.type ∧
    WellFormedFields m.node m.child m.cmd m.ack m.type

/-- **Exact accept set.** For every version, `decode` succeeds with `m` iff the line is
well-formed in the property's words and spells the values of `m`. -/
theorem decode_ok_iff (v : Ver) (l : Str) (m : Msg) : decode v l = some m ↔ Accepts l m := by
  have hd : Gen.delimiter = ';' := by decide
  constructor
  · intro h
    simp only [decode, hd] at h
    split at h
    · next f0 f1 f2 f3 f4 f5 hs =>
      split at h
      · next node child cmd ack type h0 h1 h2 h3 h4 =>
        split at h
        · next hok =>
          simp only [Option.some.injEq] at h
          subst h
          exact ⟨f0, f1, f2, f3, f4, hs, h0, h1, h2, h3, h4, (fieldsOK_iff v _ _ _ _ _).mp hok⟩
        · exact absurd h (by simp)
      · exact absurd h (by simp)
    · exact absurd h (by simp)
  · rintro ⟨f0, f1, f2, f3, f4, hs, h0, h1, h2, h3, h4, hwf⟩
    simp only [decode, hd, hs, h0, h1, h2, h3, h4, (fieldsOK_iff v _ _ _ _ _).mpr hwf, if_true]

/-- Fewer than six `;`-separated fields: rejected, whatever the fields are. -/
theorem short_lines_rejected (v : Ver) (l : Str) (h : (splitOn ';' (rstrip l)).length < 6) :
    decode v l = none := by
  have hd : Gen.delimiter = ';' := by decide
  have hlen := splitN_length ';' 5 (rstrip l)
  simp only [decode, hd]
  split
  · next hs => rw [hs] at hlen; simp at hlen; omega
  · rfl

/-- Six or more fields are necessary and, with the other conditions, sufficient: the split the
decoder uses has exactly six entries iff the line has at least six `;`-separated fields. -/
theorem six_fields_iff (l : Str) :
    (splitN ';' 5 (rstrip l)).length = 6 ↔ 6 ≤ (splitOn ';' (rstrip l)).length := by
  rw [splitN_length]; omega

/-- The payload of an accepted line is everything after the fifth delimiter, delimiters included:
joining the decoder's six fields gives back the stripped line. -/
theorem accepted_fields_spell_line (l : Str) (m : Msg) (h : Accepts l m) :
    ∃ f0 f1 f2 f3 f4, rstrip l = f0 ++ ';' :: (f1 ++ ';' :: (f2 ++ ';' :: (f3 ++ ';' :: (f4 ++ ';' :: m.payload)))) := by
  obtain ⟨f0, f1, f2, f3, f4, hs, _⟩ := h
  refine ⟨f0, f1, f2, f3, f4, ?_⟩
  have := joinWith_splitN ';' 5 (rstrip l)
  rw [hs] at this
  simpa [joinWith] using this.symm

/-- Every rejection reason of the property, one by one (each makes `Accepts` impossible). -/
theorem rejects_out_of_range (v : Ver) (l : Str) (m : Msg) (h : decode v l = some m) :
    0 ≤ m.node ∧ m.node ≤ 255 ∧ 0 ≤ m.child ∧ m.child ≤ 255 ∧ 0 ≤ m.cmd ∧ m.cmd ≤ 4 ∧ (m.ack = 0 ∨ m.ack = 1) := by
  obtain ⟨_, _, _, _, _, _, _, _, _, _, _, hwf⟩ := (decode_ok_iff v l m).mp h
  obtain ⟨a, b, c, d, e, f, g, _, _⟩ := hwf
  exact ⟨a, b, c, d, e, f, g⟩

theorem system_commands_address_child_255 (v : Ver) (l : Str) (m : Msg) (h : decode v l = some m)
    (hc : m.cmd = 3 ∨ m.cmd = 4) : m.child = 255 ∨ (m.cmd = 3 ∧ (m.type = 3 ∨ m.type = 4)) := by
  obtain ⟨_, _, _, _, _, _, _, _, _, _, _, hwf⟩ := (decode_ok_iff v l m).mp h
  exact hwf.2.2.2.2.2.2.2.1 hc

theorem child_255_never_set_or_req (v : Ver) (l : Str) (m : Msg) (h : decode v l = some m)
    (hc : m.child = 255) : m.cmd ≠ 1 ∧ m.cmd ≠ 2 := by
  obtain ⟨_, _, _, _, _, _, _, _, _, _, _, hwf⟩ := (decode_ok_iff v l m).mp h
  exact hwf.2.2.2.2.2.2.2.2 hc

/-! ### The decoder has no memory

What a line decodes to is a function of the line's text: not of the protocol version, and not of anything that
happened before - other lines decoded, or whatever the application did with the messages it got for them (in the
model a `Msg` is a value; the implementation's `Message` is an object with writable attributes, and the correspondence
run's returned-object histories, harness/props/codec_aliasing.py, assign to, send and dump earlier results between
decodes of equal and similar lines and compare every decode with `decode`). -/

/-- **One line spells one message**: the acceptance condition determines the decoded values. -/
theorem accepts_functional (l : Str) (m m' : Msg) (h : Accepts l m) (h' : Accepts l m') : m = m' := by
  have a := (decode_ok_iff .v14 l m).mpr h
  have b := (decode_ok_iff .v14 l m').mpr h'
  rw [a] at b
  exact Option.some.inj b

/-- **Equal lines decode equally under every protocol version** (the accept set and the decoded values do not
mention the version: two schemas or gateways under different versions agree on every line). -/
theorem decode_version_free (v v' : Ver) (l : Str) : decode v l = decode v' l := by
  cases h : decode v l with
  | some m => exact ((decode_ok_iff v' l m).mpr ((decode_ok_iff v l m).mp h)).symm
  | none =>
    cases h' : decode v' l with
    | none => rfl
    | some m' =>
      have := (decode_ok_iff v l m').mpr ((decode_ok_iff v' l m').mp h')
      rw [h] at this
      exact absurd this (by simp)

/-- **No history**: the result for the last line of a stream is the result for that line alone - whatever lines
were decoded before it, under whatever versions, and in any other stream that ends with the same text. -/
theorem decode_history_free (before before' : List (Ver × Str)) (v v' : Ver) (l : Str) :
    ((before ++ [(v, l)]).map fun p => decode p.1 p.2).getLast? =
      ((before' ++ [(v', l)]).map fun p => decode p.1 p.2).getLast? := by
  simp only [List.map_append, List.map_cons, List.map_nil, List.getLast?_append, List.getLast?_singleton,
    Option.some_or]
  rw [decode_version_free v v' l]

/-! Non-vacuity and the boundary cases of the statement, evaluated on the model. -/

example : decode .v14 "1;5;3;0;3;\n".toList = some ⟨1, 5, 3, 0, 3, []⟩ := by decide
example : decode .v22 "1;5;3;0;0;0\n".toList = none := by decide
example : decode .v20 "1;255;1;0;0;0\n".toList = none := by decide
example : decode .v20 "1;2".toList = none := by decide
example : decode .v20 "".toList = none := by decide
example : decode .v15 "256;0;0;0;0;0".toList = none := by decide
example : decode .v21 " 1;+2;1;0;4_9;a;b".toList = some ⟨1, 2, 1, 0, 49, "a;b".toList⟩ := by decide
example : Accepts "1;2;1;0;49;55.7;13.0;18\n".toList ⟨1, 2, 1, 0, 49, "55.7;13.0;18".toList⟩ :=
  (decode_ok_iff .v22 _ _).mp (by decide)

end AioMySensors.C02
