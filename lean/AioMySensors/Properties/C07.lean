/-
C07 — Sleep buffer: commands for a sleeping node wait for its wake, then go once.

Parking is `gwSend` for a `set` command (`OutgoingMessageHandler.handle_set`), the release is
`flush` (`_handle_sleep_buffer`), the wake signals come from the generated chains.  The statement
is about what a wake releases (the latest *parked* value per key, once, that node only) and about
sends to nodes not known to be sleeping; it does not order parked against direct sends (a node's
re-presentation resets its `sleeping` flag while entries stay parked — DESIGN section 6).
-/
import AioMySensors.Lemmas.Flushing
import AioMySensors.Lemmas.StaysSleeping

namespace AioMySensors.C07
open AioMySensors M

/-- The destination is registered and flagged as sleeping. -/
def Sleeping (st : St) (n : Int) : Prop := ∃ node, st.nodes.get? n = some node ∧ node.sleeping = true

/-- **Parked, not written.** A set command sent with buffering allowed to a node known to be sleeping. -/
theorem send_parks (m : Msg) (w : W) (hcmd : m.cmd = 1) (hs : Sleeping w.st m.node) :
    apiSend (some m) true w = (.ok (), { w with st := { w.st with sbuf := w.st.sbuf.set m.key m } }) := by
  show gwSend m true w = _
  rw [gwSend_set m true w hcmd, if_pos ⟨rfl, hs⟩]

/-- **Written immediately and unchanged** otherwise (buffering off, or node unknown, or not sleeping). -/
theorem send_direct (m : Msg) (b : Bool) (w : W) (hcmd : m.cmd = 1) (h : b = false ∨ ¬ Sleeping w.st m.node) :
    apiSend (some m) b w = transportWrite (encode m) w := by
  show gwSend m b w = _
  rw [gwSend_set m b w hcmd, if_neg]
  rintro ⟨hb, hs⟩
  rcases h with h | h
  · rw [h] at hb; exact absurd hb (by simp)
  · exact h hs

theorem send_direct_writes (m : Msg) (b : Bool) (w : W) (hcmd : m.cmd = 1) (h : b = false ∨ ¬ Sleeping w.st m.node)
    (hf : w.faults = []) :
    apiSend (some m) b w = (.ok (), { w with writes := w.writes ++ [⟨encode m, true⟩] }) := by
  rw [send_direct m b w hcmd h, transportWrite_ok _ _ hf]

/-- **The latest value wins**: parking under a key replaces what was parked there. -/
theorem parked_value_is_latest (sbuf : PDict Key Msg) (m1 m2 : Msg) (h : m1.key = m2.key) :
    ((sbuf.set m1.key m1).set m2.key m2).get? m2.key = some m2 ∧
    ∀ k, k ≠ m2.key → ((sbuf.set m1.key m1).set m2.key m2).get? k = sbuf.get? k := by
  refine ⟨PDict.get?_set_self _ _ _, fun k hk => ?_⟩
  rw [PDict.get?_set_ne _ _ hk, h, PDict.get?_set_ne _ _ hk]

/-! ### Invariants of the sleep buffer along every history -/

/-- No key twice; every entry is a set command stored under its own key. -/
def SbufInv (st : St) : Prop := PDict.WF st.sbuf ∧ SbufSet st

def KeepsSbufInv : W → W → Prop := OnSt fun s s' => SbufInv s → SbufInv s'

theorem preO : PreO KeepsSbufInv := OnSt.preO (fun _ h => h) (fun h1 h2 h => h2 (h1 h))

theorem sbuf_same {f : St → St} (h : ∀ s, (f s).sbuf = s.sbuf) : Rel KeepsSbufInv (modifySt f) :=
  Rel.modifySt f fun s hs => by simpa [SbufInv, SbufSet, h s] using hs

theorem parksCmd_is_set {cmd : Int} (h : ParksCmd cmd) : cmd = 1 := by
  obtain ⟨v, hv⟩ := h
  rw [outgoing_table] at hv
  by_cases h0 : cmd = 0
  · subst h0; simp [List.lookup] at hv
  by_cases h1 : cmd = 1
  · exact h1
  by_cases h2 : cmd = 2
  · subst h2; simp [List.lookup] at hv
  by_cases h3 : cmd = 3
  · subst h3; simp [List.lookup] at hv
  by_cases h4 : cmd = 4
  · subst h4; simp [List.lookup] at hv
  have e0 : (cmd == 0) = false := by simpa using h0
  have e1 : (cmd == 1) = false := by simpa using h1
  have e2 : (cmd == 2) = false := by simpa using h2
  have e3 : (cmd == 3) = false := by simpa using h3
  have e4 : (cmd == 4) = false := by simpa using h4
  simp [List.lookup, e0, e1, e2, e3, e4] at hv

theorem park_keeps (sm : Msg) (hc : ParksCmd sm.cmd) : Rel KeepsSbufInv (parkMod sm) :=
  Rel.modifySt _ fun s hs => by
    refine ⟨PDict.wf_set hs.1 _ _, fun e he => ?_⟩
    rcases PDict.mem_set he with h | h
    · exact hs.2 e h
    · subst h; exact ⟨parksCmd_is_set hc, rfl⟩

theorem stepRel (m : Msg) : StepRel KeepsSbufInv m where
  pre := preO
  write := fun _ _ => Rel.transportWrite (fun _ h => h) _
  setNode := fun _ => sbuf_same fun _ => rfl
  alloc := sbuf_same fun _ => rfl
  erase := fun k bm _ => Rel.modifySt _ fun s hs => by
    split
    · exact ⟨PDict.wf_erase hs.1 _, fun e he => hs.2 e (PDict.mem_erase he)⟩
    · exact hs
  mark := sbuf_same fun _ => rfl
  unmark := sbuf_same fun s => by split <;> rfl
  version := fun _ _ => sbuf_same fun _ => rfl

theorem sbufInv_init : SbufInv {} := by simp [SbufInv, SbufSet, PDict.WF, PDict.keys]

theorem sbufInv_recv (env : Env) (line : Str) (w : W) (h : SbufInv w.st) : SbufInv (recv env line w).2.st :=
  (rel_recv preO (fun _ m _ => stepRel m) (fun _ _ _ sm hc => park_keeps sm hc) env).step w h

theorem sbufInv_send (obj : Option Msg) (b : Bool) (w : W) (h : SbufInv w.st) : SbufInv (apiSend obj b w).2.st :=
  (rel_apiSend preO (fun _ => Rel.transportWrite (fun _ h => h) _) park_keeps obj b).step w h

theorem sbufInv_history (ops : List Op) (st : St) (h : SbufInv st) : SbufInv (stateAfter st ops) := by
  induction ops generalizing st with
  | nil => simpa [stateAfter, run] using h
  | cons op ops ih =>
    have hstep : SbufInv (stepOp st op).1 := by
      cases op with
      | recv env line faults =>
        have := sbufInv_recv env line { st := st, faults := faults } h
        simp only [stepOp]; split <;> simp_all
      | send obj b faults =>
        have := sbufInv_send obj b { st := st, faults := faults } h
        simp only [stepOp]; split <;> simp_all
    simpa [stateAfter, run] using ih _ hstep

/-! ### The release -/

/-- **A wake releases exactly that node's parked commands, once each, in buffer order**, and
removes them; everything else in the buffer stays (no write faults). -/
theorem wake_releases (m : Msg) (w : W) (hinv : SbufInv w.st) (hf : w.faults = []) :
    flush m w = (.ok m, { w with
      writes := w.writes ++ (snapshotOf w.st m.node).map (fun e => ⟨encode e.2, true⟩),
      st := { w.st with sbuf := eraseAll w.st.sbuf ((snapshotOf w.st m.node).map (·.1)) } }) := by
  rw [flush_eq, flushList_nofault (snapshotOf w.st m.node) w hinv.1
    (fun e he => (hinv.2 e (List.mem_filter.mp he).1).1) (fun e he => (List.mem_filter.mp he).1)
    (snapshot_keys_nodup _ _ hinv.1) hf]

/-- What is left: exactly the entries of other nodes. -/
theorem after_wake_only_others (m : Msg) (w : W) (hinv : SbufInv w.st) (e : Key × Msg) :
    e ∈ eraseAll w.st.sbuf ((snapshotOf w.st m.node).map (·.1)) ↔ e ∈ w.st.sbuf ∧ e.2.node ≠ m.node := by
  rw [mem_eraseAll hinv.1]
  constructor
  · rintro ⟨h1, h2⟩
    refine ⟨h1, fun hn => h2 ?_⟩
    exact List.mem_map.mpr ⟨e, List.mem_filter.mpr ⟨h1, by simpa using hn⟩, rfl⟩
  · rintro ⟨h1, h2⟩
    refine ⟨h1, fun hk => ?_⟩
    obtain ⟨e', he', hkk⟩ := List.mem_map.mp hk
    obtain ⟨hm', hn'⟩ := List.mem_filter.mp he'
    obtain ⟨k, v⟩ := e
    obtain ⟨k', v'⟩ := e'
    simp only at hkk; subst hkk
    have := PDict.wf_mem_unique hinv.1 hm' h1
    subst this
    exact h2 (by simpa using hn')

/-- Each released command is written exactly once: the snapshot has no key twice and the lines
written are its entries. -/
theorem released_once (st : St) (n : Int) (hinv : SbufInv st) : ((snapshotOf st n).map (·.1)).Nodup :=
  snapshot_keys_nodup st n hinv.1

/-- **Wake signals (generated chains).** Heartbeat response releases in 2.0 and 2.1, pre-sleep
notification in 2.2; nothing releases before 2.0, and in 2.2 the heartbeat response does not. -/
theorem wake_signals (env : Env) (m : Msg) :
    (m.type = 22 → hInternal env .v20 m = wrapMissingNC hHeartbeat20 m ∧ hInternal env .v21 m = wrapMissingNC hHeartbeat20 m ∧
                   hInternal env .v22 m = wrapMissingNC hHeartbeat22 m ∧
                   hInternal env .v14 m = raise (.lib .unsupported) ∧ hInternal env .v15 m = raise (.lib .unsupported)) ∧
    (m.type = 32 → hInternal env .v22 m = wrapMissingNC hPreSleep22 m ∧
                   ∀ v, v ≠ .v22 → hInternal env v m = raise (.lib .unsupported)) := by
  constructor
  · intro h
    refine ⟨?_, ?_, ?_, ?_, ?_⟩ <;> rw [internal_heartbeat_response env _ m h]
  · intro h
    refine ⟨by rw [internal_pre_sleep env _ m h]; simp, fun v hv => ?_⟩
    rw [internal_pre_sleep env v m h]; simp [hv]

/-- The 2.0/2.1 wake: mark the node sleeping, record the heartbeat, release. -/
theorem heartbeat_wake (m : Msg) (w : W) (node : Node) (hb : Int) (hn : w.st.nodes.get? m.node = some node)
    (hp : pyInt? m.payload = some hb) :
    hHeartbeat20 m w =
      flush m { w with st := { w.st with nodes := w.st.nodes.set m.node { node with sleeping := true, heartbeat := hb } } } := by
  have : pyCaught .ValueError (clause Gen.excHeartbeat20 0) = true := by decide
  simp [hHeartbeat20, requireNode, M.bind, M.getSt, hn, M.pure, heartbeatValue, convertExn, hp, M.seq, setNode, M.modifySt]

/-- The 2.2 wake. -/
theorem pre_sleep_wake (m : Msg) (w : W) (node : Node) (hn : w.st.nodes.get? m.node = some node) :
    hPreSleep22 m w =
      flush m { w with st := { w.st with nodes := w.st.nodes.set m.node { node with sleeping := true } } } := by
  simp [hPreSleep22, requireNode, M.bind, M.getSt, hn, M.pure, M.seq, setNode, M.modifySt]

/-- In 2.2 the heartbeat response releases nothing. -/
theorem heartbeat22_no_release (m : Msg) (w : W) : (hHeartbeat22 m w).2.st.sbuf = w.st.sbuf ∧ (hHeartbeat22 m w).2.writes = w.writes := by
  simp only [hHeartbeat22, requireNode, M.bind, M.getSt, heartbeatValue, convertExn]
  cases hn : w.st.nodes.get? m.node with
  | none => simp [M.raise]
  | some node =>
    simp only [M.pure]
    cases hp : pyInt? m.payload with
    | none => by_cases hc : pyCaught .ValueError (clause Gen.excHeartbeat22 0) = true <;> simp [hc, M.raise]
    | some hb => simp [M.pure, M.seq, M.bind, setNode, M.modifySt]

/-- **Only that node's commands are touched**, whatever message from node `m.node` is handled, in any
version, with any faults: entries of other nodes are neither removed nor added by a receive. -/
def OthersKept (n : Int) : W → W → Prop := OnSt fun s s' => ∀ e : Key × Msg, e.2.node ≠ n → (e ∈ s'.sbuf ↔ e ∈ s.sbuf)

theorem othersKept_preO (n : Int) : PreO (OthersKept n) :=
  OnSt.preO (fun _ _ _ => Iff.rfl) (fun h1 h2 e he => (h2 e he).trans (h1 e he))

theorem others_sbuf_same (n : Int) {f : St → St} (h : ∀ s, (f s).sbuf = s.sbuf) : Rel (OthersKept n) (modifySt f) :=
  Rel.modifySt f fun s e _ => by simp [h s]

theorem othersKept_stepRel (m : Msg) : StepRel (OthersKept m.node) m where
  pre := othersKept_preO m.node
  write := fun _ _ => Rel.transportWrite (fun _ _ _ => Iff.rfl) _
  setNode := fun _ => others_sbuf_same _ fun _ => rfl
  alloc := others_sbuf_same _ fun _ => rfl
  erase := fun k bm hbm => Rel.modifySt _ fun s e he => by
    split
    · next hg =>
      constructor
      · exact PDict.mem_erase
      · intro h
        refine PDict.mem_erase_of_ne_entry hg h ?_
        intro e1; subst e1; exact he hbm
    · rfl
  mark := others_sbuf_same _ fun _ => rfl
  unmark := others_sbuf_same _ fun s => by split <;> rfl
  version := fun _ _ => others_sbuf_same _ fun _ => rfl

theorem reaction_flags_off : reactionFlags.all (fun b => !b) = true := by decide

theorem other_nodes_untouched (env : Env) (v : Ver) (m : Msg) (w : W) (e : Key × Msg) (he : e.2.node ≠ m.node) :
    e ∈ (dispatch env v m w).2.st.sbuf ↔ e ∈ w.st.sbuf :=
  (rel_dispatch (othersKept_stepRel m) (ParkOK.of_flags reaction_flags_off) env v).step w e he

/-! ### Held commands wait: nothing but the node's own wake signal takes them out of the buffer

The clause "wait for its wake" of the property.  `NoFlush v m` (`Lemmas/Rel.lean`) says that no handler `m` can
reach under protocol `v` — through the command chain, the handler named after its type, or the version handler of a
gateway presentation, all read from the generated tables — is one of the two releasing bodies.  For such a message the
whole receive path is traversed WITHOUT the `erase` obligation (`StepRel0`), with the relation "the sleep buffer is what
it was". -/

/-- The sleep buffer is left exactly as it was. -/
def KeepsSbuf : W → W → Prop := OnSt fun s s' => s'.sbuf = s.sbuf

theorem keepsSbuf_preO : PreO KeepsSbuf := OnSt.preO (fun _ => rfl) (fun h1 h2 => h2.trans h1)

theorem keepsSbuf_mod {f : St → St} (h : ∀ s, (f s).sbuf = s.sbuf) : Rel KeepsSbuf (modifySt f) :=
  Rel.modifySt f fun s => h s

theorem keepsSbuf_stepRel0 (m : Msg) : StepRel0 KeepsSbuf m where
  pre := keepsSbuf_preO
  write := fun _ _ => Rel.transportWrite (S := fun s s' => s'.sbuf = s.sbuf) (fun _ => rfl) _
  setNode := fun _ => keepsSbuf_mod fun _ => rfl
  alloc := keepsSbuf_mod fun _ => rfl
  mark := keepsSbuf_mod fun _ => rfl
  unmark := keepsSbuf_mod fun s => by split <;> rfl
  version := fun _ _ => keepsSbuf_mod fun _ => rfl

/-- **A message that reaches no releasing handler leaves the sleep buffer exactly as it was** — whatever it is
(presentation, re-presentation of the very node whose commands are held, set, req, any internal or stream type,
an id request, a version report), whatever the state, the outcome and the fault schedule. -/
theorem non_wake_keeps_sbuf (env : Env) (v : Ver) (m : Msg) (w : W) (hn : NoFlush v m) :
    (dispatch env v m w).2.st.sbuf = w.st.sbuf :=
  (rel_dispatch0 (keepsSbuf_stepRel0 m) (ParkOK.of_flags reaction_flags_off) env v hn).step w

/-- The wake signal of protocol `v`: an internal message of type heartbeat response (2.0, 2.1) or pre-sleep
notification (2.2). -/
def IsWake (v : Ver) (m : Msg) : Prop :=
  m.cmd = Gen.cmdInternal ∧ (((v = .v20 ∨ v = .v21) ∧ m.type = 22) ∨ (v = .v22 ∧ m.type = 32))

instance (v : Ver) (m : Msg) : Decidable (IsWake v m) := by unfold IsWake; exact inferInstance

/-- In the generated chains the releasing bodies sit under exactly the wake types. -/
theorem flushing_chain_types : ∀ v : Ver, ∀ e ∈ Gen.internalChains v, chainNoFlush e.2 = false →
    ((v = .v20 ∨ v = .v21) ∧ e.1 = 22) ∨ (v = .v22 ∧ e.1 = 32) := by decide

theorem stream_chains_no_flush : ∀ v : Ver, ∀ e ∈ Gen.streamChains v, chainNoFlush e.2 = true := by decide

theorem version_chain_no_flush : ∀ v : Ver, chainNoFlush (Gen.versionHandlerChain v) = true := by decide

theorem command_bases : ∀ v : Ver, ∀ e ∈ Gen.commandChains v,
    (e.2.base = .internal14 → e.1 = Gen.cmdInternal) ∧ flushing e.2.base = false := by decide

theorem lookup_mem {α β : Type} [BEq α] [LawfulBEq α] {l : List (α × β)} {a : α} {b : β} (h : l.lookup a = some b) :
    (a, b) ∈ l := by
  induction l with
  | nil => simp at h
  | cons x xs ih =>
    obtain ⟨a', b'⟩ := x
    simp only [List.lookup] at h
    split at h
    · next heq => simp only [Option.some.injEq] at h; subst h; simp [eq_of_beq heq]
    · exact List.mem_cons_of_mem _ (ih h)

/-- **Only a wake signal can reach a releasing handler.** -/
theorem noFlush_of_not_wake (v : Ver) (m : Msg) (h : ¬ IsWake v m) : NoFlush v m := by
  intro ch hch
  have hmem := lookup_mem hch
  have hb := command_bases v _ hmem
  cases hbase : ch.base <;> simp only [baseNoFlush]
  case presentation14 => exact version_chain_no_flush v
  case stream14 =>
    cases hl : (Gen.streamChains v).lookup m.type with
    | none => rfl
    | some o => exact stream_chains_no_flush v _ (lookup_mem hl)
  case internal14 =>
    have hcmd : m.cmd = Gen.cmdInternal := hb.1 hbase
    cases hl : (Gen.internalChains v).lookup m.type with
    | none => rfl
    | some o =>
      cases hnf : chainNoFlush o with
      | true => simpa [Option.join] using hnf
      | false =>
        exact absurd ⟨hcmd, flushing_chain_types v _ (lookup_mem hl) hnf⟩ h
  all_goals (have := hb.2; rw [hbase] at this; simp [this])

/-- One iteration of `listen` on a line that is not a wake signal under the active protocol: the buffer is untouched
(a rejected line included). -/
theorem recv_non_wake_keeps_sbuf (env : Env) (line : Str) (w : W)
    (h : ∀ m, decode w.st.proto line = some m → ¬ IsWake w.st.proto m) :
    (recv env line w).2.st.sbuf = w.st.sbuf := by
  simp only [recv, M.bind, M.getSt]
  cases hd : decode w.st.proto line with
  | none => rfl
  | some m => exact non_wake_keeps_sbuf env _ m w (noFlush_of_not_wake _ m (h m hd))

/-- A `send` changes at most the entry under the key of the message sent. -/
theorem send_keeps_other_keys (obj : Option Msg) (b : Bool) (w : W) (k : Key) (hk : ∀ m, obj = some m → m.key ≠ k) :
    (apiSend obj b w).2.st.sbuf.get? k = w.st.sbuf.get? k := by
  cases obj with
  | none => rfl
  | some m =>
    have hne : k ≠ m.key := fun h => hk m rfl h.symm
    have hw : ∀ l, (transportWrite l w).2.st = w.st := fun l => by simp only [transportWrite]; split <;> rfl
    simp only [apiSend, gwSend, M.bind, M.getSt]
    cases hl : (Gen.outgoingHandlers w.st.proto).lookup m.cmd with
    | none => rfl
    | some o =>
      cases o with
      | none => rfl
      | some ob =>
        cases ob with
        | direct => simp only [hw]
        | set14 =>
          cases hn : w.st.nodes.get? m.node with
          | none => simp only [hw]
          | some node =>
            by_cases hb : (b && node.sleeping) = true
            · simp [hb, M.modifySt, PDict.get?_set_ne _ _ hne]
            · have hb' : (b && node.sleeping) = false := by simpa using hb
              simp [hb', hw]

/-- An operation that can neither release nor replace the entry `(k, bm)`: a received line that is not the wake
signal of `bm`'s node under the protocol active when it arrives, or a `send` for another key. -/
def StepQuiet (k : Key) (n : Int) (st : St) : Op → Prop
  | .recv _ line _ => ∀ m, decode st.proto line = some m → ¬ (IsWake st.proto m ∧ m.node = n)
  | .send obj _ _ => ∀ m, obj = some m → m.key ≠ k

/-- … along a whole history, each operation judged in the state it meets. -/
def QuietAlong (k : Key) (n : Int) : St → List Op → Prop
  | _, [] => True
  | st, op :: ops => StepQuiet k n st op ∧ QuietAlong k n (stepOp st op).1 ops

theorem step_keeps_entry (k : Key) (bm : Msg) (st : St) (op : Op) (hinv : SbufInv st)
    (hheld : st.sbuf.get? k = some bm) (hq : StepQuiet k bm.node st op) :
    (stepOp st op).1.sbuf.get? k = some bm := by
  cases op with
  | send obj b faults =>
    have := send_keeps_other_keys obj b { st := st, faults := faults } k hq
    simp only [stepOp]
    split <;> next heq => (rw [heq] at this; simpa [hheld] using this)
  | recv env line faults =>
    have key : (recv env line { st := st, faults := faults }).2.st.sbuf.get? k = some bm := by
      by_cases hw : ∃ m, decode st.proto line = some m ∧ IsWake st.proto m
      · -- the wake signal of ANOTHER node: its flush touches only that node's entries
        obtain ⟨m, hd, hwk⟩ := hw
        have hne : bm.node ≠ m.node := fun h => hq m hd ⟨hwk, h.symm⟩
        have hmem : (k, bm) ∈ st.sbuf := PDict.get?_eq_some_mem hheld
        have h2 : (k, bm) ∈ (dispatch env st.proto m { st := st, faults := faults }).2.st.sbuf :=
          (other_nodes_untouched env st.proto m { st := st, faults := faults } (k, bm) hne).mpr hmem
        have hwf : PDict.WF (dispatch env st.proto m { st := st, faults := faults }).2.st.sbuf := by
          have := sbufInv_recv env line { st := st, faults := faults } hinv
          simp only [recv, M.bind, M.getSt, hd] at this
          exact this.1
        simp only [recv, M.bind, M.getSt, hd]
        exact PDict.get?_of_mem_wf hwf h2
      · have := recv_non_wake_keeps_sbuf env line { st := st, faults := faults }
          (fun m hd hwk => hw ⟨m, hd, hwk⟩)
        rw [this]; exact hheld
    simp only [stepOp]
    split <;> next heq => (rw [heq] at key; exact key)

/-- **Held until the wake.**  From any state satisfying the buffer invariant, along ANY history — lines of every
kind from every node (re-presentations of the destination included), wake signals of other nodes, rejected lines,
sends for other keys, arbitrary write faults and cancellations — in which the destination's own wake signal does not
arrive and no later `send` replaces the entry, the command held under `k` is still held, unchanged. -/
theorem held_until_wake (k : Key) (bm : Msg) (ops : List Op) (st : St) (hinv : SbufInv st)
    (hheld : st.sbuf.get? k = some bm) (hq : QuietAlong k bm.node st ops) :
    (stateAfter st ops).sbuf.get? k = some bm := by
  induction ops generalizing st with
  | nil => simpa [stateAfter, run] using hheld
  | cons op ops ih =>
    have h1 := step_keeps_entry k bm st op hinv hheld hq.1
    have hinv' : SbufInv (stepOp st op).1 := by
      have := sbufInv_history [op] st hinv
      simpa [stateAfter, run] using this
    have := ih (stepOp st op).1 hinv' h1 hq.2
    simpa [stateAfter, run] using this

/-! Non-vacuity of `QuietAlong`: a re-presentation of the very node whose command is held, followed by a `send` for
another key of that node, is a quiet history for the entry under `(1, 0, 2)` (protocol 2.0 active). -/
example : QuietAlong (1, 0, 2) 1 { proto := .v20 }
    [.recv {} "1;255;0;0;17;2.0".toList [], .send (some ⟨1, 0, 1, 0, 3, ['9']⟩) true []] := by
  refine ⟨?_, ?_, trivial⟩
  · intro m hd hw
    have hdec : decode .v20 "1;255;0;0;17;2.0".toList = some ⟨1, 255, 0, 0, 17, "2.0".toList⟩ := by decide
    rw [show ({ proto := .v20 } : St).proto = .v20 from rfl, hdec] at hd
    cases hd
    exact absurd hw.1.1 (by decide)
  · intro m hm
    cases hm
    decide

/-! ### A destination known to be sleeping stays one until it presents itself again

The property speaks of "a node known to be sleeping" and names one message per protocol that ends the waiting of its
commands — the wake signal, which releases them and leaves the node a sleeping destination.  Nothing else the node
sends (any other internal type, a set, a req, a child presentation, a stream message), nothing other nodes or the
gateway send, no `send` of the application clears the flag; only the node's own presentation does (a fresh record:
DESIGN section 6).  Seed C07j (a handler for another internal type that clears the flag) is a violation of
`sleeps_runLeaf` / `recv_keeps_sleeping`. -/

/-- `m` is the presentation of node `k` itself (the node booted: the registry gets a fresh record for it). -/
def PresentsNode (k : Int) (m : Msg) : Prop :=
  m.cmd = Gen.cmdPresentation ∧ m.child = Gen.systemChildId ∧ m.node = k

/-- In the generated chains the presentation handler sits under the presentation command only. -/
theorem presentation_bases : ∀ v : Ver, ∀ e ∈ Gen.commandChains v, e.2.base = .presentation14 → e.1 = Gen.cmdPresentation := by
  decide

/-- Whatever message is dispatched under whatever protocol — except the presentation of node `k` itself — a node `k`
flagged as sleeping is flagged as sleeping afterwards, whatever the outcome and the fault schedule. -/
theorem dispatch_keeps_sleeping (env : Env) (v : Ver) (m : Msg) (w : W) (k : Int)
    (h : ¬ PresentsNode k m) (hs : Sleeping w.st k) : Sleeping (dispatch env v m w).2.st k := by
  have key : HPresI (SleepsIn k) (dispatch env v m) := by
    simp only [dispatch]
    split
    · exact ret_raise _
    · next ch hch =>
      refine pres_applyLayers _ _ m (sleeps_runBase k env v ch.base m fun hb => ?_)
      have hcmd : m.cmd = Gen.cmdPresentation := presentation_bases v _ (lookup_mem hch) hb
      exact sleeps_hPresentation k env v m fun hc => h ⟨hcmd, hc.1, hc.2⟩
  exact key.inv w hs

/-- One iteration of `listen` on any line (a rejected one included) that is not the presentation of node `k`. -/
theorem recv_keeps_sleeping (env : Env) (line : Str) (w : W) (k : Int)
    (h : ∀ m, decode w.st.proto line = some m → ¬ PresentsNode k m) (hs : Sleeping w.st k) :
    Sleeping (recv env line w).2.st k := by
  simp only [recv, M.bind, M.getSt]
  cases hd : decode w.st.proto line with
  | none => exact hs
  | some m => exact dispatch_keeps_sleeping env _ m w k (h m hd) hs

/-- No `send` clears the flag. -/
theorem send_keeps_sleeping (obj : Option Msg) (b : Bool) (w : W) (k : Int) (hs : Sleeping w.st k) :
    Sleeping (apiSend obj b w).2.st k :=
  (pres_apiSend (I := SleepsIn k) obj b).inv w hs

/-- The wake signals leave (or make) the node a sleeping destination: after the release it is flagged as sleeping. -/
theorem wake_makes_sleeping (m : Msg) (w : W) (node : Node) (hn : w.st.nodes.get? m.node = some node) :
    (∀ hb, pyInt? m.payload = some hb → Sleeping (hHeartbeat20 m w).2.st m.node) ∧ Sleeping (hPreSleep22 m w).2.st m.node := by
  constructor
  · intro hb hp
    rw [heartbeat_wake m w node hb hn hp]
    exact (pres_flush (I := SleepsIn m.node) m).inv _ ⟨_, PDict.get?_set_self _ _ _, rfl⟩
  · rw [pre_sleep_wake m w node hn]
    exact (pres_flush (I := SleepsIn m.node) m).inv _ ⟨_, PDict.get?_set_self _ _ _, rfl⟩

/-- An operation that is not the arrival of node `k`'s own presentation (judged under the protocol active when it
arrives): any other received line, any `send`. -/
def StepNotPresenting (k : Int) (st : St) : Op → Prop
  | .recv _ line _ => ∀ m, decode st.proto line = some m → ¬ PresentsNode k m
  | .send _ _ _ => True

/-- … along a whole history, each operation judged in the state it meets. -/
def NotPresentedAlong (k : Int) : St → List Op → Prop
  | _, [] => True
  | st, op :: ops => StepNotPresenting k st op ∧ NotPresentedAlong k (stepOp st op).1 ops

theorem step_keeps_sleeping (k : Int) (st : St) (op : Op) (hs : Sleeping st k) (hq : StepNotPresenting k st op) :
    Sleeping (stepOp st op).1 k := by
  cases op with
  | recv env line faults =>
    have := recv_keeps_sleeping env line { st := st, faults := faults } k hq hs
    simp only [stepOp]
    split <;> next heq => (rw [heq] at this; exact this)
  | send obj b faults =>
    have := send_keeps_sleeping obj b { st := st, faults := faults } k hs
    simp only [stepOp]
    split <;> next heq => (rw [heq] at this; exact this)

/-- **Sleeping until presented.**  From any state in which node `k` is flagged as sleeping, along ANY history —
lines of every kind from every node (every internal type of `k` itself, its wake signals, heartbeats under 2.2,
set / req / stream messages, child presentations), version reports that switch the protocol, id requests, rejected
lines, sends, arbitrary write faults and cancellations — in which `k`'s own presentation does not arrive, `k` is
still flagged as sleeping. -/
theorem sleeping_until_presented (k : Int) (ops : List Op) (st : St) (hs : Sleeping st k)
    (hq : NotPresentedAlong k st ops) : Sleeping (stateAfter st ops) k := by
  induction ops generalizing st with
  | nil => simpa [stateAfter, run] using hs
  | cons op ops ih =>
    have := ih (stepOp st op).1 (step_keeps_sleeping k st op hs hq.1) hq.2
    simpa [stateAfter, run] using this

/-- **A sleeping destination stays one**: after any such history a set command sent with buffering allowed to that node
is parked, not written. -/
theorem parks_until_presented (m : Msg) (ops : List Op) (st : St) (w : W) (hw : w.st = stateAfter st ops)
    (hcmd : m.cmd = 1) (hs : Sleeping st m.node) (hq : NotPresentedAlong m.node st ops) :
    apiSend (some m) true w = (.ok (), { w with st := { w.st with sbuf := w.st.sbuf.set m.key m } }) :=
  send_parks m w hcmd (hw ▸ sleeping_until_presented m.node ops st hs hq)

/-! Non-vacuity of `NotPresentedAlong`: under 2.2 a post-sleep notification of the very node that sleeps, followed by a
`send` to it, is such a history for node 1. -/
example : NotPresentedAlong 1 { proto := .v22 }
    [.recv {} "1;255;3;0;33;".toList [], .send (some ⟨1, 0, 1, 0, 2, ['9']⟩) true []] := by
  refine ⟨?_, trivial, trivial⟩
  intro m hd hp
  have hdec : decode .v22 "1;255;3;0;33;".toList = some ⟨1, 255, 3, 0, 33, []⟩ := by decide
  rw [show ({ proto := .v22 } : St).proto = .v22 from rfl, hdec] at hd
  cases hd
  exact absurd hp.1 (by decide)

/-! Non-vacuity -/
example : SbufInv { sbuf := [((1, 0, 2), ⟨1, 0, 1, 0, 2, ['5']⟩), ((2, 0, 2), ⟨2, 0, 1, 0, 2, ['6']⟩)] } := by
  refine ⟨by unfold PDict.WF PDict.keys; decide, ?_⟩
  intro e he
  simp at he
  rcases he with rfl | rfl <;> decide

end AioMySensors.C07
