/-
C19 — A newer protocol version handles the older protocol's message types identically.

All version differences of the model live in the generated tables and chains; `dispatch env v`
is one function of `v`.  The theorems show, from the generated data, that for a message whose type
exists in the older protocol the *same handler computation* is selected by the newer one — on the
same major line for every message, and across 1.x → 2.x up to the missing-node/child decorator
(which is transparent while no unknown node or child is referenced) and except gateway-ready.
The one stated exception, the heartbeat response in 2.2, is `heartbeat_exception`.
-/
import AioMySensors.Properties.C07
import AioMySensors.Lemmas.Safe
import AioMySensors.Lemmas.Resp

namespace AioMySensors.C19
open AioMySensors M

/-- The message's type exists in protocol `v` (internal and stream commands; presentation, set and
req types are not gated by any version). -/
def TypeExists (v : Ver) (m : Msg) : Prop :=
  (m.cmd = 3 → ((Gen.internalTypes v).lookup m.type).isSome = true) ∧
  (m.cmd = 4 → ((Gen.streamTypes v).lookup m.type).isSome = true)

/-- **Type tables grow monotonically**: every value of an older table exists in every newer one;
stream and command tables are the same in all versions. -/
theorem tables_monotone : ∀ v w : Ver, v ≤ w →
    (∀ t ∈ (Gen.internalTypes v).map (·.1), t ∈ (Gen.internalTypes w).map (·.1)) ∧
    (Gen.streamTypes v).map (·.1) = (Gen.streamTypes w).map (·.1) ∧
    Gen.commandValues v = Gen.commandValues w ∧ Gen.commandChains v = Gen.commandChains v := by decide

/-- The decoder does not depend on the version at all (same ranges and cross-field constants). -/
theorem decode_version_independent (v w : Ver) (l : Str) : decode v l = decode w l := by
  have h : ∀ n c cmd ack t, fieldsOK v n c cmd ack t = fieldsOK w n c cmd ack t := by
    intro n c cmd ack t
    rw [Bool.eq_iff_iff, fieldsOK_iff, fieldsOK_iff]
  simp only [decode, h]

/-- Same major line. -/
def SameLine (v w : Ver) : Bool :=
  (v == .v14 && w == .v15) || (v == .v20 && w == .v21) || (v == .v20 && w == .v22) || (v == .v21 && w == .v22)

/-- **The same chains on the same line** (generated): for every internal type of the older
protocol the newer one resolves the same handler — except the heartbeat response when the newer
one is 2.2 — and the command-level chains, the stream chains and the direct version handler agree. -/
theorem chains_agree_same_line : ∀ v w : Ver, SameLine v w = true →
    Gen.commandChains v = Gen.commandChains w ∧ Gen.streamChains v = Gen.streamChains w ∧
    Gen.streamTypes v = Gen.streamTypes w ∧ Gen.versionHandlerChain v = Gen.versionHandlerChain w ∧
    ∀ e ∈ Gen.internalTypes v, (w = .v22 → e.1 ≠ 22) →
      ((Gen.internalTypes w).lookup e.1).isSome = true ∧
      (Gen.internalChains w).lookup e.1 = (Gen.internalChains v).lookup e.1 := by decide

theorem lookup_isSome_mem {l : List (Int × String)} {t : Int} (h : (l.lookup t).isSome = true) :
    ∃ e ∈ l, e.1 = t := by
  cases hl : l.lookup t with
  | none => simp [hl] at h
  | some n => exact ⟨(t, n), lookup_mem hl, rfl⟩

/-- **One step, same line.** For a message whose type exists in the older protocol (and which is
not the 2.2 heartbeat exception) the newer protocol runs literally the same handler computation. -/
theorem step_stable_same_line (env : Env) (v w : Ver) (h : SameLine v w = true) (m : Msg)
    (hcmd : m.cmd ∈ [(0 : Int), 1, 2, 3, 4]) (hex : TypeExists v m)
    (hhb : ¬ (m.cmd = 3 ∧ m.type = 22 ∧ w = .v22)) :
    dispatch env v m = dispatch env w m := by
  obtain ⟨hcc, hsc, hst, hvh, hint⟩ := chains_agree_same_line v w h
  have hnc : wrapNC v = wrapNC w := by
    funext inner
    cases v <;> cases w <;> simp [SameLine] at h <;> rfl
  simp only [List.mem_cons, List.mem_nil_iff, or_false] at hcmd
  rcases hcmd with h0 | h1 | h2 | h3 | h4
  · -- presentation
    have hp : hPresentation env v = hPresentation env w := by
      funext m'; simp only [hPresentation, hvh]
    rw [dispatch_presentation env v m h0, dispatch_presentation env w m h0, hp]
    cases v <;> cases w <;> simp [SameLine] at h <;> rfl
  · rw [dispatch_set env v m h1, dispatch_set env w m h1, hnc]
  · rw [dispatch_req env v m h2, dispatch_req env w m h2, hnc]
  · -- internal
    rw [dispatch_internal env v m h3, dispatch_internal env w m h3]
    have hi : hInternal env v m = hInternal env w m := by
      obtain ⟨e, he, het⟩ := lookup_isSome_mem (hex.1 h3)
      have hne : w = .v22 → e.1 ≠ 22 := by
        intro hw h22
        exact hhb ⟨h3, by rw [← het, h22], hw⟩
      obtain ⟨hsome, hch⟩ := hint e he hne
      rw [het] at hsome hch
      have hv := hex.1 h3
      simp only [hInternal]
      cases hlv : (Gen.internalTypes v).lookup m.type with
      | none => simp [hlv] at hv
      | some nv =>
        cases hlw : (Gen.internalTypes w).lookup m.type with
        | none => simp [hlw] at hsome
        | some nw => simp only [hch]
    simp only [wrapMissingPV, hi]
  · -- stream
    have hs : hStream env v = hStream env w := by
      funext m'; simp only [hStream, hst, hsc]
    rw [dispatch_stream env v m h4, dispatch_stream env w m h4, hnc, hs]

/-- **The stated exception.** The heartbeat response marks the node as sleeping and releases its
buffered commands in 2.0 and 2.1; in 2.2 it only records the heartbeat, and the pre-sleep
notification (which does not exist before 2.2) is the wake signal. -/
theorem heartbeat_exception (env : Env) (m : Msg) (h : m.type = 22) :
    hInternal env .v20 m = wrapMissingNC hHeartbeat20 m ∧ hInternal env .v21 m = wrapMissingNC hHeartbeat20 m ∧
    hInternal env .v22 m = wrapMissingNC hHeartbeat22 m ∧
    (∀ w, (hHeartbeat22 m w).2.st.sbuf = w.st.sbuf ∧ (hHeartbeat22 m w).2.writes = w.writes) := by
  refine ⟨?_, ?_, ?_, C07.heartbeat22_no_release m⟩ <;> rw [internal_heartbeat_response env _ m h]

/-- **Across 1.x → 2.x**, command level: the newer protocol runs the older one's computation inside
the missing-node/child decorator (and, for presentations, after forgetting the request marker). -/
theorem across_lines_commands (env : Env) (v w : Ver) (hv : v = .v14 ∨ v = .v15) (hw : Ver.v20 ≤ w) (m : Msg) :
    (m.cmd = 1 → dispatch env v m = wrapMissingPV hSet m ∧ dispatch env w m = wrapMissingNC (wrapMissingPV hSet) m) ∧
    (m.cmd = 2 → dispatch env v m = wrapMissingPV hReq m ∧ dispatch env w m = wrapMissingNC (wrapMissingPV hReq) m) ∧
    (m.cmd = 3 → dispatch env v m = wrapMissingPV (hInternal env v) m ∧ dispatch env w m = wrapMissingPV (hInternal env w) m) := by
  have hold : ¬ Ver.v20 ≤ v := by rcases hv with rfl | rfl <;> decide
  refine ⟨fun h => ?_, fun h => ?_, fun h => ?_⟩
  · rw [dispatch_set env v m h, dispatch_set env w m h, wrapNC_old v _ hold, wrapNC_new w _ hw]; exact ⟨rfl, rfl⟩
  · rw [dispatch_req env v m h, dispatch_req env w m h, wrapNC_old v _ hold, wrapNC_new w _ hw]; exact ⟨rfl, rfl⟩
  · rw [dispatch_internal env v m h, dispatch_internal env w m h]; exact ⟨rfl, rfl⟩

/-- The decorator is transparent as long as no unknown node or child is referenced: whenever the
older computation does not fail with a missing error, wrapping it changes nothing. -/
theorem decorator_transparent (inner : Msg → M Msg) (m : Msg) (w : W)
    (h : ∀ e, (inner m w).1 = .error e → missingCaught e = false) :
    wrapMissingNC inner m w = inner m w := by
  cases hi : inner m w with
  | mk r w' =>
    cases r with
    | ok r => exact wrapMissingNC_ok inner m r w w' hi
    | error e => exact wrapMissingNC_other inner m e w w' hi (h e (by rw [hi]))

/-- Across the lines the internal types of 1.x keep their handlers, except gateway-ready (which
gains the discover broadcast) — and battery / sketch name / sketch version gain only the decorator. -/
theorem across_lines_internal : ∀ v w : Ver, (v = .v14 ∨ v = .v15) → Ver.v20 ≤ w →
    ∀ e ∈ Gen.internalTypes v, e.1 ≠ 14 →
      ((Gen.internalTypes w).lookup e.1).isSome = true ∧
      (((Gen.internalChains w).lookup e.1).join.map (·.base) = ((Gen.internalChains v).lookup e.1).join.map (·.base)) ∧
      (((Gen.internalChains w).lookup e.1).join.map (·.layers) = ((Gen.internalChains v).lookup e.1).join.map (·.layers) ∨
       ((Gen.internalChains w).lookup e.1).join.map (·.layers) = some [.wrap .missingNC]) := by decide

/-- Forget who is asleep: the registry with every node's `sleeping` flag cleared. -/
def forgetSleeping (nodes : PDict Int Node) : PDict Int Node := nodes.map fun e => (e.1, { e.2 with sleeping := false })

theorem forgetSleeping_set (d : PDict Int Node) (k : Int) (a b : Node)
    (h : ({ a with sleeping := false } : Node) = { b with sleeping := false }) :
    forgetSleeping (d.set k a) = forgetSleeping (d.set k b) := by
  induction d with
  | nil => simp [forgetSleeping, PDict.set, h]
  | cons e rest ih =>
    obtain ⟨k', v'⟩ := e
    simp only [PDict.set]
    by_cases hk : k' = k
    · simp [hk, forgetSleeping, h]
    · simp only [hk, if_false]
      simp only [forgetSleeping, List.map_cons] at ih ⊢
      rw [ih]

theorem flush_nothing_held (m : Msg) (w : W) (h : ∀ e ∈ w.st.sbuf, e.2.node ≠ m.node) : flush m w = (.ok m, w) := by
  have hf : (w.st.sbuf.filter fun e => e.2.node == m.node) = [] := by
    rw [List.filter_eq_nil_iff]
    intro e he
    simpa using h e he
  simp [flush, M.bind, M.getSt, hf, flushList, M.seq, M.pure]

theorem heartbeat_clauses_agree : clause Gen.excHeartbeat20 0 = clause Gen.excHeartbeat22 0 := by decide

/-- **The exception is only the stated one.** On a heartbeat response from a node for which nothing
is held, 2.0/2.1 and 2.2 give the same outcome (the message, `MissingNodeError` for an unknown node —
checked before the payload is looked at — or `InvalidMessageError`), attempt no write, leave both
buffers alone and store the same heartbeat: the registries differ in the `sleeping` flag only. -/
theorem heartbeat_differs_in_sleeping_only (m : Msg) (w : W) (h : ∀ e ∈ w.st.sbuf, e.2.node ≠ m.node) :
    (hHeartbeat20 m w).1 = (hHeartbeat22 m w).1 ∧
    (hHeartbeat20 m w).2.writes = (hHeartbeat22 m w).2.writes ∧ (hHeartbeat20 m w).2.faults = (hHeartbeat22 m w).2.faults ∧
    (hHeartbeat20 m w).2.st.sbuf = (hHeartbeat22 m w).2.st.sbuf ∧ (hHeartbeat20 m w).2.st.ibuf = (hHeartbeat22 m w).2.st.ibuf ∧
    (hHeartbeat20 m w).2.st.pv = (hHeartbeat22 m w).2.st.pv ∧ (hHeartbeat20 m w).2.st.proto = (hHeartbeat22 m w).2.st.proto ∧
    forgetSleeping (hHeartbeat20 m w).2.st.nodes = forgetSleeping (hHeartbeat22 m w).2.st.nodes := by
  simp only [hHeartbeat20, hHeartbeat22, requireNode, M.bind, M.getSt, heartbeatValue, convertExn, heartbeat_clauses_agree]
  cases hn : w.st.nodes.get? m.node with
  | none => simp [M.raise]
  | some node =>
    simp only [M.pure]
    cases hp : pyInt? m.payload with
    | none => by_cases hc : pyCaught .ValueError (clause Gen.excHeartbeat22 0) = true <;> simp [hc, M.raise]
    | some hb =>
      simp only [M.seq, M.bind, setNode, M.modifySt, M.pure]
      rw [flush_nothing_held m _ (by simpa using h)]
      refine ⟨rfl, rfl, rfl, rfl, rfl, rfl, rfl, ?_⟩
      exact forgetSleeping_set _ _ _ _ rfl

/-! ### Whole histories -/

/-- A history stays within the older protocol `v`: every received line that decodes carries a type
that exists in `v`, and is not the heartbeat response when the newer protocol is 2.2. -/
def LineOK (v w : Ver) (line : Str) : Prop :=
  ∀ m, decode v line = some m → TypeExists v m ∧ ¬ (m.cmd = 3 ∧ m.type = 22 ∧ w = .v22)

def OpOK (v w : Ver) : Op → Prop
  | .recv _ line _ => LineOK v w line
  | .send _ _ _ => True

/-- What one operation shows: the outcome (yielded message or error) and the write attempts. -/
def SameObs (o1 o2 : Obs) : Prop := o1.out = o2.out ∧ o1.writes = o2.writes

/-- The two observation sequences have the same length and agree position by position. -/
def AllSame : List Obs → List Obs → Prop
  | [], [] => True
  | a :: as, b :: bs => SameObs a b ∧ AllSame as bs
  | _, _ => False

/-- **One operation, two versions.** From states that agree on registry, buffers and on whether a
version is known — the older gateway running `v`, the newer one `w` on the same line (or both the
same protocol after a version report) — the same operation produces the same outcome and the same
writes, and leaves states that agree in the same way. -/
theorem step_stable (v w : Ver) (hl : SameLine v w = true) (s1 s2 : St) (hs : SimSt v w s1 s2) (op : Op)
    (hop : OpOK v w op) :
    SameObs (stepOp s1 op).2 (stepOp s2 op).2 ∧ SimSt v w (stepOp s1 op).1 (stepOp s2 op).1 := by
  cases op with
  | send obj b faults =>
    have h := (resp_apiSend (v := v) (w := w) obj b).run { st := s1, faults := faults } { st := s2, faults := faults }
      ⟨hs, rfl, rfl⟩
    simp only [stepOp]
    cases h1 : apiSend obj b { st := s1, faults := faults } with
    | mk r1 w1 =>
      cases h2 : apiSend obj b { st := s2, faults := faults } with
      | mk r2 w2 =>
        rw [h1, h2] at h
        obtain ⟨he, hsim⟩ := h
        simp only at he
        subst he
        cases r1 <;> exact ⟨⟨rfl, hsim.writes⟩, hsim.st⟩
  | recv env line faults =>
    -- both gateways decode the line alike
    have hdec : decode s1.proto line = decode s2.proto line := decode_version_independent _ _ _
    have key : (recv env line { st := s1, faults := faults }).1 = (recv env line { st := s2, faults := faults }).1 ∧
        Sim v w (recv env line { st := s1, faults := faults }).2 (recv env line { st := s2, faults := faults }).2 := by
      simp only [recv, M.bind, M.getSt]
      rw [← hdec]
      cases hd : decode s1.proto line with
      | none => exact ⟨rfl, ⟨hs, rfl, rfl⟩⟩
      | some m =>
        simp only []
        have hsim : Sim v w { st := s1, faults := faults } { st := s2, faults := faults } := ⟨hs, rfl, rfl⟩
        rcases hs.proto with ⟨hp1, hp2⟩ | hpe
        · -- the pair under comparison: the newer protocol runs the same computation
          rw [hp1, hp2]
          have hdv : decode v line = some m := by rw [← hp1]; exact hd
          obtain ⟨hex, hhb⟩ := hop m hdv
          rw [step_stable_same_line env v w hl m (decode_cmd_range hdv) hex hhb]
          exact (resp_dispatch env w m).run _ _ hsim
        · rw [← hpe]
          exact (resp_dispatch env s1.proto m).run _ _ hsim
    simp only [stepOp]
    cases h1 : recv env line { st := s1, faults := faults } with
    | mk r1 w1 =>
      cases h2 : recv env line { st := s2, faults := faults } with
      | mk r2 w2 =>
        rw [h1, h2] at key
        obtain ⟨he, hsim⟩ := key
        simp only at he
        subst he
        cases r1 <;> exact ⟨⟨rfl, hsim.writes⟩, hsim.st⟩

/-- **Every history.** Two gateways of the same major line, started from states that agree, fed
the same history whose message types all exist in the older protocol (heartbeat responses excluded
when the newer one is 2.2): the yielded messages, the errors, the writes, the registry and both
buffers are the same at every step — by induction over the history, with arbitrary write faults
and `send` calls interleaved. -/
theorem history_stable (v w : Ver) (hl : SameLine v w = true) (ops : List Op) (hops : ∀ op ∈ ops, OpOK v w op)
    (s1 s2 : St) (hs : SimSt v w s1 s2) :
    AllSame (run s1 ops).2 (run s2 ops).2 ∧ SimSt v w (stateAfter s1 ops) (stateAfter s2 ops) := by
  induction ops generalizing s1 s2 with
  | nil => exact ⟨by simp [run, AllSame], by simpa [stateAfter, run] using hs⟩
  | cons op ops ih =>
    obtain ⟨hobs, hst⟩ := step_stable v w hl s1 s2 hs op (hops op (by simp))
    obtain ⟨h1, h2⟩ := ih (fun o ho => hops o (by simp [ho])) _ _ hst
    exact ⟨by simpa [run, AllSame] using ⟨hobs, h1⟩, by simpa [stateAfter, run] using h2⟩

/-- Two fresh gateways that were told their versions agree in the required way. -/
theorem fresh_similar (v w : Ver) (pv1 pv2 : Str) :
    SimSt v w { pv := some pv1, proto := v } { pv := some pv2, proto := w } :=
  ⟨rfl, rfl, rfl, rfl, Or.inl ⟨rfl, rfl⟩⟩

/-! Non-vacuity -/
example : TypeExists .v14 ⟨1, 255, 3, 0, 6, []⟩ := by constructor <;> decide
example : SameLine .v20 .v22 = true := by decide

end AioMySensors.C19
