/-
C19 — A newer protocol version handles the older protocol's message types identically.

All version differences of the model live in the generated tables and chains; `dispatch env v`
is one function of `v`.  The theorems show, from the generated data, that for a message whose type
exists in the older protocol the *same handler computation* is selected by the newer one — on the
same major line for every message, and across 1.x → 2.x up to the missing-node/child decorator
(which is transparent while no unknown node or child is referenced) and except gateway-ready.
The one stated exception, the heartbeat response in 2.2, is `heartbeat_exception`.

Whole histories, by induction over any list of received lines (each with its own write-fault
schedule) and `send` calls, equal outcomes and writes at every step and agreeing final states:
* same major line: `history_stable` (via `step_stable`);
* across the lines, v ∈ {1.4, 1.5} and w ≥ 2.0: `history_stable_across_lines` — hypothesis on what
  the older run shows (no step ends in a `MissingNodeError` / `MissingChildError`), for gateways
  that know their version (which two gateways on different lines always do) — and
  `history_stable_across_lines_handlers`, the same with the hypothesis on the error the older
  handler raises, which also covers the phase before a version is known (there a failed version
  query can replace the missing error, so the outcome alone does not tell).  Both via
  `step_stable_across_lines`; the relation carried along is `CrossSt`: the states agree
  (`SimSt`) and, while the two still run different protocols, hold no presentation-request marker.
  Ingredients (`Lemmas/Across.lean`): where no marker is held and the 1.x handler raises no missing
  error, the 2.x dispatch *is* the 1.x dispatch (`dispatch_across`: the decorator is transparent,
  the marker-forgetting step of the 2.x presentation handler is the identity, the chains are the
  same up to that decorator); a 1.x protocol never touches the marker buffer
  (`dispatch_old_keeps_ibuf`); the non-interference traversal `Lemmas/Resp.lean`; a version report
  moves both gateways to the *same* protocol, after which `step_same_protocol` applies.
-/
import AioMySensors.Properties.C07
import AioMySensors.Lemmas.Safe
import AioMySensors.Lemmas.Resp
import AioMySensors.Lemmas.Across
import AioMySensors.Lemmas.Absent
import AioMySensors.Properties.C05

namespace AioMySensors.C19
open AioMySensors M

/-- The message's type exists in protocol `v` (internal and stream commands; presentation, set and
req types are not gated by any version). -/
def TypeExists (v : Ver) (m : Msg) : Prop :=
  (m.cmd = 3 → ((Gen.internalTypes v).lookup m.type).isSome = true) ∧
  (m.cmd = 4 → ((Gen.streamTypes v).lookup m.type).isSome = true)

/-- **Type tables grow monotonically**: every value of an older table exists in every newer one;
stream and command tables are the same in all versions. -/
theorem tables_monotone : ∀ v w : Ver, v ≤ w →
    (∀ t ∈ (Gen.internalTypes v).map (·.1), t ∈ (Gen.internalTypes w).map (·.1)) ∧
    (Gen.streamTypes v).map (·.1) = (Gen.streamTypes w).map (·.1) ∧
    Gen.commandValues v = Gen.commandValues w ∧ Gen.commandChains v = Gen.commandChains v := by decide

/-- The decoder does not depend on the version at all (same ranges and cross-field constants). -/
theorem decode_version_independent (v w : Ver) (l : Str) : decode v l = decode w l := by
  have h : ∀ n c cmd ack t, fieldsOK v n c cmd ack t = fieldsOK w n c cmd ack t := by
    intro n c cmd ack t
    rw [Bool.eq_iff_iff, fieldsOK_iff, fieldsOK_iff]
  simp only [decode, h]

/-- Same major line. -/
def SameLine (v w : Ver) : Bool :=
  (v == .v14 && w == .v15) || (v == .v20 && w == .v21) || (v == .v20 && w == .v22) || (v == .v21 && w == .v22)

/-- **The same chains on the same line** (generated): for every internal type of the older
protocol the newer one resolves the same handler — except the heartbeat response when the newer
one is 2.2 — and the command-level chains, the stream chains and the direct version handler agree. -/
theorem chains_agree_same_line : ∀ v w : Ver, SameLine v w = true →
    Gen.commandChains v = Gen.commandChains w ∧ Gen.streamChains v = Gen.streamChains w ∧
    Gen.streamTypes v = Gen.streamTypes w ∧ Gen.versionHandlerChain v = Gen.versionHandlerChain w ∧
    ∀ e ∈ Gen.internalTypes v, (w = .v22 → e.1 ≠ 22) →
      ((Gen.internalTypes w).lookup e.1).isSome = true ∧
      (Gen.internalChains w).lookup e.1 = (Gen.internalChains v).lookup e.1 := by decide

theorem lookup_isSome_mem {l : List (Int × String)} {t : Int} (h : (l.lookup t).isSome = true) :
    ∃ e ∈ l, e.1 = t := by
  cases hl : l.lookup t with
  | none => simp [hl] at h
  | some n => exact ⟨(t, n), lookup_mem hl, rfl⟩

/-- **One step, same line.** For a message whose type exists in the older protocol (and which is
not the 2.2 heartbeat exception) the newer protocol runs literally the same handler computation. -/
theorem step_stable_same_line (env : Env) (v w : Ver) (h : SameLine v w = true) (m : Msg)
    (hcmd : m.cmd ∈ [(0 : Int), 1, 2, 3, 4]) (hex : TypeExists v m)
    (hhb : ¬ (m.cmd = 3 ∧ m.type = 22 ∧ w = .v22)) :
    dispatch env v m = dispatch env w m := by
  obtain ⟨hcc, hsc, hst, hvh, hint⟩ := chains_agree_same_line v w h
  have hnc : wrapNC v = wrapNC w := by
    funext inner
    cases v <;> cases w <;> simp [SameLine] at h <;> rfl
  simp only [List.mem_cons, List.mem_nil_iff, or_false] at hcmd
  rcases hcmd with h0 | h1 | h2 | h3 | h4
  · -- presentation
    have hp : hPresentation env v = hPresentation env w := by
      funext m'; simp only [hPresentation, hvh]
    rw [dispatch_presentation env v m h0, dispatch_presentation env w m h0, hp]
    cases v <;> cases w <;> simp [SameLine] at h <;> rfl
  · rw [dispatch_set env v m h1, dispatch_set env w m h1, hnc]
  · rw [dispatch_req env v m h2, dispatch_req env w m h2, hnc]
  · -- internal
    rw [dispatch_internal env v m h3, dispatch_internal env w m h3]
    have hi : hInternal env v m = hInternal env w m := by
      obtain ⟨e, he, het⟩ := lookup_isSome_mem (hex.1 h3)
      have hne : w = .v22 → e.1 ≠ 22 := by
        intro hw h22
        exact hhb ⟨h3, by rw [← het, h22], hw⟩
      obtain ⟨hsome, hch⟩ := hint e he hne
      rw [het] at hsome hch
      have hv := hex.1 h3
      simp only [hInternal]
      cases hlv : (Gen.internalTypes v).lookup m.type with
      | none => simp [hlv] at hv
      | some nv =>
        cases hlw : (Gen.internalTypes w).lookup m.type with
        | none => simp [hlw] at hsome
        | some nw => simp only [hch]
    simp only [wrapMissingPV, hi]
  · -- stream
    have hs : hStream env v = hStream env w := by
      funext m'; simp only [hStream, hst, hsc]
    rw [dispatch_stream env v m h4, dispatch_stream env w m h4, hnc, hs]

/-- **The stated exception.** The heartbeat response marks the node as sleeping and releases its
buffered commands in 2.0 and 2.1; in 2.2 it only records the heartbeat, and the pre-sleep
notification (which does not exist before 2.2) is the wake signal. -/
theorem heartbeat_exception (env : Env) (m : Msg) (h : m.type = 22) :
    hInternal env .v20 m = wrapMissingNC hHeartbeat20 m ∧ hInternal env .v21 m = wrapMissingNC hHeartbeat20 m ∧
    hInternal env .v22 m = wrapMissingNC hHeartbeat22 m ∧
    (∀ w, (hHeartbeat22 m w).2.st.sbuf = w.st.sbuf ∧ (hHeartbeat22 m w).2.writes = w.writes) := by
  refine ⟨?_, ?_, ?_, C07.heartbeat22_no_release m⟩ <;> rw [internal_heartbeat_response env _ m h]

/-- **Across 1.x → 2.x**, command level: the newer protocol runs the older one's computation inside
the missing-node/child decorator (and, for presentations, after forgetting the request marker). -/
theorem across_lines_commands (env : Env) (v w : Ver) (hv : v = .v14 ∨ v = .v15) (hw : Ver.v20 ≤ w) (m : Msg) :
    (m.cmd = 1 → dispatch env v m = wrapMissingPV hSet m ∧ dispatch env w m = wrapMissingNC (wrapMissingPV hSet) m) ∧
    (m.cmd = 2 → dispatch env v m = wrapMissingPV hReq m ∧ dispatch env w m = wrapMissingNC (wrapMissingPV hReq) m) ∧
    (m.cmd = 3 → dispatch env v m = wrapMissingPV (hInternal env v) m ∧ dispatch env w m = wrapMissingPV (hInternal env w) m) := by
  have hold : ¬ Ver.v20 ≤ v := by rcases hv with rfl | rfl <;> decide
  refine ⟨fun h => ?_, fun h => ?_, fun h => ?_⟩
  · rw [dispatch_set env v m h, dispatch_set env w m h, wrapNC_old v _ hold, wrapNC_new w _ hw]; exact ⟨rfl, rfl⟩
  · rw [dispatch_req env v m h, dispatch_req env w m h, wrapNC_old v _ hold, wrapNC_new w _ hw]; exact ⟨rfl, rfl⟩
  · rw [dispatch_internal env v m h, dispatch_internal env w m h]; exact ⟨rfl, rfl⟩

/-- The decorator is transparent as long as no unknown node or child is referenced: whenever the
older computation does not fail with a missing error, wrapping it changes nothing. -/
theorem decorator_transparent (inner : Msg → M Msg) (m : Msg) (w : W)
    (h : ∀ e, (inner m w).1 = .error e → missingCaught e = false) :
    wrapMissingNC inner m w = inner m w := by
  cases hi : inner m w with
  | mk r w' =>
    cases r with
    | ok r => exact wrapMissingNC_ok inner m r w w' hi
    | error e => exact wrapMissingNC_other inner m e w w' hi (h e (by rw [hi]))

/-- Across the lines the internal types of 1.x keep their handlers, except gateway-ready (which
gains the discover broadcast) — and battery / sketch name / sketch version gain only the decorator. -/
theorem across_lines_internal : ∀ v w : Ver, (v = .v14 ∨ v = .v15) → Ver.v20 ≤ w →
    ∀ e ∈ Gen.internalTypes v, e.1 ≠ 14 →
      ((Gen.internalTypes w).lookup e.1).isSome = true ∧
      (((Gen.internalChains w).lookup e.1).join.map (·.base) = ((Gen.internalChains v).lookup e.1).join.map (·.base)) ∧
      (((Gen.internalChains w).lookup e.1).join.map (·.layers) = ((Gen.internalChains v).lookup e.1).join.map (·.layers) ∨
       ((Gen.internalChains w).lookup e.1).join.map (·.layers) = some [.wrap .missingNC]) := by decide

/-- Forget who is asleep: the registry with every node's `sleeping` flag cleared. -/
def forgetSleeping (nodes : PDict Int Node) : PDict Int Node := nodes.map fun e => (e.1, { e.2 with sleeping := false })

theorem forgetSleeping_set (d : PDict Int Node) (k : Int) (a b : Node)
    (h : ({ a with sleeping := false } : Node) = { b with sleeping := false }) :
    forgetSleeping (d.set k a) = forgetSleeping (d.set k b) := by
  induction d with
  | nil => simp [forgetSleeping, PDict.set, h]
  | cons e rest ih =>
    obtain ⟨k', v'⟩ := e
    simp only [PDict.set]
    by_cases hk : k' = k
    · simp [hk, forgetSleeping, h]
    · simp only [hk, if_false]
      simp only [forgetSleeping, List.map_cons] at ih ⊢
      rw [ih]

theorem flush_nothing_held (m : Msg) (w : W) (h : ∀ e ∈ w.st.sbuf, e.2.node ≠ m.node) : flush m w = (.ok m, w) := by
  have hf : (w.st.sbuf.filter fun e => e.2.node == m.node) = [] := by
    rw [List.filter_eq_nil_iff]
    intro e he
    simpa using h e he
  simp [flush, M.bind, M.getSt, hf, flushList, M.seq, M.pure]

theorem heartbeat_clauses_agree : clause Gen.excHeartbeat20 0 = clause Gen.excHeartbeat22 0 := by decide

/-- **The exception is only the stated one.** On a heartbeat response from a node for which nothing
is held, 2.0/2.1 and 2.2 give the same outcome (the message, `MissingNodeError` for an unknown node —
checked before the payload is looked at — or `InvalidMessageError`), attempt no write, leave both
buffers alone and store the same heartbeat: the registries differ in the `sleeping` flag only. -/
theorem heartbeat_differs_in_sleeping_only (m : Msg) (w : W) (h : ∀ e ∈ w.st.sbuf, e.2.node ≠ m.node) :
    (hHeartbeat20 m w).1 = (hHeartbeat22 m w).1 ∧
    (hHeartbeat20 m w).2.writes = (hHeartbeat22 m w).2.writes ∧ (hHeartbeat20 m w).2.faults = (hHeartbeat22 m w).2.faults ∧
    (hHeartbeat20 m w).2.st.sbuf = (hHeartbeat22 m w).2.st.sbuf ∧ (hHeartbeat20 m w).2.st.ibuf = (hHeartbeat22 m w).2.st.ibuf ∧
    (hHeartbeat20 m w).2.st.pv = (hHeartbeat22 m w).2.st.pv ∧ (hHeartbeat20 m w).2.st.proto = (hHeartbeat22 m w).2.st.proto ∧
    forgetSleeping (hHeartbeat20 m w).2.st.nodes = forgetSleeping (hHeartbeat22 m w).2.st.nodes := by
  simp only [hHeartbeat20, hHeartbeat22, requireNode, M.bind, M.getSt, heartbeatValue, convertExn, heartbeat_clauses_agree]
  cases hn : w.st.nodes.get? m.node with
  | none => simp [M.raise]
  | some node =>
    simp only [M.pure]
    cases hp : pyInt? m.payload with
    | none => by_cases hc : pyCaught .ValueError (clause Gen.excHeartbeat22 0) = true <;> simp [hc, M.raise]
    | some hb =>
      simp only [M.seq, M.bind, setNode, M.modifySt, M.pure]
      rw [flush_nothing_held m _ (by simpa using h)]
      refine ⟨rfl, rfl, rfl, rfl, rfl, rfl, rfl, ?_⟩
      exact forgetSleeping_set _ _ _ _ rfl

/-! ### Whole histories -/

/-- A history stays within the older protocol `v`: every received line that decodes carries a type
that exists in `v`, and is not the heartbeat response when the newer protocol is 2.2. -/
def LineOK (v w : Ver) (line : Str) : Prop :=
  ∀ m, decode v line = some m → TypeExists v m ∧ ¬ (m.cmd = 3 ∧ m.type = 22 ∧ w = .v22)

def OpOK (v w : Ver) : Op → Prop
  | .recv _ line _ => LineOK v w line
  | .send _ _ _ => True

/-- What one operation shows: the outcome (yielded message or error) and the write attempts. -/
def SameObs (o1 o2 : Obs) : Prop := o1.out = o2.out ∧ o1.writes = o2.writes

/-- The two observation sequences have the same length and agree position by position. -/
def AllSame : List Obs → List Obs → Prop
  | [], [] => True
  | a :: as, b :: bs => SameObs a b ∧ AllSame as bs
  | _, _ => False

/-- **One operation, two versions.** From states that agree on registry, buffers and on whether a
version is known — the older gateway running `v`, the newer one `w` on the same line (or both the
same protocol after a version report) — the same operation produces the same outcome and the same
writes, and leaves states that agree in the same way. -/
theorem step_stable (v w : Ver) (hl : SameLine v w = true) (s1 s2 : St) (hs : SimSt v w s1 s2) (op : Op)
    (hop : OpOK v w op) :
    SameObs (stepOp s1 op).2 (stepOp s2 op).2 ∧ SimSt v w (stepOp s1 op).1 (stepOp s2 op).1 := by
  cases op with
  | send obj b faults =>
    have h := (resp_apiSend (v := v) (w := w) obj b).run { st := s1, faults := faults } { st := s2, faults := faults }
      ⟨hs, rfl, rfl⟩
    simp only [stepOp]
    cases h1 : apiSend obj b { st := s1, faults := faults } with
    | mk r1 w1 =>
      cases h2 : apiSend obj b { st := s2, faults := faults } with
      | mk r2 w2 =>
        rw [h1, h2] at h
        obtain ⟨he, hsim⟩ := h
        simp only at he
        subst he
        cases r1 <;> exact ⟨⟨rfl, hsim.writes⟩, hsim.st⟩
  | recv env line faults =>
    -- both gateways decode the line alike
    have hdec : decode s1.proto line = decode s2.proto line := decode_version_independent _ _ _
    have key : (recv env line { st := s1, faults := faults }).1 = (recv env line { st := s2, faults := faults }).1 ∧
        Sim v w (recv env line { st := s1, faults := faults }).2 (recv env line { st := s2, faults := faults }).2 := by
      simp only [recv, M.bind, M.getSt]
      rw [← hdec]
      cases hd : decode s1.proto line with
      | none => exact ⟨rfl, ⟨hs, rfl, rfl⟩⟩
      | some m =>
        simp only []
        have hsim : Sim v w { st := s1, faults := faults } { st := s2, faults := faults } := ⟨hs, rfl, rfl⟩
        rcases hs.proto with ⟨hp1, hp2⟩ | hpe
        · -- the pair under comparison: the newer protocol runs the same computation
          rw [hp1, hp2]
          have hdv : decode v line = some m := by rw [← hp1]; exact hd
          obtain ⟨hex, hhb⟩ := hop m hdv
          rw [step_stable_same_line env v w hl m (decode_cmd_range hdv) hex hhb]
          exact (resp_dispatch env w m).run _ _ hsim
        · rw [← hpe]
          exact (resp_dispatch env s1.proto m).run _ _ hsim
    simp only [stepOp]
    cases h1 : recv env line { st := s1, faults := faults } with
    | mk r1 w1 =>
      cases h2 : recv env line { st := s2, faults := faults } with
      | mk r2 w2 =>
        rw [h1, h2] at key
        obtain ⟨he, hsim⟩ := key
        simp only at he
        subst he
        cases r1 <;> exact ⟨⟨rfl, hsim.writes⟩, hsim.st⟩

/-- **Every history.** Two gateways of the same major line, started from states that agree, fed
the same history whose message types all exist in the older protocol (heartbeat responses excluded
when the newer one is 2.2): the yielded messages, the errors, the writes, the registry and both
buffers are the same at every step — by induction over the history, with arbitrary write faults
and `send` calls interleaved. -/
theorem history_stable (v w : Ver) (hl : SameLine v w = true) (ops : List Op) (hops : ∀ op ∈ ops, OpOK v w op)
    (s1 s2 : St) (hs : SimSt v w s1 s2) :
    AllSame (run s1 ops).2 (run s2 ops).2 ∧ SimSt v w (stateAfter s1 ops) (stateAfter s2 ops) := by
  induction ops generalizing s1 s2 with
  | nil => exact ⟨by simp [run, AllSame], by simpa [stateAfter, run] using hs⟩
  | cons op ops ih =>
    obtain ⟨hobs, hst⟩ := step_stable v w hl s1 s2 hs op (hops op (by simp))
    obtain ⟨h1, h2⟩ := ih (fun o ho => hops o (by simp [ho])) _ _ hst
    exact ⟨by simpa [run, AllSame] using ⟨hobs, h1⟩, by simpa [stateAfter, run] using h2⟩

/-- Two fresh gateways that were told their versions agree in the required way. -/
theorem fresh_similar (v w : Ver) (pv1 pv2 : Str) :
    SimSt v w { pv := some pv1, proto := v } { pv := some pv2, proto := w } :=
  ⟨rfl, rfl, rfl, rfl, Or.inl ⟨rfl, rfl⟩⟩

/-! ### A version report in the middle of a history -/

/-- **A version report keeps what the gateway holds.**  Whatever string is reported — it resolves to a
protocol or it does not — the version handler leaves the registry, the record of the presentation
requests already sent, the commands parked for sleeping nodes, the writes and the coming write
faults exactly as they were: only the stored version string and the active protocol may change.
(`Lemmas/BodiesEq.iVersion14_eq` + `setProtocolVersion_eq`: this handler IS the text generated from
`handle_i_version` and the `protocol_version` setter of the tree under check.) -/
theorem version_report_keeps_held (m : Msg) (w : W) :
    (hVersion m w).2.st.nodes = w.st.nodes ∧ (hVersion m w).2.st.ibuf = w.st.ibuf ∧
    (hVersion m w).2.st.sbuf = w.st.sbuf ∧ (hVersion m w).2.writes = w.writes ∧ (hVersion m w).2.faults = w.faults := by
  unfold hVersion convertExn
  cases h : getProtocolE m.payload with
  | ok v => simp [M.bind, M.seq, M.modifySt, M.pure]
  | error c =>
    cases hc : pyCaught c (clause Gen.excVersion 0) <;> simp [M.bind, M.raise, hc]

/-- **A report that resolves joins the two gateways.**  From worlds that agree (`Sim v w`: the pair
under comparison, whichever of the two — or neither — already runs the reported protocol `p`), the
report is yielded by both, both run `p` afterwards, and registry, both buffers and the writes are
still the same on both sides: nothing that was held is dropped on the side whose protocol changed. -/
theorem version_report_joins (v w : Ver) (m : Msg) (w1 w2 : W) (hs : Sim v w w1 w2) (p : Ver)
    (hp : getProtocolE m.payload = .ok p) :
    (hVersion m w1).1 = .ok m ∧ (hVersion m w2).1 = .ok m ∧
    (hVersion m w1).2.st.proto = p ∧ (hVersion m w2).2.st.proto = p ∧
    (hVersion m w1).2.st.nodes = (hVersion m w2).2.st.nodes ∧
    (hVersion m w1).2.st.ibuf = (hVersion m w2).2.st.ibuf ∧
    (hVersion m w1).2.st.sbuf = (hVersion m w2).2.st.sbuf ∧
    (hVersion m w1).2.writes = (hVersion m w2).2.writes := by
  unfold hVersion convertExn
  simp [hp, M.bind, M.seq, M.modifySt, M.pure, hs.st.nodes, hs.st.ibuf, hs.st.sbuf, hs.writes]

/-! ### Whole histories across the lines 1.x → 2.x -/

/-- States of an older (1.x) and a newer (2.x) gateway that agree (`SimSt`) and — while the two still
run different protocols — hold no presentation-request marker (in 1.x none is ever written). -/
structure CrossSt (v w : Ver) (s1 s2 : St) : Prop where
  sim : SimSt v w s1 s2
  nomark : s1.proto ≠ s2.proto → NoMarkers s2.ibuf

/-- A received line stays within the older protocol `v` and is not gateway-ready. -/
def LineOKAcross (v : Ver) (line : Str) : Prop :=
  ∀ m, decode v line = some m → TypeExists v m ∧ ¬ (m.cmd = 3 ∧ m.type = Gen.iGatewayReady)

def OpOKAcross (v : Ver) : Op → Prop
  | .recv _ line _ => LineOKAcross v line
  | .send _ _ _ => True

/-- **No unknown node or child is referenced in this step** of the older gateway (state `s`, still
running `v`): its handler — everything inside the version-query decorator — raises no
`MissingNodeError` / `MissingChildError` on the received message. -/
def StepRefsKnown (v : Ver) (s : St) : Op → Prop
  | .recv env line faults =>
    s.proto = v → ∀ m, decode v line = some m → ¬ RaisesMissing env v m { st := s, faults := faults }
  | .send _ _ _ => True

/-- No unknown node or child is referenced anywhere along the older gateway's run. -/
def RunRefsKnown (v : Ver) : St → List Op → Prop
  | _, [] => True
  | s, op :: ops => StepRefsKnown v s op ∧ RunRefsKnown v (stepOp s op).1 ops

theorem sameObs_recv {v w : Ver} (s1 s2 : St) (env : Env) (line : Str) (faults : List Fault)
    (h : (recv env line { st := s1, faults := faults }).1 = (recv env line { st := s2, faults := faults }).1 ∧
      Sim v w (recv env line { st := s1, faults := faults }).2 (recv env line { st := s2, faults := faults }).2) :
    SameObs (stepOp s1 (.recv env line faults)).2 (stepOp s2 (.recv env line faults)).2 ∧
    SimSt v w (stepOp s1 (.recv env line faults)).1 (stepOp s2 (.recv env line faults)).1 := by
  refine ⟨⟨?_, ?_⟩, ?_⟩
  · rw [stepOp_recv_out, stepOp_recv_out, h.1]
  · rw [stepOp_recv_writes, stepOp_recv_writes]; exact h.2.writes
  · rw [stepOp_recv_st, stepOp_recv_st]; exact h.2.st

theorem sameObs_send {v w : Ver} (s1 s2 : St) (obj : Option Msg) (b : Bool) (faults : List Fault)
    (h : (apiSend obj b { st := s1, faults := faults }).1 = (apiSend obj b { st := s2, faults := faults }).1 ∧
      Sim v w (apiSend obj b { st := s1, faults := faults }).2 (apiSend obj b { st := s2, faults := faults }).2) :
    SameObs (stepOp s1 (.send obj b faults)).2 (stepOp s2 (.send obj b faults)).2 ∧
    SimSt v w (stepOp s1 (.send obj b faults)).1 (stepOp s2 (.send obj b faults)).1 := by
  refine ⟨⟨?_, ?_⟩, ?_⟩
  · rw [stepOp_send_out, stepOp_send_out, h.1]
  · rw [stepOp_send_writes, stepOp_send_writes]; exact h.2.writes
  · rw [stepOp_send_st, stepOp_send_st]; exact h.2.st

/-- Two gateways running the same protocol `p` from states that agree: any operation at all gives the
same outcome and writes, and they keep running the same protocol. -/
theorem step_same_protocol (p : Ver) (s1 s2 : St) (hs : SimSt p p s1 s2) (op : Op) :
    SameObs (stepOp s1 op).2 (stepOp s2 op).2 ∧ SimSt p p (stepOp s1 op).1 (stepOp s2 op).1 := by
  have hsim : ∀ faults, Sim p p { st := s1, faults := faults } { st := s2, faults := faults } :=
    fun _ => ⟨hs, rfl, rfl⟩
  have hpe : s1.proto = s2.proto := by
    rcases hs.proto with ⟨a, b⟩ | h
    · rw [a, b]
    · exact h
  cases op with
  | send obj b faults => exact sameObs_send s1 s2 obj b faults ((resp_apiSend obj b).run _ _ (hsim faults))
  | recv env line faults =>
    refine sameObs_recv s1 s2 env line faults ?_
    simp only [recv, M.bind, M.getSt]
    rw [← hpe]
    cases hd : decode s1.proto line with
    | none => exact ⟨rfl, hsim faults⟩
    | some m => exact (resp_dispatch env s1.proto m).run _ _ (hsim faults)

/-- **One operation across the lines.** The older gateway runs `v` ∈ {1.4, 1.5}, the newer one
`w` ≥ 2.0 (or both the same protocol after a version report).  If the message's type exists in `v`,
it is not gateway-ready and the older gateway's handler raises no missing-node/child error, both
give the same outcome and the same writes and end in states that agree in the same way. -/
theorem step_stable_across_lines (v w : Ver) (hv : v = .v14 ∨ v = .v15) (hw : Ver.v20 ≤ w) (s1 s2 : St)
    (hs : CrossSt v w s1 s2) (op : Op) (hop : OpOKAcross v op) (href : StepRefsKnown v s1 op) :
    SameObs (stepOp s1 op).2 (stepOp s2 op).2 ∧ CrossSt v w (stepOp s1 op).1 (stepOp s2 op).1 := by
  have hvw : v ≠ w := by rcases hv with rfl | rfl <;> (intro h; subst h; exact absurd hw (by decide))
  rcases hs.sim.proto with ⟨hp1, hp2⟩ | hpe
  · -- different lines
    have hnm : NoMarkers s2.ibuf := hs.nomark (by rw [hp1, hp2]; exact hvw)
    cases op with
    | send obj b faults =>
      obtain ⟨hobs, hst⟩ := sameObs_send s1 s2 obj b faults
        ((resp_apiSend (v := v) (w := w) obj b).run { st := s1, faults := faults } { st := s2, faults := faults } ⟨hs.sim, rfl, rfl⟩)
      refine ⟨hobs, hst, fun _ => ?_⟩
      rw [stepOp_send_st, show (apiSend obj b { st := s2, faults := faults }).2.st.ibuf = s2.ibuf from
        (ki_apiSend obj b).step { st := s2, faults := faults }]
      exact hnm
    | recv env line faults =>
      have hsim : Sim v w { st := s1, faults := faults } { st := s2, faults := faults } := ⟨hs.sim, rfl, rfl⟩
      have key : ((recv env line { st := s1, faults := faults }).1 = (recv env line { st := s2, faults := faults }).1 ∧
          Sim v w (recv env line { st := s1, faults := faults }).2 (recv env line { st := s2, faults := faults }).2) ∧
          (recv env line { st := s2, faults := faults }).2.st.ibuf = s2.ibuf := by
        simp only [recv, M.bind, M.getSt]
        rw [hp1, hp2, ← decode_version_independent v w line]
        cases hd : decode v line with
        | none => exact ⟨⟨rfl, hsim⟩, rfl⟩
        | some m =>
          simp only []
          obtain ⟨hex, hgr⟩ := hop m hd
          have hcmd := decode_cmd_range hd
          have hm1 : ¬ RaisesMissing env v m { st := s1, faults := faults } := href hp1 m hd
          have hm2 : ¬ RaisesMissing env v m { st := s2, faults := faults } := by
            have := ((resp_handlerBody (v' := v) (w' := w) env v m).run _ _ hsim).1
            unfold RaisesMissing at hm1 ⊢
            rw [← this]; exact hm1
          rw [dispatch_across env v w hv hw m hcmd (fun h3 => ⟨hex.1 h3, fun h14 => hgr ⟨h3, h14⟩⟩)
            { st := s2, faults := faults } hnm hm2]
          exact ⟨(resp_dispatch env v m).run _ _ hsim, (dispatch_old_keeps_ibuf env v hv m).step { st := s2, faults := faults }⟩
      obtain ⟨hobs, hst⟩ := sameObs_recv s1 s2 env line faults key.1
      refine ⟨hobs, hst, fun _ => ?_⟩
      rw [stepOp_recv_st, key.2]
      exact hnm
  · -- both on the same protocol already: nothing about the message matters any more
    have hs' : SimSt s1.proto s1.proto s1 s2 := ⟨hs.sim.nodes, hs.sim.ibuf, hs.sim.sbuf, hs.sim.known, Or.inr hpe⟩
    obtain ⟨hobs, hst⟩ := step_same_protocol s1.proto s1 s2 hs' op
    have hpe' : (stepOp s1 op).1.proto = (stepOp s2 op).1.proto := by
      rcases hst.proto with ⟨a, b⟩ | h
      · rw [a, b]
      · exact h
    exact ⟨hobs, ⟨hst.nodes, hst.ibuf, hst.sbuf, hst.known, Or.inr hpe'⟩, fun hne => absurd hpe' hne⟩

/-- **Every history across the lines, at handler level** (this form also covers the phase in which
no version is known yet).  Two gateways, the older on `v` ∈ {1.4, 1.5}, the newer on `w` ≥ 2.0,
started from states that agree and hold no marker, fed the same history — received lines with
arbitrary write faults, `send` calls — whose message types all exist in `v`, without gateway-ready,
and along which the older gateway's handlers raise no missing-node/child error: outcomes and
writes agree at every step and the final states agree in the same way.  A version report moves
both gateways to the same protocol (both select by the same reported string); from then on nothing
is required of the messages. -/
theorem history_stable_across_lines_handlers (v w : Ver) (hv : v = .v14 ∨ v = .v15) (hw : Ver.v20 ≤ w)
    (ops : List Op) (hops : ∀ op ∈ ops, OpOKAcross v op) (s1 s2 : St) (hs : CrossSt v w s1 s2)
    (href : RunRefsKnown v s1 ops) :
    AllSame (run s1 ops).2 (run s2 ops).2 ∧ CrossSt v w (stateAfter s1 ops) (stateAfter s2 ops) := by
  induction ops generalizing s1 s2 with
  | nil => exact ⟨by simp [run, AllSame], by simpa [stateAfter, run] using hs⟩
  | cons op ops ih =>
    obtain ⟨hobs, hst⟩ := step_stable_across_lines v w hv hw s1 s2 hs op (hops op (by simp)) href.1
    obtain ⟨h1, h2⟩ := ih (fun o ho => hops o (by simp [ho])) _ _ hst href.2
    exact ⟨by simpa [run, AllSame] using ⟨hobs, h1⟩, by simpa [stateAfter, run] using h2⟩

/-! #### The same, from what the older run shows -/

/-- The step did not end in a `MissingNodeError` or a `MissingChildError`. -/
def NoMissingOutcome (o : Obs) : Prop :=
  ∀ id, o.out ≠ .error (.lib (.missingNode id)) ∧ o.out ≠ .error (.lib (.missingChild id))

/-- A gateway runs a 2.x protocol only after a version was reported: while none is known the
default protocol 1.4 is active (`C05.Coherent`, an invariant of every history — `C05.coherent_history`). -/
theorem version_known_on_newer_line (s : St) (hc : C05.Coherent s) (h : Ver.v20 ≤ s.proto) : s.pv.isSome = true := by
  unfold C05.Coherent at hc
  cases hp : s.pv with
  | some p => rfl
  | none =>
    rw [hp] at hc
    simp only at hc
    rw [hc] at h
    exact absurd h (by decide)

theorem stepOp_keeps_known (s : St) (op : Op) (h : s.pv.isSome = true) : (stepOp s op).1.pv.isSome = true := by
  cases op with
  | recv env line faults => rw [stepOp_recv_st]; exact (recv_keeps_known env line).step { st := s, faults := faults } h
  | send obj b faults => rw [stepOp_send_st]; exact (apiSend_keeps_known obj b).step { st := s, faults := faults } h

/-- With the version known the version-query decorator adds nothing, so a missing error raised by
the handler is the step's outcome: a step that does not show one raised none. -/
theorem stepRefsKnown_of_observed (v : Ver) (hv : v = .v14 ∨ v = .v15) (s : St) (op : Op)
    (hk : s.pv.isSome = true) (hobs : NoMissingOutcome (stepOp s op).2) : StepRefsKnown v s op := by
  cases op with
  | send obj b faults => trivial
  | recv env line faults =>
    intro hp m hd hr
    apply hr
    intro e he
    cases hc : missingCaught e with
    | false => rfl
    | true =>
      exfalso
      have hkn : (handlerBody env v m { st := s, faults := faults }).2.st.pv.isSome = true :=
        (handlerBody_keeps_known env v m).step { st := s, faults := faults } hk
      have hrecv : (recv env line { st := s, faults := faults }).1 = .error e := by
        simp only [recv, M.bind, M.getSt]
        rw [hp, hd]
        simp only []
        rw [dispatch_old env v hv m (decode_cmd_range hd), wrapMissingPV_known _ _ _ hkn]
        exact he
      have hout : (stepOp s (.recv env line faults)).2.out = .error e := by rw [stepOp_recv_out, hrecv]
      cases e with
      | foreign c => simp [missingCaught] at hc
      | lib l =>
        cases l with
        | missingNode id => exact (hobs id).1 hout
        | missingChild id => exact (hobs id).2 hout
        | _ => simp [missingCaught] at hc

theorem runRefsKnown_of_observed (v : Ver) (hv : v = .v14 ∨ v = .v15) (ops : List Op) (s : St)
    (hk : s.pv.isSome = true) (hobs : ∀ o ∈ (run s ops).2, NoMissingOutcome o) : RunRefsKnown v s ops := by
  induction ops generalizing s with
  | nil => trivial
  | cons op ops ih =>
    have hrun : (run s (op :: ops)).2 = (stepOp s op).2 :: (run (stepOp s op).1 ops).2 := by simp [run]
    rw [hrun] at hobs
    exact ⟨stepRefsKnown_of_observed v hv s op hk (hobs _ (by simp)),
      ih _ (stepOp_keeps_known s op hk) fun o ho => hobs o (by simp [ho])⟩

/-- **Every history across the lines 1.x → 2.x.**  Two gateways that know their version, the older
on `v` ∈ {1.4, 1.5}, the newer on `w` ≥ 2.0, started from states that agree and hold no
presentation-request marker, fed the same history (received lines with arbitrary write-fault
schedules, and `send` calls) in which every line that decodes has a type that exists in `v` and is
not gateway-ready, and such that **the older gateway's run never ends a step with a
`MissingNodeError` or `MissingChildError`** ("no unknown node or child is referenced"): the
outcomes and the writes agree at every step, and the final states agree in the same relation —
registry, both buffers, whether a version is known, and the active protocols are still `(v, w)` or,
after a version report, the same one.

Extra precondition `hk` (the version is known), and why it is the precise one: with no version
known the hypothesis on the observations is *not* enough — a battery report from an unknown node
whose version query cannot be written ends, in 1.x, with the transport error (the missing-node
error is replaced in the `finally` clause), while 2.x has by then attempted a presentation request.
But that state is not reachable on different lines: a gateway runs 2.x only after a version was
reported (`version_known_on_newer_line`, from `C05.coherent_history`), and agreeing states know a
version together (`SimSt.known`); once known it stays known (`stepOp_keeps_known`).  Histories that
start with no version known are covered by `history_stable_across_lines_handlers`, where the
hypothesis is put on the handler's own error instead. -/
theorem history_stable_across_lines (v w : Ver) (hv : v = .v14 ∨ v = .v15) (hw : Ver.v20 ≤ w)
    (ops : List Op) (hops : ∀ op ∈ ops, OpOKAcross v op) (s1 s2 : St) (hs : CrossSt v w s1 s2)
    (hk : s1.pv.isSome = true) (hobs : ∀ o ∈ (run s1 ops).2, NoMissingOutcome o) :
    AllSame (run s1 ops).2 (run s2 ops).2 ∧ CrossSt v w (stateAfter s1 ops) (stateAfter s2 ops) :=
  history_stable_across_lines_handlers v w hv hw ops hops s1 s2 hs (runRefsKnown_of_observed v hv ops s1 hk hobs)

/-! #### The same, read off the registry

"No unknown node or child is referenced" as a statement about the registry and the message, not
about the error a handler raised: at every step of the older run, the message either names no
registry entry (`NamesNothing`: a node presentation, or an internal message that is not a report
about its sender — id / config / time requests, log messages ...) or the registry of that moment
holds the node it names and, for set / req, the child (`Registered`).  How the node got into the
registry does not matter: loaded, presented, or registered with default values by the id-request
handler and not presented yet. -/

/-- The step stays inside the registry. -/
def StepInRegistry (v : Ver) (s : St) : Op → Prop
  | .recv _ line _ => s.proto = v → ∀ m, decode v line = some m → NamesNothing v m ∨ Registered s m
  | .send _ _ _ => True

/-- Every step of the older gateway's run stays inside the registry of its moment. -/
def RunInRegistry (v : Ver) : St → List Op → Prop
  | _, [] => True
  | s, op :: ops => StepInRegistry v s op ∧ RunInRegistry v (stepOp s op).1 ops

/-- **Registry membership is enough**: a step inside the registry raises no missing error in the
handler (of any version `v`) — `notMissing_of_registered`, `notMissing_of_namesNothing`. -/
theorem stepRefsKnown_of_registry (v : Ver) (s : St) (op : Op) (h : StepInRegistry v s op) : StepRefsKnown v s op := by
  cases op with
  | send obj b faults => trivial
  | recv env line faults =>
    intro hp m hd
    rcases h hp m hd with hn | hr
    · exact notMissing_of_namesNothing env v m _ hn
    · exact notMissing_of_registered env v m (decode_cmd_range hd) { st := s, faults := faults } hr

theorem runRefsKnown_of_registry (v : Ver) (ops : List Op) (s : St) (h : RunInRegistry v s ops) : RunRefsKnown v s ops := by
  induction ops generalizing s with
  | nil => trivial
  | cons op ops ih => exact ⟨stepRefsKnown_of_registry v s op h.1, ih _ h.2⟩

/-- **Every history across the lines 1.x → 2.x, with the domain read off the registry.**  Two
gateways, the older on `v` ∈ {1.4, 1.5}, the newer on `w` ≥ 2.0, started from states that agree and
hold no presentation-request marker, fed the same history (received lines with arbitrary
write-fault schedules, and `send` calls) in which every line that decodes has a type that exists in
`v` and is not gateway-ready, and in which every message names nothing or something the older
gateway's registry holds at that moment: the outcomes and the writes agree at every step and the
final states agree in the same relation.  In particular the traffic of a node that holds an id from
the id-request handler but has not presented itself is inside: such a node is in the registry. -/
theorem history_stable_across_lines_registry (v w : Ver) (hv : v = .v14 ∨ v = .v15) (hw : Ver.v20 ≤ w)
    (ops : List Op) (hops : ∀ op ∈ ops, OpOKAcross v op) (s1 s2 : St) (hs : CrossSt v w s1 s2)
    (href : RunInRegistry v s1 ops) :
    AllSame (run s1 ops).2 (run s2 ops).2 ∧ CrossSt v w (stateAfter s1 ops) (stateAfter s2 ops) :=
  history_stable_across_lines_handlers v w hv hw ops hops s1 s2 hs (runRefsKnown_of_registry v ops s1 href)

/-- The id-request handler puts the next free id into the registry: right after it, a sketch name
(or battery level, stream, child presentation ...) from that id names a registered node. -/
theorem placeholder_is_registered (s : St) (m : Msg) (h : m.node = nextId s.nodes) (hc : ¬ (m.cmd = 1 ∨ m.cmd = 2)) :
    Registered (allocNode { st := s }).2.st m := by
  refine ⟨placeholderNode, ?_, fun h' => absurd h' hc⟩
  simp only [allocNode, M.modifySt, h]
  exact PDict.get?_set_self _ _ _

/-- Two fresh gateways that were told versions of different lines agree in the required way. -/
theorem fresh_similar_across (v w : Ver) (pv1 pv2 : Str) :
    CrossSt v w { pv := some pv1, proto := v } { pv := some pv2, proto := w } :=
  ⟨fresh_similar v w pv1 pv2, fun _ => noMarkers_nil⟩

/-! Non-vacuity -/
example : TypeExists .v14 ⟨1, 255, 3, 0, 6, []⟩ := by constructor <;> decide
example : SameLine .v20 .v22 = true := by decide
example : CrossSt .v15 .v21 { pv := some "1.5".toList, proto := .v15 } { pv := some "2.1".toList, proto := .v21 } :=
  fresh_similar_across _ _ _ _
example : NoMissingOutcome ⟨.error (.lib .transportFailed), []⟩ := fun _ => ⟨by simp, by simp⟩
/-- A log message references nothing: the hypothesis of the handler-level theorem holds for it in every state. -/
example (env : Env) (s : St) (faults : List Fault) :
    ¬ RaisesMissing env .v14 ⟨1, 255, 3, 0, 9, []⟩ { st := s, faults := faults } := by
  intro h
  apply h
  rw [(handlerBody_cases env .v14 ⟨1, 255, 3, 0, 9, []⟩).2.2.2.1 rfl, internal_log env .v14 _ rfl]
  intro e he
  simp [M.pure] at he

end AioMySensors.C19
