/-
C10 — An unknown node or child triggers one presentation request per episode (protocol 2.x).

`wrapMissingNC` models the decorator `handle_missing_node_child`; where it is applied comes from
the generated chains (`Lemmas/Exact.lean`: `dispatch_*`, `internal_*`), so dropping it from one
handler in one version breaks `all_missing_paths_wrapped`.  The marker of an outstanding request is
the entry `(node, 255, I_PRESENTATION)` of `MessageBuffer.internal_messages`.
-/
import AioMySensors.Lemmas.Exact

namespace AioMySensors.C10
open AioMySensors M

/-- A presentation request to `n` is outstanding. -/
def Marked (st : St) (n : Int) : Prop := st.ibuf.has (presentationRequest n).key = true

/-- The request addressed to the node: `n;255;3;0;19;`. -/
theorem request_line (n : Int) :
    encode (presentationRequest n) = dec n ++ ";255;3;0;19;\n".toList := by
  have : dec 255 = "255".toList ∧ dec 3 = "3".toList ∧ dec 0 = "0".toList ∧ dec 19 = "19".toList := by decide
  simp [encode, presentationRequest, Gen.systemChildId, Gen.cmdInternal, Gen.iPresentation, Gen.delimiter,
    Gen.terminator, this]

/-- **Where the decorator is applied (generated chains).** From protocol 2.0 on, every handler that
can fail with a missing node or child — set, req, stream, child presentation, battery level, sketch
name, sketch version, discover response, heartbeat response, pre-sleep notification — runs inside
it; before 2.0 none does. -/
theorem all_missing_paths_wrapped (env : Env) (v : Ver) (m : Msg) :
    (m.cmd = 1 → dispatch env v m = wrapNC v (wrapMissingPV hSet) m) ∧
    (m.cmd = 2 → dispatch env v m = wrapNC v (wrapMissingPV hReq) m) ∧
    (m.cmd = 4 → dispatch env v m = wrapNC v (wrapMissingPV (hStream env v)) m) ∧
    (m.cmd = 0 → Ver.v20 ≤ v → dispatch env v m =
        wrapMissingNC (fun m => seq (prePresentation20 m) (wrapMissingPV (hPresentation env v) m)) m) ∧
    (m.type = 0 → hInternal env v m = wrapNC v hBattery m) ∧
    (m.type = 11 → hInternal env v m = wrapNC v hSketchName m) ∧
    (m.type = 12 → hInternal env v m = wrapNC v hSketchVersion m) ∧
    (m.type = 22 → Ver.v20 ≤ v → hInternal env v m =
        wrapMissingNC (if v = .v22 then hHeartbeat22 else hHeartbeat20) m) ∧
    (m.type = 32 → v = .v22 → hInternal env v m = wrapMissingNC hPreSleep22 m) := by
  refine ⟨dispatch_set env v m, dispatch_req env v m, dispatch_stream env v m, ?_, internal_battery env v m,
    internal_sketch_name env v m, internal_sketch_version env v m, ?_, ?_⟩
  · intro h hv; rw [dispatch_presentation env v m h]; simp [hv]
  · intro h hv; rw [internal_heartbeat_response env v m h]; cases v <;> simp_all <;> exact absurd hv (by decide)
  · intro h hv; rw [internal_pre_sleep env v m h]; simp [hv]

theorem discover_response_wrapped (env : Env) (v : Ver) (m : Msg) (h : m.type = 21) (hv : Ver.v20 ≤ v) :
    hInternal env v m = wrapMissingNC hDiscoverResponse m := by
  unfold hInternal; rw [h]; cases v <;> first | rfl | exact absurd hv (by decide)

/-- Before 2.0 the decorator is absent: `wrapNC` is the identity. -/
theorem never_wrapped_before_20 (v : Ver) (inner : Msg → M Msg) (h : v = .v14 ∨ v = .v15) : wrapNC v inner = inner := by
  rcases h with rfl | rfl <;> exact wrapNC_old _ _ (by decide)

/-- The generated except clause names both missing errors. -/
theorem missing_errors_caught (n c : Int) :
    missingCaught (.lib (.missingNode n)) = true ∧ missingCaught (.lib (.missingChild c)) = true := by
  constructor <;> simp [missingCaught] <;> decide

/-- **One request when none is outstanding.** The handler failed with a missing node/child error
and no request to that node is outstanding: exactly one presentation request addressed to that
node is written; the write succeeded, so it is now outstanding, and the caller gets the missing error. -/
theorem request_when_unmarked (inner : Msg → M Msg) (m : Msg) (e : Exn) (w w' : W)
    (h : inner m w = (.error e, w')) (he : missingCaught e = true) (hm : ¬ Marked w'.st m.node)
    (hf : w'.faults = [] ∨ ∃ rest, w'.faults = false :: rest) :
    (wrapMissingNC inner m w).1 = .error e ∧
    (wrapMissingNC inner m w).2.writes = w'.writes ++ [⟨encode (presentationRequest m.node), true⟩] ∧
    Marked (wrapMissingNC inner m w).2.st m.node := by
  have hm' : w'.st.ibuf.has (presentationRequest m.node).key = false := by simpa [Marked] using hm
  rw [wrapMissingNC_unmarked inner m e w w' h he hm']
  rcases hf with hf | ⟨rest, hf⟩
  · rw [transportWrite_ok _ _ hf]; simp [Marked, PDict.has_set_self]
  · rw [transportWrite_pass _ _ rest hf]; simp [Marked, PDict.has_set_self]

/-- **A request whose write failed does not count as sent**: the transport error is reported and
nothing is recorded, so the next such message tries again. -/
theorem failed_request_not_recorded (inner : Msg → M Msg) (m : Msg) (e : Exn) (w w' : W) (rest : List Bool)
    (h : inner m w = (.error e, w')) (he : missingCaught e = true) (hm : ¬ Marked w'.st m.node)
    (hf : w'.faults = true :: rest) :
    (wrapMissingNC inner m w).1 = .error (.lib .transportFailed) ∧
    (wrapMissingNC inner m w).2.writes = w'.writes ++ [⟨encode (presentationRequest m.node), false⟩] ∧
    (wrapMissingNC inner m w).2.st = w'.st := by
  have hm' : w'.st.ibuf.has (presentationRequest m.node).key = false := by simpa [Marked] using hm
  rw [wrapMissingNC_unmarked inner m e w w' h he hm', transportWrite_fail _ _ rest hf]
  simp

/-- **Silence while a request is outstanding.** -/
theorem silent_when_marked (inner : Msg → M Msg) (m : Msg) (e : Exn) (w w' : W)
    (h : inner m w = (.error e, w')) (he : missingCaught e = true) (hm : Marked w'.st m.node) :
    wrapMissingNC inner m w = (.error e, w') :=
  wrapMissingNC_marked inner m e w w' h he hm

/-- The decorator is transparent when nothing is missing. -/
theorem transparent_when_ok (inner : Msg → M Msg) (m r : Msg) (w w' : W) (h : inner m w = (.ok r, w')) :
    wrapMissingNC inner m w = (.ok r, w') :=
  wrapMissingNC_ok inner m r w w' h

theorem transparent_on_other_errors (inner : Msg → M Msg) (m : Msg) (e : Exn) (w w' : W)
    (h : inner m w = (.error e, w')) (he : missingCaught e = false) : wrapMissingNC inner m w = (.error e, w') :=
  wrapMissingNC_other inner m e w w' h he

/-- Markers are kept without duplicates (needed for "the presentation clears it"). -/
def IbufWF (st : St) : Prop := PDict.WF st.ibuf

def KeepsIbufWF : W → W → Prop := OnSt fun s s' => IbufWF s → IbufWF s'

theorem keepsIbufWF_preO : PreO KeepsIbufWF := OnSt.preO (fun _ h => h) (fun h1 h2 h => h2 (h1 h))

theorem ibuf_same {f : St → St} (h : ∀ s, (f s).ibuf = s.ibuf) : Rel KeepsIbufWF (modifySt f) :=
  Rel.modifySt f fun s hs => by simpa [IbufWF, h s] using hs

theorem ibufWF_stepRel (m : Msg) : StepRel KeepsIbufWF m where
  pre := keepsIbufWF_preO
  write := fun _ _ => Rel.transportWrite (fun _ h => h) _
  setNode := fun _ => ibuf_same fun _ => rfl
  alloc := ibuf_same fun _ => rfl
  erase := fun _ _ _ => ibuf_same fun s => by split <;> rfl
  mark := Rel.modifySt _ fun s hs => PDict.wf_set hs _ _
  unmark := Rel.modifySt _ fun s hs => by
    split
    · exact PDict.wf_erase hs _
    · exact hs
  version := fun _ _ => ibuf_same fun _ => rfl

/-- The marker table never holds a key twice, along any history. -/
theorem ibufWF_recv (env : Env) (line : Str) (w : W) (h : IbufWF w.st) : IbufWF (recv env line w).2.st :=
  (rel_recv keepsIbufWF_preO (fun _ m _ => ibufWF_stepRel m)
    (ParkOK.of_all fun _ => ibuf_same fun _ => rfl) env).step w h

theorem ibufWF_send (obj : Option Msg) (b : Bool) (w : W) (h : IbufWF w.st) : IbufWF (apiSend obj b w).2.st :=
  (rel_apiSend keepsIbufWF_preO (fun _ => Rel.transportWrite (fun _ h => h) _) (fun _ _ => ibuf_same fun _ => rfl) obj b).step w h

theorem ibufWF_init : IbufWF {} := by simp [IbufWF, PDict.WF, PDict.keys]

/-- **A node presentation re-arms the request**: afterwards no request to that node is outstanding. -/
theorem presentation_rearms (m : Msg) (w : W) (hc : m.child = Gen.systemChildId) (hwf : IbufWF w.st) :
    ¬ Marked (prePresentation20 m w).2.st m.node := by
  have hk : (presentationRequest m.node).key = (m.node, m.child, Gen.iPresentation) := by
    simp [presentationRequest, Msg.key, hc]
  simp only [Marked, prePresentation20, M.modifySt, hk]
  split
  · simp [PDict.has_erase_self hwf]
  · next h => simpa using h

/-- A child presentation (child ≠ 255) leaves every marker alone. -/
theorem child_presentation_keeps_marker (m : Msg) (w : W) (n : Int) (hc : m.child ≠ Gen.systemChildId) :
    Marked (prePresentation20 m w).2.st n ↔ Marked w.st n := by
  have hk : (presentationRequest n).key ≠ (m.node, m.child, Gen.iPresentation) := by
    simp [presentationRequest, Msg.key]; intro _ h; exact absurd h.symm hc
  simp only [Marked, prePresentation20, M.modifySt]
  split
  · simp [PDict.has_erase_ne _ hk]
  · rfl

/-- Handling a message from node `m.node` never touches another node's marker. -/
def OthersSame (n : Int) : W → W → Prop := OnSt fun s s' => ∀ n', n' ≠ n → (Marked s' n' ↔ Marked s n')

theorem othersSame_preO (n : Int) : PreO (OthersSame n) :=
  OnSt.preO (fun _ _ _ => Iff.rfl) (fun h1 h2 n' hn => (h2 n' hn).trans (h1 n' hn))

theorem others_ibuf_same (n : Int) {f : St → St} (h : ∀ s, (f s).ibuf = s.ibuf) : Rel (OthersSame n) (modifySt f) :=
  Rel.modifySt f fun s n' _ => by simp [Marked, h s]

theorem key_ne_of_node_ne {n n' : Int} (c t : Int) (h : n' ≠ n) : (presentationRequest n').key ≠ (n, c, t) := by
  simp [presentationRequest, Msg.key]; intro e; exact absurd e h

theorem othersSame_stepRel (m : Msg) : StepRel (OthersSame m.node) m where
  pre := othersSame_preO m.node
  write := fun _ _ => Rel.transportWrite (fun _ _ _ => Iff.rfl) _
  setNode := fun _ => others_ibuf_same _ fun _ => rfl
  alloc := others_ibuf_same _ fun _ => rfl
  erase := fun _ _ _ => others_ibuf_same _ fun s => by split <;> rfl
  mark := Rel.modifySt _ fun s n' hn => by
    have := key_ne_of_node_ne Gen.systemChildId Gen.iPresentation hn
    simp only [Marked]
    rw [PDict.has_set_ne _ _ (by simpa [presentationRequest, Msg.key] using this)]
  unmark := Rel.modifySt _ fun s n' hn => by
    split
    · simp only [Marked]; rw [PDict.has_erase_ne _ (key_ne_of_node_ne _ _ hn)]
    · rfl
  version := fun _ _ => others_ibuf_same _ fun _ => rfl

/-- **Independence.** Whatever a message from node `m.node` leads to — in any version, with any
faults — requests outstanding for other nodes stay exactly as they were. -/
theorem independent (env : Env) (v : Ver) (m : Msg) (w : W) (n' : Int) (hn : n' ≠ m.node) :
    Marked (dispatch env v m w).2.st n' ↔ Marked w.st n' :=
  (rel_dispatch (othersSame_stepRel m) (ParkOK.of_all fun _ => others_ibuf_same _ fun _ => rfl) env v).step w n' hn

/-! Non-vacuity: the decorator on a concrete failing handler. -/
example : Marked (wrapMissingNC (fun m => raise (.lib (.missingNode m.node))) ⟨7, 0, 1, 0, 0, []⟩ { st := {} }).2.st 7 := by
  unfold Marked; decide

end AioMySensors.C10
