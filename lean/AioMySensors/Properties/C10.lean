/-
C10 — An unknown node or child triggers one presentation request per episode (protocol 2.x).

`wrapMissingNC` models the decorator `handle_missing_node_child`; where it is applied comes from
the generated chains (`Lemmas/Exact.lean`: `dispatch_*`, `internal_*`), so dropping it from one
handler in one version breaks `all_missing_paths_wrapped`.  The marker of an outstanding request is
the entry `(node, 255, I_PRESENTATION)` of `MessageBuffer.internal_messages`.

The second half lifts the step theorems to histories (`Model/Gateway.lean`): the invariant
`episode_invariant` links the marker of a node to the log of the gateway's own write attempts
(the two-state automaton `Episode.track`, proved for every received line by the traversal of
`Lemmas/Episode.lean`), from which `one_per_episode`, `between_rearms` and `no_request_before_20`
follow by induction over the operation list.
-/
import AioMySensors.Lemmas.Episode
import AioMySensors.Properties.C07

namespace AioMySensors.C10
open AioMySensors M Episode

/-- A presentation request to `n` is outstanding. -/
def Marked (st : St) (n : Int) : Prop := st.ibuf.has (presentationRequest n).key = true

/-- The request addressed to the node: `n;255;3;0;19;`. -/
theorem request_line (n : Int) :
    encode (presentationRequest n) = dec n ++ ";255;3;0;19;\n".toList := by
  have : dec 255 = "255".toList ∧ dec 3 = "3".toList ∧ dec 0 = "0".toList ∧ dec 19 = "19".toList := by decide
  simp [encode, presentationRequest, Gen.systemChildId, Gen.cmdInternal, Gen.iPresentation, Gen.delimiter,
    Gen.terminator, this]

/-- **Where the decorator is applied (generated chains).** From protocol 2.0 on, every handler that
can fail with a missing node or child — set, req, stream, child presentation, battery level, sketch
name, sketch version, discover response, heartbeat response, pre-sleep notification — runs inside
it; before 2.0 none does. -/
theorem all_missing_paths_wrapped (env : Env) (v : Ver) (m : Msg) :
    (m.cmd = 1 → dispatch env v m = wrapNC v (wrapMissingPV hSet) m) ∧
    (m.cmd = 2 → dispatch env v m = wrapNC v (wrapMissingPV hReq) m) ∧
    (m.cmd = 4 → dispatch env v m = wrapNC v (wrapMissingPV (hStream env v)) m) ∧
    (m.cmd = 0 → Ver.v20 ≤ v → dispatch env v m =
        wrapMissingNC (fun m => seq (prePresentation20 m) (wrapMissingPV (hPresentation env v) m)) m) ∧
    (m.type = 0 → hInternal env v m = wrapNC v hBattery m) ∧
    (m.type = 11 → hInternal env v m = wrapNC v hSketchName m) ∧
    (m.type = 12 → hInternal env v m = wrapNC v hSketchVersion m) ∧
    (m.type = 22 → Ver.v20 ≤ v → hInternal env v m =
        wrapMissingNC (if v = .v22 then hHeartbeat22 else hHeartbeat20) m) ∧
    (m.type = 32 → v = .v22 → hInternal env v m = wrapMissingNC hPreSleep22 m) := by
  refine ⟨dispatch_set env v m, dispatch_req env v m, dispatch_stream env v m, ?_, internal_battery env v m,
    internal_sketch_name env v m, internal_sketch_version env v m, ?_, ?_⟩
  · intro h hv; rw [dispatch_presentation env v m h]; simp [hv]
  · intro h hv; rw [internal_heartbeat_response env v m h]; cases v <;> simp_all <;> exact absurd hv (by decide)
  · intro h hv; rw [internal_pre_sleep env v m h]; simp [hv]

theorem discover_response_wrapped (env : Env) (v : Ver) (m : Msg) (h : m.type = 21) (hv : Ver.v20 ≤ v) :
    hInternal env v m = wrapMissingNC hDiscoverResponse m := by
  unfold hInternal; rw [h]; cases v <;> first | rfl | exact absurd hv (by decide)

/-- Before 2.0 the decorator is absent: `wrapNC` is the identity. -/
theorem never_wrapped_before_20 (v : Ver) (inner : Msg → M Msg) (h : v = .v14 ∨ v = .v15) : wrapNC v inner = inner := by
  rcases h with rfl | rfl <;> exact wrapNC_old _ _ (by decide)

/-- The generated except clause names both missing errors. -/
theorem missing_errors_caught (n c : Int) :
    missingCaught (.lib (.missingNode n)) = true ∧ missingCaught (.lib (.missingChild c)) = true := by
  constructor <;> simp [missingCaught] <;> decide

/-- **One request when none is outstanding.** The handler failed with a missing node/child error
and no request to that node is outstanding: exactly one presentation request addressed to that
node is written; the write succeeded, so it is now outstanding, and the caller gets the missing error. -/
theorem request_when_unmarked (inner : Msg → M Msg) (m : Msg) (e : Exn) (w w' : W)
    (h : inner m w = (.error e, w')) (he : missingCaught e = true) (hm : ¬ Marked w'.st m.node)
    (hf : w'.faults = [] ∨ ∃ rest, w'.faults = .pass :: rest) :
    (wrapMissingNC inner m w).1 = .error e ∧
    (wrapMissingNC inner m w).2.writes = w'.writes ++ [⟨encode (presentationRequest m.node), true⟩] ∧
    Marked (wrapMissingNC inner m w).2.st m.node := by
  have hm' : w'.st.ibuf.has (presentationRequest m.node).key = false := by simpa [Marked] using hm
  rw [wrapMissingNC_unmarked inner m e w w' h he hm']
  rcases hf with hf | ⟨rest, hf⟩
  · rw [transportWrite_ok _ _ hf]; simp [Marked, PDict.has_set_self]
  · rw [transportWrite_pass _ _ rest hf]; simp [Marked, PDict.has_set_self]

/-- **A missing child of a KNOWN node: the handler's error does not look at the entry.** Whatever the
registry holds for the node — the version it reported (`1.4`, the placeholder default of the id-request
handler; `1.5.1`; `2.2`; no version at all), its type, sketch, battery, flags, other children,
restored from a file or built by this run — a set or req for a child that entry does not have fails
with the missing-child error and leaves everything as it was. -/
theorem missing_child_raises_any_entry (m : Msg) (w : W) (nd : Node)
    (hn : w.st.nodes.get? m.node = some nd) (hc : nd.children.get? m.child = none) :
    hSet m w = (.error (.lib (.missingChild m.child)), w) ∧ hReq m w = (.error (.lib (.missingChild m.child)), w) := by
  constructor
  · simp only [hSet, M.bind, requireNode, M.getSt, hn, M.pure, hc, M.raise]
  · simp only [hReq, M.bind, requireNode, M.getSt, hn, M.pure, hc, M.raise]

/-- **… and the request is written, whatever the entry holds.** Protocol 2.0 or newer, version known,
a set (`cmd = 1`) or req (`cmd = 2`) from a registered node — ANY entry `nd` — for a child the entry
does not have, no request to that node outstanding, the next write not failing: the step's only
write is the presentation request `n;255;3;0;19;` handed to the transport, it is outstanding
afterwards, the registry is untouched and the caller gets the missing-child error.  (The request
goes through the outgoing internal handler, which writes every internal message directly: nothing
about the addressee's entry — in particular not the library version it reported — can keep the
line from the transport.) -/
theorem missing_child_request_any_entry (env : Env) (v : Ver) (hv : Ver.v20 ≤ v) (m : Msg) (w : W) (nd : Node)
    (hcmd : m.cmd = 1 ∨ m.cmd = 2) (hn : w.st.nodes.get? m.node = some nd) (hc : nd.children.get? m.child = none)
    (hpv : w.st.pv.isSome = true) (hm : ¬ Marked w.st m.node)
    (hf : w.faults = [] ∨ ∃ rest, w.faults = .pass :: rest) :
    (dispatch env v m w).1 = .error (.lib (.missingChild m.child)) ∧
    (dispatch env v m w).2.writes = w.writes ++ [⟨encode (presentationRequest m.node), true⟩] ∧
    Marked (dispatch env v m w).2.st m.node ∧
    (dispatch env v m w).2.st.nodes = w.st.nodes := by
  obtain ⟨hs, hr⟩ := missing_child_raises_any_entry m w nd hn hc
  have key : ∀ inner : Msg → M Msg, inner m w = (.error (.lib (.missingChild m.child)), w) →
      (wrapNC v (wrapMissingPV inner) m w).1 = .error (.lib (.missingChild m.child)) ∧
      (wrapNC v (wrapMissingPV inner) m w).2.writes = w.writes ++ [⟨encode (presentationRequest m.node), true⟩] ∧
      Marked (wrapNC v (wrapMissingPV inner) m w).2.st m.node ∧
      (wrapNC v (wrapMissingPV inner) m w).2.st.nodes = w.st.nodes := by
    intro inner hi
    have hin : wrapMissingPV inner m w = (.error (.lib (.missingChild m.child)), w) := by
      rw [wrapMissingPV_known inner m w (by rw [hi]; exact hpv), hi]
    rw [wrapNC_new v _ hv]
    obtain ⟨a, b, c⟩ := request_when_unmarked (wrapMissingPV inner) m _ w w hin (missing_errors_caught 0 m.child).2 hm hf
    refine ⟨a, b, c, ?_⟩
    have hm' : w.st.ibuf.has (presentationRequest m.node).key = false := by simpa [Marked] using hm
    rw [wrapMissingNC_unmarked (wrapMissingPV inner) m _ w w hin (missing_errors_caught 0 m.child).2 hm']
    rcases hf with hf | ⟨rest, hf⟩
    · rw [transportWrite_ok _ _ hf]
    · rw [transportWrite_pass _ _ rest hf]
  rcases hcmd with h | h
  · rw [dispatch_set env v m h]; exact key hSet hs
  · rw [dispatch_req env v m h]; exact key hReq hr

/-- **A request whose write did not complete does not count as sent** — whether the transport
failed (the transport error is reported) or the listening task was cancelled while the request was
being written (`asyncio.wait_for`, a timeout, `task.cancel()`: the `CancelledError` propagates):
nothing is recorded, so the next such message tries again. -/
theorem aborted_request_not_recorded (inner : Msg → M Msg) (m : Msg) (e : Exn) (w w' : W) (f : Fault) (x : Exn)
    (rest : List Fault) (h : inner m w = (.error e, w')) (he : missingCaught e = true) (hm : ¬ Marked w'.st m.node)
    (hf : w'.faults = f :: rest) (hx : f.exn = some x) :
    (wrapMissingNC inner m w).1 = .error x ∧
    (wrapMissingNC inner m w).2.writes = w'.writes ++ [⟨encode (presentationRequest m.node), false⟩] ∧
    (wrapMissingNC inner m w).2.st = w'.st := by
  have hm' : w'.st.ibuf.has (presentationRequest m.node).key = false := by simpa [Marked] using hm
  rw [wrapMissingNC_unmarked inner m e w w' h he hm', transportWrite_abort _ _ f x rest hf hx]
  simp

theorem failed_request_not_recorded (inner : Msg → M Msg) (m : Msg) (e : Exn) (w w' : W) (rest : List Fault)
    (h : inner m w = (.error e, w')) (he : missingCaught e = true) (hm : ¬ Marked w'.st m.node)
    (hf : w'.faults = .fail :: rest) :
    (wrapMissingNC inner m w).1 = .error (.lib .transportFailed) ∧
    (wrapMissingNC inner m w).2.writes = w'.writes ++ [⟨encode (presentationRequest m.node), false⟩] ∧
    (wrapMissingNC inner m w).2.st = w'.st :=
  aborted_request_not_recorded inner m e w w' .fail _ rest h he hm hf rfl

theorem cancelled_request_not_recorded (inner : Msg → M Msg) (m : Msg) (e : Exn) (w w' : W) (rest : List Fault)
    (h : inner m w = (.error e, w')) (he : missingCaught e = true) (hm : ¬ Marked w'.st m.node)
    (hf : w'.faults = .cancel :: rest) :
    (wrapMissingNC inner m w).1 = .error (.foreign .CancelledError) ∧
    (wrapMissingNC inner m w).2.writes = w'.writes ++ [⟨encode (presentationRequest m.node), false⟩] ∧
    (wrapMissingNC inner m w).2.st = w'.st :=
  aborted_request_not_recorded inner m e w w' .cancel _ rest h he hm hf rfl

/-- **Silence while a request is outstanding.** -/
theorem silent_when_marked (inner : Msg → M Msg) (m : Msg) (e : Exn) (w w' : W)
    (h : inner m w = (.error e, w')) (he : missingCaught e = true) (hm : Marked w'.st m.node) :
    wrapMissingNC inner m w = (.error e, w') :=
  wrapMissingNC_marked inner m e w w' h he hm

/-- The decorator is transparent when nothing is missing. -/
theorem transparent_when_ok (inner : Msg → M Msg) (m r : Msg) (w w' : W) (h : inner m w = (.ok r, w')) :
    wrapMissingNC inner m w = (.ok r, w') :=
  wrapMissingNC_ok inner m r w w' h

theorem transparent_on_other_errors (inner : Msg → M Msg) (m : Msg) (e : Exn) (w w' : W)
    (h : inner m w = (.error e, w')) (he : missingCaught e = false) : wrapMissingNC inner m w = (.error e, w') :=
  wrapMissingNC_other inner m e w w' h he

/-- Markers are kept without duplicates (needed for "the presentation clears it"). -/
def IbufWF (st : St) : Prop := PDict.WF st.ibuf

def KeepsIbufWF : W → W → Prop := OnSt fun s s' => IbufWF s → IbufWF s'

theorem keepsIbufWF_preO : PreO KeepsIbufWF := OnSt.preO (fun _ h => h) (fun h1 h2 h => h2 (h1 h))

theorem ibuf_same {f : St → St} (h : ∀ s, (f s).ibuf = s.ibuf) : Rel KeepsIbufWF (modifySt f) :=
  Rel.modifySt f fun s hs => by simpa [IbufWF, h s] using hs

theorem ibufWF_stepRel (m : Msg) : StepRel KeepsIbufWF m where
  pre := keepsIbufWF_preO
  write := fun _ _ => Rel.transportWrite (fun _ h => h) _
  setNode := fun _ => ibuf_same fun _ => rfl
  alloc := ibuf_same fun _ => rfl
  erase := fun _ _ _ => ibuf_same fun s => by split <;> rfl
  mark := Rel.modifySt _ fun s hs => PDict.wf_set hs _ _
  unmark := Rel.modifySt _ fun s hs => by
    split
    · exact PDict.wf_erase hs _
    · exact hs
  version := fun _ _ => ibuf_same fun _ => rfl

/-- The marker table never holds a key twice, along any history. -/
theorem ibufWF_recv (env : Env) (line : Str) (w : W) (h : IbufWF w.st) : IbufWF (recv env line w).2.st :=
  (rel_recv keepsIbufWF_preO (fun _ m _ => ibufWF_stepRel m)
    (ParkOK.of_all fun _ => ibuf_same fun _ => rfl) env).step w h

theorem ibufWF_send (obj : Option Msg) (b : Bool) (w : W) (h : IbufWF w.st) : IbufWF (apiSend obj b w).2.st :=
  (rel_apiSend keepsIbufWF_preO (fun _ => Rel.transportWrite (fun _ h => h) _) (fun _ _ => ibuf_same fun _ => rfl) obj b).step w h

theorem ibufWF_init : IbufWF {} := by simp [IbufWF, PDict.WF, PDict.keys]

/-- **A node presentation re-arms the request**: afterwards no request to that node is outstanding. -/
theorem presentation_rearms (m : Msg) (w : W) (hc : m.child = Gen.systemChildId) (hwf : IbufWF w.st) :
    ¬ Marked (prePresentation20 m w).2.st m.node := by
  have hk : (presentationRequest m.node).key = (m.node, m.child, Gen.iPresentation) := by
    simp [presentationRequest, Msg.key, hc]
  simp only [Marked, prePresentation20, M.modifySt, hk]
  split
  · simp [PDict.has_erase_self hwf]
  · next h => simpa using h

/-- A child presentation (child ≠ 255) leaves every marker alone. -/
theorem child_presentation_keeps_marker (m : Msg) (w : W) (n : Int) (hc : m.child ≠ Gen.systemChildId) :
    Marked (prePresentation20 m w).2.st n ↔ Marked w.st n := by
  have hk : (presentationRequest n).key ≠ (m.node, m.child, Gen.iPresentation) := by
    simp [presentationRequest, Msg.key]; intro _ h; exact absurd h.symm hc
  simp only [Marked, prePresentation20, M.modifySt]
  split
  · simp [PDict.has_erase_ne _ hk]
  · rfl

/-- **Every presentation on the system child presents the node, whatever its type.**  The base
handler (`protocol_14.handle_presentation`) looks at the child id only: a presentation on child 255
from a node other than the gateway — type 17, 18, a sensor type, a type outside every table —
registers a fresh entry (that type, the payload as the node's version, no children) and is handed
on; it never fails with a missing-node error. -/
theorem system_child_presentation_any_type (env : Env) (v : Ver) (m : Msg) (w : W)
    (hc : m.child = Gen.systemChildId) (hn : m.node ≠ 0) :
    hPresentation env v m w =
      (.ok m, { w with st := { w.st with nodes := w.st.nodes.set m.node { ntype := m.type, pv := m.payload } } }) := by
  simp [hPresentation, hc, hn, M.seq, M.bind, setNode, M.modifySt, M.pure]

/-- … and a presentation on any OTHER child is a child presentation whatever its type (also the
node types 17 / 18): from a node that is not registered it fails with the missing-node error and
changes nothing. -/
theorem other_child_presentation_any_type (env : Env) (v : Ver) (m : Msg) (w : W)
    (hc : m.child ≠ Gen.systemChildId) (hn : w.st.nodes.get? m.node = none) :
    hPresentation env v m w = (.error (.lib (.missingNode m.node)), w) := by
  simp [hPresentation, hc, M.bind, requireNode, M.getSt, hn, M.raise]

/-- **The episode ends at every presentation on the system child, of any type** (protocol 2.0 or
newer, version known, sender not the gateway): the step yields the message, writes nothing — in
particular no presentation request, also when the node was unknown —, leaves no request to that node
outstanding and the registry holds the fresh entry.  So the two layers agree on what "the node
presented itself" means: exactly the lines that drop the remembered request register the node. -/
theorem node_presentation_any_type (env : Env) (v : Ver) (hv : Ver.v20 ≤ v) (m : Msg) (w : W)
    (hcmd : m.cmd = 0) (hc : m.child = Gen.systemChildId) (hn : m.node ≠ 0)
    (hpv : w.st.pv.isSome = true) (hwf : IbufWF w.st) :
    (dispatch env v m w).1 = .ok m ∧
    (dispatch env v m w).2.writes = w.writes ∧
    ¬ Marked (dispatch env v m w).2.st m.node ∧
    (dispatch env v m w).2.st.nodes = w.st.nodes.set m.node { ntype := m.type, pv := m.payload } := by
  have hre := presentation_rearms m w hc hwf
  have hpre : prePresentation20 m w = (.ok (), (prePresentation20 m w).2) := by
    simp only [prePresentation20, M.modifySt]
  have h1 : (prePresentation20 m w).2.st.pv = w.st.pv ∧ (prePresentation20 m w).2.st.nodes = w.st.nodes ∧
      (prePresentation20 m w).2.writes = w.writes := by
    simp only [prePresentation20, M.modifySt]
    split <;> simp
  have hp := system_child_presentation_any_type env v m (prePresentation20 m w).2 hc hn
  have hin : wrapMissingPV (hPresentation env v) m (prePresentation20 m w).2 = hPresentation env v m (prePresentation20 m w).2 := by
    apply wrapMissingPV_known
    rw [hp]; simpa [h1.1] using hpv
  have hseq : (fun m => seq (prePresentation20 m) (wrapMissingPV (hPresentation env v) m)) m w =
      (.ok m, { (prePresentation20 m w).2 with st := { (prePresentation20 m w).2.st with
        nodes := (prePresentation20 m w).2.st.nodes.set m.node { ntype := m.type, pv := m.payload } } }) := by
    show seq (prePresentation20 m) (wrapMissingPV (hPresentation env v) m) w = _
    unfold M.seq M.bind
    rw [hpre]
    simp only
    rw [hin, hp]
  rw [dispatch_presentation env v m hcmd, if_pos hv, wrapMissingNC_ok _ m m w _ hseq]
  refine ⟨rfl, h1.2.2, ?_, ?_⟩
  · simpa [Marked] using hre
  · simp [h1.2.1]

/-- Handling a message from node `m.node` never touches another node's marker. -/
def OthersSame (n : Int) : W → W → Prop := OnSt fun s s' => ∀ n', n' ≠ n → (Marked s' n' ↔ Marked s n')

theorem othersSame_preO (n : Int) : PreO (OthersSame n) :=
  OnSt.preO (fun _ _ _ => Iff.rfl) (fun h1 h2 n' hn => (h2 n' hn).trans (h1 n' hn))

theorem others_ibuf_same (n : Int) {f : St → St} (h : ∀ s, (f s).ibuf = s.ibuf) : Rel (OthersSame n) (modifySt f) :=
  Rel.modifySt f fun s n' _ => by simp [Marked, h s]

theorem key_ne_of_node_ne {n n' : Int} (c t : Int) (h : n' ≠ n) : (presentationRequest n').key ≠ (n, c, t) := by
  simp [presentationRequest, Msg.key]; intro e; exact absurd e h

theorem othersSame_stepRel (m : Msg) : StepRel (OthersSame m.node) m where
  pre := othersSame_preO m.node
  write := fun _ _ => Rel.transportWrite (fun _ _ _ => Iff.rfl) _
  setNode := fun _ => others_ibuf_same _ fun _ => rfl
  alloc := others_ibuf_same _ fun _ => rfl
  erase := fun _ _ _ => others_ibuf_same _ fun s => by split <;> rfl
  mark := Rel.modifySt _ fun s n' hn => by
    have := key_ne_of_node_ne Gen.systemChildId Gen.iPresentation hn
    simp only [Marked]
    rw [PDict.has_set_ne _ _ (by simpa [presentationRequest, Msg.key] using this)]
  unmark := Rel.modifySt _ fun s n' hn => by
    split
    · simp only [Marked]; rw [PDict.has_erase_ne _ (key_ne_of_node_ne _ _ hn)]
    · rfl
  version := fun _ _ => others_ibuf_same _ fun _ => rfl

/-- **Independence.** Whatever a message from node `m.node` leads to — in any version, with any
faults — requests outstanding for other nodes stay exactly as they were. -/
theorem independent (env : Env) (v : Ver) (m : Msg) (w : W) (n' : Int) (hn : n' ≠ m.node) :
    Marked (dispatch env v m w).2.st n' ↔ Marked w.st n' :=
  (rel_dispatch (othersSame_stepRel m) (ParkOK.of_all fun _ => others_ibuf_same _ fun _ => rfl) env v).step w n' hn

/-! Non-vacuity: the decorator on a concrete failing handler. -/
example : Marked (wrapMissingNC (fun m => raise (.lib (.missingNode m.node))) ⟨7, 0, 1, 0, 0, []⟩ { st := {} }).2.st 7 := by
  unfold Marked; decide

/-! ## Histories -/

theorem marked_iff (st : St) (n : Int) : Marked st n ↔ markedB st n = true := Iff.rfl

/-- The reachable-state invariant the history theorems start from: the sleep buffer holds set
commands under their own keys without duplicates (C07), the marker table has no duplicate keys. -/
def Inv (st : St) : Prop := C07.SbufInv st ∧ IbufWF st

theorem inv_init : Inv {} := ⟨C07.sbufInv_init, ibufWF_init⟩

theorem stepOp_recv_st (st : St) (env : Env) (line : Str) (f : List Fault) :
    (stepOp st (.recv env line f)).1 = (recv env line { st := st, faults := f }).2.st := by
  simp only [stepOp]; split <;> simp_all

theorem stepOp_recv_writes (st : St) (env : Env) (line : Str) (f : List Fault) :
    (stepOp st (.recv env line f)).2.writes = (recv env line { st := st, faults := f }).2.writes := by
  simp only [stepOp]; split <;> simp_all

theorem stepOp_send_st (st : St) (obj : Option Msg) (b : Bool) (f : List Fault) :
    (stepOp st (.send obj b f)).1 = (apiSend obj b { st := st, faults := f }).2.st := by
  simp only [stepOp]; split <;> simp_all

theorem inv_step (st : St) (op : Op) (h : Inv st) : Inv (stepOp st op).1 := by
  cases op with
  | recv env line f =>
    rw [stepOp_recv_st]
    exact ⟨C07.sbufInv_recv env line _ h.1, ibufWF_recv env line _ h.2⟩
  | send obj b f =>
    rw [stepOp_send_st]
    exact ⟨C07.sbufInv_send obj b _ h.1, ibufWF_send obj b _ h.2⟩

theorem run_cons_obs (st : St) (op : Op) (ops : List Op) :
    (run st (op :: ops)).2 = (stepOp st op).2 :: (run (stepOp st op).1 ops).2 := by simp [run]

theorem stateAfter_cons (st : St) (op : Op) (ops : List Op) :
    stateAfter st (op :: ops) = stateAfter (stepOp st op).1 ops := by simp [stateAfter, run]

theorem stateAfter_nil (st : St) : stateAfter st [] = st := rfl

theorem inv_history (ops : List Op) (st : St) (h : Inv st) : Inv (stateAfter st ops) := by
  induction ops generalizing st with
  | nil => exact h
  | cons op ops ih => rw [stateAfter_cons]; exact ih _ (inv_step st op h)

theorem stateAfter_append (st : St) (a b : List Op) : stateAfter st (a ++ b) = stateAfter (stateAfter st a) b := by
  induction a generalizing st with
  | nil => rfl
  | cons op a ih => simp only [List.cons_append, stateAfter_cons]; exact ih _

theorem run_append_obs (st : St) (a b : List Op) :
    (run st (a ++ b)).2 = (run st a).2 ++ (run (stateAfter st a) b).2 := by
  induction a generalizing st with
  | nil => simp [run, stateAfter]
  | cons op a ih => simp only [List.cons_append, run_cons_obs, stateAfter_cons, ih]

theorem run_obs_length (st : St) (ops : List Op) : (run st ops).2.length = ops.length := by
  induction ops generalizing st with
  | nil => simp [run]
  | cons op ops ih => simp [run_cons_obs, ih]

/-- The observations of the stretch `seg` inside the history `pre ++ seg ++ post`. -/
def segObs (st : St) (pre seg post : List Op) : List Obs :=
  ((run st (pre ++ seg ++ post)).2.drop pre.length).take seg.length

theorem segObs_eq (st : St) (pre seg post : List Op) : segObs st pre seg post = (run (stateAfter st pre) seg).2 := by
  simp only [segObs, List.append_assoc, run_append_obs]
  rw [List.drop_left' (run_obs_length st pre), List.take_left' (run_obs_length _ seg)]

def isRecv : Op → Bool
  | .recv .. => true
  | .send .. => false

/-- **The write attempts the gateway made on its own**: those of the `recv` steps, in order.
(What the application hands to `Gateway.send` — possibly a presentation request of its own — is
written by the outgoing handler without touching the markers, and is not counted: the property
speaks of the requests the controller writes in reaction to received messages.) -/
def ownWrites : List Op → List Obs → List WriteEvt
  | op :: ops, o :: os => (if isRecv op then o.writes else []) ++ ownWrites ops os
  | _, _ => []

/-- Is this operation, applied in state `st`, a re-arming event for node `n`: a received node
presentation (`n;255;0;…`) handled by protocol 2.0 or newer?  That is the only thing that removes
the marker of `n` (`protocol_20.handle_presentation`); before 2.0 a presentation does not. -/
def rearms (n : Int) (st : St) : Op → Bool
  | .recv _ line _ => rearmsLine n st line
  | .send .. => false

/-- No operation of the history, each taken in the state it is applied in, re-arms `n`. -/
def NoRearm (n : Int) : St → List Op → Prop
  | _, [] => True
  | st, op :: ops => rearms n st op = false ∧ NoRearm n (stepOp st op).1 ops

/-- `Gateway.send` never touches the marker table. -/
theorem send_keeps_markers (obj : Option Msg) (b : Bool) (w : W) : (apiSend obj b w).2.st.ibuf = w.st.ibuf :=
  (rel_apiSend (R := OnSt fun s s' => s'.ibuf = s.ibuf) (OnSt.preO (fun _ => rfl) (fun h1 h2 => h2.trans h1))
    (fun _ => Rel.transportWrite (S := fun s s' => s'.ibuf = s.ibuf) (fun _ => rfl) _)
    (fun _ _ => Rel.modifySt (S := fun s s' => s'.ibuf = s.ibuf) _ fun _ => rfl) obj b).step w

/-- A presentation request the APPLICATION sends is handed to the transport as it is (outgoing
internal handler), whatever the markers say, and — `send_keeps_markers` — without recording one. -/
theorem user_request_written_directly (n : Int) (b : Bool) (w : W) :
    apiSend (some (presentationRequest n)) b w = transportWrite (reqLine n) w := by
  show gwSend _ b w = _
  rw [gwSend_direct _ _ (Or.inr (Or.inr (Or.inl (presentationRequest_cmd n))))]; rfl

/-- One operation that does not re-arm `n`: the gateway's own writes of this step and the marker
of `n` move as the episode automaton says. -/
theorem step_track (n : Int) (st : St) (op : Op) (hs : C07.SbufInv st) (h : rearms n st op = false) :
    track n (markedB st n) (if isRecv op then (stepOp st op).2.writes else []) = some (markedB (stepOp st op).1 n) := by
  cases op with
  | recv env line f =>
    obtain ⟨_, l, hl, hp⟩ := epi_recv n env line { st := st, faults := f } h hs.2
    simp only [isRecv, if_true, stepOp_recv_st, stepOp_recv_writes, hl, List.nil_append]
    exact hp
  | send obj b f =>
    simp only [isRecv, Bool.false_eq_true, if_false, track, stepOp_send_st, markedB, send_keeps_markers]

/-- **The invariant linking the marker to the write log.** Along any stretch of operations none of
which re-arms `n` — received lines of any kind under any protocol, any write-fault schedules,
`send` calls — the gateway's own write attempts and the marker of `n` form a legal run of the
episode automaton: a request for `n` is attempted only while none is outstanding, and one is
outstanding afterwards iff one was outstanding before or a request for `n` has been written
successfully. -/
theorem episode_invariant (n : Int) (ops : List Op) (st : St) (h : Inv st) (hno : NoRearm n st ops) :
    track n (markedB st n) (ownWrites ops (run st ops).2) = some (markedB (stateAfter st ops) n) := by
  induction ops generalizing st with
  | nil => simp [ownWrites, track, stateAfter_nil]
  | cons op ops ih =>
    rw [run_cons_obs, stateAfter_cons]
    simp only [ownWrites]
    rw [track_append, step_track n st op h.1 hno.1]
    exact ih _ (inv_step st op h) hno.2

/-- **One presentation request per episode.** Take any history `pre ++ seg ++ post` from a state
satisfying the invariant (the initial state does), under any protocols, with any write-fault
schedules and `send` calls, and any node `n`.  If no operation of the stretch `seg` re-arms `n`,
then among the gateway's own write attempts in `seg`:
* at most one request for `n` is written successfully;
* once one has been written successfully, no further request for `n` is even attempted in `seg`,
  and none had succeeded before it (failed attempts before it may have been repeated);
* if a request was already outstanding when `seg` began, none is attempted at all;
* a request is outstanding after `seg` iff one was outstanding before or one was written
  successfully in `seg`. -/
theorem one_per_episode (n : Int) (st0 : St) (h0 : Inv st0) (pre seg post : List Op)
    (hno : NoRearm n (stateAfter st0 pre) seg) :
    reqSuccesses n (ownWrites seg (segObs st0 pre seg post)) ≤ 1 ∧
    (∀ l1 e l2, ownWrites seg (segObs st0 pre seg post) = l1 ++ e :: l2 → isReq n e = true → e.ok = true →
      reqAttempts n l2 = 0 ∧ reqSuccesses n l1 = 0) ∧
    (Marked (stateAfter st0 pre) n → reqAttempts n (ownWrites seg (segObs st0 pre seg post)) = 0) ∧
    (Marked (stateAfter st0 (pre ++ seg)) n ↔
      Marked (stateAfter st0 pre) n ∨ reqSuccesses n (ownWrites seg (segObs st0 pre seg post)) = 1) := by
  have hinv := episode_invariant n seg (stateAfter st0 pre) (inv_history pre st0 h0) hno
  rw [← segObs_eq st0 pre seg post, ← stateAfter_append] at hinv
  obtain ⟨a1, a2, a3⟩ := track_spec n _ _ _ hinv
  refine ⟨a1, fun l1 e l2 hw he hok => ?_, a2, a3⟩
  rw [hw] at hinv
  obtain ⟨b1, b2, _, _⟩ := track_after_success n _ _ l1 l2 e hinv he hok
  exact ⟨b1, b2⟩

/-- **The re-arming event.** A node presentation of `n` handled by protocol 2.0 or newer leaves no
request to `n` outstanding, and that step itself writes no presentation-request line (to anyone). -/
theorem rearm_step (n : Int) (st : St) (op : Op) (h : Inv st) (hr : rearms n st op = true) :
    ¬ Marked (stepOp st op).1 n ∧ ∀ e ∈ (stepOp st op).2.writes, ∀ n', e.line ≠ reqLine n' := by
  cases op with
  | send obj b f => simp [rearms] at hr
  | recv env line f =>
    simp only [rearms, rearmsLine] at hr
    split at hr
    · next m hd =>
      simp only [Bool.and_eq_true, beq_iff_eq, decide_eq_true_eq] at hr
      obtain ⟨⟨⟨hcmd, hc⟩, hn⟩, hv⟩ := hr
      obtain ⟨hm, _, l, hl, hno⟩ := rearm_recv env line { st := st, faults := f } m hd hcmd hc hv h.2 h.1.2
      rw [stepOp_recv_st, stepOp_recv_writes, hl, ← hn]
      exact ⟨by rw [marked_iff, hm]; simp, by simpa using hno⟩
    · exact absurd hr (by simp)

/-- **Between two consecutive re-arming events.** In a history `pre ++ r :: seg ++ post` where `r`
re-arms `n` and nothing in `seg` does (so `seg` is an episode of `n`: it ends where the history
ends or where the next re-arming event, the head of `post`, occurs): the re-arming step writes no
request; in the episode at most one request for `n` is written successfully, after which none is
attempted; and a request is outstanding at the end of the episode iff one was written successfully
in it. -/
theorem between_rearms (n : Int) (st0 : St) (h0 : Inv st0) (pre : List Op) (r : Op) (seg post : List Op)
    (hr : rearms n (stateAfter st0 pre) r = true) (hno : NoRearm n (stateAfter st0 (pre ++ [r])) seg) :
    (∀ e ∈ (stepOp (stateAfter st0 pre) r).2.writes, ∀ n', e.line ≠ reqLine n') ∧
    reqSuccesses n (ownWrites seg (segObs st0 (pre ++ [r]) seg post)) ≤ 1 ∧
    (∀ l1 e l2, ownWrites seg (segObs st0 (pre ++ [r]) seg post) = l1 ++ e :: l2 → isReq n e = true → e.ok = true →
      reqAttempts n l2 = 0 ∧ reqSuccesses n l1 = 0) ∧
    (Marked (stateAfter st0 (pre ++ [r] ++ seg)) n ↔
      reqSuccesses n (ownWrites seg (segObs st0 (pre ++ [r]) seg post)) = 1) := by
  obtain ⟨hu, hw⟩ := rearm_step n _ r (inv_history pre st0 h0) hr
  obtain ⟨a1, a2, _, a4⟩ := one_per_episode n st0 h0 (pre ++ [r]) seg post hno
  refine ⟨hw, a1, a2, ?_⟩
  rw [a4]
  have : ¬ Marked (stateAfter st0 (pre ++ [r])) n := by
    rw [stateAfter_append, stateAfter_cons, stateAfter_nil]; exact hu
  simp [this]

/-! ### Before 2.0 -/

/-- The active protocol is 1.4 or 1.5. -/
def Old (st : St) : Prop := st.proto = .v14 ∨ st.proto = .v15

/-- Every operation of the history is applied in a state whose active protocol is 1.4 or 1.5. -/
def OldAlong : St → List Op → Prop
  | _, [] => True
  | st, op :: ops => Old st ∧ OldAlong (stepOp st op).1 ops

theorem old_lt (st : St) (h : Old st) : ¬ Ver.v20 ≤ st.proto := by
  rcases h with h | h <;> rw [h] <;> decide

theorem old_step (st : St) (op : Op) (hs : C07.SbufInv st) (hold : Old st) :
    (∀ e ∈ (if isRecv op then (stepOp st op).2.writes else []), ∀ n, e.line ≠ reqLine n) ∧
    ∀ n, markedB (stepOp st op).1 n = markedB st n := by
  cases op with
  | recv env line f =>
    obtain ⟨_, l, hl, hq, hno⟩ := quiet_recv_old env line { st := st, faults := f } (old_lt st hold) hs.2
    simp only [isRecv, if_true, stepOp_recv_st, stepOp_recv_writes, hl, List.nil_append]
    exact ⟨hno, hq⟩
  | send obj b f => simp [isRecv, stepOp_send_st, markedB, send_keeps_markers]

/-- **No presentation request before 2.0.** Formalisation chosen: every operation of the history
is applied in a state whose active protocol is 1.4 or 1.5 (`OldAlong`; the step in which a version
report switches to 2.x is still covered, the steps after it are not).  Then no write attempt the
gateway makes on its own is a presentation-request line — to any node, under any fault schedule —
and no marker is created or removed. -/
theorem no_request_before_20 (ops : List Op) (st : St) (h : Inv st) (hold : OldAlong st ops) :
    (∀ e ∈ ownWrites ops (run st ops).2, ∀ n, e.line ≠ reqLine n) ∧
    ∀ n, (Marked (stateAfter st ops) n ↔ Marked st n) := by
  induction ops generalizing st with
  | nil => simp [ownWrites, stateAfter_nil]
  | cons op ops ih =>
    obtain ⟨s1, s2⟩ := old_step st op h.1 hold.1
    obtain ⟨i1, i2⟩ := ih _ (inv_step st op h) hold.2
    rw [run_cons_obs, stateAfter_cons]
    refine ⟨fun e he => ?_, fun n => ?_⟩
    · simp only [ownWrites, List.mem_append] at he
      rcases he with he | he
      · exact s1 e he
      · exact i1 e he
    · rw [i2 n, marked_iff, marked_iff, s2 n]

/-- In particular no step's observation contains a request line, whatever the node. -/
theorem no_request_before_20_counts (ops : List Op) (st : St) (h : Inv st) (hold : OldAlong st ops) (n : Int) :
    reqAttempts n (ownWrites ops (run st ops).2) = 0 := by
  simp only [reqAttempts, List.countP_eq_zero, isReq, beq_iff_eq]
  exact fun e he => (no_request_before_20 ops st h hold).1 e he n

/-- The request line in the property's words. -/
theorem reqLine_eq (n : Int) : reqLine n = dec n ++ ";255;3;0;19;\n".toList := request_line n

/-! Non-vacuity: the hypotheses are met by concrete histories from the initial state. -/

example : Inv {} := inv_init

/-- a battery report from node 7, then a user `send`: nothing here re-arms node 7 -/
example : NoRearm 7 {} [.recv {} "7;255;3;0;0;55\n".toList [.fail], .send none false [.cancel]] :=
  ⟨by decide, rfl, trivial⟩

/-- a node presentation of 7 under protocol 2.2 re-arms 7 -/
example : rearms 7 { proto := .v22 } (.recv {} "7;255;0;0;17;2.3.2\n".toList []) = true := by decide

/-- the placeholder entry the id-request handler registers (version "1.4", no children) for node 1, gateway
on 2.2: a set for child 3 meets the hypotheses of `missing_child_request_any_entry` and the request is written -/
example :
    let w : W := { st := { nodes := [(1, placeholderNode)], pv := some "2.2".toList, proto := .v22 } }
    let m : Msg := ⟨1, 3, 1, 0, 0, "21.5".toList⟩
    (dispatch {} .v22 m w).2.writes = [⟨"1;255;3;0;19;\n".toList, true⟩] := by
  intro w m
  have h := (missing_child_request_any_entry {} .v22 (by decide) m w placeholderNode (Or.inl rfl) (by decide) (by decide)
    (by decide) (by simp [Marked, w, PDict.has, PDict.get?]) (Or.inl rfl)).2.1
  rw [h]; decide

/-- a presentation on the system child with a sensor type (6) from the unknown node 7 whose request is outstanding,
gateway on 2.0: the hypotheses of `node_presentation_any_type` are met - the node is registered, nothing is outstanding -/
example :
    let w : W := { st := { ibuf := [((7, 255, 19), presentationRequest 7)], pv := some "2.0".toList, proto := .v20 } }
    let m : Msg := ⟨7, 255, 0, 0, 6, "probe".toList⟩
    (dispatch {} .v20 m w).1 = .ok m ∧ ¬ Marked (dispatch {} .v20 m w).2.st 7 ∧
      (dispatch {} .v20 m w).2.st.nodes = [(7, { ntype := 6, pv := "probe".toList })] := by
  intro w m
  have h := node_presentation_any_type {} .v20 (by decide) m w rfl (by decide) (by decide) (by decide)
    (by simp [IbufWF, PDict.WF, PDict.keys, w])
  exact ⟨h.1, h.2.2.1, by rw [h.2.2.2]; decide⟩

example : OldAlong {} [.send none false [], .send none true []] := ⟨Or.inl rfl, Or.inl rfl, trivial⟩

example : reqSuccesses 7 [⟨reqLine 7, false⟩, ⟨reqLine 8, true⟩, ⟨reqLine 7, true⟩] = 1 ∧
    track 7 false [⟨reqLine 7, false⟩, ⟨reqLine 8, true⟩, ⟨reqLine 7, true⟩] = some true := by
  have h87 : (reqLine 8 == reqLine 7) = false := by simpa using fun h => absurd (reqLine_inj h) (by decide)
  simp [reqSuccesses, track, isReq, h87]

end AioMySensors.C10
