/-
C14 — Loading a persistence file fails only with the persistence read error.

`Persist.loadFile` models `Persistence.load` (Model/Persist.lean): the first `try` block (open, read,
`json.loads`) raises the Python class the file state determines, the second (`data.values()`,
`NodeSchema().load`, registry update) raises what the schema interpreter of Model/Schema.lean
raises; which of these become `PersistenceReadError` is read from the GENERATED except tuples
`Gen.excPersistLoad`, so every theorem below is re-checked against the `except` clauses the code has
now (dropping `TypeError` from the last clause, say, makes `shape_caught` — and with it `load_total`
— fail to check).

The byte → `FileState` classification (UTF-8 decoding, `json.loads`) is done by the real parser in
the correspondence run and is not modelled.
-/
import AioMySensors.Lemmas.Persist

namespace AioMySensors.C14
open AioMySensors Schema Persist

/-- The three classes the second `try` block can raise are caught by the generated last clause. -/
theorem shape_caught (e : PyExn) (h : ShapeErr e) : pyCaught e (clause Gen.excPersistLoad 2) = true := by
  rcases h with rfl | rfl | rfl <;> decide

/-- Whatever the first `try` block raises is caught by one of the generated first two clauses. -/
theorem read_caught (fs : FileState) (c : PyExn) (h : readFile fs = .error c) :
    pyCaught c (clause Gen.excPersistLoad 0) = true ∨ pyCaught c (clause Gen.excPersistLoad 1) = true := by
  cases fs <;> simp only [readFile, Except.error.injEq, reduceCtorEq] at h <;> subst h <;> decide

/-- Only a missing file is caught by the first clause (the one that creates the file). -/
theorem create_only_if_missing (fs : FileState) (c : PyExn) (h : readFile fs = .error c)
    (hc : pyCaught c (clause Gen.excPersistLoad 0) = true) : fs = .missing := by
  cases fs <;> simp only [readFile, Except.error.injEq, reduceCtorEq] at h <;> subst h <;> first | rfl | exact absurd hc (by decide)

/-- **Every JSON value**, at every nesting level and into any registry: the load succeeds or raises
the persistence read error. -/
theorem value_total (cur : PDict Int Node) (j : Json) :
    (∃ r, loadInto cur j = .ok r) ∨ loadInto cur j = .error (.lib .persistenceRead) := by
  simp only [loadInto, mapRead]
  cases h : loadRaw cur j with
  | ok r => exact Or.inl ⟨r, rfl⟩
  | error e => right; simp [shape_caught e (loadRaw_errs cur j e h)]

/-- **C14.** Whatever is at the path — nothing, something unreadable, bytes that are not UTF-8, text
that is not JSON, JSON too deep or with too long a number, the empty file, or any JSON value — and
whatever the registry holds, `load` returns normally or raises `PersistenceReadError`; no other
exception escapes. -/
theorem load_total (cur : PDict Int Node) (fs : FileState) :
    (∃ l, loadFile cur fs = .ok l) ∨ loadFile cur fs = .error (.lib .persistenceRead) := by
  simp only [loadFile]
  cases h : readFile fs with
  | ok j =>
    rcases value_total cur j with ⟨r, hr⟩ | hr
    · exact Or.inl ⟨⟨r, none⟩, by simp [hr]⟩
    · exact Or.inr (by simp [hr])
  | error c =>
    rcases read_caught fs c h with h0 | h1
    · exact Or.inl ⟨⟨cur, some (save cur)⟩, by simp [h0]⟩
    · by_cases h0 : pyCaught c (clause Gen.excPersistLoad 0) = true
      · exact Or.inl ⟨⟨cur, some (save cur)⟩, by simp [h0]⟩
      · exact Or.inr (by simp [h0, h1])

/-- The loads of a whole process, one after the other - other Persistence objects, other event loops,
whatever was done to the file in between (`fss`: what each load finds at the path).  Each load
starts from the registry the previous one left; a load that failed may have stored some records
before it failed, so after a failure the registry is ANY registry (`part`). -/
def runLoads (part : PDict Int Node → FileState → PDict Int Node) :
    PDict Int Node → List FileState → List (Except Persist.Exn Loaded)
  | _, [] => []
  | cur, fs :: rest =>
    loadFile cur fs ::
      runLoads part (match loadFile cur fs with | .ok l => l.nodes | .error _ => part cur fs) rest

/-- **C14 over the life of a process.**  The outcome of a load is a function of the registry and of
what is at the path, of nothing else: however many loads went before, whatever they found and
however they ended, every load of the history succeeds or raises `PersistenceReadError`.  (The
correspondence run checks the premise on the code: histories of loads and saves by several objects
on one path, overlapping, under several event loops of one process.) -/
theorem every_load_total (part : PDict Int Node → FileState → PDict Int Node) (cur : PDict Int Node)
    (fss : List FileState) :
    ∀ r ∈ runLoads part cur fss, (∃ l, r = .ok l) ∨ r = .error (.lib .persistenceRead) := by
  induction fss generalizing cur with
  | nil => intro r h; simp [runLoads] at h
  | cons fs rest ih =>
    intro r h
    simp only [runLoads, List.mem_cons] at h
    rcases h with h | h
    · subst h; exact load_total cur fs
    · exact ih _ r h

/-- A missing file is not an error: the registry is left as it is and the file is created holding
`save` of the current registry. -/
theorem missing_creates (cur : PDict Int Node) :
    loadFile cur .missing = .ok ⟨cur, some (save cur)⟩ := by
  have : pyCaught .FileNotFoundError (clause Gen.excPersistLoad 0) = true := by decide
  simp [loadFile, readFile, this]

/-- … and what it then holds loads back to the current registry (C13's round trip), so the next
start finds the same nodes. -/
theorem missing_creates_loadable (cur : PDict Int Node) (h : RegOK cur) :
    ∃ j, (loadFile cur .missing).map (·.created) = .ok (some j) ∧ load j = .ok (persisted cur) :=
  ⟨save cur, by rw [missing_creates]; rfl, load_save_aux cur h⟩

/-- No other file state writes anything. -/
theorem only_missing_creates (cur : PDict Int Node) (fs : FileState) (l : Loaded) (j : Json)
    (h : loadFile cur fs = .ok l) (hj : l.created = some j) : fs = .missing := by
  simp only [loadFile] at h
  cases hr : readFile fs with
  | ok v =>
    rw [hr] at h
    simp only [] at h
    split at h
    · cases h; cases hj
    · cases h
  | error c =>
    rw [hr] at h
    simp only [] at h
    split at h
    · next h0 => exact create_only_if_missing fs c hr h0
    · split at h <;> cases h

/-- An empty file loads as an empty registry (in general: leaves the registry as it is). -/
theorem empty_is_empty : loadFile [] .empty = .ok ⟨[], none⟩ := by
  simp [loadFile, readFile, loadInto, loadRaw, loadNodes, mapRead]

theorem empty_keeps (cur : PDict Int Node) : loadFile cur .empty = .ok ⟨cur, none⟩ := by
  simp [loadFile, readFile, loadInto, loadRaw, loadNodes, mapRead]

/-! The F10 witnesses, as the model sees them (each escaped `load` before commit d0ac9fb). -/

example : load (.arr []) = .error (.lib .persistenceRead) := by decide
example : load (.int 5) = .error (.lib .persistenceRead) := by decide
example : load .null = .error (.lib .persistenceRead) := by decide
example : loadRaw [] (.obj [(cs!"1", .int 5)]) = .error .TypeError := by decide
example : loadRaw [] (.obj [(cs!"1", .str cs!"sensor_id")]) = .error .AttributeError := by decide
example : loadRaw [] (.obj [(cs!"1", .obj [(cs!"node_id", .int 1)])]) = .error .ValidationError := by decide
/-- child `5`: the child hook's `TypeError` pre-empts the validation errors collected so far. -/
example : loadRaw [] (.obj [(cs!"1", .obj [(cs!"node_id", .str cs!"x"), (cs!"node_type", .int 17),
    (cs!"protocol_version", .str cs!"2.0"), (cs!"children", .obj [(cs!"1", .int 5)])])]) = .error .TypeError := by decide
example : loadFile [] .tooDeep = .error (.lib .persistenceRead) := rfl
example : loadFile [] .undecodable = .error (.lib .persistenceRead) := rfl

end AioMySensors.C14
