/-
C06 — Writes are exactly the specified reactions, addressed to the asker, unbuffered.

Each reaction of the property is a theorem about the handler the generated chains select
(`Lemmas/Exact.lean`); the version-query rule is the exact semantics of the decorator
`handle_missing_protocol_version`; "never parked" and "the marker table only gains presentation
markers" hold for EVERY received line, version and fault schedule by the generic traversal, using
the generated `message_buffer=` flags (a reaction sent with buffering on breaks `reactions_not_parked`).
-/
import AioMySensors.Properties.C07

namespace AioMySensors.C06
open AioMySensors M

/-! ### Reactions are written immediately, never parked -/

def NoNewParked : W → W → Prop := OnSt fun s s' => ∀ e ∈ s'.sbuf, e ∈ s.sbuf

theorem noNewParked_preO : PreO NoNewParked := OnSt.preO (fun _ _ h => h) (fun h1 h2 e he => h1 e (h2 e he))

theorem sbuf_same {f : St → St} (h : ∀ s, (f s).sbuf = s.sbuf) : Rel NoNewParked (modifySt f) :=
  Rel.modifySt f fun s e he => by simpa [h s] using he

theorem noNewParked_stepRel (m : Msg) : StepRel NoNewParked m where
  pre := noNewParked_preO
  write := fun _ _ => Rel.transportWrite (fun _ _ h => h) _
  setNode := fun _ => sbuf_same fun _ => rfl
  alloc := sbuf_same fun _ => rfl
  erase := fun k bm _ => Rel.modifySt _ fun s e he => by
    split at he
    · exact PDict.mem_erase he
    · exact he
  mark := sbuf_same fun _ => rfl
  unmark := sbuf_same fun s => by split <;> rfl
  version := fun _ _ => sbuf_same fun _ => rfl

/-- Every reaction call site passes `message_buffer=False` (generated from the code). -/
theorem all_reactions_unbuffered : reactionFlags.all (fun b => !b) = true := by decide

/-- **A receive never adds to the sleep buffer**: every reaction is written at once. For every
line, configuration, version, state and fault schedule. -/
theorem reactions_not_parked (env : Env) (line : Str) (w : W) :
    ∀ e ∈ (recv env line w).2.st.sbuf, e ∈ w.st.sbuf :=
  (rel_recv noNewParked_preO (fun _ m _ => noNewParked_stepRel m) (ParkOK.of_flags all_reactions_unbuffered) env).step w

/-- The only additions to the marker table are presentation-request markers for the sender. -/
def OnlyMarkers (n : Int) : W → W → Prop :=
  OnSt fun s s' => ∀ e ∈ s'.ibuf, e ∈ s.ibuf ∨ e = ((presentationRequest n).key, presentationRequest n)

theorem onlyMarkers_preO (n : Int) : PreO (OnlyMarkers n) :=
  OnSt.preO (fun _ _ h => Or.inl h) (fun h1 h2 e he => by
    rcases h2 e he with h | h
    · exact h1 e h
    · exact Or.inr h)

theorem ibuf_same (n : Int) {f : St → St} (h : ∀ s, (f s).ibuf = s.ibuf) : Rel (OnlyMarkers n) (modifySt f) :=
  Rel.modifySt f fun s e he => Or.inl (by simpa [h s] using he)

theorem onlyMarkers_stepRel (m : Msg) : StepRel (OnlyMarkers m.node) m where
  pre := onlyMarkers_preO m.node
  write := fun _ _ => Rel.transportWrite (fun _ _ h => Or.inl h) _
  setNode := fun _ => ibuf_same _ fun _ => rfl
  alloc := ibuf_same _ fun _ => rfl
  erase := fun _ _ _ => ibuf_same _ fun s => by split <;> rfl
  mark := Rel.modifySt _ fun s e he => by
    rcases PDict.mem_set he with h | h
    · exact Or.inl h
    · exact Or.inr h
  unmark := Rel.modifySt _ fun s e he => by
    split at he
    · exact Or.inl (PDict.mem_erase he)
    · exact Or.inl he
  version := fun _ _ => ibuf_same _ fun _ => rfl

theorem only_presentation_markers_added (env : Env) (v : Ver) (m : Msg) (w : W) :
    ∀ e ∈ (dispatch env v m w).2.st.ibuf, e ∈ w.st.ibuf ∨ e = ((presentationRequest m.node).key, presentationRequest m.node) :=
  (rel_dispatch (onlyMarkers_stepRel m) (ParkOK.of_all fun _ => ibuf_same _ fun _ => rfl) env v).step w

/-! ### Every write is a specified reaction -/

/-- What a step adds to the write log: attempts to write reactions to `m`, nothing else. -/
def OnlyReactions (m : Msg) : W → W → Prop :=
  fun w w' => ∃ l, w'.writes = w.writes ++ l ∧ ∀ e ∈ l, ∃ r, Reaction m r ∧ e.line = encode r

theorem onlyReactions_preO (m : Msg) : PreO (OnlyReactions m) where
  refl := fun w => ⟨[], by simp, by simp⟩
  trans := by
    rintro a b c ⟨l1, h1, p1⟩ ⟨l2, h2, p2⟩
    refine ⟨l1 ++ l2, by rw [h2, h1, List.append_assoc], ?_⟩
    intro e he
    rcases List.mem_append.mp he with h | h
    · exact p1 e h
    · exact p2 e h

theorem onlyReactions_modifySt (m : Msg) (f : St → St) : Rel (OnlyReactions m) (modifySt f) :=
  ⟨fun w => ⟨[], by simp [M.modifySt], by simp⟩⟩

theorem onlyReactions_stepRel (m : Msg) : StepRel (OnlyReactions m) m where
  pre := onlyReactions_preO m
  write := fun sm hr => ⟨fun w => by
    simp only [transportWrite]
    split
    · exact ⟨[⟨encode sm, false⟩], rfl, by simpa using ⟨sm, hr, rfl⟩⟩
    · exact ⟨[⟨encode sm, true⟩], rfl, by simpa using ⟨sm, hr, rfl⟩⟩
    · exact ⟨[⟨encode sm, true⟩], rfl, by simpa using ⟨sm, hr, rfl⟩⟩⟩
  setNode := fun _ => onlyReactions_modifySt m _
  alloc := onlyReactions_modifySt m _
  erase := fun _ _ _ => onlyReactions_modifySt m _
  mark := onlyReactions_modifySt m _
  unmark := onlyReactions_modifySt m _
  version := fun _ _ => onlyReactions_modifySt m _

/-- **The controller writes only as a specified reaction to the received message.** For every
version, state, configuration and fault schedule, everything handed to the transport while the
message `m` is handled is one of: the version query, the presentation request to `m`'s node, the
reboot command to it, a stored value as a set message to the asker, the id response / config /
time reply addressed like the request, the discover broadcast, or a parked command of the node
that just woke.  (When each of them is written is the subject of the theorems below.) -/
theorem writes_are_reactions (env : Env) (v : Ver) (m : Msg) (w : W) :
    ∃ l, (dispatch env v m w).2.writes = w.writes ++ l ∧ ∀ e ∈ l, ∃ r, Reaction m r ∧ e.line = encode r :=
  (rel_dispatch (onlyReactions_stepRel m) (ParkOK.of_all fun _ => onlyReactions_modifySt m _) env v).step w

/-- **Addressed to the node that asked**: every reaction carries the sender's node id, except the
version query (to the gateway, node 0) and the discover broadcast (node 255). -/
theorem reaction_address (m r : Msg) (h : Reaction m r) :
    r.node = m.node ∨ r = versionQuery ∨ (r.node = Gen.broadcastId ∧ r.type = Gen.iDiscover) := by
  cases h with
  | versionQuery => exact Or.inr (Or.inl rfl)
  | presentationRequest => exact Or.inl rfl
  | reboot => exact Or.inl rfl
  | reqReply _ => exact Or.inl rfl
  | idResponse _ => exact Or.inl rfl
  | echoReply _ => exact Or.inl rfl
  | discover => exact Or.inr (Or.inr ⟨rfl, rfl⟩)
  | released bm hb => exact Or.inl hb

/-- A rejected line writes nothing at all. -/
theorem rejected_line_writes_nothing (env : Env) (line : Str) (w : W) (h : decode w.st.proto line = none) :
    (recv env line w).2.writes = w.writes := by
  simp [recv, M.bind, M.getSt, h, M.raise]

/-! ### The version query -/

/-- Log and gateway-ready messages are the two that never trigger the query. -/
theorem wants_query_iff (m : Msg) : wantsVersionQuery m = false ↔ m.cmd = 3 ∧ (m.type = 9 ∨ m.type = 14) := by
  simp only [wantsVersionQuery, Gen.cmdInternal, Gen.iLogMessage, Gen.iGatewayReady, Bool.or_eq_false_iff,
    bne_eq_false_iff_eq, Bool.not_eq_false', Bool.or_eq_true, beq_iff_eq]

/-- The query itself: `0;255;3;0;2;`. -/
theorem version_query_line : encode versionQuery = "0;255;3;0;2;\n".toList := by decide

/-- **Once the version is known, no query.** -/
theorem no_query_when_known (inner : Msg → M Msg) (m : Msg) (w : W) (h : (inner m w).2.st.pv.isSome = true) :
    wrapMissingPV inner m w = inner m w :=
  wrapMissingPV_known inner m w h

/-- **While it is unknown**: after the handler (whatever its outcome), if the version is still
unknown and the message is not a log / gateway-ready message, exactly one query is written, last. -/
theorem query_when_unknown (inner : Msg → M Msg) (m r : Msg) (w w' : W) (h : inner m w = (.ok r, w'))
    (hpv : w'.st.pv = none) (hw : wantsVersionQuery r = true) (hf : w'.faults = []) :
    wrapMissingPV inner m w = (.ok r, { w' with writes := w'.writes ++ [⟨encode versionQuery, true⟩] }) := by
  rw [wrapMissingPV_eq, h]
  simp [hpv, hw, transportWrite_ok _ _ hf]

theorem query_after_error (inner : Msg → M Msg) (m : Msg) (e : Exn) (w w' : W) (h : inner m w = (.error e, w'))
    (hpv : w'.st.pv = none) (hw : wantsVersionQuery m = true) (hf : w'.faults = []) :
    wrapMissingPV inner m w = (.error e, { w' with writes := w'.writes ++ [⟨encode versionQuery, true⟩] }) := by
  rw [wrapMissingPV_eq, h]
  simp [hpv, hw, transportWrite_ok _ _ hf]

theorem no_query_for_log_and_ready (inner : Msg → M Msg) (m r : Msg) (w w' : W) (h : inner m w = (.ok r, w'))
    (hw : wantsVersionQuery r = false) : wrapMissingPV inner m w = (.ok r, w') := by
  rw [wrapMissingPV_eq, h]
  simp [hw]

/-- A message that itself made the version known is followed by no query: the version handler
installs the version before the decorator's `finally` looks at it. -/
theorem version_reply_needs_no_query (m : Msg) (v : Ver) (w : W) (h : getProtocol? m.payload = some v) :
    wrapMissingPV hVersion m w = hVersion m w := by
  apply wrapMissingPV_known
  have he : getProtocolE m.payload = .ok v := by
    unfold getProtocol? at h
    unfold getProtocolE
    cases hp : verParse? m.payload with
    | none => simp [hp] at h
    | some p => simpa [hp] using h
  simp [hVersion, convertExn, he, M.bind, M.pure, M.seq, M.modifySt]

/-! ### The reactions, one by one (no write faults) -/

/-- Config request: `M` or `I` per configuration, addressed like the request. -/
theorem config_reaction (env : Env) (m : Msg) (w : W) (hcmd : m.cmd = 3) (hf : w.faults = []) :
    hConfig env m w = (.ok m, { w with writes := w.writes ++
      [⟨encode ⟨m.node, m.child, m.cmd, 0, m.type, if env.metric then ['M'] else ['I']⟩, true⟩] }) := by
  have hs := gwSend_direct ⟨m.node, m.child, m.cmd, 0, m.type, if env.metric then ['M'] else ['I']⟩ Gen.bufConfig
    (Or.inr (Or.inr (Or.inl hcmd)))
  simp only [hConfig, M.seq, M.bind, hs, transportWrite_ok _ _ hf, M.pure]

/-- Time request: the controller's local time as epoch seconds (`calendar.timegm(time.localtime())`). -/
theorem time_reaction (env : Env) (m : Msg) (w : W) (hcmd : m.cmd = 3) (hf : w.faults = []) :
    hTime env m w = (.ok m, { w with writes := w.writes ++ [⟨encode ⟨m.node, m.child, m.cmd, 0, m.type, dec env.timegm⟩, true⟩] }) := by
  have hs := gwSend_direct ⟨m.node, m.child, m.cmd, 0, m.type, dec env.timegm⟩ Gen.bufTime (Or.inr (Or.inr (Or.inl hcmd)))
  simp only [hTime, M.seq, M.bind, hs, transportWrite_ok _ _ hf, M.pure]

/-- `timegm` of the epoch and of a leap day, as the code computes them. -/
theorem timegm_examples :
    ({ year := 1970, month := 1, day := 1 } : Env).timegm = 0 ∧
    ({ year := 2000, month := 2, day := 29, hour := 23, minute := 59, second := 59 } : Env).timegm = 951868799 ∧
    ({ year := 2038, month := 1, day := 19, hour := 3, minute := 14, second := 8 } : Env).timegm = 2147483648 := by decide

/-- Value request with a stored value: the value as a set message to the asker, written at once. -/
theorem req_reaction (m : Msg) (w : W) (node : Node) (child : Child) (value : Str)
    (hn : w.st.nodes.get? m.node = some node) (hc : node.children.get? m.child = some child)
    (hv : child.values.get? m.type = some value) (hf : w.faults = []) :
    hReq m w = (.ok m, { w with writes := w.writes ++ [⟨encode ⟨m.node, m.child, 1, 0, m.type, value⟩, true⟩] }) := by
  have hflag : Gen.bufReqReply = false := by decide
  have hs := gwSend_set ⟨m.node, m.child, Gen.cmdSet, 0, m.type, value⟩ Gen.bufReqReply w rfl
  rw [hflag] at hs
  simp only [hReq, requireNode, M.bind, M.getSt, hn, M.pure, hc, hv, M.seq]
  rw [hflag, hs]
  simp [transportWrite_ok _ _ hf, M.pure, Gen.cmdSet]

/-- … and nothing if none is stored. -/
theorem req_without_value (m : Msg) (w : W) (node : Node) (child : Child)
    (hn : w.st.nodes.get? m.node = some node) (hc : node.children.get? m.child = some child)
    (hv : child.values.get? m.type = none) : hReq m w = (.ok m, w) := by
  simp [hReq, requireNode, M.bind, M.getSt, hn, M.pure, hc, hv]

/-- Gateway ready (2.0 and newer): a broadcast discover request. -/
theorem gateway_ready_reaction (m : Msg) (w : W) (hcmd : m.cmd = 3) (hf : w.faults = []) :
    hGatewayReady m w = (.ok m, { w with writes := w.writes ++ [⟨encode ⟨255, m.child, m.cmd, 0, 20, []⟩, true⟩] }) := by
  have hs := gwSend_direct ⟨Gen.broadcastId, m.child, m.cmd, 0, Gen.iDiscover, []⟩ Gen.bufDiscover (Or.inr (Or.inr (Or.inl hcmd)))
  simp only [hGatewayReady, M.seq, M.bind, hs, transportWrite_ok _ _ hf, M.pure]
  rfl

/-- A set from a node flagged for reboot: the value is recorded, then the reboot command is written. -/
theorem reboot_reaction (m : Msg) (w : W) (node : Node) (child : Child)
    (hn : w.st.nodes.get? m.node = some node) (hc : node.children.get? m.child = some child)
    (hr : node.reboot = true) (hf : w.faults = []) :
    (hSet m w).1 = .ok m ∧ (hSet m w).2.writes = w.writes ++ [⟨encode ⟨m.node, 255, 3, 0, 13, []⟩, true⟩] := by
  have hs := gwSend_direct ⟨m.node, Gen.systemChildId, Gen.cmdInternal, 0, Gen.iReboot, []⟩ Gen.bufReboot (Or.inr (Or.inr (Or.inl rfl)))
  simp only [hSet, requireNode, M.bind, M.getSt, hn, M.pure, hc, M.seq, setNode, M.modifySt, hr, if_true, hs]
  rw [transportWrite_ok _ _ (by simpa using hf)]
  exact ⟨rfl, rfl⟩

/-- … and a set from any other node writes nothing. -/
theorem set_without_reboot (m : Msg) (w : W) (node : Node) (child : Child)
    (hn : w.st.nodes.get? m.node = some node) (hc : node.children.get? m.child = some child)
    (hr : node.reboot = false) : (hSet m w).1 = .ok m ∧ (hSet m w).2.writes = w.writes := by
  simp [hSet, requireNode, M.bind, M.getSt, hn, M.pure, hc, M.seq, setNode, M.modifySt, hr]

/-! ### Messages that produce no write -/

/-- Types without a handler (find parent, children, inclusion mode, …): returned as they are. -/
theorem no_handler_no_write (env : Env) (v : Ver) (m : Msg) (name : String)
    (ht : (Gen.internalTypes v).lookup m.type = some name) (hc : (Gen.internalChains v).lookup m.type = some none) :
    hInternal env v m = pure m := by
  simp [hInternal, ht, hc, runTyped]

/-- Which internal types have a handler at all, per version (generated). -/
theorem handled_internal_types :
    ((Gen.internalChains .v14).filterMap fun e => e.2.map fun _ => e.1) = [0, 1, 2, 3, 6, 11, 12] ∧
    ((Gen.internalChains .v15).filterMap fun e => e.2.map fun _ => e.1) = [0, 1, 2, 3, 6, 11, 12] ∧
    ((Gen.internalChains .v20).filterMap fun e => e.2.map fun _ => e.1) = [0, 1, 2, 3, 6, 11, 12, 14, 21, 22] ∧
    ((Gen.internalChains .v21).filterMap fun e => e.2.map fun _ => e.1) = [0, 1, 2, 3, 6, 11, 12, 14, 21, 22] ∧
    ((Gen.internalChains .v22).filterMap fun e => e.2.map fun _ => e.1) = [0, 1, 2, 3, 6, 11, 12, 14, 21, 22, 32] := by
  decide

/-- Stream types have no handler in any version. -/
theorem no_stream_handlers : ∀ v : Ver, (Gen.streamChains v).all (fun e => e.2.isNone) = true := by decide

/-- Reports (battery, sketch name/version, discover response, 2.2 heartbeat) write nothing. -/
theorem reports_write_nothing (m : Msg) (w : W) :
    (hBattery m w).2.writes = w.writes ∧ (hSketchName m w).2.writes = w.writes ∧
    (hSketchVersion m w).2.writes = w.writes ∧ (hDiscoverResponse m w).2.writes = w.writes ∧
    (hHeartbeat22 m w).2.writes = w.writes ∧ (hVersion m w).2.writes = w.writes := by
  refine ⟨?_, ?_, ?_, ?_, (C07.heartbeat22_no_release m w).2, ?_⟩
  · simp only [hBattery, requireNode, M.bind, M.getSt]
    cases hn : w.st.nodes.get? m.node with
    | none => simp [M.raise]
    | some node =>
      simp only [M.pure, convertExn, hn]
      cases hp : pyRoundFloat m.payload with
      | error c => by_cases hc : pyCaught c (clause Gen.excBattery 0) = true <;> simp [hc, M.raise]
      | ok level =>
        by_cases hr : Gen.minBattery ≤ level ∧ level ≤ Gen.maxBattery <;>
          simp [hr, M.seq, M.bind, M.getSt, hn, setNode, M.modifySt, M.pure, M.raise]
  · simp only [hSketchName, requireNode, M.bind, M.getSt]
    cases hn : w.st.nodes.get? m.node <;> simp [M.raise, M.pure, M.seq, M.bind, setNode, M.modifySt]
  · simp only [hSketchVersion, requireNode, M.bind, M.getSt]
    cases hn : w.st.nodes.get? m.node <;> simp [M.raise, M.pure, M.seq, M.bind, setNode, M.modifySt]
  · simp only [hDiscoverResponse, requireNode, M.bind, M.getSt]
    cases hn : w.st.nodes.get? m.node <;> simp [M.raise, M.pure]
  · simp only [hVersion, convertExn, M.bind]
    cases hp : getProtocolE m.payload with
    | error c => by_cases hc : pyCaught c (clause Gen.excVersion 0) = true <;> simp [hc, M.raise]
    | ok v => simp [M.pure, M.seq, M.bind, M.modifySt]

end AioMySensors.C06
