/-
C06 — Writes are exactly the specified reactions, addressed to the asker, unbuffered.

Each reaction of the property is a theorem about the handler the generated chains select
(`Lemmas/Exact.lean`); the version-query rule is the exact semantics of the decorator
`handle_missing_protocol_version`; "never parked" and "the marker table only gains presentation
markers" hold for EVERY received line, version and fault schedule by the generic traversal, using
the generated `message_buffer=` flags (a reaction sent with buffering on breaks `reactions_not_parked`).
The last part is the equation `writes = expectedWrites`: the handler model refines the readable
reaction table of `Model/WriteSpec.lean`, for every state, configuration, version and message —
and, with `expectedAttempts` / `expectedExn`, under every schedule of completing, failing and
cancelled writes (the exception the step ends in is that of the last attempt that did not complete).
-/
import AioMySensors.Properties.C07
import AioMySensors.Properties.C02
import AioMySensors.Lemmas.Writes

namespace AioMySensors.C06
open AioMySensors M

/-! ### Reactions are written immediately, never parked -/

def NoNewParked : W → W → Prop := OnSt fun s s' => ∀ e ∈ s'.sbuf, e ∈ s.sbuf

theorem noNewParked_preO : PreO NoNewParked := OnSt.preO (fun _ _ h => h) (fun h1 h2 e he => h1 e (h2 e he))

theorem sbuf_same {f : St → St} (h : ∀ s, (f s).sbuf = s.sbuf) : Rel NoNewParked (modifySt f) :=
  Rel.modifySt f fun s e he => by simpa [h s] using he

theorem noNewParked_stepRel (m : Msg) : StepRel NoNewParked m where
  pre := noNewParked_preO
  write := fun _ _ => Rel.transportWrite (fun _ _ h => h) _
  setNode := fun _ => sbuf_same fun _ => rfl
  alloc := sbuf_same fun _ => rfl
  erase := fun k bm _ => Rel.modifySt _ fun s e he => by
    split at he
    · exact PDict.mem_erase he
    · exact he
  mark := sbuf_same fun _ => rfl
  unmark := sbuf_same fun s => by split <;> rfl
  version := fun _ _ => sbuf_same fun _ => rfl

/-- Every reaction call site passes `message_buffer=False` (generated from the code). -/
theorem all_reactions_unbuffered : reactionFlags.all (fun b => !b) = true := by decide

/-- **A receive never adds to the sleep buffer**: every reaction is written at once. For every
line, configuration, version, state and fault schedule. -/
theorem reactions_not_parked (env : Env) (line : Str) (w : W) :
    ∀ e ∈ (recv env line w).2.st.sbuf, e ∈ w.st.sbuf :=
  (rel_recv noNewParked_preO (fun _ m _ => noNewParked_stepRel m) (ParkOK.of_flags all_reactions_unbuffered) env).step w

/-- The only additions to the marker table are presentation-request markers for the sender. -/
def OnlyMarkers (n : Int) : W → W → Prop :=
  OnSt fun s s' => ∀ e ∈ s'.ibuf, e ∈ s.ibuf ∨ e = ((presentationRequest n).key, presentationRequest n)

theorem onlyMarkers_preO (n : Int) : PreO (OnlyMarkers n) :=
  OnSt.preO (fun _ _ h => Or.inl h) (fun h1 h2 e he => by
    rcases h2 e he with h | h
    · exact h1 e h
    · exact Or.inr h)

theorem ibuf_same (n : Int) {f : St → St} (h : ∀ s, (f s).ibuf = s.ibuf) : Rel (OnlyMarkers n) (modifySt f) :=
  Rel.modifySt f fun s e he => Or.inl (by simpa [h s] using he)

theorem onlyMarkers_stepRel (m : Msg) : StepRel (OnlyMarkers m.node) m where
  pre := onlyMarkers_preO m.node
  write := fun _ _ => Rel.transportWrite (fun _ _ h => Or.inl h) _
  setNode := fun _ => ibuf_same _ fun _ => rfl
  alloc := ibuf_same _ fun _ => rfl
  erase := fun _ _ _ => ibuf_same _ fun s => by split <;> rfl
  mark := Rel.modifySt _ fun s e he => by
    rcases PDict.mem_set he with h | h
    · exact Or.inl h
    · exact Or.inr h
  unmark := Rel.modifySt _ fun s e he => by
    split at he
    · exact Or.inl (PDict.mem_erase he)
    · exact Or.inl he
  version := fun _ _ => ibuf_same _ fun _ => rfl

theorem only_presentation_markers_added (env : Env) (v : Ver) (m : Msg) (w : W) :
    ∀ e ∈ (dispatch env v m w).2.st.ibuf, e ∈ w.st.ibuf ∨ e = ((presentationRequest m.node).key, presentationRequest m.node) :=
  (rel_dispatch (onlyMarkers_stepRel m) (ParkOK.of_all fun _ => ibuf_same _ fun _ => rfl) env v).step w

/-! ### Every write is a specified reaction -/

/-- What a step adds to the write log: attempts to write reactions to `m`, nothing else. -/
def OnlyReactions (m : Msg) : W → W → Prop :=
  fun w w' => ∃ l, w'.writes = w.writes ++ l ∧ ∀ e ∈ l, ∃ r, Reaction m r ∧ e.line = encode r

theorem onlyReactions_preO (m : Msg) : PreO (OnlyReactions m) where
  refl := fun w => ⟨[], by simp, by simp⟩
  trans := by
    rintro a b c ⟨l1, h1, p1⟩ ⟨l2, h2, p2⟩
    refine ⟨l1 ++ l2, by rw [h2, h1, List.append_assoc], ?_⟩
    intro e he
    rcases List.mem_append.mp he with h | h
    · exact p1 e h
    · exact p2 e h

theorem onlyReactions_modifySt (m : Msg) (f : St → St) : Rel (OnlyReactions m) (modifySt f) :=
  ⟨fun w => ⟨[], by simp [M.modifySt], by simp⟩⟩

theorem onlyReactions_stepRel (m : Msg) : StepRel (OnlyReactions m) m where
  pre := onlyReactions_preO m
  write := fun sm hr => ⟨fun w => by
    simp only [transportWrite]
    split
    · exact ⟨[⟨encode sm, false⟩], rfl, by simpa using ⟨sm, hr, rfl⟩⟩
    · exact ⟨[⟨encode sm, false⟩], rfl, by simpa using ⟨sm, hr, rfl⟩⟩
    · exact ⟨[⟨encode sm, true⟩], rfl, by simpa using ⟨sm, hr, rfl⟩⟩
    · exact ⟨[⟨encode sm, true⟩], rfl, by simpa using ⟨sm, hr, rfl⟩⟩⟩
  setNode := fun _ => onlyReactions_modifySt m _
  alloc := onlyReactions_modifySt m _
  erase := fun _ _ _ => onlyReactions_modifySt m _
  mark := onlyReactions_modifySt m _
  unmark := onlyReactions_modifySt m _
  version := fun _ _ => onlyReactions_modifySt m _

/-- **The controller writes only as a specified reaction to the received message.** For every
version, state, configuration and fault schedule, everything handed to the transport while the
message `m` is handled is one of: the version query, the presentation request to `m`'s node, the
reboot command to it, a stored value as a set message to the asker, the id response / config /
time reply addressed like the request, the discover broadcast, or a parked command of the node
that just woke.  (When each of them is written is the subject of the theorems below.) -/
theorem writes_are_reactions (env : Env) (v : Ver) (m : Msg) (w : W) :
    ∃ l, (dispatch env v m w).2.writes = w.writes ++ l ∧ ∀ e ∈ l, ∃ r, Reaction m r ∧ e.line = encode r :=
  (rel_dispatch (onlyReactions_stepRel m) (ParkOK.of_all fun _ => onlyReactions_modifySt m _) env v).step w

/-- **Addressed to the node that asked**: every reaction carries the sender's node id, except the
version query (to the gateway, node 0) and the discover broadcast (node 255). -/
theorem reaction_address (m r : Msg) (h : Reaction m r) :
    r.node = m.node ∨ r = versionQuery ∨ (r.node = Gen.broadcastId ∧ r.type = Gen.iDiscover) := by
  cases h with
  | versionQuery => exact Or.inr (Or.inl rfl)
  | presentationRequest => exact Or.inl rfl
  | reboot => exact Or.inl rfl
  | reqReply _ => exact Or.inl rfl
  | idResponse _ => exact Or.inl rfl
  | echoReply _ => exact Or.inl rfl
  | discover => exact Or.inr (Or.inr ⟨rfl, rfl⟩)
  | released bm hb => exact Or.inl hb

/-- A rejected line writes nothing at all. -/
theorem rejected_line_writes_nothing (env : Env) (line : Str) (w : W) (h : decode w.st.proto line = none) :
    (recv env line w).2.writes = w.writes := by
  simp [recv, M.bind, M.getSt, h, M.raise]

/-! ### The version query -/

/-- Log and gateway-ready messages are the two that never trigger the query. -/
theorem wants_query_iff (m : Msg) : wantsVersionQuery m = false ↔ m.cmd = 3 ∧ (m.type = 9 ∨ m.type = 14) := by
  simp only [wantsVersionQuery, Gen.cmdInternal, Gen.iLogMessage, Gen.iGatewayReady, Bool.or_eq_false_iff,
    bne_eq_false_iff_eq, Bool.not_eq_false', Bool.or_eq_true, beq_iff_eq]

/-- The query itself: `0;255;3;0;2;`. -/
theorem version_query_line : encode versionQuery = "0;255;3;0;2;\n".toList := by decide

/-- **Once the version is known, no query.** -/
theorem no_query_when_known (inner : Msg → M Msg) (m : Msg) (w : W) (h : (inner m w).2.st.pv.isSome = true) :
    wrapMissingPV inner m w = inner m w :=
  wrapMissingPV_known inner m w h

/-- **While it is unknown**: after the handler (whatever its outcome), if the version is still
unknown and the message is not a log / gateway-ready message, exactly one query is written, last. -/
theorem query_when_unknown (inner : Msg → M Msg) (m r : Msg) (w w' : W) (h : inner m w = (.ok r, w'))
    (hpv : w'.st.pv = none) (hw : wantsVersionQuery r = true) (hf : w'.faults = []) :
    wrapMissingPV inner m w = (.ok r, { w' with writes := w'.writes ++ [⟨encode versionQuery, true⟩] }) := by
  rw [wrapMissingPV_eq, h]
  simp [hpv, hw, transportWrite_ok _ _ hf]

theorem query_after_error (inner : Msg → M Msg) (m : Msg) (e : Exn) (w w' : W) (h : inner m w = (.error e, w'))
    (hpv : w'.st.pv = none) (hw : wantsVersionQuery m = true) (hf : w'.faults = []) :
    wrapMissingPV inner m w = (.error e, { w' with writes := w'.writes ++ [⟨encode versionQuery, true⟩] }) := by
  rw [wrapMissingPV_eq, h]
  simp [hpv, hw, transportWrite_ok _ _ hf]

theorem no_query_for_log_and_ready (inner : Msg → M Msg) (m r : Msg) (w w' : W) (h : inner m w = (.ok r, w'))
    (hw : wantsVersionQuery r = false) : wrapMissingPV inner m w = (.ok r, w') := by
  rw [wrapMissingPV_eq, h]
  simp [hw]

/-- A message that itself made the version known is followed by no query: the version handler
installs the version before the decorator's `finally` looks at it. -/
theorem version_reply_needs_no_query (m : Msg) (v : Ver) (w : W) (h : getProtocol? m.payload = some v) :
    wrapMissingPV hVersion m w = hVersion m w := by
  apply wrapMissingPV_known
  have he : getProtocolE m.payload = .ok v := by
    unfold getProtocol? at h
    unfold getProtocolE
    cases hp : getProtocolX m.payload with
    | error e => simp [hp] at h
    | ok p => simpa [hp] using h
  simp [hVersion, convertExn, he, M.bind, M.pure, M.seq, M.modifySt]

/-! ### The reactions, one by one (no write faults) -/

/-- Config request: `M` or `I` per configuration, addressed like the request. -/
theorem config_reaction (env : Env) (m : Msg) (w : W) (hcmd : m.cmd = 3) (hf : w.faults = []) :
    hConfig env m w = (.ok m, { w with writes := w.writes ++
      [⟨encode ⟨m.node, m.child, m.cmd, 0, m.type, if env.metric then ['M'] else ['I']⟩, true⟩] }) := by
  have hs := gwSend_direct ⟨m.node, m.child, m.cmd, 0, m.type, if env.metric then ['M'] else ['I']⟩ Gen.bufConfig
    (Or.inr (Or.inr (Or.inl hcmd)))
  simp only [hConfig, M.seq, M.bind, hs, transportWrite_ok _ _ hf, M.pure]

/-- Time request: the controller's local time as epoch seconds (`calendar.timegm(time.localtime())`). -/
theorem time_reaction (env : Env) (m : Msg) (w : W) (hcmd : m.cmd = 3) (hf : w.faults = []) :
    hTime env m w = (.ok m, { w with writes := w.writes ++ [⟨encode ⟨m.node, m.child, m.cmd, 0, m.type, dec env.timegm⟩, true⟩] }) := by
  have hs := gwSend_direct ⟨m.node, m.child, m.cmd, 0, m.type, dec env.timegm⟩ Gen.bufTime (Or.inr (Or.inr (Or.inl hcmd)))
  simp only [hTime, M.seq, M.bind, hs, transportWrite_ok _ _ hf, M.pure]

/-- `timegm` of the epoch and of a leap day, as the code computes them. -/
theorem timegm_examples :
    ({ year := 1970, month := 1, day := 1 } : Env).timegm = 0 ∧
    ({ year := 2000, month := 2, day := 29, hour := 23, minute := 59, second := 59 } : Env).timegm = 951868799 ∧
    ({ year := 2038, month := 1, day := 19, hour := 3, minute := 14, second := 8 } : Env).timegm = 2147483648 := by decide

/-- Value request with a stored value: the value as a set message to the asker, written at once. -/
theorem req_reaction (m : Msg) (w : W) (node : Node) (child : Child) (value : Str)
    (hn : w.st.nodes.get? m.node = some node) (hc : node.children.get? m.child = some child)
    (hv : child.values.get? m.type = some value) (hf : w.faults = []) :
    hReq m w = (.ok m, { w with writes := w.writes ++ [⟨encode ⟨m.node, m.child, 1, 0, m.type, value⟩, true⟩] }) := by
  have hflag : Gen.bufReqReply = false := by decide
  have hs := gwSend_set ⟨m.node, m.child, Gen.cmdSet, 0, m.type, value⟩ Gen.bufReqReply w rfl
  rw [hflag] at hs
  simp only [hReq, requireNode, M.bind, M.getSt, hn, M.pure, hc, hv, M.seq]
  rw [hflag, hs]
  simp [transportWrite_ok _ _ hf, M.pure, Gen.cmdSet]

/-- … and nothing if none is stored. -/
theorem req_without_value (m : Msg) (w : W) (node : Node) (child : Child)
    (hn : w.st.nodes.get? m.node = some node) (hc : node.children.get? m.child = some child)
    (hv : child.values.get? m.type = none) : hReq m w = (.ok m, w) := by
  simp [hReq, requireNode, M.bind, M.getSt, hn, M.pure, hc, hv]

/-- Gateway ready (2.0 and newer): a broadcast discover request. -/
theorem gateway_ready_reaction (m : Msg) (w : W) (hcmd : m.cmd = 3) (hf : w.faults = []) :
    hGatewayReady m w = (.ok m, { w with writes := w.writes ++ [⟨encode ⟨255, m.child, m.cmd, 0, 20, []⟩, true⟩] }) := by
  have hs := gwSend_direct ⟨Gen.broadcastId, m.child, m.cmd, 0, Gen.iDiscover, []⟩ Gen.bufDiscover (Or.inr (Or.inr (Or.inl hcmd)))
  simp only [hGatewayReady, M.seq, M.bind, hs, transportWrite_ok _ _ hf, M.pure]
  rfl

/-- A set from a node flagged for reboot: the value is recorded, then the reboot command is written. -/
theorem reboot_reaction (m : Msg) (w : W) (node : Node) (child : Child)
    (hn : w.st.nodes.get? m.node = some node) (hc : node.children.get? m.child = some child)
    (hr : node.reboot = true) (hf : w.faults = []) :
    (hSet m w).1 = .ok m ∧ (hSet m w).2.writes = w.writes ++ [⟨encode ⟨m.node, 255, 3, 0, 13, []⟩, true⟩] := by
  have hs := gwSend_direct ⟨m.node, Gen.systemChildId, Gen.cmdInternal, 0, Gen.iReboot, []⟩ Gen.bufReboot (Or.inr (Or.inr (Or.inl rfl)))
  simp only [hSet, requireNode, M.bind, M.getSt, hn, M.pure, hc, M.seq, setNode, M.modifySt, hr, if_true, hs]
  rw [transportWrite_ok _ _ (by simpa using hf)]
  exact ⟨rfl, rfl⟩

/-- … and a set from any other node writes nothing. -/
theorem set_without_reboot (m : Msg) (w : W) (node : Node) (child : Child)
    (hn : w.st.nodes.get? m.node = some node) (hc : node.children.get? m.child = some child)
    (hr : node.reboot = false) : (hSet m w).1 = .ok m ∧ (hSet m w).2.writes = w.writes := by
  simp [hSet, requireNode, M.bind, M.getSt, hn, M.pure, hc, M.seq, setNode, M.modifySt, hr]

/-! ### Messages that produce no write -/

/-- Types without a handler (find parent, children, inclusion mode, …): returned as they are. -/
theorem no_handler_no_write (env : Env) (v : Ver) (m : Msg) (name : String)
    (ht : (Gen.internalTypes v).lookup m.type = some name) (hc : (Gen.internalChains v).lookup m.type = some none) :
    hInternal env v m = pure m := by
  simp [hInternal, ht, hc, runTyped]

/-- Which internal types have a handler at all, per version (generated). -/
theorem handled_internal_types :
    ((Gen.internalChains .v14).filterMap fun e => e.2.map fun _ => e.1) = [0, 1, 2, 3, 6, 11, 12] ∧
    ((Gen.internalChains .v15).filterMap fun e => e.2.map fun _ => e.1) = [0, 1, 2, 3, 6, 11, 12] ∧
    ((Gen.internalChains .v20).filterMap fun e => e.2.map fun _ => e.1) = [0, 1, 2, 3, 6, 11, 12, 14, 21, 22] ∧
    ((Gen.internalChains .v21).filterMap fun e => e.2.map fun _ => e.1) = [0, 1, 2, 3, 6, 11, 12, 14, 21, 22] ∧
    ((Gen.internalChains .v22).filterMap fun e => e.2.map fun _ => e.1) = [0, 1, 2, 3, 6, 11, 12, 14, 21, 22, 32] := by
  decide

/-- Stream types have no handler in any version. -/
theorem no_stream_handlers : ∀ v : Ver, (Gen.streamChains v).all (fun e => e.2.isNone) = true := by decide

/-- Reports (battery, sketch name/version, discover response, 2.2 heartbeat) write nothing. -/
theorem reports_write_nothing (m : Msg) (w : W) :
    (hBattery m w).2.writes = w.writes ∧ (hSketchName m w).2.writes = w.writes ∧
    (hSketchVersion m w).2.writes = w.writes ∧ (hDiscoverResponse m w).2.writes = w.writes ∧
    (hHeartbeat22 m w).2.writes = w.writes ∧ (hVersion m w).2.writes = w.writes := by
  refine ⟨?_, ?_, ?_, ?_, (C07.heartbeat22_no_release m w).2, ?_⟩
  · simp only [hBattery, requireNode, M.bind, M.getSt]
    cases hn : w.st.nodes.get? m.node with
    | none => simp [M.raise]
    | some node =>
      simp only [M.pure, convertExn, hn]
      cases hp : pyRoundFloat m.payload with
      | error c => by_cases hc : pyCaught c (clause Gen.excBattery 0) = true <;> simp [hc, M.raise]
      | ok level =>
        by_cases hr : Gen.minBattery ≤ level ∧ level ≤ Gen.maxBattery <;>
          simp [hr, M.seq, M.bind, M.getSt, hn, setNode, M.modifySt, M.pure, M.raise]
  · simp only [hSketchName, requireNode, M.bind, M.getSt]
    cases hn : w.st.nodes.get? m.node <;> simp [M.raise, M.pure, M.seq, M.bind, setNode, M.modifySt]
  · simp only [hSketchVersion, requireNode, M.bind, M.getSt]
    cases hn : w.st.nodes.get? m.node <;> simp [M.raise, M.pure, M.seq, M.bind, setNode, M.modifySt]
  · simp only [hDiscoverResponse, requireNode, M.bind, M.getSt]
    cases hn : w.st.nodes.get? m.node <;> simp [M.raise, M.pure]
  · simp only [hVersion, convertExn, M.bind]
    cases hp : getProtocolE m.payload with
    | error c => by_cases hc : pyCaught c (clause Gen.excVersion 0) = true <;> simp [hc, M.raise]
    | ok v => simp [M.pure, M.seq, M.bind, M.modifySt]

/-! ### `writes = expectedWrites`: the refinement to the readable specification

`Model/WriteSpec.lean` spells the property's reaction table as one pure function of the
configuration, the state and the received message (`expectedWrites`; under a schedule of failing
writes: `expectedAttempts`).  It never runs a handler.  Here the handler model is proved to write
exactly that: per handler and per decorator in `Lemmas/Writes.lean` (judgement `Acts`), over the
generated dispatch tables below. -/

open WriteSpec

/-- **The summary of the whole dispatch**, for a message with a valid command, in terms of the
specification. -/
theorem dispatch_acts (env : Env) (m : Msg) (w : W) (hcmd : 0 ≤ m.cmd ∧ m.cmd ≤ 4) (hs : ParkedSets w.st m.node) :
    ∃ miss pv' mk, Acts m (dispatch env w.st.proto m) w (attempts env w.st m w.faults) miss pv' mk := by
  have hc : m.cmd = 0 ∨ m.cmd = 1 ∨ m.cmd = 2 ∨ m.cmd = 3 ∨ m.cmd = 4 := by omega
  rcases hc with hc | hc | hc | hc | hc
  · -- presentation
    rw [dispatch_presentation env _ m hc]
    have h1 : ∀ st : St, st.proto = w.st.proto → first env st m = [] := fun st _ => by spec_simp [internalName, hc]
    have hq : ∀ st : St, st.proto = w.st.proto → st.pv = w.st.pv → query st m = query w.st m := fun st h1 h2 => by
      simp [query, reportsVersion, isInternal, internalName, hc, h2, Gen.cmdInternal]
    have core : ∀ w1 : W, w1.faults = w.faults → w1.st.proto = w.st.proto → w1.st.pv = w.st.pv →
        Acts m (wrapMissingPV (hPresentation env w.st.proto) m) w1
          (andThen (attempt ((first env w.st m).map encode) w.faults) (attempt ((query w.st m).map encode)))
          (m.child != Gen.systemChildId && !knownNode w1.st m) (pvAfter w.st m) (w1.st.ibuf.has (markerKey m.node)) := by
      intro w1 hf hp hv
      refine (acts_wrapMissingPV (acts_hPresentation env w.st.proto m w1)).cast ?_ rfl ?_ rfl
      · rw [← hq w1.st hp hv, query_eq, h1 w.st rfl, hf]
        have : pvAfter w1.st m = (if m.child = Gen.systemChildId ∧ m.node = 0 ∧ (getProtocol? m.payload).isSome = true
            then some m.payload else w1.st.pv) := by spec_simp [internalName, hc, and_assoc]
        rw [this]; simp [attempt_nil]
      · rw [hv]; spec_simp [internalName, hc, and_assoc]
    by_cases hv : Ver.v20 ≤ w.st.proto
    · simp only [hv, if_true]
      have hpre := acts_seq_modify (m := m) (x := wrapMissingPV (hPresentation env w.st.proto) m) (w := w)
        (fun s => if s.ibuf.has (m.node, m.child, Gen.iPresentation) then
          { s with ibuf := s.ibuf.erase (m.node, m.child, Gen.iPresentation) } else s)
        (core _ rfl (by dsimp only; split <;> rfl) (by dsimp only; split <;> rfl))
      have := acts_command (env := env) (inner := fun m => seq (prePresentation20 m) (wrapMissingPV (hPresentation env w.st.proto) m))
        hpre ?_
      · rwa [wrapNC_new _ _ hv] at this
      · by_cases hch : m.child = Gen.systemChildId
        · spec_simp [last, internalName, hc, hch]
        · have hkey : markerKey m.node ≠ (m.node, m.child, Gen.iPresentation) := by
            simp only [markerKey, ne_eq, Prod.mk.injEq, true_and, and_true]; exact fun h => hch h.symm
          have hmk : (if w.st.ibuf.has (m.node, m.child, Gen.iPresentation) = true then
              { w.st with ibuf := w.st.ibuf.erase (m.node, m.child, Gen.iPresentation) } else w.st).ibuf.has (markerKey m.node) =
              w.st.ibuf.has (markerKey m.node) := by
            split
            · exact PDict.has_erase_ne _ hkey
            · rfl
          have hkn : knownNode (if w.st.ibuf.has (m.node, m.child, Gen.iPresentation) = true then
              { w.st with ibuf := w.st.ibuf.erase (m.node, m.child, Gen.iPresentation) } else w.st) m = knownNode w.st m := by
            split <;> rfl
          rw [hmk, hkn]
          cases hk : knownNode w.st m <;> spec_simp [last, internalName, hc, hch, hk, hv]
    · simp only [hv, if_false]
      have := acts_command (env := env) (core w rfl rfl rfl) (by spec_simp [last, internalName, hc, hv])
      rwa [wrapNC_old _ _ hv] at this
  · -- set
    rw [dispatch_set env _ m hc]
    refine acts_command (miss := !knownChild w.st m) (pv' := w.st.pv) (mk := w.st.ibuf.has (markerKey m.node)) ?_ ?_
    · refine (acts_wrapMissingPV (acts_hSet m w)).cast ?_ rfl rfl rfl
      rw [query_eq]
      have h1 : first env w.st m = if knownChild w.st m = true ∧ ((w.st.nodes.get? m.node).map (·.reboot)) = some true then
        [(⟨m.node, Gen.systemChildId, Gen.cmdInternal, 0, Gen.iReboot, []⟩ : Msg)] else [] := by
        spec_simp [internalName, hc]
      have h2 : pvAfter w.st m = w.st.pv := by spec_simp [internalName, hc]
      rw [h1, h2]
    · cases hk : knownChild w.st m <;> spec_simp [last, internalName, hc, hk]
  · -- req
    rw [dispatch_req env _ m hc]
    refine acts_command (miss := !knownChild w.st m) (pv' := w.st.pv) (mk := w.st.ibuf.has (markerKey m.node)) ?_ ?_
    · refine (acts_wrapMissingPV (acts_hReq m w)).cast ?_ rfl rfl rfl
      rw [query_eq]
      have h2 : pvAfter w.st m = w.st.pv := by spec_simp [internalName, hc]
      rw [h2]
      congr 3
      cases hsv : storedValue? w.st m <;> spec_simp [internalName, hc, hsv]
    · cases hk : knownChild w.st m <;> spec_simp [last, internalName, hc, hk]
  · -- internal
    rw [dispatch_internal env _ m hc]
    obtain ⟨miss, mk, h⟩ := acts_hInternal env m w hc hs
    refine ⟨miss, _, mk, (acts_wrapMissingPV h).cast ?_ rfl rfl rfl⟩
    rw [← query_eq]
    simp [attempts, last, hc, Gen.cmdInternal, andThen_last_nil]
  · -- stream
    rw [dispatch_stream env _ m hc]
    refine acts_command (miss := !knownNode w.st m) (pv' := w.st.pv) (mk := w.st.ibuf.has (markerKey m.node)) ?_ ?_
    · refine (acts_wrapMissingPV (acts_hStream env w.st.proto m w)).cast ?_ rfl rfl rfl
      rw [query_eq]
      have h1 : first env w.st m = [] := by spec_simp [internalName, hc]
      have h2 : pvAfter w.st m = w.st.pv := by spec_simp [internalName, hc]
      rw [h1, h2]; simp [attempt_nil]
    · cases hk : knownNode w.st m <;> spec_simp [last, internalName, hc, hk]


/-! ### The equation -/

/-- Successful write events for lines. -/
def okEvents (ls : List Str) : List WriteEvt := ls.map fun l => ⟨l, true⟩

/-- Without failing or cancelled writes the attempts of the specification are all its lines, each successful. -/
theorem attempts_nofault (env : Env) (st : St) (m : Msg) :
    attempts env st m [] = (okEvents (expectedWrites env st m), [], none) := by
  simp [attempts, andThen, attempt_nofault, expectedWrites, expectedMsgs, okEvents]

/-- Under a schedule of `pass` entries only, an attempt writes every line and consumes one entry each. -/
theorem attempt_allpass (ls : List Str) (fs : List Fault) (h : ∀ f ∈ fs, f = .pass) :
    attempt ls fs = (okEvents ls, fs.drop ls.length, none) := by
  induction ls generalizing fs with
  | nil => simp [attempt_nil, okEvents]
  | cons l ls ih =>
    cases fs with
    | nil => simp [attempt, okEvents, ih [] (by simp)]
    | cons f fs =>
      have hf : f = .pass := h f (by simp)
      subst hf
      simp [attempt, Fault.exn, okEvents, ih fs (fun g hg => h g (by simp [hg]))]

theorem andThen_allpass (a : Att) (ls : List Str) (h : ∀ f ∈ a.2.1, f = .pass) :
    andThen a (attempt ls) = (a.1 ++ okEvents ls, a.2.1.drop ls.length, a.2.2) := by
  simp [andThen, attempt_allpass _ _ h]

/-- … and so does the whole step. -/
theorem attempts_allpass (env : Env) (st : St) (m : Msg) (fs : List Fault) (h : ∀ f ∈ fs, f = .pass) :
    attempts env st m fs = (okEvents (expectedWrites env st m), fs.drop (expectedWrites env st m).length, none) := by
  have hd : ∀ n, ∀ f ∈ fs.drop n, f = .pass := fun n f hf => h f (List.mem_of_mem_drop hf)
  unfold attempts
  rw [attempt_allpass _ _ h, andThen_allpass _ _ (hd _)]
  simp only [Option.isSome_none, Bool.false_eq_true, if_false]
  rw [andThen_allpass _ _ (by simpa using hd _)]
  simp [expectedWrites, expectedMsgs, okEvents, Nat.add_assoc]

/-- **Under every schedule of completing, failing and cancelled writes** the write attempts of the
dispatch are exactly the specification's: the first segment up to its first write that does not
complete, then the version query even after that (it is sent from a `finally` clause, which also
runs when the task was cancelled), then the command-level presentation request only if everything
before completed.  The schedule left is the specification's, and if some attempt did not complete
the step ends in `expectedExn`: the exception of the LAST attempt that did not complete (see
`expectedExn_is_last`) — a failing or cancelled version query replaces the handler's exception. -/
theorem writes_eq_attempts (env : Env) (m : Msg) (w : W) (hcmd : 0 ≤ m.cmd ∧ m.cmd ≤ 4) (hs : ParkedSets w.st m.node) :
    (dispatch env w.st.proto m w).2.writes = w.writes ++ expectedAttempts env w.st m w.faults ∧
    (dispatch env w.st.proto m w).2.faults = (attempts env w.st m w.faults).2.1 ∧
    (∀ e, expectedExn env w.st m w.faults = some e → (dispatch env w.st.proto m w).1 = .error e) := by
  obtain ⟨_, _, _, h⟩ := dispatch_acts env m w hcmd hs
  exact ⟨h.writes, h.faults, fun e he => (h.failed e he).1⟩

/-- **Which exception**: the `k`-th attempt of the step consumes the `k`-th entry of the schedule
(a schedule that ran out counts as `pass`) and is logged as written iff that entry is `pass`; the
schedule left is the rest; and `expectedExn` is the exception of the last consumed entry that is
not `pass` — `TransportFailedError` for `fail`, `CancelledError` for `cancel`. -/
theorem expectedExn_is_last (env : Env) (st : St) (m : Msg) (fs : List Fault) :
    (attempts env st m fs).2.1 = fs.drop (expectedAttempts env st m fs).length ∧
    (∀ k (h : k < (expectedAttempts env st m fs).length),
      (expectedAttempts env st m fs)[k].ok = ((fs[k]?).getD .pass).ok) ∧
    expectedExn env st m fs = lastExn (fs.take (expectedAttempts env st m fs).length) :=
  let h := consumes_attempts env st m fs
  ⟨h.left, h.ok, h.exn⟩

/-- The exception of a step is the transport error or the cancellation, … -/
theorem expectedExn_cases (env : Env) (st : St) (m : Msg) (fs : List Fault) (e : Exn)
    (h : expectedExn env st m fs = some e) : e = .lib .transportFailed ∨ e = .foreign .CancelledError :=
  lastExn_cases _ e ((expectedExn_is_last env st m fs).2.2 ▸ h)

/-- … the cancellation iff the last consumed entry that is not `pass` is `cancel`, … -/
theorem expectedExn_cancel_iff (env : Env) (st : St) (m : Msg) (fs : List Fault) :
    expectedExn env st m fs = some (.foreign .CancelledError) ↔
      ∃ pre post, fs.take (expectedAttempts env st m fs).length = pre ++ .cancel :: post ∧ ∀ g ∈ post, g = .pass := by
  rw [(expectedExn_is_last env st m fs).2.2, lastExn_eq_some_iff]
  constructor
  · rintro ⟨pre, f, post, h1, h2, h3⟩
    cases f <;> simp [Fault.exn] at h2
    exact ⟨pre, post, h1, h3⟩
  · rintro ⟨pre, post, h1, h3⟩
    exact ⟨pre, .cancel, post, h1, rfl, h3⟩

/-- … and there is none iff every consumed entry is `pass`: then every attempt is logged as written. -/
theorem expectedExn_none_iff (env : Env) (st : St) (m : Msg) (fs : List Fault) :
    expectedExn env st m fs = none ↔ ∀ f ∈ fs.take (expectedAttempts env st m fs).length, f = .pass := by
  rw [(expectedExn_is_last env st m fs).2.2, lastExn_none_iff]

/-- **`writes = expectedWrites`.** For every state, configuration and message with a valid command,
when no write fails the lines written while the message is handled are exactly
`expectedWrites env st m`, in that order, each reported as successful. -/
theorem writes_eq_expected (env : Env) (m : Msg) (w : W) (hcmd : 0 ≤ m.cmd ∧ m.cmd ≤ 4) (hs : ParkedSets w.st m.node)
    (hf : w.faults = []) :
    (dispatch env w.st.proto m w).2.writes = w.writes ++ okEvents (expectedWrites env w.st m) := by
  rw [(writes_eq_attempts env m w hcmd hs).1, expectedAttempts, hf, attempts_nofault]

/-- The same under a schedule that only has `pass` entries; it is consumed one entry per line. -/
theorem writes_eq_expected_allpass (env : Env) (m : Msg) (w : W) (hcmd : 0 ≤ m.cmd ∧ m.cmd ≤ 4)
    (hs : ParkedSets w.st m.node) (hf : ∀ f ∈ w.faults, f = .pass) :
    (dispatch env w.st.proto m w).2.writes = w.writes ++ okEvents (expectedWrites env w.st m) ∧
    (dispatch env w.st.proto m w).2.faults = w.faults.drop (expectedWrites env w.st m).length := by
  obtain ⟨h1, h2, _⟩ := writes_eq_attempts env m w hcmd hs
  rw [h1, h2, expectedAttempts, attempts_allpass env w.st m w.faults hf]
  exact ⟨rfl, rfl⟩

/-- The same for the whole receive step of a line that decodes to `m` (the decoder only yields
valid commands). -/
theorem recv_writes_eq_expected (env : Env) (line : Str) (m : Msg) (w : W) (hd : decode w.st.proto line = some m)
    (hs : ParkedSets w.st m.node) (hf : w.faults = []) :
    (recv env line w).2.writes = w.writes ++ okEvents (expectedWrites env w.st m) := by
  have hr := C02.rejects_out_of_range _ _ _ hd
  have : recv env line w = dispatch env w.st.proto m w := by simp [recv, M.bind, M.getSt, hd]
  rw [this]
  exact writes_eq_expected env m w ⟨hr.2.2.2.2.1, hr.2.2.2.2.2.1⟩ hs hf

theorem recv_writes_eq_attempts (env : Env) (line : Str) (m : Msg) (w : W) (hd : decode w.st.proto line = some m)
    (hs : ParkedSets w.st m.node) :
    (recv env line w).2.writes = w.writes ++ expectedAttempts env w.st m w.faults ∧
    (∀ e, expectedExn env w.st m w.faults = some e → (recv env line w).1 = .error e) := by
  have hr := C02.rejects_out_of_range _ _ _ hd
  have : recv env line w = dispatch env w.st.proto m w := by simp [recv, M.bind, M.getSt, hd]
  rw [this]
  obtain ⟨h1, _, h3⟩ := writes_eq_attempts env m w ⟨hr.2.2.2.2.1, hr.2.2.2.2.2.1⟩ hs
  exact ⟨h1, h3⟩

/-- Every state a history reaches from the empty gateway satisfies the hypothesis on the sleep buffer. -/
theorem parkedSets_reachable (ops : List Op) (n : Int) : ParkedSets (stateAfter {} ops) n :=
  parkedSets_of_sbufSet (C07.sbufInv_history ops {} C07.sbufInv_init).2 n

/-- **Along every history**: whatever was received and sent before (with or without failing or
cancelled writes), a line that decodes to `m` and meets no failing write makes the controller write
exactly `expectedWrites` of the state reached — no hypothesis on the state is left. -/
theorem history_writes_eq_expected (ops : List Op) (env : Env) (line : Str) (m : Msg)
    (hd : decode (stateAfter {} ops).proto line = some m) :
    (recv env line { st := stateAfter {} ops }).2.writes = okEvents (expectedWrites env (stateAfter {} ops) m) := by
  simpa using recv_writes_eq_expected env line m { st := stateAfter {} ops } hd (parkedSets_reachable ops m.node) rfl

/-- … and under any schedule of completing, failing and cancelled writes, exactly
`expectedAttempts`, ending in `expectedExn` when an attempt did not complete. -/
theorem history_writes_eq_attempts (ops : List Op) (env : Env) (line : Str) (m : Msg) (faults : List Fault)
    (hd : decode (stateAfter {} ops).proto line = some m) :
    (recv env line { st := stateAfter {} ops, faults := faults }).2.writes =
      expectedAttempts env (stateAfter {} ops) m faults ∧
    (∀ e, expectedExn env (stateAfter {} ops) m faults = some e →
      (recv env line { st := stateAfter {} ops, faults := faults }).1 = .error e) := by
  simpa using recv_writes_eq_attempts env line m { st := stateAfter {} ops, faults := faults } hd
    (parkedSets_reachable ops m.node)

/-! ### The shape under failing and cancelled writes, in words -/

/-- An attempt writes a prefix of its lines. -/
theorem attempt_lines_prefix (ls : List Str) (fs : List Fault) : (attempt ls fs).1.map (·.line) <+: ls := by
  induction ls generalizing fs with
  | nil => simp [attempt_nil]
  | cons l ls ih =>
    rcases fs with _ | ⟨_ | _ | _, fs⟩
    · simpa [attempt] using ih []
    · simpa [attempt, Fault.exn] using ih fs
    · simp [attempt, Fault.exn, List.prefix_cons_iff]
    · simp [attempt, Fault.exn, List.prefix_cons_iff]

/-- … all of them unless a write did not complete, … -/
theorem attempt_lines_all (ls : List Str) (fs : List Fault) (h : (attempt ls fs).2.2 = none) :
    (attempt ls fs).1 = okEvents ls := by
  induction ls generalizing fs with
  | nil => simp [attempt_nil, okEvents]
  | cons l ls ih =>
    rcases fs with _ | ⟨_ | _ | _, fs⟩
    · simp only [attempt] at h ⊢; simpa [okEvents] using ih [] h
    · simp only [attempt, Fault.exn] at h ⊢; simpa [okEvents] using ih fs h
    · simp [attempt, Fault.exn] at h
    · simp [attempt, Fault.exn] at h

/-- … and a single line is always attempted. -/
theorem attempt_single (l : Str) (fs : List Fault) : (attempt [l] fs).1.map (·.line) = [l] := by
  rcases fs with _ | ⟨_ | _ | _, fs⟩ <;> simp [attempt, Fault.exn]

theorem query_length (st : St) (m : Msg) : (query st m).length ≤ 1 := by
  unfold query; split <;> simp

/-- **The attempted lines under an arbitrary schedule**: a prefix `p` of the first segment
(the handler's reactions; for internal messages including the presentation request), then the
version query whenever the specification has it — also after a failed or cancelled write —, then a
prefix `r` of the last segment, which is empty unless everything before completed. -/
theorem writes_prefix_of_expected (env : Env) (m : Msg) (w : W) (hcmd : 0 ≤ m.cmd ∧ m.cmd ≤ 4) (hs : ParkedSets w.st m.node) :
    ∃ p r, ((dispatch env w.st.proto m w).2.writes.drop w.writes.length).map (·.line) =
        p ++ (query w.st m).map encode ++ r ∧
      p <+: (first env w.st m).map encode ∧ r <+: (last w.st m).map encode ∧
      (r ≠ [] → p = (first env w.st m).map encode) := by
  rw [(writes_eq_attempts env m w hcmd hs).1, List.drop_left]
  refine ⟨(attempt ((first env w.st m).map encode) w.faults).1.map (·.line), ?_⟩
  have hq : ∀ fs, (attempt ((query w.st m).map encode) fs).1.map (·.line) = (query w.st m).map encode := by
    intro fs
    have := query_length w.st m
    match hql : query w.st m with
    | [] => simp [attempt_nil]
    | [q] => simpa using attempt_single (encode q) fs
    | _ :: _ :: _ => rw [hql] at this; simp at this
  cases hfail : (andThen (attempt ((first env w.st m).map encode) w.faults) (attempt ((query w.st m).map encode))).2.2 with
  | some e =>
    refine ⟨[], ?_, attempt_lines_prefix _ _, List.nil_prefix, by simp⟩
    simp only [expectedAttempts, attempts, hfail, Option.isSome_some, if_true]
    simp [andThen, hq]
  | none =>
    have h1 : (attempt ((first env w.st m).map encode) w.faults).2.2 = none := by
      simp only [andThen, Option.or_eq_none_iff] at hfail; exact hfail.2
    refine ⟨(attempt ((last w.st m).map encode) (andThen (attempt ((first env w.st m).map encode) w.faults)
      (attempt ((query w.st m).map encode))).2.1).1.map (·.line), ?_, attempt_lines_prefix _ _, attempt_lines_prefix _ _, ?_⟩
    · simp only [expectedAttempts, attempts, hfail]
      simp [andThen, hq]
    · intro _
      rw [attempt_lines_all _ _ h1]; simp [okEvents]


/-! ### The specification evaluated (small closed terms) -/

/-- A registry with node 1 (flagged for reboot, child 0 holding value "7" of type 2) and node 2;
two commands parked for node 2 and one for node 1. -/
def exSt (v : Ver) (pv : Option Str) : St :=
  { nodes := [(1, { ntype := 17, pv := "2.0".toList, reboot := true,
                    children := [(0, ⟨0, 6, [], [(2, "7".toList)]⟩)] }),
              (2, { ntype := 17, pv := "2.0".toList, sleeping := true })],
    pv := pv, proto := v,
    sbuf := [((2, 0, 2), ⟨2, 0, 1, 0, 2, "a".toList⟩), ((1, 0, 2), ⟨1, 0, 1, 0, 2, "b".toList⟩),
             ((2, 1, 2), ⟨2, 1, 1, 0, 2, "c".toList⟩)] }

/-- The hypothesis on the sleep buffer holds in it. -/
example : ParkedSets (exSt .v21 none) 2 := by unfold ParkedSets; decide

/-- Config request while the version is unknown: the reply, then the version query. -/
example : expectedWrites {} {} ⟨1, 255, 3, 0, 6, []⟩ = ["1;255;3;0;6;M\n".toList, "0;255;3;0;2;\n".toList] := by decide

/-- Imperial configuration, version known: only the reply. -/
example : expectedWrites { metric := false } (exSt .v22 (some "2.2".toList)) ⟨1, 255, 3, 0, 6, []⟩ = ["1;255;3;0;6;I\n".toList] := by
  decide

/-- Id request: node ids 1 and 2 are taken, 3 is handed out. -/
example : expectedWrites {} (exSt .v15 (some "1.5".toList)) ⟨255, 255, 3, 0, 3, []⟩ = ["255;255;3;0;4;3\n".toList] := by decide

/-- Time request on the leap day. -/
example : expectedWrites { year := 2000, month := 2, day := 29, hour := 23, minute := 59, second := 59 }
    (exSt .v20 (some "2.0".toList)) ⟨2, 255, 3, 0, 1, []⟩ = ["2;255;3;0;1;951868799\n".toList] := by decide

/-- Value request: the stored value as a set message; nothing for a type without a value. -/
example : expectedWrites {} (exSt .v14 (some "1.4".toList)) ⟨1, 0, 2, 0, 2, []⟩ = ["1;0;1;0;2;7\n".toList] ∧
    expectedWrites {} (exSt .v14 (some "1.4".toList)) ⟨1, 0, 2, 0, 3, []⟩ = [] := by decide

/-- Set from the node flagged for reboot; from node 2 (no such child): 2.x asks for a presentation, 1.x stays silent. -/
example : expectedWrites {} (exSt .v20 (some "2.0".toList)) ⟨1, 0, 1, 0, 2, "9".toList⟩ = ["1;255;3;0;13;\n".toList] ∧
    expectedWrites {} (exSt .v20 (some "2.0".toList)) ⟨2, 0, 1, 0, 2, "9".toList⟩ = ["2;255;3;0;19;\n".toList] ∧
    expectedWrites {} (exSt .v15 (some "1.5".toList)) ⟨2, 0, 1, 0, 2, "9".toList⟩ = [] := by decide

/-- Gateway ready: the discover broadcast from 2.0 on, never the version query. -/
example : expectedWrites {} (exSt .v20 none) ⟨0, 255, 3, 0, 14, []⟩ = ["255;255;3;0;20;\n".toList] ∧
    expectedWrites {} (exSt .v15 none) ⟨0, 255, 3, 0, 14, []⟩ = [] := by decide

/-- A wake of node 2 (heartbeat response in 2.1, pre-sleep notification in 2.2) releases its two
parked commands in buffer order; the 2.2 heartbeat and a non-integer heartbeat release nothing. -/
example : expectedWrites {} (exSt .v21 (some "2.1".toList)) ⟨2, 255, 3, 0, 22, "5".toList⟩ = ["2;0;1;0;2;a\n".toList, "2;1;1;0;2;c\n".toList] ∧
    expectedWrites {} (exSt .v22 (some "2.2".toList)) ⟨2, 255, 3, 0, 32, []⟩ = ["2;0;1;0;2;a\n".toList, "2;1;1;0;2;c\n".toList] ∧
    expectedWrites {} (exSt .v22 (some "2.2".toList)) ⟨2, 255, 3, 0, 22, "5".toList⟩ = [] ∧
    expectedWrites {} (exSt .v21 (some "2.1".toList)) ⟨2, 255, 3, 0, 22, "x".toList⟩ = [] := by decide

/-- The order of the query and the presentation request (a 2.x protocol object with the version
still unknown): a set from an unknown node is followed by the query and then the request, a
battery report from it by the request and then the query. -/
example : expectedWrites {} (exSt .v20 none) ⟨9, 0, 1, 0, 2, "1".toList⟩ = ["0;255;3;0;2;\n".toList, "9;255;3;0;19;\n".toList] ∧
    expectedWrites {} (exSt .v20 none) ⟨9, 255, 3, 0, 0, "55".toList⟩ = ["9;255;3;0;19;\n".toList, "0;255;3;0;2;\n".toList] := by decide

/-- A version reply the library accepts is followed by no query; one it rejects is. -/
example : expectedWrites {} {} ⟨0, 255, 3, 0, 2, "2.1".toList⟩ = [] ∧
    expectedWrites {} {} ⟨0, 255, 3, 0, 2, "x".toList⟩ = ["0;255;3;0;2;\n".toList] ∧
    expectedWrites {} {} ⟨0, 255, 0, 0, 18, "2.2".toList⟩ = [] := by decide

/-- Writes that do not complete: the first released command fails — the second is not attempted,
the version query still is; a failed version query suppresses the command-level presentation
request.  A cancelled write gives the same attempts as a failed one. -/
example : expectedAttempts {} (exSt .v21 none) ⟨2, 255, 3, 0, 22, "5".toList⟩ [.fail] =
      [⟨"2;0;1;0;2;a\n".toList, false⟩, ⟨"0;255;3;0;2;\n".toList, true⟩] ∧
    expectedAttempts {} (exSt .v21 none) ⟨2, 255, 3, 0, 22, "5".toList⟩ [.cancel] =
      [⟨"2;0;1;0;2;a\n".toList, false⟩, ⟨"0;255;3;0;2;\n".toList, true⟩] ∧
    expectedAttempts {} (exSt .v20 none) ⟨9, 0, 1, 0, 2, "1".toList⟩ [.fail] = [⟨"0;255;3;0;2;\n".toList, false⟩] ∧
    expectedAttempts {} (exSt .v20 none) ⟨9, 0, 1, 0, 2, "1".toList⟩ [.pass, .cancel] =
      [⟨"0;255;3;0;2;\n".toList, true⟩, ⟨"9;255;3;0;19;\n".toList, false⟩] := by decide

/-- The exception the step ends in is that of the last attempt that did not complete: the task is
cancelled in the first released command and the version query in the `finally` clause then fails
— the step ends in the transport error; the other way round it ends in the cancellation; a
cancelled command followed by a completed query ends in the cancellation; all completed: none. -/
example : expectedExn {} (exSt .v21 none) ⟨2, 255, 3, 0, 22, "5".toList⟩ [.cancel, .fail] = some (.lib .transportFailed) ∧
    expectedExn {} (exSt .v21 none) ⟨2, 255, 3, 0, 22, "5".toList⟩ [.fail, .cancel] = some (.foreign .CancelledError) ∧
    expectedExn {} (exSt .v21 none) ⟨2, 255, 3, 0, 22, "5".toList⟩ [.cancel] = some (.foreign .CancelledError) ∧
    expectedExn {} (exSt .v21 none) ⟨2, 255, 3, 0, 22, "5".toList⟩ [.pass, .pass, .pass, .fail] = none := by decide

/-- The theorem applied: the writes of the handler model for a wake in the example state, obtained
from the specification without running the handlers. -/
example : (dispatch {} .v21 ⟨2, 255, 3, 0, 22, "5".toList⟩ { st := exSt .v21 (some "2.1".toList) }).2.writes =
    [⟨"2;0;1;0;2;a\n".toList, true⟩, ⟨"2;1;1;0;2;c\n".toList, true⟩] := by
  have h := writes_eq_expected {} ⟨2, 255, 3, 0, 22, "5".toList⟩ { st := exSt .v21 (some "2.1".toList) }
    (by decide) (by unfold ParkedSets; decide) rfl
  rw [show (exSt .v21 (some "2.1".toList)).proto = Ver.v21 from rfl] at h
  rw [h]; decide

end AioMySensors.C06
