/-
C08 — The sleep buffer loses nothing and repeats nothing when transport writes fail.

The release loop `_handle_sleep_buffer` writes, then removes (`flushList`, Model/Handlers.lean).
`flushList_spec` (Lemmas/Flushing.lean) gives its behaviour under EVERY fault schedule; the
theorems below read the property off it.  With the two statements of the loop swapped (remove,
then write) `flushList_cons_fail` — the failing entry stays buffered — would be false.
-/
import AioMySensors.Properties.C07
import AioMySensors.Lemmas.RelW

namespace AioMySensors.C08
open AioMySensors M C07

/-- **Under any fault schedule**: some prefix of the woken node's entries is written successfully
and removed; then either all are done (the wake succeeds) or the next write did not complete — it
failed (reported as the transport error) or the listening task was cancelled while it waited in
that write (the `CancelledError` propagates) — and in both cases that entry and all later ones stay
buffered (to be written at a later wake), and nothing that was written is written again (the
snapshot has no key twice). -/
theorem flush_under_faults (m : Msg) (w : W) (hinv : SbufInv w.st) :
    let snap := snapshotOf w.st m.node
    ∃ i, i ≤ snap.length ∧
      (flush m w).2.st.sbuf = eraseAll w.st.sbuf ((snap.take i).map (·.1)) ∧
      ((i = snap.length ∧ errOf (flush m w).1 = none ∧
          (flush m w).2.writes = w.writes ++ snap.map (fun e => ⟨encode e.2, true⟩)) ∨
       (∃ e x, snap[i]? = some e ∧ errOf (flush m w).1 = some x ∧
          (x = .lib .transportFailed ∧ w.faults[i]? = some .fail ∨ x = .foreign .CancelledError ∧ w.faults[i]? = some .cancel) ∧
          (flush m w).2.writes = w.writes ++ (snap.take i).map (fun e => ⟨encode e.2, true⟩) ++ [⟨encode e.2, false⟩])) := by
  intro snap
  obtain ⟨i, hi, hs, _, _, _, _, hres⟩ := flushList_spec snap w hinv.1
    (fun e he => (hinv.2 e (List.mem_filter.mp he).1).1) (fun e he => (List.mem_filter.mp he).1)
    (snapshot_keys_nodup _ _ hinv.1)
  refine ⟨i, hi, ?_, ?_⟩
  · rw [flush_eq]
    cases hfl : flushList snap w with
    | mk r w' =>
      have : w'.st.sbuf = eraseAll w.st.sbuf ((snap.take i).map (·.1)) := by simpa [hfl] using hs
      cases r <;> simpa using this
  · rw [flush_eq]
    cases hfl : flushList snap w with
    | mk r w' =>
      rw [hfl] at hres
      rcases hres with ⟨h1, h2, h3⟩ | ⟨e, x, h1, h2, hx, h3⟩
      · left
        simp only at h2 h3
        subst h2
        exact ⟨h1, by simp [errOf], by simpa using h3⟩
      · right
        simp only at h2 h3
        subst h2
        exact ⟨e, x, h1, by simp [errOf], hx, by simpa using h3⟩

/-- **Conservation.** After a wake with arbitrary faults, every entry of the woken node's snapshot
is in exactly one of two places: written successfully (and no longer buffered), or still buffered
(and not written successfully). -/
theorem conservation (m : Msg) (w : W) (hinv : SbufInv w.st) :
    let snap := snapshotOf w.st m.node
    ∃ i, i ≤ snap.length ∧
      (∀ e ∈ snap.take i, e ∉ (flush m w).2.st.sbuf) ∧
      (∀ e ∈ snap.drop i, e ∈ (flush m w).2.st.sbuf) ∧
      (∀ e ∈ w.st.sbuf, e.2.node ≠ m.node → e ∈ (flush m w).2.st.sbuf) := by
  intro snap
  obtain ⟨i, hi, hs, _⟩ := flush_under_faults m w hinv
  have hnd := snapshot_keys_nodup w.st m.node hinv.1
  refine ⟨i, hi, ?_, ?_, ?_⟩
  · intro e he
    rw [hs, mem_eraseAll hinv.1]
    rintro ⟨_, hk⟩
    exact hk (List.mem_map.mpr ⟨e, he, rfl⟩)
  · intro e he
    rw [hs, mem_eraseAll hinv.1]
    have hsnap : e ∈ snap := List.mem_of_mem_drop he
    refine ⟨(List.mem_filter.mp hsnap).1, fun hk => ?_⟩
    obtain ⟨e', he', hkk⟩ := List.mem_map.mp hk
    -- e' is in the first i entries, e in the rest, and they share a key: impossible, keys are distinct
    have hsplit : snap.map (·.1) = (snap.take i).map (·.1) ++ (snap.drop i).map (·.1) := by
      rw [← List.map_append, List.take_append_drop]
    have hnd' : ((snap.take i).map (·.1) ++ (snap.drop i).map (·.1)).Nodup := by
      have h := hnd
      rw [show (snapshotOf w.st m.node) = snap from rfl, hsplit] at h
      exact h
    rw [List.nodup_append] at hnd'
    exact hnd'.2.2 _ (List.mem_map.mpr ⟨e', he', rfl⟩) _ (List.mem_map.mpr ⟨e, he, rfl⟩) hkk
  · intro e he hn
    rw [hs, mem_eraseAll hinv.1]
    refine ⟨he, fun hk => ?_⟩
    obtain ⟨e', he', hkk⟩ := List.mem_map.mp hk
    have hsnap' : e' ∈ snap := List.mem_of_mem_take he'
    obtain ⟨hm', hn'⟩ := List.mem_filter.mp hsnap'
    obtain ⟨k, v⟩ := e
    obtain ⟨k', v'⟩ := e'
    simp only at hkk; subst hkk
    have := PDict.wf_mem_unique hinv.1 hm' he
    subst this
    exact hn (by simpa using hn')

/-- **Eventual release.** A wake whose writes all succeed empties the node's entries. -/
theorem eventual_release (m : Msg) (w : W) (hinv : SbufInv w.st) (hf : w.faults = []) :
    ∀ e ∈ (flush m w).2.st.sbuf, e.2.node ≠ m.node := by
  intro e he
  rw [wake_releases m w hinv hf] at he
  exact ((after_wake_only_others m w hinv e).mp he).2

/-- The failure is reported to the caller of `listen`: `flush`'s error passes unchanged through
the missing-node decorator and the version-query decorator's `finally` (unless that fails too). -/
theorem failure_reaches_listener (inner : Msg → M Msg) (m : Msg) (w w' : W)
    (h : inner m w = (.error (.lib .transportFailed), w')) :
    wrapMissingNC inner m w = (.error (.lib .transportFailed), w') :=
  wrapMissingNC_other inner m _ w w' h (by simp [missingCaught])

/-- So does the cancellation: no library clause catches it. -/
theorem cancellation_reaches_listener (inner : Msg → M Msg) (m : Msg) (w w' : W)
    (h : inner m w = (.error (.foreign .CancelledError), w')) :
    wrapMissingNC inner m w = (.error (.foreign .CancelledError), w') :=
  wrapMissingNC_other inner m _ w w' h (by simp [missingCaught])

/-! ### Nothing is lost along a whole history

The relation "every entry the buffer held is still held, or was handed to the transport SUCCESSFULLY in between",
carried through the whole receive path by the traversal of `Lemmas/RelW.lean` (whose primitive for the release loop is
the pair "write the entry, then remove it"), for every line, version, state and schedule of failing and cancelled
writes, and lifted to histories of receives and sends by induction. -/

/-- Held before ⟹ held after, or written successfully among the new write attempts. -/
def HeldOrWritten : W → W → Prop := fun w w' =>
  ∃ new, w'.writes = w.writes ++ new ∧
    ∀ k bm, w.st.sbuf.get? k = some bm → w'.st.sbuf.get? k = some bm ∨ (⟨encode bm, true⟩ : WriteEvt) ∈ new

theorem heldOrWritten_preO : PreO HeldOrWritten where
  refl := fun w => ⟨[], by simp, fun _ _ h => Or.inl h⟩
  trans := by
    rintro a b c ⟨n1, hw1, h1⟩ ⟨n2, hw2, h2⟩
    refine ⟨n1 ++ n2, by rw [hw2, hw1, List.append_assoc], fun k bm h => ?_⟩
    rcases h1 k bm h with hk | hwr
    · rcases h2 k bm hk with hk2 | hwr2
      · exact Or.inl hk2
      · exact Or.inr (List.mem_append_right _ hwr2)
    · exact Or.inr (List.mem_append_left _ hwr)

/-- A state change that leaves the sleep buffer and the write log alone. -/
theorem how_mod {f : St → St} (h : ∀ s, (f s).sbuf = s.sbuf) : Rel HeldOrWritten (modifySt f) :=
  ⟨fun w => ⟨[], by simp [M.modifySt], fun k bm hk => Or.inl (by simpa [M.modifySt, h w.st] using hk)⟩⟩

theorem how_write (line : Str) : Rel HeldOrWritten (transportWrite line) := ⟨fun w => by
  simp only [transportWrite]
  split <;> exact ⟨_, rfl, fun _ _ h => Or.inl h⟩⟩

/-- `gateway.send(bm, message_buffer=False)`: the state is untouched; on success exactly the line of `bm` was appended
as a successful write. -/
theorem gwSend_unbuffered (bm : Msg) (w : W) :
    (gwSend bm false w).2.st = w.st ∧
    (∃ new, (gwSend bm false w).2.writes = w.writes ++ new) ∧
    ((gwSend bm false w).1 = .ok () → (gwSend bm false w).2.writes = w.writes ++ [⟨encode bm, true⟩]) := by
  have hw : ∀ l, (transportWrite l w).2.st = w.st ∧ (∃ new, (transportWrite l w).2.writes = w.writes ++ new) ∧
      ((transportWrite l w).1 = .ok () → (transportWrite l w).2.writes = w.writes ++ [⟨l, true⟩]) := by
    intro l
    simp only [transportWrite]
    split <;> simp
  simp only [gwSend, M.bind, M.getSt]
  cases (Gen.outgoingHandlers w.st.proto).lookup bm.cmd with
  | none => exact ⟨rfl, ⟨[], by simp [M.raise]⟩, by simp [M.raise]⟩
  | some o =>
    cases o with
    | none => exact ⟨rfl, ⟨[], by simp [M.raise]⟩, by simp [M.raise]⟩
    | some ob =>
      cases ob with
      | direct => exact hw _
      | set14 =>
        cases w.st.nodes.get? bm.node with
        | none => exact hw _
        | some node => simpa using hw _

theorem how_release (k' : Key) (bm' : Msg) : Rel HeldOrWritten (releaseOne k' bm') := ⟨fun w => by
  obtain ⟨hst, ⟨new, hnew⟩, hok⟩ := gwSend_unbuffered bm' w
  simp only [releaseOne, M.seq, M.bind, Gen.bufFlush]
  cases hr : gwSend bm' false w with
  | mk r w1 =>
    rw [hr] at hst hnew hok
    cases r with
    | error e => exact ⟨new, hnew, fun k bm hk => Or.inl (by rw [hst]; exact hk)⟩
    | ok u =>
      have hw1 : w1.writes = w.writes ++ [⟨encode bm', true⟩] := hok rfl
      have hst1 : w1.st = w.st := hst
      refine ⟨[⟨encode bm', true⟩], ?_, fun k bm hk => ?_⟩
      · simp only [eraseMod, M.modifySt]; exact hw1
      · simp only [eraseMod, M.modifySt]
        by_cases hg : w1.st.sbuf.get? k' = some bm'
        · simp only [hg, if_true]
          by_cases hkk : k = k'
          · subst hkk
            rw [hst1, hk] at hg
            cases hg
            exact Or.inr (by simp)
          · exact Or.inl (by rw [PDict.get?_erase_ne _ hkk, hst1]; exact hk)
        · simp only [hg, if_false]
          exact Or.inl (by rw [hst1]; exact hk)⟩

theorem heldOrWritten_stepRelW (m : Msg) : StepRelW HeldOrWritten m where
  pre := heldOrWritten_preO
  write := fun _ _ => how_write _
  setNode := fun _ => how_mod fun _ => rfl
  alloc := how_mod fun _ => rfl
  mark := how_mod fun _ => rfl
  unmark := how_mod fun s => by split <;> rfl
  version := fun _ _ => how_mod fun _ => rfl
  release := fun k bm _ => how_release k bm

/-- **One iteration of `listen` loses nothing**: whatever line arrives, in whatever state, under whatever schedule of
failing and cancelled writes, every command the buffer held is still held afterwards or was written successfully in
this step. -/
theorem recv_loses_nothing (env : Env) (line : Str) (w : W) : HeldOrWritten w (recv env line w).2 :=
  (rel_recvW heldOrWritten_preO (fun _ m _ => heldOrWritten_stepRelW m) (ParkOK.of_flags reaction_flags_off) env).step w

/-- No operation of the history is a `send` for the key `k` (which would replace the held command). -/
def NoSendTo (k : Key) (ops : List Op) : Prop :=
  ∀ op ∈ ops, match op with
    | .send (some m) _ _ => m.key ≠ k
    | _ => True

theorem step_loses_nothing (k : Key) (bm : Msg) (st : St) (op : Op) (hheld : st.sbuf.get? k = some bm)
    (hs : NoSendTo k [op]) :
    (stepOp st op).1.sbuf.get? k = some bm ∨ (⟨encode bm, true⟩ : WriteEvt) ∈ (stepOp st op).2.writes := by
  cases op with
  | recv env line faults =>
    obtain ⟨new, hnew, hkeep⟩ := recv_loses_nothing env line { st := st, faults := faults }
    have hw : (recv env line { st := st, faults := faults }).2.writes = new := by simpa using hnew
    rcases hkeep k bm hheld with h | h
    · left
      simp only [stepOp]
      split <;> next heq => (rw [heq] at h; exact h)
    · right
      simp only [stepOp]
      split <;> next heq => (rw [heq] at hw; simp only at hw; rw [hw]; exact h)
  | send obj b faults =>
    left
    have hne : ∀ m, obj = some m → m.key ≠ k := by
      intro m hm
      subst hm
      exact hs (.send (some m) b faults) (by simp)
    have := send_keeps_other_keys obj b { st := st, faults := faults } k hne
    simp only [stepOp]
    split <;> next heq => (rw [heq] at this; simpa [hheld] using this)

/-- **Nothing is lost, along any history.**  A command the sleep buffer holds is, after ANY history of received lines
(of every kind, from every node, wake signals and re-presentations included) and `send` calls for other keys, under
ANY schedule of failing and cancelled transport writes, either still held unchanged or was handed to the transport
successfully at some step of the history.  (Failed and cancelled releases keep it for a later wake:
`flush_under_faults`; which step writes it: `C12.held_released_at_next_wake`.) -/
theorem nothing_lost (k : Key) (bm : Msg) (ops : List Op) (st : St) (hheld : st.sbuf.get? k = some bm)
    (hs : NoSendTo k ops) :
    (stateAfter st ops).sbuf.get? k = some bm ∨ ∃ obs ∈ (run st ops).2, (⟨encode bm, true⟩ : WriteEvt) ∈ obs.writes := by
  induction ops generalizing st with
  | nil => left; simpa [stateAfter, run] using hheld
  | cons op ops ih =>
    have hs1 : NoSendTo k [op] := fun o ho => hs o (by simp at ho; simp [ho])
    have hs2 : NoSendTo k ops := fun o ho => hs o (List.mem_cons_of_mem _ ho)
    rcases step_loses_nothing k bm st op hheld hs1 with h | h
    · rcases ih (stepOp st op).1 h hs2 with h2 | ⟨obs, ho, hw⟩
      · left; simpa [stateAfter, run] using h2
      · right; exact ⟨obs, by simp [run, ho], hw⟩
    · right; exact ⟨(stepOp st op).2, by simp [run], h⟩

/-! ### … and along the whole life of the gateway object (reconnects)

The failure "is reported to the caller of listen" — who, as a rule, lets it leave `async with gateway:` and enters the
same `Gateway` object again.  With a persistence file every `__aenter__` runs `Persistence.load`, which replaces the
entries of the registry by fresh `Node` objects built from the file.  What is held for a sleeping node is state of the
gateway object, not of the registry (`St.sbuf`, not `St.nodes`): whatever a re-entry makes of the registry, a held
command is still held.  (A buffer kept ON the `Node` objects would make `reenter` below touch it — the statement that
stops being provable is `lifeStep_reenter_sbuf`.) -/

/-- One event in the life of a gateway object: an operation of a history, or leaving the context and entering it
again, after which the registry is whatever `Persistence.load` made of the file — ANY registry (the same nodes as fresh
objects, nodes missing, nodes added, a file somebody else wrote). -/
inductive LifeOp where
  | gw (op : Op)
  | reenter (nodes : PDict Int Node)

def lifeStep (st : St) : LifeOp → St × List Obs
  | .gw op => ((stepOp st op).1, [(stepOp st op).2])
  | .reenter ns => ({ st with nodes := ns }, [])

theorem lifeStep_reenter_sbuf (st : St) (ns : PDict Int Node) : (lifeStep st (.reenter ns)).1.sbuf = st.sbuf := rfl

/-- Run a life; the final state and the observations of its operations in order. -/
def lifeRun (st : St) : List LifeOp → St × List Obs
  | [] => (st, [])
  | op :: ops => ((lifeRun (lifeStep st op).1 ops).1, (lifeStep st op).2 ++ (lifeRun (lifeStep st op).1 ops).2)

/-- No operation of the life is a `send` for the key `k`. -/
def NoSendToLife (k : Key) (ops : List LifeOp) : Prop :=
  ∀ op ∈ ops, match op with
    | .gw (.send (some m) _ _) => m.key ≠ k
    | _ => True

/-- **Nothing is lost, along any life of the gateway object**: received lines of every kind, `send` calls for other
keys, failing and cancelled writes, and any number of re-entries of the context in between (each replacing the
registry by an arbitrary one) — a held command is afterwards still held unchanged, or was handed to the transport
successfully at some step. -/
theorem nothing_lost_life (k : Key) (bm : Msg) (ops : List LifeOp) (st : St) (hheld : st.sbuf.get? k = some bm)
    (hs : NoSendToLife k ops) :
    (lifeRun st ops).1.sbuf.get? k = some bm ∨
      ∃ obs ∈ (lifeRun st ops).2, (⟨encode bm, true⟩ : WriteEvt) ∈ obs.writes := by
  induction ops generalizing st with
  | nil => left; simpa [lifeRun] using hheld
  | cons op ops ih =>
    have hs2 : NoSendToLife k ops := fun o ho => hs o (List.mem_cons_of_mem _ ho)
    cases op with
    | reenter ns =>
      rcases ih (lifeStep st (.reenter ns)).1 (by simpa [lifeStep] using hheld) hs2 with h2 | ⟨obs, ho, hw⟩
      · left; simpa [lifeRun] using h2
      · right; exact ⟨obs, by simp [lifeRun, lifeStep] at ho ⊢; exact ho, hw⟩
    | gw o =>
      have hs1 : NoSendTo k [o] := by
        intro o' ho'
        simp only [List.mem_singleton] at ho'
        subst ho'
        have := hs (.gw o') (by simp)
        cases o' with
        | recv env line faults => trivial
        | send obj b faults =>
          cases obj with
          | none => trivial
          | some m => simpa using this
      rcases step_loses_nothing k bm st o hheld hs1 with h | h
      · rcases ih (lifeStep st (.gw o)).1 (by simpa [lifeStep] using h) hs2 with h2 | ⟨obs, ho, hw⟩
        · left; simpa [lifeRun] using h2
        · right; exact ⟨obs, by simp only [lifeRun, List.mem_append]; exact Or.inr ho, hw⟩
      · right; exact ⟨(stepOp st o).2, by simp [lifeRun, lifeStep], h⟩

/-! Non-vacuity: two parked commands, the second write fails. -/
example :
    let st : St := { sbuf := [((1, 0, 2), ⟨1, 0, 1, 0, 2, ['5']⟩), ((1, 1, 2), ⟨1, 1, 1, 0, 2, ['6']⟩)] }
    let r := flush ⟨1, 255, 3, 0, 22, []⟩ { st := st, faults := [.pass, .fail] }
    errOf r.1 = some (.lib .transportFailed) ∧ r.2.st.sbuf = [((1, 1, 2), ⟨1, 1, 1, 0, 2, ['6']⟩)] ∧
    r.2.writes.map (·.ok) = [true, false] := by decide

/-! … and the same with the listener cancelled during the second write. -/
example :
    let st : St := { sbuf := [((1, 0, 2), ⟨1, 0, 1, 0, 2, ['5']⟩), ((1, 1, 2), ⟨1, 1, 1, 0, 2, ['6']⟩)] }
    let r := flush ⟨1, 255, 3, 0, 22, []⟩ { st := st, faults := [.pass, .cancel] }
    errOf r.1 = some (.foreign .CancelledError) ∧ r.2.st.sbuf = [((1, 1, 2), ⟨1, 1, 1, 0, 2, ['6']⟩)] ∧
    r.2.writes.map (·.ok) = [true, false] := by decide

end AioMySensors.C08
