/-
C08 — The sleep buffer loses nothing and repeats nothing when transport writes fail.

The release loop `_handle_sleep_buffer` writes, then removes (`flushList`, Model/Handlers.lean).
`flushList_spec` (Lemmas/Flushing.lean) gives its behaviour under EVERY fault schedule; the
theorems below read the property off it.  With the two statements of the loop swapped (remove,
then write) `flushList_cons_fail` — the failing entry stays buffered — would be false.
-/
import AioMySensors.Properties.C07

namespace AioMySensors.C08
open AioMySensors M C07

/-- **Under any fault schedule**: some prefix of the woken node's entries is written successfully
and removed; then either all are done (the wake succeeds) or the next write did not complete — it
failed (reported as the transport error) or the listening task was cancelled while it waited in
that write (the `CancelledError` propagates) — and in both cases that entry and all later ones stay
buffered (to be written at a later wake), and nothing that was written is written again (the
snapshot has no key twice). -/
theorem flush_under_faults (m : Msg) (w : W) (hinv : SbufInv w.st) :
    let snap := snapshotOf w.st m.node
    ∃ i, i ≤ snap.length ∧
      (flush m w).2.st.sbuf = eraseAll w.st.sbuf ((snap.take i).map (·.1)) ∧
      ((i = snap.length ∧ errOf (flush m w).1 = none ∧
          (flush m w).2.writes = w.writes ++ snap.map (fun e => ⟨encode e.2, true⟩)) ∨
       (∃ e x, snap[i]? = some e ∧ errOf (flush m w).1 = some x ∧
          (x = .lib .transportFailed ∧ w.faults[i]? = some .fail ∨ x = .foreign .CancelledError ∧ w.faults[i]? = some .cancel) ∧
          (flush m w).2.writes = w.writes ++ (snap.take i).map (fun e => ⟨encode e.2, true⟩) ++ [⟨encode e.2, false⟩])) := by
  intro snap
  obtain ⟨i, hi, hs, _, _, _, _, hres⟩ := flushList_spec snap w hinv.1
    (fun e he => (hinv.2 e (List.mem_filter.mp he).1).1) (fun e he => (List.mem_filter.mp he).1)
    (snapshot_keys_nodup _ _ hinv.1)
  refine ⟨i, hi, ?_, ?_⟩
  · rw [flush_eq]
    cases hfl : flushList snap w with
    | mk r w' =>
      have : w'.st.sbuf = eraseAll w.st.sbuf ((snap.take i).map (·.1)) := by simpa [hfl] using hs
      cases r <;> simpa using this
  · rw [flush_eq]
    cases hfl : flushList snap w with
    | mk r w' =>
      rw [hfl] at hres
      rcases hres with ⟨h1, h2, h3⟩ | ⟨e, x, h1, h2, hx, h3⟩
      · left
        simp only at h2 h3
        subst h2
        exact ⟨h1, by simp [errOf], by simpa using h3⟩
      · right
        simp only at h2 h3
        subst h2
        exact ⟨e, x, h1, by simp [errOf], hx, by simpa using h3⟩

/-- **Conservation.** After a wake with arbitrary faults, every entry of the woken node's snapshot
is in exactly one of two places: written successfully (and no longer buffered), or still buffered
(and not written successfully). -/
theorem conservation (m : Msg) (w : W) (hinv : SbufInv w.st) :
    let snap := snapshotOf w.st m.node
    ∃ i, i ≤ snap.length ∧
      (∀ e ∈ snap.take i, e ∉ (flush m w).2.st.sbuf) ∧
      (∀ e ∈ snap.drop i, e ∈ (flush m w).2.st.sbuf) ∧
      (∀ e ∈ w.st.sbuf, e.2.node ≠ m.node → e ∈ (flush m w).2.st.sbuf) := by
  intro snap
  obtain ⟨i, hi, hs, _⟩ := flush_under_faults m w hinv
  have hnd := snapshot_keys_nodup w.st m.node hinv.1
  refine ⟨i, hi, ?_, ?_, ?_⟩
  · intro e he
    rw [hs, mem_eraseAll hinv.1]
    rintro ⟨_, hk⟩
    exact hk (List.mem_map.mpr ⟨e, he, rfl⟩)
  · intro e he
    rw [hs, mem_eraseAll hinv.1]
    have hsnap : e ∈ snap := List.mem_of_mem_drop he
    refine ⟨(List.mem_filter.mp hsnap).1, fun hk => ?_⟩
    obtain ⟨e', he', hkk⟩ := List.mem_map.mp hk
    -- e' is in the first i entries, e in the rest, and they share a key: impossible, keys are distinct
    have hsplit : snap.map (·.1) = (snap.take i).map (·.1) ++ (snap.drop i).map (·.1) := by
      rw [← List.map_append, List.take_append_drop]
    have hnd' : ((snap.take i).map (·.1) ++ (snap.drop i).map (·.1)).Nodup := by
      have h := hnd
      rw [show (snapshotOf w.st m.node) = snap from rfl, hsplit] at h
      exact h
    rw [List.nodup_append] at hnd'
    exact hnd'.2.2 _ (List.mem_map.mpr ⟨e', he', rfl⟩) _ (List.mem_map.mpr ⟨e, he, rfl⟩) hkk
  · intro e he hn
    rw [hs, mem_eraseAll hinv.1]
    refine ⟨he, fun hk => ?_⟩
    obtain ⟨e', he', hkk⟩ := List.mem_map.mp hk
    have hsnap' : e' ∈ snap := List.mem_of_mem_take he'
    obtain ⟨hm', hn'⟩ := List.mem_filter.mp hsnap'
    obtain ⟨k, v⟩ := e
    obtain ⟨k', v'⟩ := e'
    simp only at hkk; subst hkk
    have := PDict.wf_mem_unique hinv.1 hm' he
    subst this
    exact hn (by simpa using hn')

/-- **Eventual release.** A wake whose writes all succeed empties the node's entries. -/
theorem eventual_release (m : Msg) (w : W) (hinv : SbufInv w.st) (hf : w.faults = []) :
    ∀ e ∈ (flush m w).2.st.sbuf, e.2.node ≠ m.node := by
  intro e he
  rw [wake_releases m w hinv hf] at he
  exact ((after_wake_only_others m w hinv e).mp he).2

/-- The failure is reported to the caller of `listen`: `flush`'s error passes unchanged through
the missing-node decorator and the version-query decorator's `finally` (unless that fails too). -/
theorem failure_reaches_listener (inner : Msg → M Msg) (m : Msg) (w w' : W)
    (h : inner m w = (.error (.lib .transportFailed), w')) :
    wrapMissingNC inner m w = (.error (.lib .transportFailed), w') :=
  wrapMissingNC_other inner m _ w w' h (by simp [missingCaught])

/-- So does the cancellation: no library clause catches it. -/
theorem cancellation_reaches_listener (inner : Msg → M Msg) (m : Msg) (w w' : W)
    (h : inner m w = (.error (.foreign .CancelledError), w')) :
    wrapMissingNC inner m w = (.error (.foreign .CancelledError), w') :=
  wrapMissingNC_other inner m _ w w' h (by simp [missingCaught])

/-! Non-vacuity: two parked commands, the second write fails. -/
example :
    let st : St := { sbuf := [((1, 0, 2), ⟨1, 0, 1, 0, 2, ['5']⟩), ((1, 1, 2), ⟨1, 1, 1, 0, 2, ['6']⟩)] }
    let r := flush ⟨1, 255, 3, 0, 22, []⟩ { st := st, faults := [.pass, .fail] }
    errOf r.1 = some (.lib .transportFailed) ∧ r.2.st.sbuf = [((1, 1, 2), ⟨1, 1, 1, 0, 2, ['6']⟩)] ∧
    r.2.writes.map (·.ok) = [true, false] := by decide

/-! … and the same with the listener cancelled during the second write. -/
example :
    let st : St := { sbuf := [((1, 0, 2), ⟨1, 0, 1, 0, 2, ['5']⟩), ((1, 1, 2), ⟨1, 1, 1, 0, 2, ['6']⟩)] }
    let r := flush ⟨1, 255, 3, 0, 22, []⟩ { st := st, faults := [.pass, .cancel] }
    errOf r.1 = some (.foreign .CancelledError) ∧ r.2.st.sbuf = [((1, 1, 2), ⟨1, 1, 1, 0, 2, ['6']⟩)] ∧
    r.2.writes.map (·.ok) = [true, false] := by decide

end AioMySensors.C08
