/-
C13 — Persistence round trip: load reads back every registry that save can write.

`Persist.save` / `Persist.load` (Model/Persist.lean) model `Persistence.save` / `Persistence.load`
at the level of JSON values; the schema interpreter (Model/Schema.lean) reads the field tables
`Gen.nodeSchema` / `Gen.childSchema` that the translator regenerates from the live marshmallow
schemas on every run, and the ranges `Gen.nodeIdMin/Max`, `Gen.minBattery/maxBattery` — a changed
field, kind, `required` flag or validator range changes the statements below.

Text ↔ JSON value (`json.dumps(sort_keys=True, indent=2)`, `json.loads`) is modelled in
`Model/JsonText.lean` and the round trip is carried through it at the end of this file
(`saved_text_round_trip`, `saved_bytes_accepted`).  The value-level model's `save` lists members in the
registry's insertion order, the file has them sorted (`Persist.saveSorted`); the correspondence run
compares the former as Python compares dicts and the file's bytes with `Persist.saveText` exactly.  `Node.reboot` is not a schema field, so a loaded node always has
`reboot = False`: the round trip is stated up to `persisted` (which clears exactly that flag and
keeps every attribute the property lists).
-/
import AioMySensors.Lemmas.PersistReach
import AioMySensors.Lemmas.JsonText

namespace AioMySensors.C13
open AioMySensors Schema Persist

/-- **Round trip.** Every registry within `RegOK` — node ids within the schema's range, battery
levels within the validator's range, no duplicate keys, dict keys printable within the interpreter's
digit limit — is reproduced by `load (save r)`: every node and child with identical id, type,
version, sketch name and version, battery level, heartbeat, sleeping flag, description and values. -/
theorem load_save (r : PDict Int Node) (h : RegOK r) : load (save r) = .ok (persisted r) :=
  load_save_aux r h

/-- With no `reboot` flag set (it is not persisted), the registry itself comes back. -/
theorem load_save_eq (r : PDict Int Node) (h : RegOK r) (hr : ∀ kn ∈ r, kn.2.reboot = false) :
    load (save r) = .ok r := by
  rw [load_save r h]
  congr 1
  simp only [persisted]
  conv => rhs; rw [← List.map_id r]
  apply List.map_congr_left
  intro kn hkn
  obtain ⟨k, n⟩ := kn
  have := hr (k, n) hkn
  simp only [id] at this ⊢
  cases n; simp_all

/-- `persisted` changes nothing the property speaks about. -/
theorem persisted_attrs (r : PDict Int Node) :
    (persisted r).map (fun kn => (kn.1, kn.2.ntype, kn.2.pv, kn.2.children, kn.2.sketchName, kn.2.sketchVersion,
      kn.2.battery, kn.2.heartbeat, kn.2.sleeping)) =
    r.map (fun kn => (kn.1, kn.2.ntype, kn.2.pv, kn.2.children, kn.2.sketchName, kn.2.sketchVersion,
      kn.2.battery, kn.2.heartbeat, kn.2.sleeping)) := by
  simp [persisted, List.map_map, Function.comp_def]

/-- In particular a file written by `save` is always accepted by `load` — through the whole of
`Persistence.load`, file handling included. -/
theorem saved_file_accepted (r : PDict Int Node) (h : RegOK r) :
    loadFile [] (.value (save r)) = .ok ⟨persisted r, none⟩ := by
  have := load_save r h
  simp only [load] at this
  simp [loadFile, readFile, this]

/-- The hypothesis is decidable, and the driver's `regok` operation computes it. -/
theorem regOK_decides (r : PDict Int Node) : regOK r = true ↔ RegOK r := regOK_iff r

/-- **Every registry the gateway can reach from received messages (and `send` calls) is within
`RegOK`**, from any `RegOK` starting registry (a loaded file, or empty), for every history, every
environment and every schedule of transport write failures. -/
theorem reachable_regok (st : St) (ops : List Op) (h : RegOK st.nodes) : RegOK (runOps st ops).nodes :=
  runOps_regOK st ops h

theorem reachable_from_empty (ops : List Op) : RegOK (runOps {} ops).nodes :=
  runOps_regOK {} ops ⟨by simp [PDict.keys], by simp⟩

/-- So: after any history, saving the registry and loading the file into an empty registry
reproduces it. -/
theorem reachable_round_trip (ops : List Op) :
    load (save (runOps {} ops).nodes) = .ok (persisted (runOps {} ops).nodes) :=
  load_save _ (reachable_from_empty ops)

/-- The part of the invariant F9 broke: the battery handler stores nothing or a level within the
validator's range. -/
theorem battery_handler_in_range (m : Msg) (w : W) :
    (hBattery m w).2.st = w.st ∨
    ∃ node level, w.st.nodes.get? m.node = some node ∧ Gen.minBattery ≤ level ∧ level ≤ Gen.maxBattery ∧
      (hBattery m w).2.st = { w.st with nodes := w.st.nodes.set m.node { node with battery := level } } :=
  hBattery_effect m w

/-- **Legacy layout.** The pymysensors spelling of a saved file (`sensor_id`, `type`, `id`, `null`
for unset sketch strings) loads exactly as the native file does — for every registry, whether or not
the load succeeds, and into any registry. -/
theorem legacy_same (r : PDict Int Node) : load (legacyOf (save r)) = load (save r) :=
  loadInto_legacy_save [] r

theorem legacy_same_into (cur r : PDict Int Node) : loadInto cur (legacyOf (save r)) = loadInto cur (save r) :=
  loadInto_legacy_save cur r

theorem legacy_load_save (r : PDict Int Node) (h : RegOK r) : load (legacyOf (save r)) = .ok (persisted r) := by
  rw [legacy_same, load_save r h]


/-! ### Non-vacuity and boundary content -/

/-- Type −6, a value type of 10^20, non-ASCII description and value, empty strings, the broadcast
node id, battery level at both ends of the range, insertion order different from sorted order. -/
def boundaryReg : PDict Int Node :=
  [(255, { ntype := -6, pv := [], battery := 100, heartbeat := -5, sleeping := true, sketchName := "température °C".toList,
           children := [(255, ⟨255, -6, "描述 é".toList, [(100000000000000000000, "é".toList), (-5, []), (0, "x".toList)]⟩),
                        (0, ⟨0, 100000000000000000000, [], []⟩)] }),
   (0, { ntype := 18, pv := "2.2.0".toList })]

example : RegOK boundaryReg := by decide
example : load (save boundaryReg) = .ok boundaryReg := by decide
example : load (legacyOf (save boundaryReg)) = .ok boundaryReg := by decide

/-- The F9 witness: `1;255;3;0;0;150` after presenting node 1 used to store 150, and that registry
is outside `RegOK` — the file `save` writes for it is rejected by `load`. -/
def f9Reg : PDict Int Node := [(1, { ntype := 17, pv := "2.0".toList, battery := 150 })]
example : ¬ RegOK f9Reg := by decide
example : load (save f9Reg) = .error (.lib .persistenceRead) := by decide
/-- The repaired handler refuses the report and leaves the node as it was (model of the repaired code). -/
example : (hBattery ⟨1, 255, 3, 0, 0, "150".toList⟩
    { st := { nodes := [(1, { ntype := 17, pv := "2.0".toList })], pv := some "2.0".toList, proto := .v20 } }).2.st.nodes =
    [(1, { ntype := 17, pv := "2.0".toList })] := by decide
example : (hBattery ⟨1, 255, 3, 0, 0, "99.5".toList⟩
    { st := { nodes := [(1, { ntype := 17, pv := "2.0".toList })], pv := some "2.0".toList, proto := .v20 } }).2.st.nodes =
    [(1, { ntype := 17, pv := "2.0".toList, battery := 100 })] := by decide

/-- The legacy fixture's gateway record: `type: null` becomes 18, `null` sketch strings become empty,
a missing `sleeping` takes the constructor's default. -/
example : load (.obj [(cs!"0", .obj [(cs!"sensor_id", .int 0), (cs!"children", .obj []), (cs!"type", .null),
    (cs!"sketch_name", .null), (cs!"sketch_version", .null), (cs!"battery_level", .int 0),
    (cs!"protocol_version", .str cs!"2.2.0"), (cs!"heartbeat", .int 0)])]) =
    .ok [(0, { ntype := 18, pv := cs!"2.2.0" })] := by decide

/-- Coercions on load: a real is truncated before the range check, a numeric string goes through
`int()`, of two keys that coerce to the same integer the later wins. -/
example : load (.obj [(cs!"x", .obj [(cs!"node_id", .str cs!" 7 "), (cs!"node_type", .real (.fin 35 2)),
    (cs!"protocol_version", .str []), (cs!"battery_level", .real (.fin 1009 10)), (cs!"sleeping", .str cs!"yes"),
    (cs!"children", .obj [(cs!" 3 ", .obj [(cs!"id", .int 3), (cs!"type", .int 6)]),
                          (cs!"3", .obj [(cs!"child_id", .int 4), (cs!"child_type", .int 7)])])])]) =
    .ok [(7, { ntype := 17, pv := [], battery := 100, sleeping := true, children := [(3, ⟨4, 7, [], []⟩)] })] := by decide

/-! ### Through the text of the file

`saveText r` is the text `save` writes (`json.dumps(…, sort_keys=True, indent=2)` of the schema dump);
`JsonText.parse` is `json.loads`.  Hypotheses beyond `RegOK`: every integer attribute is printable
(`regIntsOK`: `json.dumps` raises beyond the interpreter's digit limit; `RegOK` only bounds keys, id and
battery level; proved for every reachable registry, `reachable_regIntsOK`) and the registry is the canonical representative of its dict-equality class (`Canon`:
keys in increasing order at the three levels, no `reboot` flag) — `sort_keys` writes every registry in
that order (`saveSorted` sorts first), and `load` returns the dicts in file order. -/

/-- **Round trip through the text**: `json.loads` reads the written text back as the value `save`
handed to `json.dumps`, and `load` of that value is the registry. -/
theorem saved_text_round_trip (r : PDict Int Node) (h : RegOK r) (hi : regIntsOK r = true) (hc : Canon r) :
    JsonText.parse (saveText r) = .ok (saveSorted r) ∧ load (saveSorted r) = .ok r :=
  ⟨parse_saveText r h hi hc, load_saveSorted r h hc⟩

/-- … and from the bytes of the file through the whole of `Persistence.load`: UTF-8 decoding,
`read or "{}"`, `json.loads`, the schema load. -/
theorem saved_bytes_accepted (r : PDict Int Node) (h : RegOK r) (hi : regIntsOK r = true) (hc : Canon r) :
    (JsonText.classify (saveBytes r)).map (loadFile []) = some (.ok ⟨r, none⟩) := by
  have hl := load_saveSorted r h hc
  simp only [load] at hl
  simp [classify_saveBytes r h hi hc, loadFile, readFile, hl]

/-- **For a registry in any insertion order** (all of C13's domain with printable integers): the
text parses to the value handed to `json.dumps` and loads to the canonical representative
`canonOf r` — the same nodes, children and values (`canonReg_perm`), keys in file order, `reboot`
cleared. -/
theorem saved_text_round_trip_any (r : PDict Int Node) (h : RegOK r) (hi : regIntsOK r = true) :
    JsonText.parse (saveText r) = .ok (saveSorted r) ∧ load (saveSorted r) = .ok (canonOf r) :=
  text_round_trip_any r h hi

/-- `regIntsOK` is a separate hypothesis: `RegOK` bounds dict keys, node id and battery level only,
and a node type, heartbeat, child id or child type beyond the interpreter's digit limit makes
`json.dumps` raise.  (Reachable registries satisfy it: `reachable_regIntsOK` below.)  The unsorted
boundary registry satisfies both. -/
example : RegOK boundaryReg ∧ regIntsOK boundaryReg = true := by decide

/-! ### Stored strings are opaque to the file format

A string attribute (protocol version, sketch name, sketch version, description, value) is text the
node sent; it may spell JSON syntax, comments, literals or escapes (`,}`, `[1,2,]`, `// x`, `null`,
`\u0041`, a quote, a backslash, a line break, a byte order mark, a whole saved file).  The round trip
through the text quantifies over every registry, hence over every such string; stated here for
arbitrary strings in every string position at once, and on one concrete registry. -/

/-- One node, two children, a string variable in every string position. -/
def stringsReg (a b c d e f g : Str) : PDict Int Node :=
  [(0, { ntype := 18, pv := a }),
   (1, { ntype := 17, pv := a, sketchName := b, sketchVersion := c, battery := 87,
         children := [(1, ⟨1, 36, d, [(47, e)]⟩), (2, ⟨2, 6, f, [(0, g), (24, e)]⟩)] })]

theorem stringsReg_canon (a b c d e f g : Str) : Canon (stringsReg a b c d e f g) := of_decide_eq_true rfl

/-- The hypotheses of the round trip do not look at the strings. -/
theorem stringsReg_regOK (a b c d e f g : Str) : RegOK (stringsReg a b c d e f g) :=
  (regOK_decides _).1 ((rfl : regOK (stringsReg a b c d e f g) = regOK (stringsReg [] [] [] [] [] [] [])).trans
    (by decide : regOK (stringsReg [] [] [] [] [] [] []) = true))

theorem stringsReg_ints (a b c d e f g : Str) : regIntsOK (stringsReg a b c d e f g) = true :=
  (rfl : regIntsOK (stringsReg a b c d e f g) = regIntsOK (stringsReg [] [] [] [] [] [] [])).trans
    (by decide : regIntsOK (stringsReg [] [] [] [] [] [] []) = true)

/-- **Whatever the stored strings spell**, the text `save` writes is read back by `json.loads` as the
value handed to `json.dumps`, and that value loads to the registry that was saved. -/
theorem strings_opaque (a b c d e f g : Str) :
    JsonText.parse (saveText (stringsReg a b c d e f g)) = .ok (saveSorted (stringsReg a b c d e f g)) ∧
    load (saveSorted (stringsReg a b c d e f g)) = .ok (stringsReg a b c d e f g) :=
  saved_text_round_trip _ (stringsReg_regOK a b c d e f g) (stringsReg_ints a b c d e f g) (stringsReg_canon a b c d e f g)

/-- A comma before a closing brace / bracket (with and without blanks), comment openers, a literal, an
escape sequence spelt out, a quote and a backslash, a line break and a byte order mark: read back
character for character. -/
def jsonLikeReg : PDict Int Node :=
  stringsReg ",}".toList "[1, 2,\t3 ,\n]".toList "// /* # */".toList "{\"a\": null, }".toList
    "\\u0041\\\"\\".toList "\uFEFF{}\r\n".toList "1e5,]NaN".toList

example : load (save jsonLikeReg) = .ok jsonLikeReg := by decide
example : JsonText.parse (saveText jsonLikeReg) = .ok (saveSorted jsonLikeReg) ∧
    load (saveSorted jsonLikeReg) = .ok jsonLikeReg := strings_opaque _ _ _ _ _ _ _

/-- The limit counts digits, not the sign (as `str(int)`, `json.dumps` and `int(str)` do: `str(-(10**4299))`
has 4301 characters and is printed, `str(10**4300)` raises): a number is printable iff its negation is. -/
theorem intOK_neg (n : Int) : intOK (-n) = intOK n := by simp [intOK, Int.natAbs_neg]

/-! ### … for every registry the gateway can reach, without the hypothesis on the integers -/

/-- **Every registry the gateway can reach from received messages (and `send` calls) has printable
integers**, from any starting registry that has (a loaded file, or empty), for every history,
environment and write-fault schedule: every node type, child id and child type a handler stores is a
field `decode` read with `int()`, the heartbeat is `int(payload)` — at most `Gen.pyMaxStrDigits` digits
were read, so `str()` of the value has at most that many (`pyInt?_keyOK`; the sign is not counted by
either) —, and the remaining ones are the placeholder node's constants and the default 0. -/
theorem reachable_regIntsOK (st : St) (ops : List Op) (h : regIntsOK st.nodes = true) :
    regIntsOK (runOps st ops).nodes = true :=
  runOps_regIntsOK st ops h

theorem reachable_ints_from_empty (ops : List Op) : regIntsOK (runOps {} ops).nodes = true :=
  runOps_regIntsOK {} ops rfl

/-- **Round trip through the text for reachable registries**, no hypothesis left: after any history
from the empty gateway, the text `save` writes parses (`json.loads`) to the value handed to `json.dumps`,
which loads to the registry's canonical representative (the same dicts in file order, `reboot` cleared). -/
theorem reachable_saved_text_round_trip (ops : List Op) :
    JsonText.parse (saveText (runOps {} ops).nodes) = .ok (saveSorted (runOps {} ops).nodes) ∧
    load (saveSorted (runOps {} ops).nodes) = .ok (canonOf (runOps {} ops).nodes) :=
  saved_text_round_trip_any _ (reachable_from_empty ops) (reachable_ints_from_empty ops)

/-- The same from any starting registry within the domain (e.g. one loaded from a file). -/
theorem reachable_saved_text_round_trip_from (st : St) (ops : List Op) (h : RegOK st.nodes)
    (hi : regIntsOK st.nodes = true) :
    JsonText.parse (saveText (runOps st ops).nodes) = .ok (saveSorted (runOps st ops).nodes) ∧
    load (saveSorted (runOps st ops).nodes) = .ok (canonOf (runOps st ops).nodes) :=
  saved_text_round_trip_any _ (reachable_regok st ops h) (reachable_regIntsOK st ops hi)

/-- … and from the bytes of the file through the whole of `Persistence.load`. -/
theorem reachable_saved_bytes_accepted (ops : List Op) :
    (JsonText.classify (saveBytes (runOps {} ops).nodes)).map (loadFile []) =
      some (.ok ⟨canonOf (runOps {} ops).nodes, none⟩) := by
  have h := reachable_from_empty ops
  have hi := reachable_ints_from_empty ops
  rw [← saveBytes_canonOf _ h]
  exact saved_bytes_accepted _ (regOK_canonOf _ h) (regIntsOK_canonOf _ hi) (canon_canonOf _ h)

/-- The written text is ASCII: its byte length is its character length. -/
theorem saved_text_ascii (r : PDict Int Node) : (saveBytes r).length = (saveText r).length :=
  JsonText.encodeUtf8_length_ascii _ (JsonText.render_ascii 0 _)

/-- The boundary registry in canonical order satisfies the three hypotheses. -/
def boundaryRegSorted : PDict Int Node :=
  [(0, { ntype := 18, pv := "2.2.0".toList }),
   (255, { ntype := -6, pv := [], battery := 100, heartbeat := -5, sleeping := true, sketchName := "température °C".toList,
           children := [(0, ⟨0, 100000000000000000000, [], []⟩),
                        (255, ⟨255, -6, "描述 é".toList, [(-5, []), (0, "x".toList), (100000000000000000000, "é".toList)]⟩)] })]

example : RegOK boundaryRegSorted ∧ regIntsOK boundaryRegSorted = true ∧ Canon boundaryRegSorted := by decide
example : canonReg boundaryReg = boundaryRegSorted := by decide

end AioMySensors.C13
