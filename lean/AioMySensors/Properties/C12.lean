/-
C12 — `send` never silently discards a message.

`apiSend` models `Gateway.send` (dump as validity check, outgoing handler by command from the
generated table: `set` may park, every other command is written at once).
-/
import AioMySensors.Properties.C07

namespace AioMySensors.C12
open AioMySensors M C07

/-- Every command the codec accepts has an outgoing handler, in every version (generated). -/
theorem every_command_has_a_handler : ∀ v : Ver, ∀ cmd ∈ [(0 : Int), 1, 2, 3, 4],
    ∃ b, (Gen.outgoingHandlers v).lookup cmd = some (some b) := by
  intro v cmd hc
  rw [outgoing_table]
  simp only [List.mem_cons, List.mem_nil_iff, or_false] at hc
  rcases hc with rfl | rfl | rfl | rfl | rfl <;> simp [List.lookup]

/-- **Trichotomy.** Sending a message the codec accepts ends in exactly one of three ways:
its encoded line was handed to the transport; or it is held for a destination known to be sleeping
(a buffered set command, now the buffer's entry for its key); or the transport error is raised
(after the one failed attempt).  Nothing else can happen — in particular not "no write, not held,
no error". -/
theorem send_trichotomy (m : Msg) (b : Bool) (w : W) (hcmd : m.cmd ∈ [(0 : Int), 1, 2, 3, 4]) :
    (errOf (apiSend (some m) b w).1 = none ∧ (apiSend (some m) b w).2.writes = w.writes ++ [⟨encode m, true⟩] ∧
        (apiSend (some m) b w).2.st = w.st) ∨
    (errOf (apiSend (some m) b w).1 = none ∧ (apiSend (some m) b w).2.writes = w.writes ∧
        (apiSend (some m) b w).2.st.sbuf.get? m.key = some m ∧ Sleeping w.st m.node ∧ m.cmd = 1 ∧ b = true) ∨
    ((errOf (apiSend (some m) b w).1 = some (.lib .transportFailed) ∨
        errOf (apiSend (some m) b w).1 = some (.foreign .CancelledError) ∧ w.faults.head? = some .cancel) ∧
        (apiSend (some m) b w).2.writes = w.writes ++ [⟨encode m, false⟩] ∧ (apiSend (some m) b w).2.st = w.st) := by
  have hwrite : ∀ w : W,
      (errOf (transportWrite (encode m) w).1 = none ∧ (transportWrite (encode m) w).2.writes = w.writes ++ [⟨encode m, true⟩] ∧
        (transportWrite (encode m) w).2.st = w.st) ∨
      ((errOf (transportWrite (encode m) w).1 = some (.lib .transportFailed) ∨
        errOf (transportWrite (encode m) w).1 = some (.foreign .CancelledError) ∧ w.faults.head? = some .cancel) ∧
        (transportWrite (encode m) w).2.writes = w.writes ++ [⟨encode m, false⟩] ∧ (transportWrite (encode m) w).2.st = w.st) := by
    intro w
    simp only [transportWrite]
    split <;> simp_all [errOf]
  by_cases h1 : m.cmd = 1
  · by_cases hp : b = true ∧ Sleeping w.st m.node
    · right; left
      obtain ⟨hb, hs⟩ := hp
      subst hb
      rw [send_parks m w h1 hs]
      exact ⟨by simp [errOf], rfl, PDict.get?_set_self _ _ _, hs, h1, rfl⟩
    · have : b = false ∨ ¬ Sleeping w.st m.node := by
        cases b <;> simp_all
      rw [send_direct m b w h1 this]
      rcases hwrite w with h | h
      · exact Or.inl h
      · exact Or.inr (Or.inr h)
  · have hd : m.cmd = 0 ∨ m.cmd = 2 ∨ m.cmd = 3 ∨ m.cmd = 4 := by
      simp only [List.mem_cons, List.mem_nil_iff, or_false] at hcmd
      omega
    have : apiSend (some m) b w = transportWrite (encode m) w := by
      show gwSend m b w = _
      rw [gwSend_direct m b hd]
    rw [this]
    rcases hwrite w with h | h
    · exact Or.inl h
    · exact Or.inr (Or.inr h)

/-- **A held message is handed to the transport at that node's next wake** (if it is still the
buffer's entry for its key, i.e. no later send replaced it, and the writes succeed). -/
theorem parked_is_released (held wake : Msg) (w : W) (hinv : SbufInv w.st) (hf : w.faults = [])
    (hheld : (held.key, held) ∈ w.st.sbuf) (hnode : held.node = wake.node) :
    (⟨encode held, true⟩ : WriteEvt) ∈ (flush wake w).2.writes ∧ (held.key, held) ∉ (flush wake w).2.st.sbuf := by
  rw [wake_releases wake w hinv hf]
  constructor
  · simp only [List.mem_append, List.mem_map]
    right
    exact ⟨(held.key, held), List.mem_filter.mpr ⟨hheld, by simp [hnode]⟩, rfl⟩
  · intro h
    exact ((after_wake_only_others wake w hinv _).mp h).2 hnode

/-- **Held, kept through everything else, written at the node's next wake.**  A command held for a node stays held
along any history in which that node's wake signal does not arrive and no later `send` replaces it (`C07.held_until_wake`:
re-presentations of the node, its other traffic, other nodes' wakes, rejected lines, failing and cancelled writes
included), and the next wake signal of the node — its writes succeeding — hands it to the transport and removes it. -/
theorem held_released_at_next_wake (held wake : Msg) (ops : List Op) (st : St) (hinv : SbufInv st)
    (hheld : st.sbuf.get? held.key = some held) (hq : C07.QuietAlong held.key held.node st ops)
    (hnode : held.node = wake.node) :
    (⟨encode held, true⟩ : WriteEvt) ∈ (flush wake { st := stateAfter st ops }).2.writes ∧
    (held.key, held) ∉ (flush wake { st := stateAfter st ops }).2.st.sbuf := by
  have h1 := C07.held_until_wake held.key held ops st hinv hheld hq
  have hinv' := C07.sbufInv_history ops st hinv
  exact parked_is_released held wake { st := stateAfter st ops } hinv' rfl (PDict.get?_eq_some_mem h1) hnode

/-- **An object that is not a message** is rejected as an invalid message: nothing written, nothing changed. -/
theorem not_a_message (b : Bool) (w : W) : apiSend none b w = (.error (.lib .invalidMessage), w) := rfl

/-- Internal, presentation, req and stream messages are never parked, whatever the flag and the
destination's state (before the repair an internal message was parked for ever). -/
theorem only_set_is_ever_held (m : Msg) (b : Bool) (w : W) (h : m.cmd = 0 ∨ m.cmd = 2 ∨ m.cmd = 3 ∨ m.cmd = 4) :
    (apiSend (some m) b w).2.st = w.st := by
  show (gwSend m b w).2.st = _
  rw [gwSend_direct m b h]
  simp only [transportWrite]
  split <;> rfl

/-! Non-vacuity: each of the three outcomes occurs. -/
example : errOf (apiSend (some ⟨1, 255, 3, 0, 13, []⟩) true { st := {} }).1 = none := by decide
example : (apiSend (some ⟨1, 0, 1, 0, 2, ['7']⟩) true
    { st := { nodes := [(1, { ntype := 17, pv := [], sleeping := true })] } }).2.st.sbuf.get? (1, 0, 2)
    = some ⟨1, 0, 1, 0, 2, ['7']⟩ := by decide
example : errOf (apiSend (some ⟨1, 0, 2, 0, 2, []⟩) false { st := {}, faults := [.fail] }).1 = some (.lib .transportFailed) := by
  decide
example : errOf (apiSend (some ⟨1, 0, 2, 0, 2, []⟩) false { st := {}, faults := [.cancel] }).1 = some (.foreign .CancelledError) := by
  decide

end AioMySensors.C12
