/-
C12 — `send` never silently discards a message.

`apiSend` models `Gateway.send` (dump as validity check, outgoing handler by command from the
generated table: `set` may park, every other command is written at once).
-/
import AioMySensors.Properties.C07
import AioMySensors.Model.Objects

namespace AioMySensors.C12
open AioMySensors M C07

/-- Every command the codec accepts has an outgoing handler, in every version (generated). -/
theorem every_command_has_a_handler : ∀ v : Ver, ∀ cmd ∈ [(0 : Int), 1, 2, 3, 4],
    ∃ b, (Gen.outgoingHandlers v).lookup cmd = some (some b) := by
  intro v cmd hc
  rw [outgoing_table]
  simp only [List.mem_cons, List.mem_nil_iff, or_false] at hc
  rcases hc with rfl | rfl | rfl | rfl | rfl <;> simp [List.lookup]

/-- **Trichotomy.** Sending a message the codec accepts ends in exactly one of three ways:
its encoded line was handed to the transport; or it is held for a destination known to be sleeping
(a buffered set command, now the buffer's entry for its key); or the transport error is raised
(after the one failed attempt).  Nothing else can happen — in particular not "no write, not held,
no error". -/
theorem send_trichotomy (m : Msg) (b : Bool) (w : W) (hcmd : m.cmd ∈ [(0 : Int), 1, 2, 3, 4]) :
    (errOf (apiSend (some m) b w).1 = none ∧ (apiSend (some m) b w).2.writes = w.writes ++ [⟨encode m, true⟩] ∧
        (apiSend (some m) b w).2.st = w.st) ∨
    (errOf (apiSend (some m) b w).1 = none ∧ (apiSend (some m) b w).2.writes = w.writes ∧
        (apiSend (some m) b w).2.st.sbuf.get? m.key = some m ∧ Sleeping w.st m.node ∧ m.cmd = 1 ∧ b = true) ∨
    ((errOf (apiSend (some m) b w).1 = some (.lib .transportFailed) ∨
        errOf (apiSend (some m) b w).1 = some (.foreign .CancelledError) ∧ w.faults.head? = some .cancel) ∧
        (apiSend (some m) b w).2.writes = w.writes ++ [⟨encode m, false⟩] ∧ (apiSend (some m) b w).2.st = w.st) := by
  have hwrite : ∀ w : W,
      (errOf (transportWrite (encode m) w).1 = none ∧ (transportWrite (encode m) w).2.writes = w.writes ++ [⟨encode m, true⟩] ∧
        (transportWrite (encode m) w).2.st = w.st) ∨
      ((errOf (transportWrite (encode m) w).1 = some (.lib .transportFailed) ∨
        errOf (transportWrite (encode m) w).1 = some (.foreign .CancelledError) ∧ w.faults.head? = some .cancel) ∧
        (transportWrite (encode m) w).2.writes = w.writes ++ [⟨encode m, false⟩] ∧ (transportWrite (encode m) w).2.st = w.st) := by
    intro w
    simp only [transportWrite]
    split <;> simp_all [errOf]
  by_cases h1 : m.cmd = 1
  · by_cases hp : b = true ∧ Sleeping w.st m.node
    · right; left
      obtain ⟨hb, hs⟩ := hp
      subst hb
      rw [send_parks m w h1 hs]
      exact ⟨by simp [errOf], rfl, PDict.get?_set_self _ _ _, hs, h1, rfl⟩
    · have : b = false ∨ ¬ Sleeping w.st m.node := by
        cases b <;> simp_all
      rw [send_direct m b w h1 this]
      rcases hwrite w with h | h
      · exact Or.inl h
      · exact Or.inr (Or.inr h)
  · have hd : m.cmd = 0 ∨ m.cmd = 2 ∨ m.cmd = 3 ∨ m.cmd = 4 := by
      simp only [List.mem_cons, List.mem_nil_iff, or_false] at hcmd
      omega
    have : apiSend (some m) b w = transportWrite (encode m) w := by
      show gwSend m b w = _
      rw [gwSend_direct m b hd]
    rw [this]
    rcases hwrite w with h | h
    · exact Or.inl h
    · exact Or.inr (Or.inr h)

/-- **A held message is handed to the transport at that node's next wake** (if it is still the
buffer's entry for its key, i.e. no later send replaced it, and the writes succeed). -/
theorem parked_is_released (held wake : Msg) (w : W) (hinv : SbufInv w.st) (hf : w.faults = [])
    (hheld : (held.key, held) ∈ w.st.sbuf) (hnode : held.node = wake.node) :
    (⟨encode held, true⟩ : WriteEvt) ∈ (flush wake w).2.writes ∧ (held.key, held) ∉ (flush wake w).2.st.sbuf := by
  rw [wake_releases wake w hinv hf]
  constructor
  · simp only [List.mem_append, List.mem_map]
    right
    exact ⟨(held.key, held), List.mem_filter.mpr ⟨hheld, by simp [hnode]⟩, rfl⟩
  · intro h
    exact ((after_wake_only_others wake w hinv _).mp h).2 hnode

/-- **Held, kept through everything else, written at the node's next wake.**  A command held for a node stays held
along any history in which that node's wake signal does not arrive and no later `send` replaces it (`C07.held_until_wake`:
re-presentations of the node, its other traffic, other nodes' wakes, rejected lines, failing and cancelled writes
included), and the next wake signal of the node — its writes succeeding — hands it to the transport and removes it. -/
theorem held_released_at_next_wake (held wake : Msg) (ops : List Op) (st : St) (hinv : SbufInv st)
    (hheld : st.sbuf.get? held.key = some held) (hq : C07.QuietAlong held.key held.node st ops)
    (hnode : held.node = wake.node) :
    (⟨encode held, true⟩ : WriteEvt) ∈ (flush wake { st := stateAfter st ops }).2.writes ∧
    (held.key, held) ∉ (flush wake { st := stateAfter st ops }).2.st.sbuf := by
  have h1 := C07.held_until_wake held.key held ops st hinv hheld hq
  have hinv' := C07.sbufInv_history ops st hinv
  exact parked_is_released held wake { st := stateAfter st ops } hinv' rfl (PDict.get?_eq_some_mem h1) hnode

/-- **Whatever the wake signal carries.**  A command held for a registered node is handed to the transport by the node's
next wake signal — the heartbeat response of 2.0 / 2.1 carrying ANY integer `hb` (no hypothesis relates it to the heartbeat
value `node.heartbeat` the registry has for the node: lower, equal, higher, 0, negative, huge), the pre-sleep notification
of 2.2 carrying any payload at all — and is removed from the buffer; the node's record may hold anything (`node` is
arbitrary: flagged as sleeping or not, heartbeat from an earlier wake or restored from the persistence file). -/
theorem held_released_whatever_the_wake_carries (held wake : Msg) (w : W) (node : Node) (hinv : SbufInv w.st)
    (hf : w.faults = []) (hn : w.st.nodes.get? wake.node = some node)
    (hheld : (held.key, held) ∈ w.st.sbuf) (hnode : held.node = wake.node) :
    (∀ hb : Int, pyInt? wake.payload = some hb →
      (⟨encode held, true⟩ : WriteEvt) ∈ (hHeartbeat20 wake w).2.writes ∧ (held.key, held) ∉ (hHeartbeat20 wake w).2.st.sbuf) ∧
    ((⟨encode held, true⟩ : WriteEvt) ∈ (hPreSleep22 wake w).2.writes ∧ (held.key, held) ∉ (hPreSleep22 wake w).2.st.sbuf) := by
  constructor
  · intro hb hp
    rw [heartbeat_wake wake w node hb hn hp]
    exact parked_is_released held wake _ (by simpa [SbufInv, SbufSet] using hinv) hf hheld hnode
  · rw [pre_sleep_wake wake w node hn]
    exact parked_is_released held wake _ (by simpa [SbufInv, SbufSet] using hinv) hf hheld hnode

/-- **An object that is not a message** is rejected as an invalid message: nothing written, nothing changed. -/
theorem not_a_message (b : Bool) (w : W) : apiSend none b w = (.error (.lib .invalidMessage), w) := rfl

/-- Internal, presentation, req and stream messages are never parked, whatever the flag and the
destination's state (before the repair an internal message was parked for ever). -/
theorem only_set_is_ever_held (m : Msg) (b : Bool) (w : W) (h : m.cmd = 0 ∨ m.cmd = 2 ∨ m.cmd = 3 ∨ m.cmd = 4) :
    (apiSend (some m) b w).2.st = w.st := by
  show (gwSend m b w).2.st = _
  rw [gwSend_direct m b h]
  simp only [transportWrite]
  split <;> rfl

/-! ### The caller's own `Message` objects

`Model/Objects.lean`: the caller keeps its objects, assigns to their attributes and hands the same instance to `send`
again; a held command is held as the caller's object.  "The message" of a call is the object as it reads at the call;
what a wake releases is the object as it reads at the wake. -/

/-- **`send` has no memory of earlier calls.**  Handing one of the caller's objects to `send` is the send of the
message that object reads now — whatever was done with the same instance before (sent, held, assigned to): outcome,
write attempts and the gateway's state are those of `apiSend` on the gateway state alone. -/
theorem sendObj_is_send_of_what_it_reads (o : OSt) (h : ObjId) (b : Bool) (fs : List Fault) :
    (ostep o (.sendObj h b fs)).2 = (stepOp o.gw (.send (o.heap.get? h) b fs)).2 ∧
    (ostep o (.sendObj h b fs)).1.gw = (stepOp o.gw (.send (o.heap.get? h) b fs)).1 := by
  simp only [ostep]
  cases o.heap.get? h <;> exact ⟨rfl, rfl⟩

/-- After an assignment the object reads what was assigned … -/
theorem assign_reads (o : OSt) (h : ObjId) (m : Msg) : (ostep o (.assign h m)).1.heap.get? h = some m :=
  PDict.get?_set_self _ _ _

/-- … and an assignment by itself writes nothing and changes nothing of the gateway but the entries of the sleep
buffer that ARE this object. -/
theorem assign_touches_only_its_entries (o : OSt) (h : ObjId) (m : Msg) :
    (ostep o (.assign h m)).2.writes = [] ∧
    (ostep o (.assign h m)).1.gw = { o.gw with sbuf := assignSbuf o.refs h m o.gw.sbuf } := ⟨rfl, rfl⟩

/-- What a `send` step does to the gateway: the message is now the buffer's entry for its key and the call showed
nothing (`held`), or the state is what it was. -/
theorem send_step_cases (st : St) (m : Msg) (b : Bool) (fs : List Fault) :
    ((stepOp st (.send (some m) b fs)).2.held = true ∧
        (stepOp st (.send (some m) b fs)).1 = { st with sbuf := st.sbuf.set m.key m }) ∨
    ((stepOp st (.send (some m) b fs)).2.held = false ∧ (stepOp st (.send (some m) b fs)).1 = st) := by
  have hw : ∀ l, ((match transportWrite l { st := st, faults := fs } with
        | (.ok (), w) => (w.st, (⟨.ok none, w.writes⟩ : Obs))
        | (.error e, w) => (w.st, ⟨.error e, w.writes⟩)).2.held = false) ∧
      (match transportWrite l { st := st, faults := fs } with
        | (.ok (), w) => (w.st, (⟨.ok none, w.writes⟩ : Obs))
        | (.error e, w) => (w.st, ⟨.error e, w.writes⟩)).1 = st := by
    intro l
    simp only [transportWrite]
    cases fs with
    | nil => simp [Obs.held]
    | cons f rest => cases f <;> simp [Obs.held]
  simp only [stepOp, apiSend, gwSend, M.bind, M.getSt]
  cases hl : (Gen.outgoingHandlers st.proto).lookup m.cmd with
  | none => right; simp [M.raise, Obs.held]
  | some o =>
    cases o with
    | none => right; simp [M.raise, Obs.held]
    | some ob =>
      cases ob with
      | direct => right; exact hw _
      | set14 =>
        cases hn : st.nodes.get? m.node with
        | none => right; exact hw _
        | some node =>
          by_cases hb : (b && node.sleeping) = true
          · left; simp [hb, M.modifySt, Obs.held]
          · have hb' : (b && node.sleeping) = false := by simpa using hb
            right; simp only [hb']; exact hw _

/-- **Trichotomy for the caller's object**: a `send` of object `h`, reading `m` at the call, hands exactly the line of
`m` to the transport; or `m` is held for its sleeping destination — as the caller's object `h`; or the transport's
error is raised after the one failed attempt.  Nothing of an earlier send of the same instance shows. -/
theorem object_trichotomy (o : OSt) (h : ObjId) (m : Msg) (b : Bool) (fs : List Fault) (hm : o.heap.get? h = some m)
    (hcmd : m.cmd ∈ [(0 : Int), 1, 2, 3, 4]) :
    ((ostep o (.sendObj h b fs)).2.out = .ok none ∧ (ostep o (.sendObj h b fs)).2.writes = [⟨encode m, true⟩] ∧
        (ostep o (.sendObj h b fs)).1.gw = o.gw) ∨
    ((ostep o (.sendObj h b fs)).2.out = .ok none ∧ (ostep o (.sendObj h b fs)).2.writes = [] ∧
        (ostep o (.sendObj h b fs)).1.gw.sbuf.get? m.key = some m ∧ (ostep o (.sendObj h b fs)).1.refs.get? m.key = some h ∧
        Sleeping o.gw m.node ∧ m.cmd = 1 ∧ b = true) ∨
    (((ostep o (.sendObj h b fs)).2.out = .error (.lib .transportFailed) ∨
        (ostep o (.sendObj h b fs)).2.out = .error (.foreign .CancelledError) ∧ fs.head? = some .cancel) ∧
        (ostep o (.sendObj h b fs)).2.writes = [⟨encode m, false⟩] ∧ (ostep o (.sendObj h b fs)).1.gw = o.gw) := by
  have ht := send_trichotomy m b { st := o.gw, faults := fs } hcmd
  simp only [ostep, hm, stepOp]
  generalize hr : apiSend (some m) b { st := o.gw, faults := fs } = r at ht
  obtain ⟨out, w⟩ := r
  cases out with
  | ok u =>
    cases u
    simp only [errOf] at ht
    rcases ht with ⟨_, hwr, hst⟩ | ⟨_, hwr, hheld, hs, h1, hb⟩ | ⟨he, _, _⟩
    · left
      simp only [List.nil_append] at hwr
      exact ⟨rfl, hwr, hst⟩
    · right; left
      refine ⟨rfl, hwr, hheld, ?_, hs, h1, hb⟩
      have hwr' : w.writes = [] := hwr
      simp [Obs.held, hwr', PDict.get?_set_self]
    · rcases he with he | ⟨he, _⟩ <;> cases he
  | error e =>
    simp only [errOf] at ht
    rcases ht with ⟨he, _, _⟩ | ⟨he, _⟩ | ⟨he, hwr, hst⟩
    · cases he
    · cases he
    · right; right
      simp only [List.nil_append] at hwr
      refine ⟨?_, hwr, hst⟩
      rcases he with he | ⟨he, hc⟩
      · left; cases he; rfl
      · right; cases he; exact ⟨rfl, hc⟩

/-- **Sent again after an assignment: the line of the message as it reads now.**  Whatever the state and whatever was
done with object `h` before (sent, written, held), once the caller has assigned `m` to it a send that is not held
(no write fault scheduled) hands exactly `encode m` to the transport and returns normally. -/
theorem resend_after_assignment_writes_current_line (o : OSt) (h : ObjId) (m : Msg) (b : Bool)
    (hcmd : m.cmd ∈ [(0 : Int), 1, 2, 3, 4]) (hdirect : m.cmd ≠ 1 ∨ b = false ∨ ¬ Sleeping o.gw m.node) :
    (ostep (ostep o (.assign h m)).1 (.sendObj h b [])).2 = ⟨.ok none, [⟨encode m, true⟩]⟩ := by
  rw [(sendObj_is_send_of_what_it_reads _ h b []).1, assign_reads]
  have key : apiSend (some m) b { st := (ostep o (.assign h m)).1.gw, faults := [] } =
      (.ok (), { st := (ostep o (.assign h m)).1.gw, faults := [], writes := [⟨encode m, true⟩] }) := by
    by_cases h1 : m.cmd = 1
    · have hd : b = false ∨ ¬ Sleeping (ostep o (.assign h m)).1.gw m.node := by
        rcases hdirect with hd | hd | hd
        · exact absurd h1 hd
        · exact Or.inl hd
        · exact Or.inr hd
      exact send_direct_writes m b { st := (ostep o (.assign h m)).1.gw, faults := [] } h1 hd rfl
    · have hd : m.cmd = 0 ∨ m.cmd = 2 ∨ m.cmd = 3 ∨ m.cmd = 4 := by
        simp only [List.mem_cons, List.mem_nil_iff, or_false] at hcmd
        omega
      show gwSend m b _ = _
      rw [gwSend_direct m b hd, transportWrite_ok _ _ rfl]
      rfl
  simp only [stepOp, key]

/-! #### What is held is the caller's object: `refs` tells the truth along every history -/

/-- One iteration of `listen` only ever REMOVES entries of the sleep buffer (it never adds or rewrites one): whatever
line arrives, in whatever state, under whatever fault schedule. -/
def OnlyErases : W → W → Prop := OnSt fun s s' =>
  PDict.WF s.sbuf → PDict.WF s'.sbuf ∧ ∀ k v, s'.sbuf.get? k = some v → s.sbuf.get? k = some v

theorem onlyErases_preO : PreO OnlyErases :=
  OnSt.preO (fun _ h => ⟨h, fun _ _ hv => hv⟩)
    (fun h1 h2 hwf => ⟨(h2 (h1 hwf).1).1, fun k v hv => (h1 hwf).2 k v ((h2 (h1 hwf).1).2 k v hv)⟩)

theorem onlyErases_same {f : St → St} (h : ∀ s, (f s).sbuf = s.sbuf) : Rel OnlyErases (modifySt f) :=
  Rel.modifySt f fun s hwf => by rw [h s]; exact ⟨hwf, fun _ _ hv => hv⟩

theorem onlyErases_stepRel (m : Msg) : StepRel OnlyErases m where
  pre := onlyErases_preO
  write := fun _ _ => Rel.transportWrite
    (S := fun s s' => PDict.WF s.sbuf → PDict.WF s'.sbuf ∧ ∀ k v, s'.sbuf.get? k = some v → s.sbuf.get? k = some v)
    (fun _ h => ⟨h, fun _ _ hv => hv⟩) _
  setNode := fun _ => onlyErases_same fun _ => rfl
  alloc := onlyErases_same fun _ => rfl
  erase := fun k bm _ => Rel.modifySt _ fun s hwf => by
    split
    · refine ⟨PDict.wf_erase hwf _, fun k' v hv => ?_⟩
      by_cases hk : k' = k
      · subst hk
        have := PDict.has_erase_self hwf k'
        simp [PDict.has, hv] at this
      · rwa [PDict.get?_erase_ne _ hk] at hv
    · exact ⟨hwf, fun _ _ hv => hv⟩
  mark := onlyErases_same fun _ => rfl
  unmark := onlyErases_same fun s => by split <;> rfl
  version := fun _ _ => onlyErases_same fun _ => rfl

theorem recv_only_erases (env : Env) (line : Str) (w : W) (hwf : PDict.WF w.st.sbuf) :
    PDict.WF (recv env line w).2.st.sbuf ∧
    ∀ k v, (recv env line w).2.st.sbuf.get? k = some v → w.st.sbuf.get? k = some v :=
  (rel_recv onlyErases_preO (fun _ m _ => onlyErases_stepRel m) (ParkOK.of_flags reaction_flags_off) env).step w hwf

/-- `refs` tells the truth: an entry of the sleep buffer that is recorded as the caller's object `h` reads exactly
what `h` reads now (and neither dictionary holds a key twice). -/
def RefsOK (o : OSt) : Prop :=
  PDict.WF o.gw.sbuf ∧ PDict.WF o.refs ∧
  ∀ k h, o.refs.get? k = some h → ∃ m, o.heap.get? h = some m ∧ o.gw.sbuf.get? k = some m

theorem keys_assignSbuf (refs : PDict Key ObjId) (h : ObjId) (m : Msg) (d : PDict Key Msg) :
    PDict.keys (assignSbuf refs h m d) = PDict.keys d := by
  induction d with
  | nil => rfl
  | cons e rest ih =>
    simp only [assignSbuf, PDict.keys, List.map_cons] at ih ⊢
    rw [ih]
    split <;> rfl

theorem get?_assignSbuf (refs : PDict Key ObjId) (h : ObjId) (m : Msg) (d : PDict Key Msg) (k : Key) :
    (assignSbuf refs h m d).get? k = (d.get? k).map fun v => if refs.get? k = some h then m else v := by
  induction d with
  | nil => rfl
  | cons e rest ih =>
    obtain ⟨k', v⟩ := e
    simp only [assignSbuf, List.map_cons] at ih ⊢
    by_cases hk : k' = k
    · subst hk
      by_cases hr : refs.get? k' = some h <;> simp [hr, PDict.get?]
    · by_cases hr : refs.get? k' = some h <;> simp [hr, PDict.get?, hk, ih]

theorem PDict.wf_filter {κ α : Type} [DecidableEq κ] {d : PDict κ α} (h : PDict.WF d) (p : κ × α → Bool) :
    PDict.WF (d.filter p) :=
  List.Nodup.sublist (List.Sublist.map _ List.filter_sublist) h

theorem PDict.get?_filter {κ α : Type} [DecidableEq κ] {d : PDict κ α} (h : PDict.WF d) {p : κ × α → Bool} {k : κ} {v : α}
    (hv : PDict.get? (d.filter p) k = some v) : PDict.get? d k = some v ∧ p (k, v) = true := by
  have hm := List.mem_filter.mp (PDict.get?_eq_some_mem hv)
  exact ⟨PDict.get?_of_mem_wf h hm.1, hm.2⟩

theorem refsOK_init : RefsOK {} := by
  refine ⟨?_, ?_, fun k h hk => ?_⟩
  · simp [PDict.WF, PDict.keys]
  · simp [PDict.WF, PDict.keys]
  · simp [PDict.get?] at hk

/-- **`refs` tells the truth after every operation** — a received line (a release included), a send of a message built
for the call, a send of one of the caller's objects, an assignment to one of them (held or not). -/
theorem refsOK_step (o : OSt) (op : OOp) (hok : RefsOK o) : RefsOK (ostep o op).1 := by
  obtain ⟨hwf, hrwf, href⟩ := hok
  cases op with
  | assign h m =>
    refine ⟨?_, hrwf, fun k h' hk => ?_⟩
    · show PDict.WF (assignSbuf o.refs h m o.gw.sbuf)
      unfold PDict.WF
      rw [keys_assignSbuf]
      exact hwf
    · replace hk : o.refs.get? k = some h' := hk
      obtain ⟨m0, hm0, hs0⟩ := href k h' hk
      show ∃ m', (o.heap.set h m).get? h' = some m' ∧ (assignSbuf o.refs h m o.gw.sbuf).get? k = some m'
      rw [get?_assignSbuf, hs0]
      by_cases hh : h' = h
      · subst hh
        exact ⟨m, PDict.get?_set_self _ _ _, by simp [hk]⟩
      · refine ⟨m0, by rw [PDict.get?_set_ne _ _ hh]; exact hm0, ?_⟩
        have : o.refs.get? k ≠ some h := by rw [hk]; intro he; exact hh (Option.some.inj he)
        simp [this]
  | sendObj h b fs =>
    simp only [ostep]
    cases hm : o.heap.get? h with
    | none => exact ⟨hwf, hrwf, href⟩
    | some m =>
      rcases send_step_cases o.gw m b fs with ⟨hheld, hst⟩ | ⟨hheld, hst⟩
      · simp only [hheld, hst, if_true]
        refine ⟨PDict.wf_set hwf _ _, PDict.wf_set hrwf _ _, fun k h' hk => ?_⟩
        by_cases hkk : k = m.key
        · subst hkk
          rw [PDict.get?_set_self] at hk
          cases hk
          exact ⟨m, hm, PDict.get?_set_self _ _ _⟩
        · rw [PDict.get?_set_ne _ _ hkk] at hk
          obtain ⟨m0, hm0, hs0⟩ := href k h' hk
          exact ⟨m0, hm0, by rw [PDict.get?_set_ne _ _ hkk]; exact hs0⟩
      · simp only [hheld, hst]
        exact ⟨hwf, hrwf, href⟩
  | plain op =>
    cases op with
    | send obj b fs =>
      simp only [ostep]
      cases obj with
      | none => exact ⟨hwf, hrwf, href⟩
      | some m =>
        rcases send_step_cases o.gw m b fs with ⟨hheld, hst⟩ | ⟨hheld, hst⟩
        · simp only [hheld, hst, if_true]
          refine ⟨PDict.wf_set hwf _ _, PDict.wf_erase hrwf _, fun k h' hk => ?_⟩
          have hkk : k ≠ m.key := by
            intro he; subst he
            have := PDict.has_erase_self hrwf m.key
            simp [PDict.has, hk] at this
          rw [PDict.get?_erase_ne _ hkk] at hk
          obtain ⟨m0, hm0, hs0⟩ := href k h' hk
          exact ⟨m0, hm0, by rw [PDict.get?_set_ne _ _ hkk]; exact hs0⟩
        · simp only [hheld, hst]
          exact ⟨hwf, hrwf, href⟩
    | recv env line fs =>
      have hre := recv_only_erases env line { st := o.gw, faults := fs } hwf
      have hst : (stepOp o.gw (.recv env line fs)).1 = (recv env line { st := o.gw, faults := fs }).2.st := by
        simp only [stepOp]; split <;> next heq => simp [heq]
      simp only [ostep, hst]
      refine ⟨hre.1, PDict.wf_filter hrwf _, fun k h' hk => ?_⟩
      obtain ⟨hk0, hp⟩ := PDict.get?_filter hrwf hk
      obtain ⟨m0, hm0, hs0⟩ := href k h' hk0
      refine ⟨m0, hm0, ?_⟩
      simp only [PDict.has, Option.isSome_iff_exists] at hp
      obtain ⟨v, hv⟩ := hp
      have := hre.2 k v hv
      rw [hs0] at this
      cases this
      exact hv

theorem refsOK_history (ops : List OOp) (o : OSt) (hok : RefsOK o) : RefsOK (orun o ops).1 := by
  induction ops generalizing o with
  | nil => exact hok
  | cons op ops ih => exact ih _ (refsOK_step o op hok)

/-- **A wake releases the held objects as they read now.**  In any state in which the records of `refs` are true (every
state a history reaches: `refsOK_history`), if the buffer's entry under `k` is the caller's object `h`, now reading `m`
— whatever it read when it was held, whatever key it was held under, whatever was assigned to it since — then the wake
signal of the node `m` is addressed to hands `encode m` to the transport (the writes succeeding; every held command
still being a set command).  -/
theorem held_object_released_as_it_reads_now (o : OSt) (k : Key) (h : ObjId) (m wake : Msg) (hok : RefsOK o)
    (hk : o.refs.get? k = some h) (hm : o.heap.get? h = some m) (hnode : m.node = wake.node)
    (hset : ∀ e ∈ o.gw.sbuf, e.2.cmd = 1) :
    (⟨encode m, true⟩ : WriteEvt) ∈ (flush wake { st := o.gw }).2.writes ∧ (flush wake { st := o.gw }).2.st.sbuf.get? k = none := by
  obtain ⟨hwf, _, href⟩ := hok
  obtain ⟨m', hm', hs⟩ := href k h hk
  rw [hm] at hm'; cases hm'
  have hmem : (k, m) ∈ o.gw.sbuf := PDict.get?_eq_some_mem hs
  have hsnap : (k, m) ∈ snapshotOf o.gw wake.node := List.mem_filter.mpr ⟨hmem, by simp [hnode]⟩
  rw [flush_eq, flushList_nofault (snapshotOf o.gw wake.node) { st := o.gw } hwf
    (fun e he => hset e (List.mem_filter.mp he).1) (fun e he => (List.mem_filter.mp he).1)
    (snapshot_keys_nodup _ _ hwf) rfl]
  constructor
  · simp only [List.nil_append, List.mem_map]
    exact ⟨(k, m), hsnap, rfl⟩
  · show (eraseAll o.gw.sbuf ((snapshotOf o.gw wake.node).map (·.1))).get? k = none
    cases hg : (eraseAll o.gw.sbuf ((snapshotOf o.gw wake.node).map (·.1))).get? k with
    | none => rfl
    | some v =>
      exfalso
      have := (mem_eraseAll hwf _ (k, v)).mp (PDict.get?_eq_some_mem hg)
      exact this.2 (List.mem_map.mpr ⟨(k, m), hsnap, rfl⟩)

/-! Non-vacuity: each of the three outcomes occurs. -/
example : errOf (apiSend (some ⟨1, 255, 3, 0, 13, []⟩) true { st := {} }).1 = none := by decide
example : (apiSend (some ⟨1, 0, 1, 0, 2, ['7']⟩) true
    { st := { nodes := [(1, { ntype := 17, pv := [], sleeping := true })] } }).2.st.sbuf.get? (1, 0, 2)
    = some ⟨1, 0, 1, 0, 2, ['7']⟩ := by decide
example : errOf (apiSend (some ⟨1, 0, 2, 0, 2, []⟩) false { st := {}, faults := [.fail] }).1 = some (.lib .transportFailed) := by
  decide
example : errOf (apiSend (some ⟨1, 0, 2, 0, 2, []⟩) false { st := {}, faults := [.cancel] }).1 = some (.foreign .CancelledError) := by
  decide

/-! Non-vacuity of the object layer: one object switched on and off (awake destination: both lines are written, the
second one as the object reads at the second call); one object held for a sleeping node under two keys after an
assignment to its child id, both entries recorded as that object and reading what it reads now. -/
example : ((orun { gw := { nodes := [(1, { ntype := 17, pv := [] })] } }
    [.assign 7 ⟨1, 0, 1, 0, 2, ['1']⟩, .sendObj 7 true [], .assign 7 ⟨1, 0, 1, 0, 2, ['0']⟩, .sendObj 7 true []]).2.map (·.writes))
    = [[], [⟨encode ⟨1, 0, 1, 0, 2, ['1']⟩, true⟩], [], [⟨encode ⟨1, 0, 1, 0, 2, ['0']⟩, true⟩]] := by decide

example : let o := (orun { gw := { nodes := [(1, { ntype := 17, pv := [], sleeping := true })] } }
      [.assign 7 ⟨1, 0, 1, 0, 2, ['1']⟩, .sendObj 7 true [], .assign 7 ⟨1, 1, 1, 0, 2, ['1']⟩, .sendObj 7 true []]).1
    o.refs = [((1, 0, 2), 7), ((1, 1, 2), 7)] ∧
    o.gw.sbuf = [((1, 0, 2), ⟨1, 1, 1, 0, 2, ['1']⟩), ((1, 1, 2), ⟨1, 1, 1, 0, 2, ['1']⟩)] := by decide

end AioMySensors.C12
