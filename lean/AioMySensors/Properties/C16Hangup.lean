/-
C16 (continued) — "leaving the context ... disconnects the transport", for the built-in stream transports when the far
end ends the connection while the context is open.

A file of its own (same namespace as `Properties/C16.lean`, an obligation of the same property: `harness/check.py:
PROP_EXTRA_MODS`) because it stands on the tie between the stream transport's methods as translated from the working
tree and `Model/Stream.lean` (`Lemmas/StreamBodiesEq.lean`): if that tie stops checking, these theorems are the ones
that are no longer shown, not the lifecycle theorems of `Properties/C16.lean`.
-/
import AioMySensors.Lemmas.StreamHangup

namespace AioMySensors.C16
open AioMySensors

/-! ### The far end ends the connection while the context is open (stream transports)

"disconnects the transport": the lifecycle model only records that `disconnect()` is attempted (`exit_clean`).  For
the built-in stream transports (TCP, serial) that call must still find the connection it has to close, whatever
happened to the stream while the body was reading: the far end closing its sending side or going away exactly between
two messages, in the middle of one, before any; a reset; reads that returned, waited or raised; writes that failed.
Proved in `Lemmas/StreamHangup.lean` about `Model/Stream.lean` and carried over to the methods as translated from the
working tree (`Generated/StreamBodies.lean`, tie `Lemmas/StreamBodiesEq.lean`, regenerated on every run of this
property).  The runs with real sockets are `harness/props/hangup.py`. -/

open AioMySensors.Stream AioMySensors.StreamHangup in
/-- After any history of arrivals (chunks, end of stream anywhere, reset), reads and writes on a fresh connection,
`disconnect()` leaves the writer closed (also when `wait_closed()` raises) and a fault-free one raises nothing. -/
theorem hangup_then_exit_disconnects (L : Nat) (d : Bytes → Option Str) (ss : List Step) (fault : CloseFault)
    (hf : ∀ c, fault ≠ .atClose c) :
    (writerOf ((steps d (connected L) ss).disconnect fault).2).map (·.closed) = some true
    ∧ ((steps d (connected L) ss).disconnect .clean).1 = none :=
  steps_then_disconnect_closes L d ss fault hf

open AioMySensors.Stream AioMySensors.StreamHangup in
/-- The same about `read`, `write` and `disconnect` as translated from the code on this run. -/
theorem hangup_then_exit_disconnects_generated (L : Nat) (d : Bytes → Option Str) (ss : List Step) (fault : CloseFault)
    (hf : ∀ c, fault ≠ .atClose c) :
    (writerOf (GenStream.disconnect fault (genSteps d (connected L) ss)).2).map (·.closed) = some true
    ∧ (unitOutcome (GenStream.disconnect .clean (genSteps d (connected L) ss))).1 = none :=
  gen_steps_then_disconnect_closes L d ss fault hf

open AioMySensors.Stream AioMySensors.StreamHangup in
/-- A read never drops the connection: the translated `read`, whatever it returns or raises (the end of the stream
with an empty partial included), leaves `self.writer` what it was. -/
theorem read_never_disconnects_generated (d : Bytes → Option Str) (t : Transport) :
    writerOf (GenStream.read d t).2 = writerOf t :=
  gen_read_keeps_writer d t

end AioMySensors.C16
