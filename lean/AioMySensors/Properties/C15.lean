/-
C15 — A crash during save never destroys the previously saved registry.

  "If the process dies at any point during a save, the persistence file afterwards loads to either
   the registry as last successfully saved or the registry that was being saved - never to an empty
   or partial registry and never to an unreadable file."

The full-strength statement is `CrashSafe L ops` below: for every pair of old and new registry and
every crash point of the operation sequence `ops` (every prefix of the operations, every byte
prefix of every write), the live file loads to the old or to the new registry.

**Status for today's code: the property is FALSE.**  `Persistence.save` truncates the live file in
place (`saveOps`); `not_crash_safe` refutes `CrashSafe L saveOps` (witness: the crash right after
the truncating open, file content `""`, which loads as the *empty* registry), for every loader that
can tell at least one registry from the empty one.  This is the recorded known finding
`property=C15 class=truncate-in-place`.  What does hold of today's code is
`crash_states_are_prefixes` / `crash_load_classes`: every crash state is the old text or a prefix
of the new text, so a failing crash state is exactly "empty registry" (content `""`) or "read
error" (a strict non-empty prefix) — never a third registry.
`atomic_if_renamed` proves the full-strength statement for the temp-file-and-rename sequence
`saveOpsAtomic`, ready for when the save is made atomic.

What the model cannot exhibit (named per DESIGN section 5):
* the OS page cache and `fsync` ordering — a rename that reaches the disk before the data of the
  temporary file, metadata journalling, torn sectors: the model's file system is sequentially
  consistent and durable after every operation;
* an executor thread that is still inside `write`/`close` after its awaiting coroutine was
  cancelled (aiofiles runs every file operation in a thread pool), overlapping a later save;
* where inside `write`…`close` the text layer's buffer is flushed — immaterial FOR TODAY'S SEQUENCE: every
  flush schedule yields crash states inside the set enumerated here (`buffered_crash_states_are_prefixes`).
  It is material for a sequence that renames / removes a file while a handle with unflushed text is open on
  it: section "Buffered writes" (`Model/FileOpsBuffered.lean`, `CrashSafeB`): `rename_before_close_not_crash_safe`
  vs `rename_before_close_safe_if_write_through`.  The correspondence run therefore also judges the directory
  as it really is before every file-system operation of the real save.
-/
import AioMySensors.Model.FileOps
import AioMySensors.Model.FileOpsBuffered
import AioMySensors.Lemmas.JsonText
import AioMySensors.Lemmas.PersistReach

namespace AioMySensors.C15
open AioMySensors AioMySensors.FileOps

/-- **The property, at full strength**, of an operation sequence `ops` (a function of the new
text) and a loader: every crash state loads to the old or the new registry (for registries within
the loader's `ok` — what `save` can write and `load` reproduces; everything for the toy loader). -/
def CrashSafe (L : Loader Reg) (ops : Bytes → List FsOp) : Prop :=
  ∀ old new : Reg, L.ok old → L.ok new → ∀ c ∈ crashStates (Fs.init (L.dump old)) (ops (L.dump new)),
    loadFs L c = .ok old ∨ loadFs L c = .ok new

/-- Every crash state of today's save sequence: the live file holds the old text or a prefix of the
new text (and the temporary path is never touched). -/
theorem crash_states_are_prefixes (old new : Bytes) (c : Fs)
    (h : c ∈ crashStates (Fs.init old) (saveOps new)) :
    c.live = some old ∨ ∃ p, c.live = some p ∧ p <+: new := by
  simp only [saveOps, crashStates, Fs.init, applyOp, Fs.set, Fs.get, Option.getD_some, List.nil_append,
    List.mem_cons, List.mem_append, List.mem_map, List.not_mem_nil, or_false] at h
  rcases h with rfl | ⟨p, hp, rfl⟩ | rfl | rfl
  · exact Or.inl rfl
  · exact Or.inr ⟨p, rfl, mem_prefixes.mp hp⟩
  · exact Or.inr ⟨new, rfl, List.prefix_refl _⟩
  · exact Or.inr ⟨new, rfl, List.prefix_refl _⟩

/-- Conversely every prefix of the new text *is* a crash state: the enumeration is tight. -/
theorem every_prefix_is_a_crash_state (old new p : Bytes) (hp : p <+: new) :
    { live := some p, tmp := none } ∈ crashStates (Fs.init old) (saveOps new) := by
  simp only [saveOps, crashStates, Fs.init, applyOp, Fs.set, Fs.get, Option.getD_some, List.nil_append,
    List.mem_cons, List.mem_append, List.mem_map]
  exact Or.inr (Or.inl ⟨p, mem_prefixes.mpr hp, rfl⟩)

/-- What a crash during today's save can leave behind, in terms of `load`: the old registry, the
new registry, the **empty registry** (content `""`) or a **read error** (a non-empty strict prefix).
The last two are the known finding `truncate-in-place`; nothing else is possible. -/
theorem crash_load_classes (L : Loader Reg) (old new : Reg) (ho : L.ok old) (hn : L.ok new) (c : Fs)
    (h : c ∈ crashStates (Fs.init (L.dump old)) (saveOps (L.dump new))) :
    loadFs L c = .ok old ∨ loadFs L c = .ok new ∨
      (c.live = some [] ∧ loadFs L c = .ok L.empty) ∨
      (∃ p, c.live = some p ∧ p <+: L.dump new ∧ p ≠ [] ∧ p ≠ L.dump new ∧ loadFs L c = .readError) := by
  rcases crash_states_are_prefixes _ _ _ h with hc | ⟨p, hc, hp⟩
  · left; simp [loadFs, hc, L.load_dump old ho]
  · by_cases h0 : p = []
    · subst h0; right; right; left; exact ⟨hc, by simp [loadFs, hc, L.load_empty]⟩
    · by_cases h1 : p = L.dump new
      · subst h1; right; left; simp [loadFs, hc, L.load_dump new hn]
      · right; right; right
        exact ⟨p, hc, hp, h0, h1, by simp [loadFs, hc, L.prefix_error new p hn hp h0 h1]⟩

/-- **The known finding, proved in the model.**  There are an old registry, a new registry and a
crash state of today's save sequence that loads to neither: the crash right after the truncating
open (content `""`) loads as the empty registry.  Needs only a registry different from the empty
one. -/
theorem not_atomic (L : Loader Reg) (r : Reg) (hok : L.ok r) (hr : r ≠ L.empty) :
    ∃ old new c, L.ok old ∧ L.ok new ∧ c ∈ crashStates (Fs.init (L.dump old)) (saveOps (L.dump new)) ∧
      loadFs L c ≠ .ok old ∧ loadFs L c ≠ .ok new := by
  refine ⟨r, r, { live := some [], tmp := none }, hok, hok, every_prefix_is_a_crash_state _ _ [] List.nil_prefix, ?_, ?_⟩ <;>
  · simp only [loadFs, L.load_empty, ne_eq, LoadResult.ok.injEq]
    exact fun h => hr h.symm

/-- The full-strength property is false of the code's operation sequence. -/
theorem not_crash_safe (L : Loader Reg) (r : Reg) (hok : L.ok r) (hr : r ≠ L.empty) : ¬ CrashSafe L saveOps := by
  intro hs
  obtain ⟨old, new, c, ho, hn, hc, h1, h2⟩ := not_atomic L r hok hr
  rcases hs old new ho hn c hc with h | h
  · exact h1 h
  · exact h2 h

/-- Every crash state of the temp-file-and-rename sequence: the live file holds the old text or
the complete new text. -/
theorem atomic_live_old_or_new (old new : Bytes) (c : Fs)
    (h : c ∈ crashStates (Fs.init old) (saveOpsAtomic new)) :
    c.live = some old ∨ c.live = some new := by
  simp only [saveOpsAtomic, crashStates, Fs.init, applyOp, Fs.set, Fs.get, Option.getD_some, List.nil_append,
    List.mem_cons, List.mem_append, List.mem_map, List.not_mem_nil, or_false, reduceCtorEq, if_false] at h
  rcases h with rfl | ⟨p, _, rfl⟩ | rfl | rfl | rfl
  · exact Or.inl rfl
  · exact Or.inl rfl
  · exact Or.inl rfl
  · exact Or.inl rfl
  · exact Or.inr rfl

/-- **The property at full strength holds of the atomic sequence**: if the save is made
temp-file-plus-rename, every crash state loads to the old or the new registry. -/
theorem atomic_if_renamed (L : Loader Reg) : CrashSafe L saveOpsAtomic := by
  intro old new ho hn c hc
  rcases atomic_live_old_or_new _ _ _ hc with h | h
  · left; simp [loadFs, h, L.load_dump old ho]
  · right; simp [loadFs, h, L.load_dump new hn]

/-! ### Any operation sequence: a moment without a usable live file is fatal -/

/-- The crash states of a sequence contain those of every suffix, started from the state its prefix
leads to. -/
theorem crashStates_append (fs : Fs) (pre rest : List FsOp) (c : Fs)
    (h : c ∈ crashStates (applyOps fs pre) rest) : c ∈ crashStates fs (pre ++ rest) := by
  induction pre generalizing fs with
  | nil => simpa [applyOps] using h
  | cons op pre ih =>
    have h' := ih (applyOp fs op) (by simpa [applyOps] using h)
    cases op with
    | write p d => simp only [List.cons_append, crashStates, List.mem_append]; exact Or.inr h'
    | openTrunc p => simp only [List.cons_append, crashStates, List.mem_cons]; exact Or.inr h'
    | close p => simp only [List.cons_append, crashStates, List.mem_cons]; exact Or.inr h'
    | rename a b => simp only [List.cons_append, crashStates, List.mem_cons]; exact Or.inr h'

/-- The state reached after any prefix of the operations is a crash state (the next operation not
being a `write`, whose first crash state is "zero bytes written", the same state whenever the file
exists). -/
theorem state_after_prefix_is_crash_state (fs : Fs) (pre rest : List FsOp)
    (h : ∀ p d, rest.head? ≠ some (.write p d)) :
    applyOps fs pre ∈ crashStates fs (pre ++ rest) := by
  apply crashStates_append
  cases rest with
  | nil => simp [crashStates]
  | cons op rest =>
    cases op with
    | write p d => exact absurd rfl (h p d)
    | openTrunc p => simp [crashStates]
    | close p => simp [crashStates]
    | rename a b => simp [crashStates]

/-- **Whatever the sequence**: if at some crash point the live file is missing or empty, the save is
not crash safe for any pair of non-empty registries — the file loads as the empty registry. -/
theorem gap_is_fatal (L : Loader Reg) (old new : Reg) (ho : old ≠ L.empty) (hn : new ≠ L.empty)
    (c : Fs) (hc : c.live = none ∨ c.live = some []) :
    loadFs L c ≠ .ok old ∧ loadFs L c ≠ .ok new := by
  have : loadFs L c = .ok L.empty := by
    rcases hc with h | h <;> simp [loadFs, h, L.load_empty]
  rw [this]
  constructor <;> simp only [ne_eq, LoadResult.ok.injEq] <;> intro h
  · exact ho h.symm
  · exact hn h.symm

/-- "Move the old file to a backup first, then write the new one" is not crash safe: right after the
rename nothing is at the live path. -/
theorem backup_first_not_crash_safe (L : Loader Reg) (r : Reg) (hok : L.ok r) (hr : r ≠ L.empty) :
    ¬ CrashSafe L saveOpsBackupFirst := by
  intro hs
  have hmem : applyOps (Fs.init (L.dump r)) [.rename .live .tmp] ∈
      crashStates (Fs.init (L.dump r)) (saveOpsBackupFirst (L.dump r)) :=
    state_after_prefix_is_crash_state _ [.rename .live .tmp] _ (by simp)
  have hgap := gap_is_fatal L r r hr hr (applyOps (Fs.init (L.dump r)) [.rename .live .tmp]) (Or.inl rfl)
  rcases hs r r hok hok _ hmem with h | h
  · exact hgap.1 h
  · exact hgap.2 h

/-! ### Buffered writes: what is on disk is what was flushed, not what was written

`crashStatesB` (Model/FileOpsBuffered.lean): `write` fills the handle's buffer, `close` flushes it, a handle
follows its file through a rename, and a crash finds the disk with any prefix of every buffer flushed. -/

/-- The property at full strength under buffered writes. -/
def CrashSafeB (L : Loader Reg) (ops : Bytes → List FsOp) : Prop :=
  ∀ old new : Reg, L.ok old → L.ok new → ∀ c ∈ crashStatesB (BFs.init (L.dump old)) (ops (L.dump new)),
    loadFs L c = .ok old ∨ loadFs L c = .ok new

/-- Buffering adds nothing to today's sequence: wherever the flushes happen, the live file holds the old
text or a prefix of the new text - the class of the known finding and nothing else. -/
theorem buffered_crash_states_are_prefixes (old new : Bytes) (c : Fs)
    (h : c ∈ crashStatesB (BFs.init old) (saveOps new)) :
    c.live = some old ∨ ∃ p, c.live = some p ∧ p <+: new := by
  simp only [saveOps, crashStatesB, visible, BFs.init, Fs.init, applyOpB, BFs.setHandle, BFs.buf, BFs.loc, prefixes,
    flushTo, Fs.set, Fs.get, List.nil_append,
    List.mem_cons, List.mem_append, List.mem_map, List.mem_flatMap, List.not_mem_nil, or_false] at h
  rcases h with ⟨_, _, _, _, rfl⟩ | ⟨a, rfl, _, _, rfl⟩ | ⟨a, ha, _, _, rfl⟩ | ⟨_, _, _, _, rfl⟩
  · exact Or.inl rfl
  · exact Or.inr ⟨[], rfl, List.nil_prefix⟩
  · exact Or.inr ⟨a, rfl, mem_prefixes.mp ha⟩
  · exact Or.inr ⟨new, rfl, List.prefix_refl _⟩

/-- ... and every prefix of the new text is still a crash state of it. -/
theorem buffered_every_prefix_is_a_crash_state (old new p : Bytes) (hp : p <+: new) :
    { live := some p, tmp := none } ∈ crashStatesB (BFs.init old) (saveOps new) := by
  simp only [saveOps, crashStatesB, visible, BFs.init, Fs.init, applyOpB, BFs.setHandle, BFs.buf, BFs.loc, prefixes,
    flushTo, Fs.set, Fs.get, List.nil_append,
    List.mem_cons, List.mem_append, List.mem_map, List.mem_flatMap, List.not_mem_nil, or_false]
  exact Or.inr (Or.inr (Or.inl ⟨p, mem_prefixes.mpr hp, [], rfl, rfl⟩))

/-- The temp-file-and-rename sequence that closes the temporary file *before* the rename stays safe under
buffered writes: the live file holds the old text or the complete new text. -/
theorem buffered_atomic_live_old_or_new (old new : Bytes) (c : Fs)
    (h : c ∈ crashStatesB (BFs.init old) (saveOpsAtomic new)) :
    c.live = some old ∨ c.live = some new := by
  simp only [saveOpsAtomic, crashStatesB, visible, BFs.init, Fs.init, applyOpB, BFs.setHandle, BFs.buf, BFs.loc, prefixes,
    flushTo, moveLoc, Fs.set, Fs.get, List.nil_append, reduceCtorEq, if_false,
    List.mem_cons, List.mem_append, List.mem_map, List.mem_flatMap, List.not_mem_nil, or_false] at h
  rcases h with ⟨_, _, _, _, rfl⟩ | ⟨_, _, _, _, rfl⟩ | ⟨_, _, _, _, rfl⟩ | ⟨_, _, _, _, rfl⟩ | ⟨_, _, _, _, rfl⟩
  · exact Or.inl rfl
  · exact Or.inl rfl
  · exact Or.inl rfl
  · exact Or.inl rfl
  · exact Or.inr rfl

theorem atomic_if_renamed_buffered (L : Loader Reg) : CrashSafeB L saveOpsAtomic := by
  intro old new ho hn c hc
  rcases buffered_atomic_live_old_or_new _ _ _ hc with h | h
  · left; simp [loadFs, h, L.load_dump old ho]
  · right; simp [loadFs, h, L.load_dump new hn]

/-- **Rename before close.**  Under buffered writes the sequence "write the temporary file, move it over the
live file, then close it" has a crash state in which the live file is EMPTY and the old text is gone: the
rename published a file whose text was still in the buffer. -/
theorem rename_before_close_empties_live (old new : Bytes) :
    { live := some [], tmp := none } ∈ crashStatesB (BFs.init old) (saveOpsRenameOpen new) := by
  simp only [saveOpsRenameOpen, crashStatesB, visible, BFs.init, Fs.init, applyOpB, BFs.setHandle, BFs.buf, BFs.loc, prefixes,
    flushTo, moveLoc, Fs.set, Fs.get, List.nil_append, reduceCtorEq, if_false, if_true,
    List.mem_cons, List.mem_append, List.mem_map, List.mem_flatMap, List.not_mem_nil, or_false]
  exact Or.inr (Or.inr (Or.inr (Or.inl ⟨[], rfl, [], mem_prefixes.mpr List.nil_prefix, rfl⟩)))

/-- The write-through model is blind to it: with the bytes of a `write` in the file when the call returns,
the same sequence passes for crash safe (the rename seems to move the complete new text).  This is why the
crash states must be taken from what was flushed, not from what was written. -/
theorem rename_before_close_safe_if_write_through (L : Loader Reg) : CrashSafe L saveOpsRenameOpen := by
  intro old new ho hn c hc
  simp only [saveOpsRenameOpen, crashStates, Fs.init, applyOp, Fs.set, Fs.get, Option.getD_some, List.nil_append,
    List.mem_cons, List.mem_append, List.mem_map, List.not_mem_nil, or_false, reduceCtorEq, if_false] at hc
  rcases hc with rfl | ⟨p, _, rfl⟩ | rfl | rfl | rfl
  · left; simp [loadFs, L.load_dump old ho]
  · left; simp [loadFs, L.load_dump old ho]
  · left; simp [loadFs, L.load_dump old ho]
  · right; simp [loadFs, L.load_dump new hn]
  · right; simp [loadFs, L.load_dump new hn]

/-- **Not crash safe once buffering is modelled**: the empty live file loads as the empty registry. -/
theorem rename_before_close_not_crash_safe (L : Loader Reg) (r : Reg) (hok : L.ok r) (hr : r ≠ L.empty) :
    ¬ CrashSafeB L saveOpsRenameOpen := by
  intro hs
  have hload : loadFs L { live := some [], tmp := none } = .ok L.empty := by simp [loadFs, L.load_empty]
  rcases hs r r hok hok _ (rename_before_close_empties_live (L.dump r) (L.dump r)) with h | h <;>
  · rw [hload] at h
    exact hr (LoadResult.ok.inj h).symm

/-- Today's sequence under buffered writes is not crash safe either (the known finding), and for the same
reason only: a strict prefix of the new text at the live path. -/
theorem not_crash_safe_buffered (L : Loader Reg) (r : Reg) (hok : L.ok r) (hr : r ≠ L.empty) : ¬ CrashSafeB L saveOps := by
  intro hs
  have hload : loadFs L { live := some [], tmp := none } = .ok L.empty := by simp [loadFs, L.load_empty]
  rcases hs r r hok hok _ (buffered_every_prefix_is_a_crash_state (L.dump r) (L.dump r) [] List.nil_prefix) with h | h <;>
  · rw [hload] at h
    exact hr (LoadResult.ok.inj h).symm

/-! ### Non-vacuity: the toy loader satisfies the `Loader` hypotheses -/

theorem toyBody_dump (n : Nat) : toyBody (List.replicate n 49 ++ [125]) = some n := by
  induction n with
  | zero => rfl
  | succ n ih => simp [List.replicate_succ, toyBody, ih]

/-- A strict prefix of the body `1…1}` has no closing brace. -/
theorem toyBody_prefix (n : Nat) (q : Bytes) (hq : q <+: List.replicate n 49 ++ [125])
    (hne : q ≠ List.replicate n 49 ++ [125]) : toyBody q = none := by
  induction n generalizing q with
  | zero =>
    cases q with
    | nil => rfl
    | cons b q =>
      simp only [List.replicate_zero, List.nil_append] at hq hne
      obtain ⟨rfl, hq2⟩ := List.cons_prefix_cons.mp hq
      simp only [List.prefix_nil] at hq2
      subst hq2
      exact absurd rfl hne
  | succ n ih =>
    cases q with
    | nil => rfl
    | cons b q =>
      simp only [List.replicate_succ, List.cons_append] at hq hne
      obtain ⟨rfl, hq2⟩ := List.cons_prefix_cons.mp hq
      have : q ≠ List.replicate n 49 ++ [125] := fun h => hne (by rw [h])
      simp [toyBody, ih q hq2 this]

def toyLoader : Loader Nat where
  load := toyLoad
  dump := toyDump
  empty := 0
  load_empty := rfl
  load_dump := fun n _ => by simp [toyLoad, toyDump, toyBody_dump]
  prefix_error := fun n p _ hp h0 h1 => by
    cases p with
    | nil => exact absurd rfl h0
    | cons b q =>
      obtain ⟨rfl, hq⟩ := List.cons_prefix_cons.mp hp
      have : q ≠ List.replicate n 49 ++ [125] := fun h => h1 (by rw [h]; rfl)
      simp [toyLoad, toyBody_prefix n q hq this]

/-- The refutation applies to a concrete loader … -/
example : ¬ CrashSafe toyLoader saveOps := not_crash_safe toyLoader 1 trivial (by decide)

example : ¬ CrashSafe toyLoader saveOpsBackupFirst := backup_first_not_crash_safe toyLoader 1 trivial (by decide)

/-- … and so does the positive theorem. -/
example : CrashSafe toyLoader saveOpsAtomic := atomic_if_renamed toyLoader

/-- The witness, computed: old = new = registry `2`, crash after the truncating open. -/
example : loadFs toyLoader (applyOps (Fs.init (toyDump 2)) [.openTrunc .live]) = .ok 0 := by decide

/-! ### The real loader: the modelled `json.dumps`, `json.loads` and schema load

`realLoad` is `Persistence.load` into an empty registry from the bytes of the file: strict UTF-8
decoding, `read or "{}"`, `JsonText.parse` (= `json.loads`), then `Persist.loadFile` (the
generated except-clauses, `NodeSchema().load` per record).  `realDump` is the bytes
`Persistence.save` writes: `JsonText.render` (= `json.dumps(…, sort_keys=True, indent=2)`) of the
schema dump, UTF-8 encoded (the text is ASCII).  The three `Loader` laws are theorems:
`load_dump` from `JsonText.parse_render` and C13's round trip (`Persist.load_saveSorted`),
`prefix_error` from `JsonText.prefix_not_json` and the generated except-clause of `load`.

`RealOK` = C13's `RegOK`, every integer attribute printable (`regIntsOK`; `json.dumps` raises
beyond the digit limit), and `Canon`: the three dict levels in key order, no `reboot` flag.  A
Python dict is `==` to its key-sorted copy, so every registry within `RegOK` has a canonical
representative (`Persist.canonReg`, which `saveSorted` applies before rendering), and that one is
what `load` returns for the file.  `.other` = the file is outside the modelled text fragment (a real
literal, a lone surrogate escape) or a non-library exception escapes; no crash state of a save is
of that kind. -/

open Persist JsonText

abbrev Registry := PDict Int Node

/-- `Persistence.load` into an empty registry, from the bytes at the path. -/
def realLoad (b : Bytes) : LoadResult Registry :=
  match classify b with
  | none => .other
  | some fs =>
    match loadFile [] fs with
    | .ok l => .ok l.nodes
    | .error (.lib .persistenceRead) => .readError
    | .error _ => .other

/-- The bytes `Persistence.save` writes for the registry. -/
def realDump (r : Registry) : Bytes := saveBytes r

/-- What `save` can write and `load` gives back as it was. -/
def RealOK (r : Registry) : Prop := RegOK r ∧ regIntsOK r = true ∧ Canon r

instance (r : Registry) : Decidable (RealOK r) := by unfold RealOK; infer_instance

theorem realLoad_empty : realLoad [] = .ok [] := rfl

/-- A saved file is classified as JSON holding the value `save` handed over. -/
theorem classify_saved (r : Registry) (h : RealOK r) : classify (realDump r) = some (.value (saveSorted r)) :=
  classify_saveBytes r h.1 h.2.1 h.2.2

theorem realLoad_dump (r : Registry) (h : RealOK r) : realLoad (realDump r) = .ok r := by
  have hl := load_saveSorted r h.1 h.2.2
  simp only [load] at hl
  simp only [realLoad, classify_saved r h, loadFile, readFile, hl]

/-- A non-empty proper prefix of a saved file is not JSON: `load` raises `PersistenceReadError`
(`JSONDecodeError` is caught by the generated clause of the first `try` block). -/
theorem realLoad_prefix (r : Registry) (p : Bytes) (h : RealOK r) (hp : p <+: realDump r) (h0 : p ≠ [])
    (h1 : p ≠ realDump r) : realLoad p = .readError := by
  have hascii : Ascii (saveText r) := render_ascii 0 _
  have hd : realDump r = (saveText r).map fun c => c.val.toUInt8 := encodeUtf8_ascii _ hascii
  rw [hd] at hp h1
  obtain ⟨t, ht, rfl⟩ := List.prefix_map_iff.mp hp
  have hta : Ascii t := fun c hc => hascii c (ht.subset hc)
  have ht0 : t ≠ [] := by intro e; subst e; exact h0 rfl
  have ht1 : t ≠ saveText r := by intro e; subst e; exact h1 rfl
  have hinv : parse t = .error .invalid :=
    prefix_not_json _ (renderable_saveSorted r h.1 h.2.1 h.2.2) t ht ht0 ht1
  have hdec : decodeUtf8 (t.map fun c => c.val.toUInt8) = some t := by
    rw [← encodeUtf8_ascii t hta]; exact decodeUtf8_encode_ascii t hta
  cases t with
  | nil => exact absurd rfl ht0
  | cons c cs =>
    simp only [realLoad, classify, hdec, hinv]
    rfl

/-- **The real loader satisfies the three laws C15 assumes.** -/
def realLoader : Loader Registry where
  load := realLoad
  dump := realDump
  empty := []
  ok := RealOK
  load_empty := realLoad_empty
  load_dump := realLoad_dump
  prefix_error := fun r p h hp h0 h1 => realLoad_prefix r p h hp h0 h1

/-- A registry within `RealOK` with two nodes, two children, values, a non-ASCII description and a
control character in the sketch name (keys in increasing order at all three levels). -/
def sampleReg : Registry :=
  [(0, { ntype := 18, pv := cs!"2.2.0" }),
   (7, { ntype := 17, pv := cs!"2.0", battery := 57, heartbeat := -3, sleeping := true, sketchName := "Sk\n é".toList,
         children := [(-1, ⟨-1, 6, "温度".toList, [(-2, cs!"x"), (0, []), (43, cs!"21.5")]⟩), (2, ⟨2, 38, [], []⟩)] })]

theorem sampleReg_ok : RealOK sampleReg := by decide

/-- **What a crash during today's save leaves behind, with the real `json.dumps` / `json.loads` /
schema load in place of the abstract loader**: the old registry, the new registry, the empty
registry (file content `""`) or `PersistenceReadError` (a non-empty proper prefix of the new
file) — nothing else. -/
theorem crash_load_classes_real (old new : Registry) (ho : RealOK old) (hn : RealOK new) (c : Fs)
    (h : c ∈ crashStates (Fs.init (realDump old)) (saveOps (realDump new))) :
    loadFs realLoader c = .ok old ∨ loadFs realLoader c = .ok new ∨
      (c.live = some [] ∧ loadFs realLoader c = .ok []) ∨
      (∃ p, c.live = some p ∧ p <+: realDump new ∧ p ≠ [] ∧ p ≠ realDump new ∧ loadFs realLoader c = .readError) :=
  crash_load_classes realLoader old new ho hn c h

/-- **The property is false of today's code, for the real loader**: saving any non-empty registry
within `RealOK` over itself has a crash state (the file just truncated) that loads to neither the
old nor the new registry. -/
theorem not_crash_safe_real : ¬ CrashSafe realLoader saveOps :=
  not_crash_safe realLoader sampleReg sampleReg_ok (by decide)

theorem backup_first_not_crash_safe_real : ¬ CrashSafe realLoader saveOpsBackupFirst :=
  backup_first_not_crash_safe realLoader sampleReg sampleReg_ok (by decide)

/-- For the real loader: moving the temporary file over the live file before it is closed is not crash safe
once buffering is modelled (the live file is empty for a moment and loads as the empty registry) ... -/
theorem rename_before_close_not_crash_safe_real : ¬ CrashSafeB realLoader saveOpsRenameOpen :=
  rename_before_close_not_crash_safe realLoader sampleReg sampleReg_ok (by decide)

/-- ... although the write-through model accepts it, and the sequence that closes first is safe in both. -/
theorem rename_before_close_safe_if_write_through_real : CrashSafe realLoader saveOpsRenameOpen :=
  rename_before_close_safe_if_write_through realLoader

theorem atomic_if_renamed_buffered_real : CrashSafeB realLoader saveOpsAtomic := atomic_if_renamed_buffered realLoader

/-- **With temp-file-plus-rename the property holds at full strength for the real loader**: every
crash state loads to the old or the new registry. -/
theorem atomic_if_renamed_real : CrashSafe realLoader saveOpsAtomic := atomic_if_renamed realLoader

/-- In full: for registries within `RealOK`, every crash state of the atomic sequence loads — through
UTF-8 decoding, `json.loads` and the schema — to the old or to the new registry. -/
theorem atomic_if_renamed_real_explicit (old new : Registry) (ho : RealOK old) (hn : RealOK new) (c : Fs)
    (h : c ∈ crashStates (Fs.init (realDump old)) (saveOpsAtomic (realDump new))) :
    loadFs realLoader c = .ok old ∨ loadFs realLoader c = .ok new :=
  atomic_if_renamed realLoader old new ho hn c h

/-! #### Registries in any insertion order

`sort_keys=True` writes every registry in key order, so the file of `r` is the file of its canonical
representative `canonOf r` (the same Python dicts, `Persist.canonReg_perm`; `reboot` cleared), which
is within `RealOK` whenever `r` is within C13's `RegOK` with printable integers. -/

theorem realOK_canonOf (r : Registry) (h : RegOK r) (hi : regIntsOK r = true) : RealOK (canonOf r) :=
  ⟨regOK_canonOf r h, regIntsOK_canonOf r hi, canon_canonOf r h⟩

theorem realDump_canonOf (r : Registry) (h : RegOK r) : realDump (canonOf r) = realDump r := saveBytes_canonOf r h

/-- **Crash classes for any two registries of C13's domain** (no order assumed): a crash during
today's save leaves a file that loads to the old registry, the new registry (each as the dict-equal
canonical representative), the empty registry, or raises `PersistenceReadError`. -/
theorem crash_load_classes_real_any (old new : Registry) (ho : RegOK old) (hio : regIntsOK old = true)
    (hn : RegOK new) (hin : regIntsOK new = true) (c : Fs)
    (h : c ∈ crashStates (Fs.init (realDump old)) (saveOps (realDump new))) :
    loadFs realLoader c = .ok (canonOf old) ∨ loadFs realLoader c = .ok (canonOf new) ∨
      (c.live = some [] ∧ loadFs realLoader c = .ok []) ∨
      (∃ p, c.live = some p ∧ p <+: realDump new ∧ p ≠ [] ∧ p ≠ realDump new ∧ loadFs realLoader c = .readError) := by
  rw [← realDump_canonOf old ho] at h
  rw [← realDump_canonOf new hn] at h ⊢
  exact crash_load_classes_real _ _ (realOK_canonOf old ho hio) (realOK_canonOf new hn hin) c h

/-- **The atomic sequence for any two registries of C13's domain**: every crash state loads to the
old or to the new registry. -/
theorem atomic_if_renamed_real_any (old new : Registry) (ho : RegOK old) (hio : regIntsOK old = true)
    (hn : RegOK new) (hin : regIntsOK new = true) (c : Fs)
    (h : c ∈ crashStates (Fs.init (realDump old)) (saveOpsAtomic (realDump new))) :
    loadFs realLoader c = .ok (canonOf old) ∨ loadFs realLoader c = .ok (canonOf new) := by
  rw [← realDump_canonOf old ho, ← realDump_canonOf new hn] at h
  exact atomic_if_renamed realLoader _ _ (realOK_canonOf old ho hio) (realOK_canonOf new hn hin) c h

/-! #### Registries the gateway reaches

No hypothesis on the registries is left when they are the registries of a running gateway: every
registry a history of received lines and `send` calls produces from the empty gateway is within
C13's `RegOK` (`runOps_regOK`) and has printable integers (`runOps_regIntsOK`, `Lemmas/PersistReach.lean`). -/

/-- The canonical representative of a reachable registry is in the real loader's domain. -/
theorem realOK_reachable (ops : List Op) : RealOK (canonOf (runOps {} ops).nodes) :=
  realOK_canonOf _ (runOps_regOK {} ops ⟨by simp [PDict.keys], by simp⟩) (runOps_regIntsOK {} ops rfl)

/-- **Crash classes for the registries of a running gateway**: `old` is the registry after any history
`ops₁` from the empty gateway (the file on disk is its save), `new` the registry after any history `ops₂`
(in particular a continuation of `ops₁`), both with any environments, `send` calls and write faults.  A
crash during today's save of `new` over the file of `old` leaves a file that loads to `old`, to `new`
(each as the dict-equal canonical representative), to the empty registry, or raises
`PersistenceReadError` — nothing else, and no side condition on the registries. -/
theorem crash_load_classes_reachable (ops₁ ops₂ : List Op) (c : Fs)
    (h : c ∈ crashStates (Fs.init (realDump (runOps {} ops₁).nodes)) (saveOps (realDump (runOps {} ops₂).nodes))) :
    loadFs realLoader c = .ok (canonOf (runOps {} ops₁).nodes) ∨
    loadFs realLoader c = .ok (canonOf (runOps {} ops₂).nodes) ∨
      (c.live = some [] ∧ loadFs realLoader c = .ok []) ∨
      (∃ p, c.live = some p ∧ p <+: realDump (runOps {} ops₂).nodes ∧ p ≠ [] ∧ p ≠ realDump (runOps {} ops₂).nodes ∧
        loadFs realLoader c = .readError) :=
  crash_load_classes_real_any _ _ (runOps_regOK {} ops₁ ⟨by simp [PDict.keys], by simp⟩) (runOps_regIntsOK {} ops₁ rfl)
    (runOps_regOK {} ops₂ ⟨by simp [PDict.keys], by simp⟩) (runOps_regIntsOK {} ops₂ rfl) c h

/-- The same from any starting states within the domain (e.g. registries loaded from a file). -/
theorem crash_load_classes_reachable_from (st₁ st₂ : St) (ops₁ ops₂ : List Op)
    (h₁ : RegOK st₁.nodes) (hi₁ : regIntsOK st₁.nodes = true) (h₂ : RegOK st₂.nodes) (hi₂ : regIntsOK st₂.nodes = true) (c : Fs)
    (h : c ∈ crashStates (Fs.init (realDump (runOps st₁ ops₁).nodes)) (saveOps (realDump (runOps st₂ ops₂).nodes))) :
    loadFs realLoader c = .ok (canonOf (runOps st₁ ops₁).nodes) ∨
    loadFs realLoader c = .ok (canonOf (runOps st₂ ops₂).nodes) ∨
      (c.live = some [] ∧ loadFs realLoader c = .ok []) ∨
      (∃ p, c.live = some p ∧ p <+: realDump (runOps st₂ ops₂).nodes ∧ p ≠ [] ∧ p ≠ realDump (runOps st₂ ops₂).nodes ∧
        loadFs realLoader c = .readError) :=
  crash_load_classes_real_any _ _ (runOps_regOK st₁ ops₁ h₁) (runOps_regIntsOK st₁ ops₁ hi₁)
    (runOps_regOK st₂ ops₂ h₂) (runOps_regIntsOK st₂ ops₂ hi₂) c h

/-- **The atomic sequence for the registries of a running gateway**: every crash state loads to the old
or to the new registry. -/
theorem atomic_if_renamed_reachable (ops₁ ops₂ : List Op) (c : Fs)
    (h : c ∈ crashStates (Fs.init (realDump (runOps {} ops₁).nodes)) (saveOpsAtomic (realDump (runOps {} ops₂).nodes))) :
    loadFs realLoader c = .ok (canonOf (runOps {} ops₁).nodes) ∨
    loadFs realLoader c = .ok (canonOf (runOps {} ops₂).nodes) :=
  atomic_if_renamed_real_any _ _ (runOps_regOK {} ops₁ ⟨by simp [PDict.keys], by simp⟩) (runOps_regIntsOK {} ops₁ rfl)
    (runOps_regOK {} ops₂ ⟨by simp [PDict.keys], by simp⟩) (runOps_regIntsOK {} ops₂ rfl) c h

/-- A registry in insertion order different from key order at all three levels, with a `reboot`
flag set: covered by the `_any` theorems, outside `RealOK`. -/
def unsortedReg : Registry :=
  [(9, { ntype := 17, pv := cs!"2.0", reboot := true,
         children := [(5, ⟨5, 1, [], [(30, cs!"a"), (4, cs!"b"), (100, cs!"c")]⟩), (1, ⟨1, 2, [], []⟩)] }),
   (2, { ntype := 17, pv := cs!"1.4", battery := 1 })]

example : RegOK unsortedReg ∧ regIntsOK unsortedReg = true ∧ ¬ RealOK unsortedReg := by decide
example : canonOf unsortedReg =
    [(2, { ntype := 17, pv := cs!"1.4", battery := 1 }),
     (9, { ntype := 17, pv := cs!"2.0",
           children := [(1, ⟨1, 2, [], []⟩), (5, ⟨5, 1, [], [(4, cs!"b"), (30, cs!"a"), (100, cs!"c")]⟩)] })] := by decide

/-- No crash state of a save is outside the modelled text fragment. -/
theorem crash_states_modelled (old new : Registry) (ho : RealOK old) (hn : RealOK new) (c : Fs)
    (h : c ∈ crashStates (Fs.init (realDump old)) (saveOps (realDump new))) : loadFs realLoader c ≠ .other := by
  rcases crash_load_classes_real old new ho hn c h with e | e | ⟨_, e⟩ | ⟨p, _, _, _, _, e⟩ <;> rw [e] <;> simp

end AioMySensors.C15
