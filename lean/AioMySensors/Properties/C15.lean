/-
C15 — A crash during save never destroys the previously saved registry.

  "If the process dies at any point during a save, the persistence file afterwards loads to either
   the registry as last successfully saved or the registry that was being saved - never to an empty
   or partial registry and never to an unreadable file."

The full-strength statement is `CrashSafe L ops` below: for every pair of old and new registry and
every crash point of the operation sequence `ops` (every prefix of the operations, every byte
prefix of every write), the live file loads to the old or to the new registry.

**Status for today's code: the property is FALSE.**  `Persistence.save` truncates the live file in
place (`saveOps`); `not_crash_safe` refutes `CrashSafe L saveOps` (witness: the crash right after
the truncating open, file content `""`, which loads as the *empty* registry), for every loader that
can tell at least one registry from the empty one.  This is the recorded known finding
`property=C15 class=truncate-in-place`.  What does hold of today's code is
`crash_states_are_prefixes` / `crash_load_classes`: every crash state is the old text or a prefix
of the new text, so a failing crash state is exactly "empty registry" (content `""`) or "read
error" (a strict non-empty prefix) — never a third registry.
`atomic_if_renamed` proves the full-strength statement for the temp-file-and-rename sequence
`saveOpsAtomic`, ready for when the save is made atomic.

What the model cannot exhibit (named per DESIGN section 5):
* the OS page cache and `fsync` ordering — a rename that reaches the disk before the data of the
  temporary file, metadata journalling, torn sectors: the model's file system is sequentially
  consistent and durable after every operation;
* an executor thread that is still inside `write`/`close` after its awaiting coroutine was
  cancelled (aiofiles runs every file operation in a thread pool), overlapping a later save;
* where inside `write`…`close` the text layer's buffer is flushed — immaterial: every flush
  schedule yields crash states inside the set enumerated here (see Model/FileOps.lean).
-/
import AioMySensors.Model.FileOps

namespace AioMySensors.C15
open AioMySensors AioMySensors.FileOps

/-- **The property, at full strength**, of an operation sequence `ops` (a function of the new
text) and a loader: every crash state loads to the old or the new registry. -/
def CrashSafe (L : Loader Reg) (ops : Bytes → List FsOp) : Prop :=
  ∀ old new : Reg, ∀ c ∈ crashStates (Fs.init (L.dump old)) (ops (L.dump new)),
    loadFs L c = .ok old ∨ loadFs L c = .ok new

/-- Every crash state of today's save sequence: the live file holds the old text or a prefix of the
new text (and the temporary path is never touched). -/
theorem crash_states_are_prefixes (old new : Bytes) (c : Fs)
    (h : c ∈ crashStates (Fs.init old) (saveOps new)) :
    c.live = some old ∨ ∃ p, c.live = some p ∧ p <+: new := by
  simp only [saveOps, crashStates, Fs.init, applyOp, Fs.set, Fs.get, Option.getD_some, List.nil_append,
    List.mem_cons, List.mem_append, List.mem_map, List.not_mem_nil, or_false] at h
  rcases h with rfl | ⟨p, hp, rfl⟩ | rfl | rfl
  · exact Or.inl rfl
  · exact Or.inr ⟨p, rfl, mem_prefixes.mp hp⟩
  · exact Or.inr ⟨new, rfl, List.prefix_refl _⟩
  · exact Or.inr ⟨new, rfl, List.prefix_refl _⟩

/-- Conversely every prefix of the new text *is* a crash state: the enumeration is tight. -/
theorem every_prefix_is_a_crash_state (old new p : Bytes) (hp : p <+: new) :
    { live := some p, tmp := none } ∈ crashStates (Fs.init old) (saveOps new) := by
  simp only [saveOps, crashStates, Fs.init, applyOp, Fs.set, Fs.get, Option.getD_some, List.nil_append,
    List.mem_cons, List.mem_append, List.mem_map]
  exact Or.inr (Or.inl ⟨p, mem_prefixes.mpr hp, rfl⟩)

/-- What a crash during today's save can leave behind, in terms of `load`: the old registry, the
new registry, the **empty registry** (content `""`) or a **read error** (a non-empty strict prefix).
The last two are the known finding `truncate-in-place`; nothing else is possible. -/
theorem crash_load_classes (L : Loader Reg) (old new : Reg) (c : Fs)
    (h : c ∈ crashStates (Fs.init (L.dump old)) (saveOps (L.dump new))) :
    loadFs L c = .ok old ∨ loadFs L c = .ok new ∨
      (c.live = some [] ∧ loadFs L c = .ok L.empty) ∨
      (∃ p, c.live = some p ∧ p <+: L.dump new ∧ p ≠ [] ∧ p ≠ L.dump new ∧ loadFs L c = .readError) := by
  rcases crash_states_are_prefixes _ _ _ h with hc | ⟨p, hc, hp⟩
  · left; simp [loadFs, hc, L.load_dump]
  · by_cases h0 : p = []
    · subst h0; right; right; left; exact ⟨hc, by simp [loadFs, hc, L.load_empty]⟩
    · by_cases h1 : p = L.dump new
      · subst h1; right; left; simp [loadFs, hc, L.load_dump]
      · right; right; right
        exact ⟨p, hc, hp, h0, h1, by simp [loadFs, hc, L.prefix_error new p hp h0 h1]⟩

/-- **The known finding, proved in the model.**  There are an old registry, a new registry and a
crash state of today's save sequence that loads to neither: the crash right after the truncating
open (content `""`) loads as the empty registry.  Needs only a registry different from the empty
one. -/
theorem not_atomic (L : Loader Reg) (r : Reg) (hr : r ≠ L.empty) :
    ∃ old new c, c ∈ crashStates (Fs.init (L.dump old)) (saveOps (L.dump new)) ∧
      loadFs L c ≠ .ok old ∧ loadFs L c ≠ .ok new := by
  refine ⟨r, r, { live := some [], tmp := none }, every_prefix_is_a_crash_state _ _ [] List.nil_prefix, ?_, ?_⟩ <;>
  · simp only [loadFs, L.load_empty, ne_eq, LoadResult.ok.injEq]
    exact fun h => hr h.symm

/-- The full-strength property is false of the code's operation sequence. -/
theorem not_crash_safe (L : Loader Reg) (r : Reg) (hr : r ≠ L.empty) : ¬ CrashSafe L saveOps := by
  intro hs
  obtain ⟨old, new, c, hc, h1, h2⟩ := not_atomic L r hr
  rcases hs old new c hc with h | h
  · exact h1 h
  · exact h2 h

/-- Every crash state of the temp-file-and-rename sequence: the live file holds the old text or
the complete new text. -/
theorem atomic_live_old_or_new (old new : Bytes) (c : Fs)
    (h : c ∈ crashStates (Fs.init old) (saveOpsAtomic new)) :
    c.live = some old ∨ c.live = some new := by
  simp only [saveOpsAtomic, crashStates, Fs.init, applyOp, Fs.set, Fs.get, Option.getD_some, List.nil_append,
    List.mem_cons, List.mem_append, List.mem_map, List.not_mem_nil, or_false, reduceCtorEq, if_false] at h
  rcases h with rfl | ⟨p, _, rfl⟩ | rfl | rfl | rfl
  · exact Or.inl rfl
  · exact Or.inl rfl
  · exact Or.inl rfl
  · exact Or.inl rfl
  · exact Or.inr rfl

/-- **The property at full strength holds of the atomic sequence**: if the save is made
temp-file-plus-rename, every crash state loads to the old or the new registry. -/
theorem atomic_if_renamed (L : Loader Reg) : CrashSafe L saveOpsAtomic := by
  intro old new c hc
  rcases atomic_live_old_or_new _ _ _ hc with h | h
  · left; simp [loadFs, h, L.load_dump]
  · right; simp [loadFs, h, L.load_dump]

/-! ### Any operation sequence: a moment without a usable live file is fatal -/

/-- The crash states of a sequence contain those of every suffix, started from the state its prefix
leads to. -/
theorem crashStates_append (fs : Fs) (pre rest : List FsOp) (c : Fs)
    (h : c ∈ crashStates (applyOps fs pre) rest) : c ∈ crashStates fs (pre ++ rest) := by
  induction pre generalizing fs with
  | nil => simpa [applyOps] using h
  | cons op pre ih =>
    have h' := ih (applyOp fs op) (by simpa [applyOps] using h)
    cases op with
    | write p d => simp only [List.cons_append, crashStates, List.mem_append]; exact Or.inr h'
    | openTrunc p => simp only [List.cons_append, crashStates, List.mem_cons]; exact Or.inr h'
    | close p => simp only [List.cons_append, crashStates, List.mem_cons]; exact Or.inr h'
    | rename a b => simp only [List.cons_append, crashStates, List.mem_cons]; exact Or.inr h'

/-- The state reached after any prefix of the operations is a crash state (the next operation not
being a `write`, whose first crash state is "zero bytes written", the same state whenever the file
exists). -/
theorem state_after_prefix_is_crash_state (fs : Fs) (pre rest : List FsOp)
    (h : ∀ p d, rest.head? ≠ some (.write p d)) :
    applyOps fs pre ∈ crashStates fs (pre ++ rest) := by
  apply crashStates_append
  cases rest with
  | nil => simp [crashStates]
  | cons op rest =>
    cases op with
    | write p d => exact absurd rfl (h p d)
    | openTrunc p => simp [crashStates]
    | close p => simp [crashStates]
    | rename a b => simp [crashStates]

/-- **Whatever the sequence**: if at some crash point the live file is missing or empty, the save is
not crash safe for any pair of non-empty registries — the file loads as the empty registry. -/
theorem gap_is_fatal (L : Loader Reg) (old new : Reg) (ho : old ≠ L.empty) (hn : new ≠ L.empty)
    (c : Fs) (hc : c.live = none ∨ c.live = some []) :
    loadFs L c ≠ .ok old ∧ loadFs L c ≠ .ok new := by
  have : loadFs L c = .ok L.empty := by
    rcases hc with h | h <;> simp [loadFs, h, L.load_empty]
  rw [this]
  constructor <;> simp only [ne_eq, LoadResult.ok.injEq] <;> intro h
  · exact ho h.symm
  · exact hn h.symm

/-- "Move the old file to a backup first, then write the new one" is not crash safe: right after the
rename nothing is at the live path. -/
theorem backup_first_not_crash_safe (L : Loader Reg) (r : Reg) (hr : r ≠ L.empty) :
    ¬ CrashSafe L saveOpsBackupFirst := by
  intro hs
  have hmem : applyOps (Fs.init (L.dump r)) [.rename .live .tmp] ∈
      crashStates (Fs.init (L.dump r)) (saveOpsBackupFirst (L.dump r)) :=
    state_after_prefix_is_crash_state _ [.rename .live .tmp] _ (by simp)
  have hgap := gap_is_fatal L r r hr hr (applyOps (Fs.init (L.dump r)) [.rename .live .tmp]) (Or.inl rfl)
  rcases hs r r _ hmem with h | h
  · exact hgap.1 h
  · exact hgap.2 h

/-! ### Non-vacuity: the toy loader satisfies the `Loader` hypotheses -/

theorem toyBody_dump (n : Nat) : toyBody (List.replicate n 49 ++ [125]) = some n := by
  induction n with
  | zero => rfl
  | succ n ih => simp [List.replicate_succ, toyBody, ih]

/-- A strict prefix of the body `1…1}` has no closing brace. -/
theorem toyBody_prefix (n : Nat) (q : Bytes) (hq : q <+: List.replicate n 49 ++ [125])
    (hne : q ≠ List.replicate n 49 ++ [125]) : toyBody q = none := by
  induction n generalizing q with
  | zero =>
    cases q with
    | nil => rfl
    | cons b q =>
      simp only [List.replicate_zero, List.nil_append] at hq hne
      obtain ⟨rfl, hq2⟩ := List.cons_prefix_cons.mp hq
      simp only [List.prefix_nil] at hq2
      subst hq2
      exact absurd rfl hne
  | succ n ih =>
    cases q with
    | nil => rfl
    | cons b q =>
      simp only [List.replicate_succ, List.cons_append] at hq hne
      obtain ⟨rfl, hq2⟩ := List.cons_prefix_cons.mp hq
      have : q ≠ List.replicate n 49 ++ [125] := fun h => hne (by rw [h])
      simp [toyBody, ih q hq2 this]

def toyLoader : Loader Nat where
  load := toyLoad
  dump := toyDump
  empty := 0
  load_empty := rfl
  load_dump := fun n => by simp [toyLoad, toyDump, toyBody_dump]
  prefix_error := fun n p hp h0 h1 => by
    cases p with
    | nil => exact absurd rfl h0
    | cons b q =>
      obtain ⟨rfl, hq⟩ := List.cons_prefix_cons.mp hp
      have : q ≠ List.replicate n 49 ++ [125] := fun h => h1 (by rw [h]; rfl)
      simp [toyLoad, toyBody_prefix n q hq this]

/-- The refutation applies to a concrete loader … -/
example : ¬ CrashSafe toyLoader saveOps := not_crash_safe toyLoader 1 (by decide)

example : ¬ CrashSafe toyLoader saveOpsBackupFirst := backup_first_not_crash_safe toyLoader 1 (by decide)

/-- … and so does the positive theorem. -/
example : CrashSafe toyLoader saveOpsAtomic := atomic_if_renamed toyLoader

/-- The witness, computed: old = new = registry `2`, crash after the truncating open. -/
example : loadFs toyLoader (applyOps (Fs.init (toyDump 2)) [.openTrunc .live]) = .ok 0 := by decide

end AioMySensors.C15
