/-
C18 — MQTT transport maps topics and lines one-to-one and never goes silently deaf.

The model is `Model/Mqtt.lean` (`src/aiomysensors/transport/mqtt.py`).  What is modelled rather than
verified: the broker and aiomqtt (a message iterator that yields messages or raises `MqttError`;
`publish`/`subscribe`/`__aenter__`/`__aexit__` either return or raise `MqttError`), `asyncio.Queue`
(FIFO, blocked getters served oldest first), task cancellation as in CPython, strict UTF-8.
The except clauses of `_handle_incoming`, `_connect`, `_disconnect`, `_publish` and `_subscribe` and the
five partial topics are read from the generated tables, so every theorem below is re-checked against
the code's clauses on each run.
-/
import AioMySensors.Properties.C01
import AioMySensors.Lemmas.Mqtt
import AioMySensors.Lemmas.MqttObject

namespace AioMySensors.C18
open AioMySensors AioMySensors.Mqtt

/-- `node/child/command/ack/type` of a message, each number as `str(int)` prints it. -/
def levels (m : Msg) : Str :=
  joinWith '/' [dec m.node, dec m.child, dec m.cmd, dec m.ack, dec m.type]

/-- `<prefix>/node/child/command/ack/type`. -/
def topicOf (pre : Str) (m : Msg) : Str := pre ++ '/' :: levels m

theorem delimiter_eq : Gen.delimiter = ';' := by decide

/-- `topicOf` spelled out: `pre/node/child/command/ack/type`. -/
theorem topicOf_eq (pre : Str) (m : Msg) :
    topicOf pre m = pre ++ "/".toList ++ dec m.node ++ "/".toList ++ dec m.child ++ "/".toList ++ dec m.cmd ++
      "/".toList ++ dec m.ack ++ "/".toList ++ dec m.type := by
  have : "/".toList = ['/'] := by decide
  simp [topicOf, levels, joinWith, this]

/-! ### Writing -/

/-- **Publish mapping.** Writing the encoded line of a well-formed message publishes the payload to
`<out-prefix>/node/child/command/ack/type` with qos equal to the ack flag — for every prefix (with or
without `/` inside) and every payload (`;` and `/` included). -/
theorem write_topic (pre : Str) (m : Msg) (h : C01.WF m) :
    toTopic pre (encode m) = some (topicOf pre m, m.payload, m.ack) := by
  obtain ⟨_, _, _, _, _, _, hack, _, _⟩ := h.fields
  have hack' : 0 ≤ m.ack ∧ m.ack ≤ 255 := by omega
  have hd := delimiter_eq
  have hnm : ∀ n : Int, ';' ∉ dec n := fun n => hd ▸ delimiter_not_mem_dec n
  simp only [toTopic, C01.rstrip_encode m h.stripped, hd]
  rw [splitN_field _ _ _ _ (hnm _), splitN_field _ _ _ _ (hnm _), splitN_field _ _ _ _ (hnm _),
    splitN_field _ _ _ _ (hnm _), splitN_field _ _ _ _ (hnm _), splitN_zero]
  simp only [pyInt?_dec _ (C01.small_digits hack'.1 hack'.2), topicOf, levels]

/-- The whole `write`: with a broker that accepts the publish or fails with `MqttError`, the outcome is
the publish above or `TransportFailedError` — never a `ValueError`. -/
theorem write_outcome (pre : Str) (m : Msg) (h : C01.WF m) (pub : Outcome)
    (hp : pub = .ok ∨ pub = .raised .MqttError) :
    write pre (encode m) pub = .ok (topicOf pre m, m.payload, m.ack) ∨
    write pre (encode m) pub = .error .transportFailed := by
  have hc : pyCaught .MqttError (clause Gen.excMqttPublish 0) = true := by decide
  rcases hp with rfl | rfl
  · left; simp [write, write_topic pre m h, convert]
  · right; simp [write, write_topic pre m h, convert, hc]

/-! ### Reading back -/

/-- **Echo.** A message published under the in-prefix on the topic `write` would use is read back as
the encoded line without its newline, whatever the prefix. -/
theorem echo_round_trip (pre : Str) (m : Msg) (h : C01.WF m) :
    toLine (topicOf pre m) m.payload = rstrip (encode m) := by
  have hlev : splitOn '/' (levels m) = [dec m.node, dec m.child, dec m.cmd, dec m.ack, dec m.type] :=
    splitOn_joinWith '/' _ _ (by
      intro g hg
      simp at hg
      rcases hg with rfl | rfl | rfl | rfl | rfl <;> exact slash_not_mem_dec _)
  simp only [toLine, topicOf, splitOn_append_sep, hlev]
  rw [lastN_append_of_length 5 _ _ rfl, C01.rstrip_encode m h.stripped, delimiter_eq]
  simp [joinWith]

/-- Hence the echoed line decodes to the message that was sent, payloads containing `;` included. -/
theorem echo_decodes (v : Ver) (pre : Str) (m : Msg) (h : C01.WF m) :
    decode v (toLine (topicOf pre m) m.payload) = some m := by
  have : decode v (rstrip (encode m)) = decode v (encode m) := by
    simp only [decode, rstrip, dropTrailing_idem]
  rw [echo_round_trip pre m h, this, C01.decode_encode v m h]

/-- End to end: what `write` publishes under one prefix, echoed by the broker under another, reads back
as a line that decodes to the same message. -/
theorem write_echo_decodes (v : Ver) (outPre inPre : Str) (m : Msg) (h : C01.WF m) :
    ∃ topic payload qos, toTopic outPre (encode m) = some (outPre ++ topic, payload, qos) ∧
      decode v (toLine (inPre ++ topic) payload) = some m :=
  ⟨'/' :: levels m, m.payload, m.ack, write_topic outPre m h, echo_decodes v inPre m h⟩

/-- Topics with fewer than five levels are not rejected: all levels are used. -/
theorem toLine_short (topic payload : Str) (h : (splitOn '/' topic).length ≤ 5) :
    toLine topic payload = joinWith ';' (splitOn '/' topic ++ [payload]) := by
  simp [toLine, lastN, Nat.sub_eq_zero_of_le h]

/-! ### Subscriptions -/

/-- The filters `connect` subscribes to, spelled out, with the qos the code computes (always 0: the
level it reads is the `+` at the ack position). -/
theorem connect_subscriptions (pre : Str) :
    subscriptions pre =
      [(pre ++ "/+/+/0/+/+".toList, some 0), (pre ++ "/+/+/1/+/+".toList, some 0),
       (pre ++ "/+/+/2/+/+".toList, some 0), (pre ++ "/+/+/3/+/+".toList, some 0),
       (pre ++ "/+/+/4/+/+".toList, some 0)] := by
  have key : ∀ k : Char, k ≠ '/' →
      subQos (pre ++ '/' :: joinWith '/' [['+'], ['+'], [k], ['+'], ['+']]) = some 0 := by
    intro k hk
    have hs : splitOn '/' (joinWith '/' [['+'], ['+'], [k], ['+'], ['+']]) = [['+'], ['+'], [k], ['+'], ['+']] :=
      splitOn_joinWith '/' _ _ (by
        intro g hg
        simp at hg
        rcases hg with rfl | rfl | rfl | rfl | rfl <;> simp [Ne.symm hk])
    have hsl : ∀ xs : List Str, secondLast (xs ++ [['+'], ['+'], [k], ['+'], ['+']]) = some ['+'] := by
      intro xs
      simp [secondLast, List.reverse_append]
    have hplus : pyInt? ['+'] = none := by decide
    simp only [subQos, splitOn_append_sep, hs, hsl, hplus]
  have h0 := key '0' (by decide)
  have h1 := key '1' (by decide)
  have h2 := key '2' (by decide)
  have h3 := key '3' (by decide)
  have h4 := key '4' (by decide)
  simp only [joinWith] at h0 h1 h2 h3 h4
  simp [subscriptions, filters, Gen.mqttPartialTopics] 
  exact ⟨h0, h1, h2, h3, h4⟩

/-- The five filters and a topic `pre/ln/lc/lk/la/lt`: some filter matches iff the command level is one
of `0`..`4`. -/
theorem subscribed_iff (pre ln lc lk la lt : Str)
    (hn : '/' ∉ ln) (hc : '/' ∉ lc) (hk : '/' ∉ lk) (ha : '/' ∉ la) (ht : '/' ∉ lt) :
    (∃ f ∈ filters pre, matchesFilter f (pre ++ '/' :: joinWith '/' [ln, lc, lk, la, lt]) = true) ↔
      lk ∈ [['0'], ['1'], ['2'], ['3'], ['4']] := by
  have m := fun (k : Char) (hk' : '/' ∉ [k]) => matches_partial pre [k] ln lc lk la lt hk' hn hc hk ha ht
  have m0 := m '0' (by decide)
  have m1 := m '1' (by decide)
  have m2 := m '2' (by decide)
  have m3 := m '3' (by decide)
  have m4 := m '4' (by decide)
  have t0 : "/+/+/0/+/+".toList = '/' :: joinWith '/' [['+'], ['+'], ['0'], ['+'], ['+']] := by decide
  have t1 : "/+/+/1/+/+".toList = '/' :: joinWith '/' [['+'], ['+'], ['1'], ['+'], ['+']] := by decide
  have t2 : "/+/+/2/+/+".toList = '/' :: joinWith '/' [['+'], ['+'], ['2'], ['+'], ['+']] := by decide
  have t3 : "/+/+/3/+/+".toList = '/' :: joinWith '/' [['+'], ['+'], ['3'], ['+'], ['+']] := by decide
  have t4 : "/+/+/4/+/+".toList = '/' :: joinWith '/' [['+'], ['+'], ['4'], ['+'], ['+']] := by decide
  have e : filters pre = [pre ++ "/+/+/0/+/+".toList, pre ++ "/+/+/1/+/+".toList, pre ++ "/+/+/2/+/+".toList,
      pre ++ "/+/+/3/+/+".toList, pre ++ "/+/+/4/+/+".toList] := by
    simp [filters, Gen.mqttPartialTopics]
  rw [e, t0, t1, t2, t3, t4]
  simp only [List.mem_cons, List.not_mem_nil, or_false, exists_eq_or_imp, exists_eq_left, m0, m1, m2, m3, m4]
  have hne : ∀ a : Char, a ≠ '+' → (([a] : Str) == ['+']) = false := by
    intro a ha; simp [ha]
  have heq : ∀ a : Char, ((([a] : Str) == lk) = true) = (lk = [a]) := by
    intro a; rw [beq_iff_eq]; exact propext ⟨Eq.symm, Eq.symm⟩
  simp only [hne '0' (by decide), hne '1' (by decide), hne '2' (by decide), hne '3' (by decide),
    hne '4' (by decide), Bool.false_or, heq]

/-- **Subscribed.** Every broker message on `<in-prefix>/node/child/command/ack/type` with command 0-4
matches one of the subscriptions (whatever the prefix and the other levels are). -/
theorem subscribed (pre ln la lc lt : Str) (cmd : Int) (h0 : 0 ≤ cmd) (h4 : cmd ≤ 4)
    (hn : '/' ∉ ln) (hc : '/' ∉ lc) (ha : '/' ∉ la) (ht : '/' ∉ lt) :
    ∃ f ∈ filters pre, matchesFilter f (pre ++ '/' :: joinWith '/' [ln, lc, dec cmd, la, lt]) = true := by
  rw [subscribed_iff pre ln lc (dec cmd) la lt hn hc (slash_not_mem_dec cmd) ha ht]
  have : cmd = 0 ∨ cmd = 1 ∨ cmd = 2 ∨ cmd = 3 ∨ cmd = 4 := by omega
  rcases this with rfl | rfl | rfl | rfl | rfl <;> decide

/-- …and a topic whose command is outside 0-4 matches none of them. -/
theorem not_subscribed (pre ln la lc lt : Str) (cmd : Int) (hcmd : cmd < 0 ∨ 4 < cmd)
    (hn : '/' ∉ ln) (hc : '/' ∉ lc) (ha : '/' ∉ la) (ht : '/' ∉ lt) :
    ∀ f ∈ filters pre, matchesFilter f (pre ++ '/' :: joinWith '/' [ln, lc, dec cmd, la, lt]) = false := by
  intro f hf
  cases hm : matchesFilter f (pre ++ '/' :: joinWith '/' [ln, lc, dec cmd, la, lt]) with
  | false => rfl
  | true =>
    have := (subscribed_iff pre ln lc (dec cmd) la lt hn hc (slash_not_mem_dec cmd) ha ht).mp ⟨f, hf, hm⟩
    simp only [List.mem_cons, List.not_mem_nil, or_false] at this
    have d0 : dec 0 = ['0'] := by decide
    have d1 : dec 1 = ['1'] := by decide
    have d2 : dec 2 = ['2'] := by decide
    have d3 : dec 3 = ['3'] := by decide
    have d4 : dec 4 = ['4'] := by decide
    rcases this with e | e | e | e | e
    · have := dec_injective (e.trans d0.symm); omega
    · have := dec_injective (e.trans d1.symm); omega
    · have := dec_injective (e.trans d2.symm); omega
    · have := dec_injective (e.trans d3.symm); omega
    · have := dec_injective (e.trans d4.symm); omega

/-- The subscription form of the statement for messages: the topic of every message with command 0-4
is matched under the in-prefix. -/
theorem subscribed_msg (pre : Str) (m : Msg) (h0 : 0 ≤ m.cmd) (h4 : m.cmd ≤ 4) :
    ∃ f ∈ filters pre, matchesFilter f (topicOf pre m) = true :=
  subscribed pre _ _ _ _ m.cmd h0 h4 (slash_not_mem_dec _) (slash_not_mem_dec _) (slash_not_mem_dec _)
    (slash_not_mem_dec _)

/-! ### The prefixes as configured

The gateway device publishes under exactly the configured in-prefix and listens under exactly the configured
out-prefix.  `subscribed` and `write_topic` hold for every prefix, so they hold for the configured one; the theorems
below say that no other text will do: a transport that subscribes / publishes under anything else than the configured
prefix - the same text without a leading or trailing `/`, with a doubled `/` collapsed, stripped of blanks, in another
case - hears none of the device's messages and publishes where the device does not listen. -/

/-- **Heard only under the subscribed prefix.** If one of the subscriptions made under `p` (no level of `p` is the
wildcard `+`, as in every legal topic name) matches a message published on `q/node/child/command/ack/type`, then `p` and
`q` are the same text, level by level, zero-length levels included. -/
theorem heard_only_under_subscribed_prefix (p q ln lc lk la lt : Str) (hp : ['+'] ∉ splitOn '/' p)
    (hn : '/' ∉ ln) (hc : '/' ∉ lc) (hk : '/' ∉ lk) (ha : '/' ∉ la) (ht : '/' ∉ lt)
    (h : ∃ f ∈ filters p, matchesFilter f (q ++ '/' :: joinWith '/' [ln, lc, lk, la, lt]) = true) : p = q := by
  obtain ⟨f, hf, hm⟩ := h
  have key : ∀ k : Char, k ≠ '/' →
      matchesFilter (p ++ '/' :: joinWith '/' [['+'], ['+'], [k], ['+'], ['+']])
        (q ++ '/' :: joinWith '/' [ln, lc, lk, la, lt]) = true → p = q := by
    intro k hk' hm
    simp only [matchesFilter, splitOn_prefix_partial] at hm
    rw [splitOn_joinWith '/' _ _ (by
          intro g hg
          simp at hg
          rcases hg with rfl | rfl | rfl | rfl | rfl <;> simp [Ne.symm hk']),
      splitOn_joinWith '/' _ _ (by intro g hg; simp at hg; rcases hg with rfl | rfl | rfl | rfl | rfl <;> assumption)] at hm
    have hlen := levelsMatch_length _ _ hm
    simp only [List.length_append, List.length_cons, List.length_nil] at hlen
    exact splitOn_injective '/' p q (levelsMatch_literal _ _ _ _ hp (by omega) hm).1
  have t0 : "/+/+/0/+/+".toList = '/' :: joinWith '/' [['+'], ['+'], ['0'], ['+'], ['+']] := by decide
  have t1 : "/+/+/1/+/+".toList = '/' :: joinWith '/' [['+'], ['+'], ['1'], ['+'], ['+']] := by decide
  have t2 : "/+/+/2/+/+".toList = '/' :: joinWith '/' [['+'], ['+'], ['2'], ['+'], ['+']] := by decide
  have t3 : "/+/+/3/+/+".toList = '/' :: joinWith '/' [['+'], ['+'], ['3'], ['+'], ['+']] := by decide
  have t4 : "/+/+/4/+/+".toList = '/' :: joinWith '/' [['+'], ['+'], ['4'], ['+'], ['+']] := by decide
  have e : filters p = [p ++ "/+/+/0/+/+".toList, p ++ "/+/+/1/+/+".toList, p ++ "/+/+/2/+/+".toList,
      p ++ "/+/+/3/+/+".toList, p ++ "/+/+/4/+/+".toList] := by
    simp [filters, Gen.mqttPartialTopics]
  rw [e, t0, t1, t2, t3, t4] at hf
  simp only [List.mem_cons, List.not_mem_nil, or_false] at hf
  rcases hf with rfl | rfl | rfl | rfl | rfl
  · exact key '0' (by decide) hm
  · exact key '1' (by decide) hm
  · exact key '2' (by decide) hm
  · exact key '3' (by decide) hm
  · exact key '4' (by decide) hm

/-- **An altered prefix is deaf.** A transport whose subscriptions are made under `stored` while the gateway device
publishes under `configured ≠ stored` receives none of the device's messages, whatever the command. -/
theorem altered_in_prefix_is_deaf (stored configured : Str) (hne : stored ≠ configured)
    (hp : ['+'] ∉ splitOn '/' stored) (m : Msg) :
    ∀ f ∈ filters stored, matchesFilter f (topicOf configured m) = false := by
  intro f hf
  cases hm : matchesFilter f (topicOf configured m) with
  | false => rfl
  | true =>
    exact absurd (heard_only_under_subscribed_prefix stored configured _ _ _ _ _ hp (slash_not_mem_dec _)
      (slash_not_mem_dec _) (slash_not_mem_dec _) (slash_not_mem_dec _) (slash_not_mem_dec _) ⟨f, hf, hm⟩) hne

/-- Every message with command 0-4 is heard **iff** the subscriptions are made under the configured in-prefix itself. -/
theorem hears_configured_iff (stored configured : Str) (hp : ['+'] ∉ splitOn '/' stored) (m : Msg)
    (h0 : 0 ≤ m.cmd) (h4 : m.cmd ≤ 4) :
    (∃ f ∈ filters stored, matchesFilter f (topicOf configured m) = true) ↔ stored = configured := by
  constructor
  · intro h
    exact heard_only_under_subscribed_prefix stored configured _ _ _ _ _ hp (slash_not_mem_dec _)
      (slash_not_mem_dec _) (slash_not_mem_dec _) (slash_not_mem_dec _) (slash_not_mem_dec _) h
  · rintro rfl
    exact subscribed_msg stored m h0 h4

/-- **An altered out-prefix publishes elsewhere.** The topic of a write determines the prefix it was built from: the
publish lands on `<configured out-prefix>/node/child/command/ack/type` only if the transport uses the configured text. -/
theorem write_topic_determines_prefix (stored configured : Str) (m : Msg) (h : C01.WF m)
    (he : (toTopic stored (encode m)).map (·.1) = some (topicOf configured m)) : stored = configured := by
  rw [write_topic stored m h] at he
  simp only [Option.map_some, Option.some.injEq, topicOf] at he
  exact List.append_cancel_right he

/-- A prefix is determined by its levels: dropping a leading or trailing divider, or collapsing a doubled one, gives
another prefix (hence, by the theorems above, other subscriptions and another publish topic). -/
theorem leading_divider_matters (p : Str) : '/' :: p ≠ p := by
  intro h; have := congrArg List.length h; simp at this

theorem trailing_divider_matters (p : Str) : p ++ ['/'] ≠ p := by
  intro h; have := congrArg List.length h; simp at this

/-! ### The queue: arrival order, exactly once -/

/-- **FIFO, exactly once.** For every interleaving of arrivals (messages and errors) and reads: what
has been handed out followed by what is still queued is exactly the arrival sequence (nothing lost,
nothing repeated, order kept); the number of results handed out is `min reads arrivals`; the other
reads are blocked. -/
theorem fifo_exactly_once (ops : List QOp) :
    (qRun {} ops).delivered ++ (qRun {} ops).queue = arrivalsOf ops ∧
    (qRun {} ops).delivered.length = min (readsOf ops) (arrivalsOf ops).length ∧
    (qRun {} ops).waiting = readsOf ops - (arrivalsOf ops).length := by
  have h := qRun_inv QInv.init ops
  simp only [List.nil_append, Nat.zero_add] at h
  exact ⟨h.all, h.delivered_length.1, h.delivered_length.2⟩

/-- The k-th read returns the k-th arrival (as soon as both exist). -/
theorem kth_read (ops : List QOp) (k : Nat) (hr : k < readsOf ops) (ha : k < (arrivalsOf ops).length) :
    (qRun {} ops).delivered[k]? = (arrivalsOf ops)[k]? := by
  obtain ⟨h1, h2, _⟩ := fifo_exactly_once ops
  have hk : k < (qRun {} ops).delivered.length := by omega
  rw [← h1, List.getElem?_append_left hk]

/-- A result handed out stays what it was, whatever happens later. -/
theorem read_results_stable (ops more : List QOp) :
    (qRun {} ops).delivered <+: (qRun {} (ops ++ more)).delivered := by
  have : qRun {} (ops ++ more) = qRun (qRun {} ops) more := by simp [qRun, List.foldl_append]
  rw [this]
  exact qRun_delivered_prefix _ _

/-! ### The receive task with reads: never silently deaf -/

/-- **Reads see everything the receive task queued**, in order, each once, for every interleaving of
broker events and reads, from any initial task state. -/
theorem transport_fifo (t0 : TaskState) (ops : List TOp) :
    let s := tRun { task := t0 } ops
    let arrivals := (taskRun t0 (eventsOf ops)).2
    s.q.delivered ++ s.q.queue = arrivals ∧
    s.q.delivered.length = min (treadsOf ops) arrivals.length ∧
    s.task = (taskRun t0 (eventsOf ops)).1 := by
  have h := tRun_inv (s := { task := t0 }) QInv.init ops
  simp only [List.nil_append, Nat.zero_add] at h
  exact ⟨h.1.all, h.1.delivered_length.1, h.2⟩

/-- **The code's except clauses** (generated `Gen.excMqttIncoming`): the inner clause of
`_handle_incoming` catches the decode error, the outer one catches `MqttError` and lets cancellation
through.  Everything below about the receive task rests on this fact. -/
theorem incoming_clauses : Clauses := ⟨by decide, by decide, by decide⟩

/-- **Every broker message is answered by exactly one queue entry and the task keeps listening**: a
decodable payload gives its line, an undecodable one gives an error (`itemOf`). -/
theorem messages_all_queued (t0 : TaskState) (h0 : Alive t0) (ms : List (Str × List Nat)) :
    Alive (taskRun t0 (ms.map fun m => .message m.1 m.2)).1 ∧
    (taskRun t0 (ms.map fun m => .message m.1 m.2)).2 = ms.map itemOf :=
  taskRun_messages incoming_clauses h0 ms

/-- **Never deaf (undecodable payload).** An undecodable payload between any messages puts an error in
its place in the queue, and all later messages are still delivered. -/
theorem never_deaf (t0 : TaskState) (h0 : Alive t0) (before after : List (Str × List Nat)) (topic : Str)
    (bad : List Nat) (hbad : utf8Decode bad = none) :
    (taskRun t0 ((before ++ (topic, bad) :: after).map fun m => .message m.1 m.2)).2 =
      before.map itemOf ++ Item.err :: after.map itemOf ∧
    Alive (taskRun t0 ((before ++ (topic, bad) :: after).map fun m => .message m.1 m.2)).1 := by
  obtain ⟨h1, h2⟩ := taskRun_messages incoming_clauses h0 (before ++ (topic, bad) :: after)
  refine ⟨?_, h1⟩
  rw [h2]
  simp [itemOf, hbad]

/-- **Never deaf (broker error).** An `MqttError` from the message iterator is queued as an error
after everything received before it; reception then ends (the task returns), but not silently. -/
theorem never_deaf_mqtt_error (t0 : TaskState) (h0 : Alive t0) (before : List (Str × List Nat))
    (rest : List Evt) :
    taskRun t0 ((before.map fun m => .message m.1 m.2) ++ .mqttError :: rest) =
      (.finished .ok, before.map itemOf ++ [Item.err]) := by
  obtain ⟨h1, h2⟩ := taskRun_messages incoming_clauses h0 before
  rw [taskRun_append, h2]
  have hstep : ∀ t, Alive t → taskRun t (.mqttError :: rest) = (.finished .ok, [Item.err]) := by
    intro t ht
    rcases ht with rfl | rfl <;>
      simp [taskRun, taskStep, raiseInLoop, incoming_clauses.outer_mqtt, taskRun_finished]
  rw [hstep _ h1]

/-- In the property's words, with the reads: a bad payload, then a good one, and two reads in any
interleaving — the first read raises the transport error, the second returns the good line. -/
theorem never_deaf_reads (ops : List TOp) (t1 t2 : Str) (bad good : List Nat) (s : Str)
    (hbad : utf8Decode bad = none) (hgood : utf8Decode good = some s)
    (hev : eventsOf ops = [.message t1 bad, .message t2 good]) (hr : treadsOf ops = 2) :
    ((tRun {} ops).q.delivered.map readResult) = [.transportFailed, .line (toLine t2 s)] := by
  obtain ⟨h1, h2, _⟩ := transport_fifo .waiting ops
  have harr : (taskRun .waiting (eventsOf ops)).2 = [Item.err, Item.msg (toLine t2 s)] := by
    have := (taskRun_messages incoming_clauses (t := .waiting) (Or.inl rfl) [(t1, bad), (t2, good)]).2
    simpa [hev, itemOf, hbad, hgood] using this
  simp only [harr, hr] at h1 h2
  have hq : (tRun { task := .waiting } ops).q.queue = [] := by
    have hl := congrArg List.length h1
    simp at hl h2
    exact List.eq_nil_of_length_eq_zero (by omega)
  rw [hq, List.append_nil] at h1
  have : (tRun {} ops) = tRun { task := .waiting } ops := rfl
  rw [this, h1]
  rfl

/-! ### connect / disconnect -/

/-- With a client that connects and subscribes or fails with `MqttError`, `connect` succeeds or raises
`TransportError`. -/
theorem connect_outcome (aenter : Outcome) (subs : List Outcome)
    (ha : aenter = .ok ∨ aenter = .raised .MqttError)
    (hs : ∀ o ∈ subs, o = .ok ∨ o = .raised .MqttError) :
    connect aenter subs = .ok .waiting ∨ connect aenter subs = .error .transportError := by
  have hc : pyCaught .MqttError (clause Gen.excMqttConnect 0) = true := by decide
  have hsub : pyCaught .MqttError (clause Gen.excMqttSubscribe 0) = true := by decide
  rcases ha with rfl | rfl
  · have : (subs.mapM (convert (clause Gen.excMqttSubscribe 0) MqttExn.transportError)
        = .error .transportError) ∨ ∃ l, subs.mapM (convert (clause Gen.excMqttSubscribe 0) MqttExn.transportError) = .ok l := by
      induction subs with
      | nil => right; exact ⟨[], rfl⟩
      | cons o os ih =>
        rcases hs o (by simp) with rfl | rfl
        · rcases ih (fun x hx => hs x (by simp [hx])) with h | ⟨l, h⟩
          · left; simp [List.mapM_cons, convert, h, bind, Except.bind]
          · right; exact ⟨() :: l, by simp [List.mapM_cons, convert, h, bind, Except.bind, pure, Except.pure]⟩
        · left; simp [List.mapM_cons, convert, hsub, bind, Except.bind]
    rcases this with h | ⟨l, h⟩
    · right; simp [connect, convert, h]
    · left; simp [connect, convert, h]
  · right; simp [connect, convert, hc]

/-- **connect then disconnect completes without raising**, at any point of the receive task: not yet
run, waiting for a message, after any number of messages (decodable or not), after an `MqttError`
ended it — whether the client closes cleanly or `__aexit__` raises `MqttError`. -/
theorem disconnect_clean (t0 : TaskState) (h0 : Alive t0) (es : List Evt) (aexit : Outcome)
    (ha : aexit = .ok ∨ aexit = .raised .MqttError) :
    disconnect (taskRun t0 es).1 aexit = .ok := by
  have hr : Reach t0 := by rcases h0 with rfl | rfl <;> simp [Reach]
  rcases taskRun_reach incoming_clauses hr es with h | h | h | h <;> rw [h] <;> rcases ha with rfl | rfl <;> decide

/-- The task `connect` creates is alive, so `disconnect_clean` applies to it. -/
theorem connect_then_disconnect (pre : Str) (t : TaskState) (es : List Evt)
    (hc : connect .ok ((subscriptions pre).map fun _ => .ok) = .ok t) :
    disconnect (taskRun t es).1 .ok = .ok := by
  have : t = .waiting := by
    rw [connect_subscriptions] at hc
    simp [connect, convert, List.mapM_cons, bind, Except.bind, pure, Except.pure] at hc
    exact hc.symm
  exact disconnect_clean t (Or.inl this) es .ok (Or.inl rfl)

/-! ### connect when a hook fails with an exception of ANY class

The hooks `_connect` / `_subscribe` / `_disconnect` are an extension point, and aiomqtt sits on sockets and
time-outs: what they raise is not limited to `MqttError` / `TransportError`.  The outcomes below range over
every exception class of the vocabulary (`Outcome.raised c`, any `c`). -/

theorem firstRaised_none_iff (os : List Outcome) : firstRaised os = none ↔ ∀ o ∈ os, o = .ok := by
  induction os with
  | nil => simp [firstRaised]
  | cons o os ih =>
    cases o with
    | ok => simp [firstRaised, ih]
    | raised c => simp [firstRaised]

/-- **`connect()` reports success exactly when `_connect` and every one of the `_subscribe` calls
returned** — a subscription that fails with an exception of any class, at any position, makes the call
raise; nothing is dropped. -/
theorem hook_connect_ok_iff (pre : Str) (c d : Outcome) (sub : Str → Outcome) :
    (hookConnect pre c sub d).result = .ok ↔ c = .ok ∧ ∀ f ∈ filters pre, sub f = .ok := by
  cases c with
  | raised e => simp [hookConnect]
  | ok =>
    cases h : firstRaised ((filters pre).map sub) with
    | none =>
      have h' := (firstRaised_none_iff _).mp h
      simp only [hookConnect, h, true_and]
      constructor
      · intro _ f hf
        exact h' (sub f) (List.mem_map.mpr ⟨f, hf, rfl⟩)
      · intro _; trivial
    | some e =>
      have hn : ¬ ∀ o ∈ (filters pre).map sub, o = .ok := by
        rw [← firstRaised_none_iff, h]; simp
      simp only [hookConnect, h, true_and]
      constructor
      · intro hr; cases d <;> simp at hr
      · intro hall
        exact absurd (fun o ho => by
          obtain ⟨f, hf, rfl⟩ := List.mem_map.mp ho
          exact hall f hf) hn

/-- **Never silently deaf after a reported success**: when `connect()` returns, every broker message on
`<in-prefix>/node/child/command/ack/type` with command 0-4 matches a subscription that is in place
(its `_subscribe` call returned) — whatever any hook raised, of whatever class. -/
theorem connected_hears_every_command (pre : Str) (c d : Outcome) (sub : Str → Outcome)
    (hok : (hookConnect pre c sub d).result = .ok) (m : Msg) (h0 : 0 ≤ m.cmd) (h4 : m.cmd ≤ 4) :
    ∃ f ∈ (hookConnect pre c sub d).inPlace, matchesFilter f (topicOf pre m) = true := by
  obtain ⟨hc, hall⟩ := (hook_connect_ok_iff pre c d sub).mp hok
  subst hc
  have hfr : firstRaised ((filters pre).map sub) = none :=
    (firstRaised_none_iff _).mpr (fun o ho => by
      obtain ⟨f, hf, rfl⟩ := List.mem_map.mp ho
      exact hall f hf)
  obtain ⟨f, hf, hm⟩ := subscribed_msg pre m h0 h4
  refine ⟨f, ?_, hm⟩
  simp only [hookConnect, hfr]
  exact List.mem_filter.mpr ⟨hf, by simp [hall f hf]⟩

/-- **A failed `connect()` leaves no half-open connection**: once `_connect` returned, a call that raises
has awaited `_disconnect`, and no subscription is left in place. -/
theorem failed_connect_not_half_open (pre : Str) (d : Outcome) (sub : Str → Outcome)
    (hf : (hookConnect pre .ok sub d).result ≠ .ok) :
    (hookConnect pre .ok sub d).cleanedUp = true ∧ (hookConnect pre .ok sub d).inPlace = [] := by
  cases h : firstRaised ((filters pre).map sub) with
  | none => simp [hookConnect, h] at hf
  | some e => simp [hookConnect, h]

/-- A `_subscribe` call failing with ANY class `e` for ANY of the filters makes `connect()` raise. -/
theorem failed_subscribe_raises (pre : Str) (d : Outcome) (sub : Str → Outcome) (f : Str)
    (hf : f ∈ filters pre) (e : PyExn) (he : sub f = .raised e) :
    ∃ e', (hookConnect pre .ok sub d).result = .raised e' := by
  cases hr : (hookConnect pre .ok sub d).result with
  | ok =>
    have := ((hook_connect_ok_iff pre .ok d sub).mp hr).2 f hf
    rw [he] at this; cases this
  | raised e' => exact ⟨e', rfl⟩

theorem convert_ok_iff (cls : List PyExn) (e : MqttExn) (x : Outcome) : convert cls e x = .ok () ↔ x = .ok := by
  cases x with
  | ok => simp [convert]
  | raised c => simp only [convert]; split <;> simp

theorem mapM_convert_ok_iff (cls : List PyExn) (e : MqttExn) (subs : List Outcome) :
    (∃ l, subs.mapM (convert cls e) = .ok l) ↔ ∀ o ∈ subs, o = .ok := by
  induction subs with
  | nil => simp [pure, Except.pure]
  | cons o os ih =>
    cases o with
    | ok =>
      simp only [List.mapM_cons, convert, bind, Except.bind, pure, Except.pure, List.mem_cons, forall_eq_or_imp, true_and]
      rw [← ih]
      cases os.mapM (convert cls e) <;> simp
    | raised c =>
      cases hp : pyCaught c cls <;>
        simp [List.mapM_cons, convert, bind, Except.bind, hp]

/-- The same for `MQTTClient` on aiomqtt: `connect` hands over a receive task exactly when `__aenter__` and
all `subscribe` calls returned; an exception of any class out of any of them is an error of the call. -/
theorem connect_ok_iff (aenter : Outcome) (subs : List Outcome) :
    (∃ t, connect aenter subs = .ok t) ↔ aenter = .ok ∧ ∀ o ∈ subs, o = .ok := by
  rw [← mapM_convert_ok_iff (clause Gen.excMqttSubscribe 0) MqttExn.transportError subs]
  cases aenter with
  | raised c => cases hp : pyCaught c (clause Gen.excMqttConnect 0) <;> simp [connect, convert, hp]
  | ok =>
    simp only [connect, convert, true_and]
    cases subs.mapM (convert (clause Gen.excMqttSubscribe 0) MqttExn.transportError) <;> simp

/-! ### Non-vacuity -/

/-- The position message satisfies the hypothesis of the mapping theorems. -/
example : C01.WF ⟨1, 2, 1, 0, 49, "55.7;13.0;18".toList⟩ := ⟨by decide, by decide, by decide⟩

/-- Prefix `a/b/c`, a position payload with `;`. -/
example : toTopic "a/b/c".toList (encode ⟨1, 2, 1, 0, 49, "55.7;13.0;18".toList⟩) =
    some ("a/b/c/1/2/1/0/49".toList, "55.7;13.0;18".toList, 0) := by decide

example : toLine "a/b/c/1/2/1/0/49".toList "55.7;13.0;18".toList = "1;2;1;0;49;55.7;13.0;18".toList := by
  decide

example : decode .v22 (toLine (topicOf "a/b/c".toList ⟨1, 2, 1, 0, 49, "55.7;13.0;18".toList⟩) "55.7;13.0;18".toList)
    = some ⟨1, 2, 1, 0, 49, "55.7;13.0;18".toList⟩ := by decide

/-- ack 1 gives qos 1; payload with `/`. -/
example : toTopic "mygateway1-in".toList (encode ⟨7, 255, 3, 1, 9, "a/b".toList⟩) =
    some ("mygateway1-in/7/255/3/1/9".toList, "a/b".toList, 1) := by decide

/-- A short line is the `ValueError`. -/
example : toTopic "p".toList "1;2;1;0;49".toList = none := by decide

example : matchesFilter "a/b/c/+/+/1/+/+".toList "a/b/c/1/2/1/0/49".toList = true := by decide
example : matchesFilter "a/b/c/+/+/1/+/+".toList "a/b/c/1/2/5/0/49".toList = false := by decide
example : matchesFilter "a/+/+/1/+/+".toList "a/b/c/1/2/1/0/49".toList = false := by decide
/-- Zero-length levels are levels: a prefix with a leading / trailing / doubled divider and the same text without it. -/
example : matchesFilter "/gw/+/+/1/+/+".toList "/gw/1/2/1/0/49".toList = true := by decide
example : matchesFilter "gw/+/+/1/+/+".toList "/gw/1/2/1/0/49".toList = false := by decide
example : matchesFilter "gw/+/+/1/+/+".toList "gw//1/2/1/0/49".toList = false := by decide
example : matchesFilter "site/gw/+/+/1/+/+".toList "site//gw/1/2/1/0/49".toList = false := by decide
example : (filters "/gw/".toList).any (fun f => matchesFilter f "/gw//1/2/3/0/11".toList) = true := by decide
example : (filters "gw".toList).any (fun f => matchesFilter f "/gw//1/2/3/0/11".toList) = false := by decide
example : (filters "".toList).any (fun f => matchesFilter f "/1/2/3/0/11".toList) = true := by decide
example : toTopic "/gw/".toList (encode ⟨1, 2, 1, 0, 49, "x".toList⟩) = some ("/gw//1/2/1/0/49".toList, "x".toList, 0) := by
  decide
example : ['+'] ∉ splitOn '/' "/site//gw/".toList := by decide

/-- A binary payload is undecodable; the next message still arrives. -/
example : utf8Decode [0xff, 0xfe] = none := by decide

example : (taskRun .waiting [.message "p/1/2/1/0/2".toList [0xff, 0xfe], .message "p/1/2/1/0/2".toList [0x6f, 0x6e]]) =
    (.waiting, [.err, .msg "1;2;1;0;2;on".toList]) := by decide

example : (tRun {} [.read, .broker (.message "p/1/2/1/0/2".toList [0xff, 0xfe]), .broker .mqttError,
    .broker (.message "p/1/2/1/0/2".toList [0x6f]), .read, .read]).q =
    { queue := [], waiting := 1, delivered := [.err, .err] } := by decide

example : disconnect .waiting (.raised .MqttError) = .ok := by decide
example : disconnect (taskRun .waiting [.mqttError]).1 .ok = .ok := by decide

/-- The subscribe call for command 1 times out (an `OSError` subclass, no library error): `connect()` raises it,
has awaited `_disconnect`, nothing is in place. -/
example : hookConnect "p".toList .ok (fun f => if f = "p/+/+/1/+/+".toList then .raised .OSError else .ok) .ok =
    ⟨.raised .OSError, [], true⟩ := by decide

/-- Two calls fail, the clean-up fails too: the caller sees the clean-up's exception. -/
example : hookConnect "p".toList .ok
    (fun f => if f = "p/+/+/3/+/+".toList then .raised .CancelledError
      else if f = "p/+/+/4/+/+".toList then .raised .KeyError else .ok) (.raised .RuntimeError) =
    ⟨.raised .RuntimeError, [], true⟩ := by decide

/-- Healthy hooks: all five filters in place (hypothesis of `connected_hears_every_command`). -/
example : (hookConnect "a/b".toList .ok (fun _ => .ok) .ok).result = .ok ∧
    (hookConnect "a/b".toList .ok (fun _ => .ok) .ok).inPlace.length = 5 := by decide

/-- `MQTTClient`: the third `subscribe` raises `ValueError` (paho) - the call raises it, unconverted. -/
example : connect .ok [.ok, .ok, .raised .ValueError, .ok, .ok] = .error (.foreign .ValueError) := by rfl

/-! ### The client object: connect, disconnect, connect again

`Model/MqttObject.lean`: one `MQTTClient` with its fields `_client`, `_incoming_task` and the receive
queue created in `__init__`, under any sequence of `connect` / `disconnect` / broker events / `read` /
`write` / `_subscribe` calls with any outcome of the aiomqtt calls involved.  The theorems above are
about the pieces; these are about the object that lives across connections. -/

/-- **The code's suppress clauses** of `_disconnect` (generated `Gen.excMqttDisconnect`): the first
absorbs the cancellation of the awaited task, the second `MqttError` from `__aexit__`. -/
theorem disconnect_clauses : DiscClauses := ⟨by decide, by decide⟩

/-- What aiomqtt's `__aenter__` / `__aexit__` / `subscribe` / `publish` do in the property's fault
model: return, or raise `MqttError`. -/
def Listed (o : Outcome) : Prop := o = .ok ∨ o = .raised .MqttError

/-- Every state any history reaches: a task only together with a client, and only in a state the
receive task can be in. -/
theorem object_invariant (ops : List OOp) : OInv (oRun {} ops) :=
  oRun_inv incoming_clauses disconnect_clauses OInv.init ops

/-- **One connection of the object is the transport of the theorems above**: while connected, broker
events and reads move the object's task and queue exactly as `tRun` does, so `transport_fifo`,
`never_deaf*` and `disconnect_clean` speak about every single connection of the object. -/
theorem session_is_transport (s : OState) (t : TaskState) (ht : s.task = some t) (body : List TOp) :
    oRun s (body.map liftTOp) =
      { client := s.client, task := some (tRun { task := t, q := s.q } body).task,
        q := (tRun { task := t, q := s.q } body).q } :=
  oRun_body s t ht body

/-- **`disconnect` does not raise, whatever came before** (any number of earlier connections, failed
connects, misuse, broker errors, undecodable payloads, reads pending or not): whenever the object holds
a receive task, `disconnect` returns — with `__aexit__` returning or raising `MqttError` — and leaves
neither client nor task, and the queue as it was. -/
theorem object_disconnect_clean (ops : List OOp) (aexit : Outcome) (ha : Listed aexit)
    (hconn : (oRun {} ops).task.isSome = true) :
    oStep (oRun {} ops) (.disconnect aexit) =
      ({ client := false, task := none, q := (oRun {} ops).q }, .done) := by
  exact oStep_disconnect_connected incoming_clauses disconnect_clauses (object_invariant ops) hconn ha

/-- **No task and no client after a successful `disconnect`** — from any state at all, so in particular
after every history. -/
theorem no_task_after_disconnect (s : OState) (aexit : Outcome)
    (h : (oStep s (.disconnect aexit)).2 = .done) :
    (oStep s (.disconnect aexit)).1.client = false ∧ (oStep s (.disconnect aexit)).1.task = none := by
  simp only [oStep] at h ⊢
  apply oDisconnect_ok
  cases hr : (oDisconnect s aexit).2 with
  | ok => rfl
  | raised c => simp [hr, ORes.ofOutcome] at h

/-- **Reconnect.** After any history that ends with a successful `disconnect` the object holds neither
client nor task, and `connect` does exactly what it does on a new object: the same result for every
outcome of `__aenter__`, the subscriptions and the clean-up, and the same client and task fields; the
queue is still the one from before. -/
theorem reconnect_ok (ops : List OOp) (aexit : Outcome)
    (hd : (oStep (oRun {} ops) (.disconnect aexit)).2 = .done) :
    let s := (oStep (oRun {} ops) (.disconnect aexit)).1
    s.client = false ∧ s.task = none ∧ s.q = (oRun {} ops).q ∧
    ∀ aenter subs ax,
      (oStep s (.connect aenter subs ax)).2 = (oStep {} (.connect aenter subs ax)).2 ∧
      (oStep s (.connect aenter subs ax)).1.client = (oStep {} (.connect aenter subs ax)).1.client ∧
      (oStep s (.connect aenter subs ax)).1.task = (oStep {} (.connect aenter subs ax)).1.task ∧
      (oStep s (.connect aenter subs ax)).1.q = (oRun {} ops).q := by
  intro s
  obtain ⟨hc, ht⟩ := no_task_after_disconnect _ aexit hd
  have hinv := object_invariant ops
  have hq : s.q = (oRun {} ops).q := (oStep_q_lifecycle incoming_clauses disconnect_clauses hinv).1 aexit
  have hinv' : OInv s := oStep_inv incoming_clauses disconnect_clauses hinv _
  refine ⟨hc, ht, hq, ?_⟩
  intro aenter subs ax
  obtain ⟨h1, h2, h3⟩ := oConnect_of_clean hc ht aenter subs ax
  refine ⟨?_, h2, h3, ?_⟩
  · exact congrArg ORes.ofUnit h1
  · rw [(oStep_q_lifecycle incoming_clauses disconnect_clauses hinv').2 aenter subs ax, hq]

/-- In particular: with a healthy broker the second (third, …) `connect` on the same object succeeds
and the receive task is listening again. -/
theorem reconnect_succeeds (ops : List OOp) (aexit : Outcome)
    (hd : (oStep (oRun {} ops) (.disconnect aexit)).2 = .done) (n : Nat) (ax : Outcome) :
    let s := (oStep (oRun {} ops) (.disconnect aexit)).1
    (oStep s (.connect .ok (List.replicate n .ok) ax)).2 = .done ∧
    (oStep s (.connect .ok (List.replicate n .ok) ax)).1.client = true ∧
    (oStep s (.connect .ok (List.replicate n .ok) ax)).1.task = some .waiting := by
  intro s
  obtain ⟨_, _, _, h⟩ := reconnect_ok ops aexit hd
  obtain ⟨h1, h2, h3, _⟩ := h .ok (List.replicate n .ok) ax
  have h0 : oStep {} (.connect .ok (List.replicate n .ok) ax) =
      ({ client := true, task := some .waiting, q := {} }, .done) := by
    simp [oStep, oConnect, connect_oks, ORes.ofUnit]
  rw [h0] at h1 h2 h3
  exact ⟨h1, h2, h3⟩

/-- **A failed `connect` leaves no task.**  From an object without client and task (the only states in
which `connect` gets past its guard) a `connect` that raises — at the broker connection, at a
subscription, or in the clean-up after a failed subscription — leaves `_incoming_task` unset, whatever
the aiomqtt calls raise. -/
theorem no_task_after_failed_connect (s : OState) (hs : Clean s) (aenter : Outcome) (subs : List Outcome)
    (ax : Outcome) (hf : (oStep s (.connect aenter subs ax)).2 ≠ .done) :
    (oStep s (.connect aenter subs ax)).1.task = none := by
  simp only [oStep] at hf ⊢
  rcases oConnect_clean incoming_clauses disconnect_clauses hs.1 hs.2 aenter subs ax with
    ⟨t, _, e⟩ | ⟨_, _, _, _, e⟩ | ⟨_, _, _, e⟩
  · rw [e] at hf; simp [ORes.ofUnit] at hf
  · rw [e]
  · rw [e]

/-- **A failed subscription leaves nothing behind** (fix dc58ea8): `__aenter__` succeeded, a
subscription did not, `__aexit__` in the clean-up returns or raises `MqttError` — the call raises what
the subscription raised (`TransportError` for `MqttError`), neither client nor task remains, the queue
is untouched, and the object can connect again. -/
theorem failed_subscription_leaves_nothing (s : OState) (hs : Clean s) (subs : List Outcome) (ax : Outcome)
    (hax : Listed ax) (e : MqttExn) (hfail : connect .ok subs = .error e) :
    oStep s (.connect .ok subs ax) = ({ client := false, task := none, q := s.q }, .raised e) := by
  have hcv : convert (clause Gen.excMqttConnect 0) MqttExn.transportError .ok = .ok () := rfl
  rcases oConnect_clean incoming_clauses disconnect_clauses hs.1 hs.2 .ok subs ax with
    ⟨t, h, _⟩ | ⟨_, _, _, h, _⟩ | ⟨e', h, _, hr⟩
  · rw [hfail] at h; cases h
  · rw [hcv] at h; cases h
  · rw [hfail] at h
    cases h
    simp only [oStep, hr, suppress_aexit disconnect_clauses hax]
    rfl

/-- **The object reports a successful `connect` exactly when it was free to connect and `__aenter__` and
every `subscribe` call returned** — for outcomes of any exception class, in any state of the object. -/
theorem object_connect_done_iff (s : OState) (aenter ax : Outcome) (subs : List Outcome) :
    (oStep s (.connect aenter subs ax)).2 = .done ↔
      Clean s ∧ aenter = .ok ∧ ∀ o ∈ subs, o = .ok := by
  simp only [oStep]
  by_cases hg : s.client = true ∨ s.task.isSome = true
  · rw [oConnect_guard hg]
    constructor
    · intro h; simp [ORes.ofUnit] at h
    · rintro ⟨⟨hc, ht⟩, _⟩
      rcases hg with h | h
      · rw [hc] at h; cases h
      · rw [ht] at h; cases h
  · have hc : s.client = false := by cases h : s.client <;> simp_all
    have ht : s.task = none := by cases h : s.task <;> simp_all
    rw [← connect_ok_iff]
    rcases oConnect_clean incoming_clauses disconnect_clauses hc ht aenter subs ax with
      ⟨t, h, e⟩ | ⟨e1, _, h, _, e⟩ | ⟨e1, h, _, e⟩
    · rw [e]; simp [ORes.ofUnit, Clean, hc, ht, h]
    · rw [e]; simp [ORes.ofUnit, h]
    · rw [e]
      cases suppress (clause Gen.excMqttDisconnect 1) ax <;> simp [ORes.ofUnit, h]

/-- **Observation (not a clause of the property): a failed broker connection leaves `_client` set.**
`_connect` assigns `self._client` before it awaits `__aenter__` and nothing resets it when that raises.
No task exists, but the object is no longer in the state of a new one. -/
theorem failed_broker_connect_keeps_client (s : OState) (hs : Clean s) (c : PyExn) (subs : List Outcome)
    (ax : Outcome) :
    (oStep s (.connect (.raised c) subs ax)).1 = { client := true, task := none, q := s.q } ∧
    (oStep s (.connect (.raised c) subs ax)).2 =
      .raised (if pyCaught c (clause Gen.excMqttConnect 0) then .transportError else .foreign c) := by
  obtain ⟨c0, t0, q0⟩ := s
  obtain ⟨hc, ht⟩ := hs
  simp only at hc ht
  subst hc ht
  cases hp : pyCaught c (clause Gen.excMqttConnect 0) <;>
    simp [oStep, oConnect, connect, convert, hp, ORes.ofUnit]

/-- …and from there every later `connect` and every later `disconnect` on that object is the misuse
`RuntimeError`, for ever: the state with a client and without a task is closed under all operations. -/
theorem stuck_after_failed_broker_connect (s : OState) (hc : s.client = true) (ht : s.task = none)
    (ops : List OOp) :
    (oRun s ops).client = true ∧ (oRun s ops).task = none ∧
    (∀ aenter subs ax, (oStep (oRun s ops) (.connect aenter subs ax)).2 = .raised misuse) ∧
    (∀ aexit, (oStep (oRun s ops) (.disconnect aexit)).2 = .raised misuse) := by
  induction ops generalizing s with
  | nil =>
    refine ⟨hc, ht, ?_, ?_⟩
    · intro aenter subs ax
      simp only [oRun, List.foldl_nil, oStep, oConnect_guard (Or.inl hc)]; rfl
    · intro aexit
      simp only [oRun, List.foldl_nil, oStep, oDisconnect_guard (Or.inr ht)]; rfl
  | cons op ops ih =>
    rw [oRun_cons]
    apply ih
    · cases op <;> simp only [oStep, oConnect_guard (Or.inl hc), oDisconnect_guard (Or.inr ht), ht, hc]
    · cases op <;> simp only [oStep, oConnect_guard (Or.inl hc), oDisconnect_guard (Or.inr ht), ht]

/-- **The guards** (outside the property; they pin what the code raises on misuse, state untouched):
`connect` while a client or a task is held, `disconnect` without a client or without a task, `write` of
a publishable line and `_subscribe` without a client — all `RuntimeError`; a line that cannot be
published is the `ValueError` of the parser whether connected or not. -/
theorem misuse_is_runtime_error (s : OState) :
    (∀ aenter subs ax, s.client = true ∨ s.task.isSome = true →
      oStep s (.connect aenter subs ax) = (s, .raised (.foreign .RuntimeError))) ∧
    (∀ aexit, s.client = false ∨ s.task = none →
      oStep s (.disconnect aexit) = (s, .raised (.foreign .RuntimeError))) ∧
    (∀ pre line pub, s.client = false → toTopic pre line ≠ none →
      oStep s (.write pre line pub) = (s, .raised (.foreign .RuntimeError))) ∧
    (∀ pre line pub, toTopic pre line = none →
      oStep s (.write pre line pub) = (s, .raised (.foreign .ValueError))) ∧
    (∀ sub, s.client = false → oStep s (.subscribe sub) = (s, .raised (.foreign .RuntimeError))) := by
  refine ⟨?_, ?_, ?_, ?_, ?_⟩
  · intro aenter subs ax h
    simp only [oStep, oConnect_guard h]; rfl
  · intro aexit h
    simp only [oStep, oDisconnect_guard h]; rfl
  · intro pre line pub hc hl
    cases ht : toTopic pre line with
    | none => exact absurd ht hl
    | some r => simp [oStep, oWrite, ht, hc, misuse]
  · intro pre line pub hl
    simp [oStep, oWrite, hl]
  · intro sub hc
    simp [oStep, oSubscribe, hc, ORes.ofUnit, misuse]

/-- While connected, `write` is the `write` of the theorems above (`write_topic`, `write_outcome`). -/
theorem write_when_connected (s : OState) (hc : s.client = true) (pre line : Str) (pub : Outcome) :
    (oStep s (.write pre line pub)).2 =
      match write pre line pub with
      | .ok r => .published r.1 r.2.1 r.2.2
      | .error e => .raised e := by
  simp only [oStep, oWrite, hc, if_true]
  cases ht : toTopic pre line with
  | none => simp [write, ht]
  | some r => rfl

/-! ### The queue belongs to the object, not to a connection -/

/-- **`disconnect` and `connect` do not touch the queue** — after every history, for every outcome of
either call (also a raising one): what was received and not yet read, the reads that are blocked and the
results already handed out are exactly what they were. -/
theorem queue_survives_disconnect (ops : List OOp) (aexit aenter ax : Outcome) (subs : List Outcome) :
    let s := oRun {} ops
    (oStep s (.disconnect aexit)).1.q = s.q ∧
    (oStep s (.connect aenter subs ax)).1.q = s.q ∧
    (oRun s [.disconnect aexit, .connect aenter subs ax]).q = s.q := by
  intro s
  have hinv := object_invariant ops
  have h1 := (oStep_q_lifecycle incoming_clauses disconnect_clauses hinv).1 aexit
  have h2 := (oStep_q_lifecycle incoming_clauses disconnect_clauses hinv).2 aenter subs ax
  have hinv' : OInv (oStep s (.disconnect aexit)).1 := oStep_inv incoming_clauses disconnect_clauses hinv _
  have h3 := (oStep_q_lifecycle incoming_clauses disconnect_clauses hinv').2 aenter subs ax
  refine ⟨h1, h2, ?_⟩
  show (oStep (oStep s (.disconnect aexit)).1 (.connect aenter subs ax)).1.q = s.q
  rw [h3, h1]

/-- **Items received and not yet read are still delivered after a disconnect (and a reconnect)**: `k`
reads after it return the first `k` unread items in arrival order, each once; the rest stays queued. -/
theorem unread_items_delivered_after_disconnect (ops : List OOp) (aexit aenter ax : Outcome)
    (subs : List Outcome) (k : Nat) :
    let s := oRun {} ops
    let s' := oRun s ([.disconnect aexit, .connect aenter subs ax] ++ List.replicate k .read)
    let s'' := oRun s (.disconnect aexit :: List.replicate k .read)
    s'.q.delivered = s.q.delivered ++ s.q.queue.take k ∧ s'.q.queue = s.q.queue.drop k ∧
    s''.q.delivered = s.q.delivered ++ s.q.queue.take k ∧ s''.q.queue = s.q.queue.drop k := by
  intro s s' s''
  obtain ⟨h1, _, h3⟩ := queue_survives_disconnect ops aexit aenter ax subs
  have e' : s'.q = qRun s.q (List.replicate k .read) := by
    show (oRun s _).q = _
    rw [oRun_append, oRun_reads, h3]
  have e'' : s''.q = qRun s.q (List.replicate k .read) := by
    show (oRun s _).q = _
    rw [oRun_cons, oRun_reads, h1]
  obtain ⟨q1, q2⟩ := qRun_reads s.q k
  rw [e', e'']
  exact ⟨q1, q2, q1, q2⟩

/-- **A read that is waiting stays waiting across a reconnect and is served by the next connection**:
`n + 1` reads blocked, the object connected; after `disconnect`, `connect` and one broker message, the
oldest of them has that message (or the decode error in its place) and `n` are still blocked. -/
theorem waiting_read_served_on_next_connection (ops : List OOp) (aexit : Outcome) (ha : Listed aexit)
    (hconn : (oRun {} ops).task.isSome = true) (n : Nat) (hw : (oRun {} ops).q.waiting = n + 1)
    (nsubs : Nat) (ax : Outcome) (topic : Str) (payload : List Nat) :
    let s := oRun {} ops
    let s' := oRun s [.disconnect aexit, .connect .ok (List.replicate nsubs .ok) ax,
      .broker (.message topic payload)]
    (oStep s (.disconnect aexit)).1.q.waiting = n + 1 ∧
    s'.q.delivered = s.q.delivered ++ [itemOf (topic, payload)] ∧ s'.q.waiting = n ∧ s'.q.queue = [] ∧
    s'.task = some .waiting := by
  intro s s'
  have hqi := oRun_qinv (s := {}) QInv.init ops
  have hempty : s.q.queue = [] := hqi.idle (by show 0 < (oRun {} ops).q.waiting; omega)
  have hdisc := object_disconnect_clean ops aexit ha hconn
  have hs' : s' = _ := served_on_next_connection incoming_clauses disconnect_clauses (object_invariant ops)
    hconn ha hw hempty nsubs ax topic payload
  refine ⟨?_, ?_, ?_, ?_, ?_⟩
  · rw [show oStep s (.disconnect aexit) = _ from hdisc]; exact hw
  · rw [hs']
  · rw [hs']
  · rw [hs']; exact hempty
  · rw [hs']

/-- **FIFO, exactly once, across connections.**  For every history of one object — any number of
connect / disconnect cycles, failed connects, misuse, broker events, reads in any interleaving, reads
pending from one connection into the next, unread items at a disconnect: what has been handed out
followed by what is still queued is exactly what the receive tasks queued over the whole history, in
order (nothing lost, nothing repeated); the number of results is `min reads arrivals`; the other reads
are blocked. -/
theorem fifo_exactly_once_across_sessions (ops : List OOp) :
    (oRun {} ops).q.delivered ++ (oRun {} ops).q.queue = oArrivals {} ops ∧
    (oRun {} ops).q.delivered.length = min (oReads ops) (oArrivals {} ops).length ∧
    (oRun {} ops).q.waiting = oReads ops - (oArrivals {} ops).length := by
  have h := oRun_qinv (s := {}) QInv.init ops
  simp only [List.nil_append, Nat.zero_add] at h
  exact ⟨h.all, h.delivered_length.1, h.delivered_length.2⟩

/-- The k-th read of the object returns the k-th arrival, whichever connections they fall into. -/
theorem kth_read_across_sessions (ops : List OOp) (k : Nat) (hr : k < oReads ops)
    (ha : k < (oArrivals {} ops).length) :
    (oRun {} ops).q.delivered[k]? = (oArrivals {} ops)[k]? := by
  obtain ⟨h1, h2, _⟩ := fifo_exactly_once_across_sessions ops
  have hk : k < (oRun {} ops).q.delivered.length := by omega
  rw [← h1, List.getElem?_append_left hk]

/-- A result handed out stays what it was, whatever happens to the object later. -/
theorem read_results_stable_across_sessions (ops more : List OOp) :
    (oRun {} ops).q.delivered <+: (oRun {} (ops ++ more)).q.delivered := by
  rw [oRun_append]
  exact oRun_delivered_prefix _ _

/-- Nothing arrives without a connection: a broker event reaches the queue only through a receive task
the object holds. -/
theorem no_arrival_without_connection (s : OState) (ht : s.task = none) (e : Evt) :
    oStep s (.broker e) = (s, .done) ∧ oArrive s (.broker e) = [] := by
  simp [oStep, oArrive, ht]

/-- **…spelled out for histories made of whole connections.**  Any number of connections on one
object, each `connect` (healthy broker) → broker events and reads in any interleaving → `disconnect`
(`__aexit__` returning or raising `MqttError`), with reads also issued between connections: the arrivals
of the whole history are the arrivals of the first connection, then of the second, … — each the task run
of `never_deaf` / `messages_all_queued` over that connection's events — and they are handed to the reads
in that order, each once; the object ends with neither client nor task. -/
theorem fifo_exactly_once_whole_sessions (segs : List Seg) (hok : ∀ seg ∈ segs, seg.AexitOK) :
    let s := oRun {} (segOps segs)
    s.q.delivered ++ s.q.queue = segArrivals segs ∧
    s.q.delivered.length = min (segReads segs) (segArrivals segs).length ∧
    s.q.waiting = segReads segs - (segArrivals segs).length ∧
    s.client = false ∧ s.task = none := by
  intro s
  obtain ⟨hclean, harr, hreads⟩ :=
    segs_run incoming_clauses disconnect_clauses (s := {}) ⟨rfl, rfl⟩ segs hok
  obtain ⟨h1, h2, h3⟩ := fifo_exactly_once_across_sessions (segOps segs)
  rw [harr, hreads] at h2 h3
  rw [harr] at h1
  exact ⟨h1, h2, h3, hclean.1, hclean.2⟩

/-! ### Non-vacuity (the object) -/

/-- Two connections on one object; a message received in the first and not read before the disconnect, a
read issued while disconnected, a read pending into the second connection, `__aexit__` raising once. -/
example : (oRun {} [.connect .ok [.ok, .ok, .ok, .ok, .ok] .ok,
      .broker (.message "p/1/2/1/0/2".toList [0x6f, 0x6e]),
      .disconnect (.raised .MqttError), .read, .read,
      .connect .ok [.ok, .ok, .ok, .ok, .ok] .ok,
      .broker (.message "p/1/2/1/0/2".toList [0xff]),
      .disconnect .ok]) =
    { client := false, task := none,
      q := { queue := [], waiting := 0, delivered := [.msg "1;2;1;0;2;on".toList, .err] } } := by decide

/-- The hypotheses of `reconnect_ok` / `object_disconnect_clean` are met after a broker error. -/
example : (oStep (oRun {} [.connect .ok [.ok] .ok, .broker .mqttError]) (.disconnect .ok)).2 = .done := by decide

example : (oRun {} [.connect .ok [.ok] .ok, .broker .mqttError]).task.isSome = true := by decide

/-- A waiting read with the object connected (hypotheses of `waiting_read_served_on_next_connection`). -/
example : (oRun {} [.connect .ok [.ok] .ok, .read]).q.waiting = 0 + 1 ∧
    (oRun {} [.connect .ok [.ok] .ok, .read]).task.isSome = true := by decide

/-- The third subscription fails: `TransportError`, nothing left, and the next `connect` succeeds. -/
example : oResults {} [.connect .ok [.ok, .ok, .raised .MqttError, .ok, .ok] .ok, .connect .ok [.ok] .ok] =
    [.raised .transportError, .done] := by decide

example : connect .ok [.ok, .ok, .raised .MqttError, .ok, .ok] = .error .transportError := by rfl

/-- The broker connection fails: `TransportError`, and the object is stuck with its client. -/
example : oResults {} [.connect (.raised .MqttError) [] .ok, .connect .ok [.ok] .ok, .disconnect .ok] =
    [.raised .transportError, .raised misuse, .raised misuse] := by decide

/-- Misuse: `connect` twice, `disconnect` twice, `write` and `_subscribe` on a new object. -/
example : oResults {} [.write "p".toList "1;2;1;0;2;on".toList .ok, .subscribe .ok, .disconnect .ok,
      .connect .ok [.ok] .ok, .connect .ok [.ok] .ok, .disconnect .ok, .disconnect .ok,
      .write "p".toList "1;2;1".toList .ok] =
    [.raised misuse, .raised misuse, .raised misuse, .done, .raised misuse, .done, .raised misuse,
     .raised (.foreign .ValueError)] := by decide

/-- A history made of whole connections (hypotheses of `fifo_exactly_once_whole_sessions`). -/
example : ∀ seg ∈ [Seg.session 5 [.read, .broker (.message "p/1/2/1/0/2".toList [0x6f])] .ok, .idleRead,
    .session 5 [.broker .mqttError] (.raised .MqttError)], seg.AexitOK := by
  intro seg h
  simp only [List.mem_cons, List.not_mem_nil, or_false] at h
  rcases h with rfl | rfl | rfl <;> simp [Seg.AexitOK]


end AioMySensors.C18
