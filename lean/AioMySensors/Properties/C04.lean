/-
C04 — The registry is a faithful record of what the network presented and reported.

Three layers of statement:
* for EVERY line, version, state and fault schedule (`Lemmas/Faithful.lean`, one traversal of the
  generated dispatch): a successfully handled line yields exactly its decoded field values; a
  missing-node / missing-child failure names the message's own node / child and leaves the registry
  untouched; a rejected line changes nothing;
* for every message: only the record of the node it is from can change (or a placeholder be added);
* per kind of report: the registry after the handler, as an explicit update of the registry before;
* over histories: the handler model refines the abstract registry specification
  (`Model/RegistrySpec.lean`, a pure function of the received lines): `registry_refines_spec` per
  operation — every line, environment, write-fault schedule, buffer content — and
  `history_refines_spec` by induction; from it `registry_independent_of_faults_and_buffers` and
  `value_is_last_set` (the stored value is the payload of the last set, over any history).
-/
import AioMySensors.Lemmas.Faithful
import AioMySensors.Properties.C11
import AioMySensors.Properties.C07
import AioMySensors.Lemmas.Safe
import AioMySensors.Lemmas.RegistrySpec

namespace AioMySensors.C04
open AioMySensors M

/-! ### Every line -/

/-- **A line that does not decode changes nothing** and fails as an invalid message. -/
theorem rejected_line_changes_nothing (env : Env) (line : Str) (w : W) (h : decode w.st.proto line = none) :
    recv env line w = (.error (.lib .invalidMessage), w) := by
  simp [recv, M.bind, M.getSt, h, M.raise]

/-- **The yielded message carries the decoded field values.** -/
theorem yield_is_decoded (env : Env) (line : Str) (w : W) (r : Msg) (h : (recv env line w).1 = .ok r) :
    decode w.st.proto line = some r := by
  simp only [recv, M.bind, M.getSt] at h
  cases hd : decode w.st.proto line with
  | none => simp [hd, M.raise] at h
  | some m =>
    simp only [hd] at h
    rw [(faithful_dispatch env w.st.proto m).ret w r h]

/-- **A missing-node failure names the message's node and changes nothing in the registry.** -/
theorem missing_node_names_it (env : Env) (line : Str) (w : W) (n : Int)
    (h : (recv env line w).1 = .error (.lib (.missingNode n))) :
    ∃ m, decode w.st.proto line = some m ∧ n = m.node ∧ (recv env line w).2.st.nodes = w.st.nodes := by
  simp only [recv, M.bind, M.getSt] at h ⊢
  cases hd : decode w.st.proto line with
  | none => simp [hd, M.raise] at h
  | some m =>
    simp only [hd] at h ⊢
    exact ⟨m, rfl, (faithful_dispatch env w.st.proto m).missNode w n h⟩

/-- **A missing-child failure names the message's child and changes nothing in the registry.** -/
theorem missing_child_names_it (env : Env) (line : Str) (w : W) (c : Int)
    (h : (recv env line w).1 = .error (.lib (.missingChild c))) :
    ∃ m, decode w.st.proto line = some m ∧ c = m.child ∧ (recv env line w).2.st.nodes = w.st.nodes := by
  simp only [recv, M.bind, M.getSt] at h ⊢
  cases hd : decode w.st.proto line with
  | none => simp [hd, M.raise] at h
  | some m =>
    simp only [hd] at h ⊢
    exact ⟨m, rfl, (faithful_dispatch env w.st.proto m).missChild w c h⟩

/-- One observation per operation, in order: every line is handled (or fails) exactly once. -/
theorem one_observation_per_op (st : St) (ops : List Op) : (run st ops).2.length = ops.length := by
  induction ops generalizing st with
  | nil => rfl
  | cons op ops ih => simp [run, ih]

/-- Send calls never change the registry. -/
theorem send_keeps_registry (obj : Option Msg) (b : Bool) (w : W) : (apiSend obj b w).2.st.nodes = w.st.nodes := by
  cases obj with
  | none => rfl
  | some m => exact (gwSend_frame m b w).1

/-! ### Only the sender's record can change -/

def OthersRecordsKept (n : Int) : W → W → Prop :=
  OnSt fun s s' => ∀ k, k ≠ n → s.nodes.has k = true → s'.nodes.get? k = s.nodes.get? k ∧ s'.nodes.has k = true

theorem othersRecordsKept_preO (n : Int) : PreO (OthersRecordsKept n) :=
  OnSt.preO (fun _ _ _ h => ⟨rfl, h⟩) (fun h1 h2 k hk hh => by
    obtain ⟨a, b⟩ := h1 k hk hh
    obtain ⟨c, d⟩ := h2 k hk b
    exact ⟨c.trans a, d⟩)

theorem others_nodes_same (n : Int) {f : St → St} (h : ∀ s, (f s).nodes = s.nodes) : Rel (OthersRecordsKept n) (modifySt f) :=
  Rel.modifySt f fun s k _ hh => by simp [h s, hh]

theorem othersRecordsKept_stepRel (m : Msg) : StepRel (OthersRecordsKept m.node) m where
  pre := othersRecordsKept_preO m.node
  write := fun _ _ => Rel.transportWrite (fun _ _ _ h => ⟨rfl, h⟩) _
  setNode := fun node => Rel.modifySt _ fun s k hk hh => by
    simp only [PDict.has] at hh ⊢
    rw [PDict.get?_set_ne _ _ hk]; exact ⟨rfl, hh⟩
  alloc := Rel.modifySt _ fun s k _ hh => by
    have hne : k ≠ nextId s.nodes := by
      intro e; subst e
      have := C11.nextId_fresh s.nodes
      rw [this] at hh; exact absurd hh (by simp)
    simp only [PDict.has] at hh ⊢
    rw [PDict.get?_set_ne _ _ hne]; exact ⟨rfl, hh⟩
  erase := fun _ _ _ => others_nodes_same _ fun s => by split <;> rfl
  mark := others_nodes_same _ fun _ => rfl
  unmark := others_nodes_same _ fun s => by split <;> rfl
  version := fun _ _ => others_nodes_same _ fun _ => rfl

/-- **A message changes at most the record of the node it is from** (and may add a placeholder
under a fresh id): every other registered node keeps its complete record — type, version,
children, values, sketch, battery, heartbeat, flags — whatever the version, outcome and faults. -/
theorem other_records_untouched (env : Env) (v : Ver) (m : Msg) (w : W) (k : Int) (hk : k ≠ m.node)
    (hh : w.st.nodes.has k = true) : (dispatch env v m w).2.st.nodes.get? k = w.st.nodes.get? k :=
  ((rel_dispatch (othersRecordsKept_stepRel m) (ParkOK.of_all fun _ => others_nodes_same _ fun _ => rfl) env v).step w k hk hh).1

/-! ### What each report does to the sender's record -/

/-- **Node presentation** (re)creates the node with the presented type and library version and no children. -/
theorem node_presentation (env : Env) (v : Ver) (m : Msg) (w : W) (hc : m.child = 255) (hn : m.node ≠ 0) :
    hPresentation env v m w = (.ok m, { w with st := { w.st with nodes := w.st.nodes.set m.node { ntype := m.type, pv := m.payload } } }) := by
  have h1 : (m.child == Gen.systemChildId) = true := by simp [hc, Gen.systemChildId]
  have h2 : (m.node == 0) = false := by simpa using hn
  simp [hPresentation, h1, h2, M.seq, M.bind, setNode, M.modifySt, M.pure]

theorem fresh_node_is_blank (t : Int) (pv : Str) :
    ({ ntype := t, pv := pv } : Node) = ⟨t, pv, [], [], [], 0, 0, false, false⟩ := rfl

/-- **Child presentation** adds or replaces that child with its type and description (no values). -/
theorem child_presentation (env : Env) (v : Ver) (m : Msg) (w : W) (node : Node) (hc : m.child ≠ 255)
    (hn : w.st.nodes.get? m.node = some node) :
    hPresentation env v m w = (.ok m, { w with st := { w.st with nodes :=
      (w.st.nodes.set m.node { node with children := node.children.set m.child ⟨m.child, m.type, m.payload, []⟩ }) } }) := by
  have h1 : (m.child == Gen.systemChildId) = false := by simpa [Gen.systemChildId] using hc
  simp [hPresentation, h1, requireNode, M.bind, M.getSt, hn, M.pure, M.seq, setNode, M.modifySt]

theorem send_then_pure (m sm : Msg) (b : Bool) (w : W) : (M.seq (gwSend sm b) (pure m) w).2.st.nodes = w.st.nodes := by
  have := (gwSend_frame sm b w).1
  simp only [M.seq, M.bind]
  cases hg : gwSend sm b w with
  | mk r w' => rw [hg] at this; cases r <;> simpa [M.pure] using this

/-- **Set** records the payload under (child, value type); the registry is otherwise as before. -/
theorem set_known (m : Msg) (w : W) (node : Node) (child : Child)
    (hn : w.st.nodes.get? m.node = some node) (hc : node.children.get? m.child = some child) :
    (hSet m w).2.st.nodes = w.st.nodes.set m.node
      { node with children := node.children.set m.child { child with values := child.values.set m.type m.payload } } := by
  simp only [hSet, requireNode, M.bind, M.getSt, hn, M.pure, hc, setNode, M.modifySt]
  cases node.reboot
  · simp [M.seq, M.bind, M.pure, M.modifySt]
  · simp only [if_true]
    simp only [M.seq, M.bind]
    exact send_then_pure m _ _ _

/-- The value just set is what a lookup now returns; other value types of the child are untouched. -/
theorem latest_value_recorded (values : PDict Int Str) (t : Int) (p : Str) :
    (values.set t p).get? t = some p ∧ ∀ t', t' ≠ t → (values.set t p).get? t' = values.get? t' :=
  ⟨PDict.get?_set_self _ _ _, fun _ h => PDict.get?_set_ne _ _ h⟩

/-- **Battery report** (a level within the generated bounds) updates the battery level only. -/
theorem battery_report (m : Msg) (w : W) (node : Node) (level : Int) (hn : w.st.nodes.get? m.node = some node)
    (hp : pyRoundFloat m.payload = .ok level) (hr : Gen.minBattery ≤ level ∧ level ≤ Gen.maxBattery) :
    hBattery m w = (.ok m, { w with st := { w.st with nodes := w.st.nodes.set m.node { node with battery := level } } }) := by
  simp [hBattery, requireNode, M.bind, M.getSt, hn, M.pure, convertExn, hp, hr, M.seq, setNode, M.modifySt]

/-- … and a level outside them, or an unparsable payload, is an invalid message that changes nothing. -/
theorem battery_rejected (m : Msg) (w : W) (node : Node) (hn : w.st.nodes.get? m.node = some node)
    (hp : (∃ level, pyRoundFloat m.payload = .ok level ∧ ¬ (Gen.minBattery ≤ level ∧ level ≤ Gen.maxBattery)) ∨
          (∃ c, pyRoundFloat m.payload = .error c)) :
    hBattery m w = (.error (.lib .invalidMessage), w) := by
  rcases hp with ⟨level, hp, hr⟩ | ⟨c, hp⟩
  · simp [hBattery, requireNode, M.bind, M.getSt, hn, M.pure, convertExn, hp, hr, M.raise]
  · have := battery_errors_caught m.payload c hp
    simp [hBattery, requireNode, M.bind, M.getSt, hn, M.pure, convertExn, hp, this, M.raise]

theorem sketch_name_report (m : Msg) (w : W) (node : Node) (hn : w.st.nodes.get? m.node = some node) :
    hSketchName m w = (.ok m, { w with st := { w.st with nodes := w.st.nodes.set m.node { node with sketchName := m.payload } } }) := by
  simp [hSketchName, requireNode, M.bind, M.getSt, hn, M.pure, M.seq, setNode, M.modifySt]

theorem sketch_version_report (m : Msg) (w : W) (node : Node) (hn : w.st.nodes.get? m.node = some node) :
    hSketchVersion m w = (.ok m, { w with st := { w.st with nodes := w.st.nodes.set m.node { node with sketchVersion := m.payload } } }) := by
  simp [hSketchVersion, requireNode, M.bind, M.getSt, hn, M.pure, M.seq, setNode, M.modifySt]

/-- **Heartbeat report** in 2.2: the heartbeat attribute, nothing else. -/
theorem heartbeat_report_22 (m : Msg) (w : W) (node : Node) (hb : Int) (hn : w.st.nodes.get? m.node = some node)
    (hp : pyInt? m.payload = some hb) :
    hHeartbeat22 m w = (.ok m, { w with st := { w.st with nodes := w.st.nodes.set m.node { node with heartbeat := hb } } }) := by
  simp [hHeartbeat22, requireNode, M.bind, M.getSt, hn, M.pure, heartbeatValue, convertExn, hp, M.seq, setNode, M.modifySt]

/-- The release loop never touches the registry. -/
theorem flush_nodes (m : Msg) (w0 : W) : (flush m w0).2.st.nodes = w0.st.nodes := by
  rw [flush_eq]
  have := (flushList_frame (snapshotOf w0.st m.node) w0).1
  cases hf : flushList (snapshotOf w0.st m.node) w0 with
  | mk r w' => rw [hf] at this; cases r <;> simpa using this

/-- In 2.0/2.1 the heartbeat report also marks the node as sleeping (and releases its commands, C07);
the release does not touch the registry. -/
theorem heartbeat_report_20 (m : Msg) (w : W) (node : Node) (hb : Int) (hn : w.st.nodes.get? m.node = some node)
    (hp : pyInt? m.payload = some hb) :
    (hHeartbeat20 m w).2.st.nodes = w.st.nodes.set m.node { node with sleeping := true, heartbeat := hb } := by
  rw [C07.heartbeat_wake m w node hb hn hp, flush_nodes]

/-- An absurd heartbeat payload is an invalid message and changes nothing (the conversion runs
before the node is touched). -/
theorem heartbeat_rejected (m : Msg) (w : W) (node : Node) (hn : w.st.nodes.get? m.node = some node)
    (hp : pyInt? m.payload = none) :
    hHeartbeat20 m w = (.error (.lib .invalidMessage), w) ∧ hHeartbeat22 m w = (.error (.lib .invalidMessage), w) := by
  have h1 : pyCaught .ValueError (clause Gen.excHeartbeat20 0) = true := by decide
  have h2 : pyCaught .ValueError (clause Gen.excHeartbeat22 0) = true := by decide
  constructor
  · simp [hHeartbeat20, requireNode, M.bind, M.getSt, hn, M.pure, heartbeatValue, convertExn, hp, h1, M.raise]
  · simp [hHeartbeat22, requireNode, M.bind, M.getSt, hn, M.pure, heartbeatValue, convertExn, hp, h2, M.raise]

/-- Requests and reactions that only read: the registry is unchanged. -/
theorem readers_keep_registry (env : Env) (m : Msg) (w : W) :
    (hReq m w).2.st.nodes = w.st.nodes ∧ (hConfig env m w).2.st.nodes = w.st.nodes ∧
    (hTime env m w).2.st.nodes = w.st.nodes ∧ (hGatewayReady m w).2.st.nodes = w.st.nodes ∧
    (hDiscoverResponse m w).2.st.nodes = w.st.nodes ∧ (hVersion m w).2.st.nodes = w.st.nodes := by
  refine ⟨?_, send_then_pure m _ _ w, send_then_pure m _ _ w, send_then_pure m _ _ w, ?_, ?_⟩
  · simp only [hReq, requireNode, M.bind, M.getSt]
    cases hn : w.st.nodes.get? m.node with
    | none => simp [M.raise]
    | some node =>
      simp only [M.pure]
      cases hc : node.children.get? m.child with
      | none => simp [M.raise]
      | some child =>
        simp only []
        cases hv : child.values.get? m.type with
        | none => simp [M.pure]
        | some value => exact send_then_pure m _ _ w
  · simp only [hDiscoverResponse, requireNode, M.bind, M.getSt]
    cases hn : w.st.nodes.get? m.node <;> simp [M.raise, M.pure]
  · simp only [hVersion, convertExn, M.bind]
    cases hp : getProtocolE m.payload with
    | error c => by_cases hc : pyCaught c (clause Gen.excVersion 0) = true <;> simp [hc, M.raise]
    | ok v => simp [M.pure, M.seq, M.bind, M.modifySt]

/-! ### Through the dispatch: the decorators never touch the registry -/

theorem wrapMissingPV_nodes (inner : Msg → M Msg) (m : Msg) (w : W) :
    (wrapMissingPV inner m w).2.st.nodes = (inner m w).2.st.nodes := by
  rw [wrapMissingPV_eq]
  simp only []
  have aw := after_write (inner m w).1 (inner m w).2 (encode versionQuery)
  simp only [] at aw
  cases hr : (inner m w).1 with
  | ok m' =>
    rw [hr] at aw
    by_cases hc : ((inner m w).2.st.pv.isNone && wantsVersionQuery m') = true
    · simp only [hc, if_true]; exact congrArg St.nodes aw.1
    · simp only [hc]; rfl
  | error e =>
    rw [hr] at aw
    by_cases hc : ((inner m w).2.st.pv.isNone && wantsVersionQuery m) = true
    · simp only [hc, if_true]; exact congrArg St.nodes aw.1
    · simp only [hc]; rfl

theorem wrapMissingNC_nodes (inner : Msg → M Msg) (m : Msg) (w : W) :
    (wrapMissingNC inner m w).2.st.nodes = (inner m w).2.st.nodes := by
  cases hin : inner m w with
  | mk r w' =>
    cases r with
    | ok r => rw [wrapMissingNC_ok inner m r w w' hin]
    | error e =>
      by_cases he : missingCaught e = true
      · by_cases hm : w'.st.ibuf.has (presentationRequest m.node).key = true
        · rw [wrapMissingNC_marked inner m e w w' hin he hm]
        · have hm' : w'.st.ibuf.has (presentationRequest m.node).key = false := by simpa using hm
          rw [wrapMissingNC_unmarked inner m e w w' hin he hm']
          simp only [transportWrite]
          cases hf : w'.faults with
          | nil => simp
          | cons f fs => cases f <;> simp
      · have he' : missingCaught e = false := by simpa using he
        rw [wrapMissingNC_other inner m e w w' hin he']

theorem wrapNC_nodes (v : Ver) (inner : Msg → M Msg) (m : Msg) (w : W) :
    (wrapNC v inner m w).2.st.nodes = (inner m w).2.st.nodes := by
  unfold wrapNC; split
  · exact wrapMissingNC_nodes inner m w
  · rfl

/-- **Set, through the whole receive path, in every version**: the registry after the step is the
registry `handle_set` leaves — the latest payload recorded under (child, value type), or unchanged
when the node or child is unknown — whatever the write faults and the decorators do. -/
theorem set_through_dispatch (env : Env) (v : Ver) (m : Msg) (w : W) (hcmd : m.cmd = 1) :
    (dispatch env v m w).2.st.nodes = (hSet m w).2.st.nodes := by
  rw [dispatch_set env v m hcmd, wrapNC_nodes, wrapMissingPV_nodes]

theorem req_through_dispatch (env : Env) (v : Ver) (m : Msg) (w : W) (hcmd : m.cmd = 2) :
    (dispatch env v m w).2.st.nodes = w.st.nodes := by
  rw [dispatch_req env v m hcmd, wrapNC_nodes, wrapMissingPV_nodes, (readers_keep_registry {} m w).1]

theorem battery_through_dispatch (env : Env) (v : Ver) (m : Msg) (w : W) (hcmd : m.cmd = 3) (ht : m.type = 0) :
    (dispatch env v m w).2.st.nodes = (hBattery m w).2.st.nodes := by
  rw [dispatch_internal env v m hcmd, wrapMissingPV_nodes, internal_battery env v m ht, wrapNC_nodes]

theorem sketch_name_through_dispatch (env : Env) (v : Ver) (m : Msg) (w : W) (hcmd : m.cmd = 3) (ht : m.type = 11) :
    (dispatch env v m w).2.st.nodes = (hSketchName m w).2.st.nodes := by
  rw [dispatch_internal env v m hcmd, wrapMissingPV_nodes, internal_sketch_name env v m ht, wrapNC_nodes]

theorem sketch_version_through_dispatch (env : Env) (v : Ver) (m : Msg) (w : W) (hcmd : m.cmd = 3) (ht : m.type = 12) :
    (dispatch env v m w).2.st.nodes = (hSketchVersion m w).2.st.nodes := by
  rw [dispatch_internal env v m hcmd, wrapMissingPV_nodes, internal_sketch_version env v m ht, wrapNC_nodes]

/-- Config, time, log and version-less traffic: the registry is untouched through the whole path. -/
theorem config_time_through_dispatch (env : Env) (v : Ver) (m : Msg) (w : W) (hcmd : m.cmd = 3)
    (ht : m.type = 6 ∨ m.type = 1 ∨ m.type = 9) : (dispatch env v m w).2.st.nodes = w.st.nodes := by
  rw [dispatch_internal env v m hcmd, wrapMissingPV_nodes]
  rcases ht with ht | ht | ht
  · rw [internal_config env v m ht]; exact (readers_keep_registry env m w).2.1
  · rw [internal_time env v m ht]; exact (readers_keep_registry env m w).2.2.1
  · rw [internal_log env v m ht]; rfl

/-! Non-vacuity: the F6 witness — node 7 without child 4. -/
example : errOf (hSet ⟨7, 4, 1, 0, 0, ['1']⟩ { st := { nodes := [(7, { ntype := 17, pv := [] })] } }).1
    = some (.lib (.missingChild 4)) := by decide

/-! ### Refinement: the registry after any history is the specification's -/

theorem stepOp_recv_st (st : St) (env : Env) (line : Str) (faults : List Fault) :
    (stepOp st (.recv env line faults)).1 = (recv env line { st := st, faults := faults }).2.st := by
  simp only [stepOp]; split <;> simp [*]

theorem stepOp_send_st (st : St) (obj : Option Msg) (b : Bool) (faults : List Fault) :
    (stepOp st (.send obj b faults)).1 = (apiSend obj b { st := st, faults := faults }).2.st := by
  simp only [stepOp]; split <;> simp [*]

/-- One iteration of `listen`, in any world (any fault schedule, any earlier writes). -/
theorem recv_refines_spec (env : Env) (line : Str) (w : W) :
    (recv env line w).2.st.abs = specStep w.st.abs (.recv env line w.faults) := by
  simp only [recv, M.bind, M.getSt, specStep]
  show _ = match decode w.st.proto line with | some m => Spec.message w.st.abs m | none => w.st.abs
  cases decode w.st.proto line with
  | none => rfl
  | some m => exact dispatch_abs env w.st.proto m w rfl

/-- `gateway.send` changes neither registry nor protocol. -/
theorem send_refines_spec (obj : Option Msg) (b : Bool) (w : W) : (apiSend obj b w).2.st.abs = w.st.abs := by
  cases obj with
  | none => rfl
  | some m => exact gwSend_abs m b w

/-- **The handler model refines the registry specification**, one operation at a time: for every
state (any contents of both buffers, version known or unknown), every received line with its
environment and every send call, under every write-fault schedule, the registry and the active
protocol after the operation are `specStep` of the registry and protocol before — a function of the
decoded message alone. -/
theorem registry_refines_spec (st : St) (op : Op) : (stepOp st op).1.abs = specStep st.abs op := by
  cases op with
  | recv env line faults => rw [stepOp_recv_st]; exact recv_refines_spec env line _
  | send obj b faults => rw [stepOp_send_st]; exact send_refines_spec obj b _

theorem stateAfter_cons (st : St) (op : Op) (ops : List Op) :
    stateAfter st (op :: ops) = stateAfter (stepOp st op).1 ops := by
  simp [stateAfter, run]

theorem stateAfter_append (st : St) (a b : List Op) : stateAfter st (a ++ b) = stateAfter (stateAfter st a) b := by
  induction a generalizing st with
  | nil => simp [stateAfter, run]
  | cons op a ih => simp only [List.cons_append, stateAfter_cons, ih]

/-- **… and so over every history**: the registry after any sequence of received lines and send
calls, with any faults, is the specification's fold over the operations. -/
theorem history_refines_spec (st : St) (ops : List Op) : (stateAfter st ops).abs = specRun st.abs ops := by
  induction ops generalizing st with
  | nil => simp [stateAfter, run, specRun]
  | cons op ops ih => rw [stateAfter_cons, ih, registry_refines_spec]; rfl


/-- What the specification looks at in an operation: the received line, or nothing for a send. -/
def opLine : Op → Option Str
  | .recv _ line _ => some line
  | .send _ _ _ => none

theorem specStep_of_opLine (s : SpecSt) (op op' : Op) (h : opLine op = opLine op') : specStep s op = specStep s op' := by
  cases op <;> cases op' <;> simp only [opLine, Option.some.injEq, reduceCtorEq] at h
  · subst h; rfl
  · rfl

/-- **Registry and protocol after a history depend on the received lines alone**: two runs from
states with the same registry and protocol — whatever their buffers, markers and reported version
strings — fed the same lines, with any sends in between, under any environments and any write-fault
schedules, end with the same registry and protocol. -/
theorem registry_independent_of_faults_and_buffers (st1 st2 : St) (ops1 ops2 : List Op) (h : st1.abs = st2.abs)
    (hops : ops1.map opLine = ops2.map opLine) : (stateAfter st1 ops1).abs = (stateAfter st2 ops2).abs := by
  rw [history_refines_spec, history_refines_spec, h]
  generalize st2.abs = s
  induction ops1 generalizing ops2 s with
  | nil => cases ops2 with
    | nil => rfl
    | cons _ _ => simp at hops
  | cons op ops ih =>
    cases ops2 with
    | nil => simp at hops
    | cons op' ops' =>
      simp only [List.map_cons, List.cons.injEq] at hops
      simp only [specRun, List.foldl_cons]
      rw [specStep_of_opLine s op op' hops.1]
      exact ih ops' hops.2 _

/-! ### The stored value is the payload of the last set -/

/-- The value stored in a node record for (child, value type). -/
def nodeValue (node : Node) (c t : Int) : Option Str := (node.children.get? c).bind fun child => child.values.get? t

/-- The value the registry holds for the key (node, child, value type). -/
def storedValue (nodes : PDict Int Node) (k : Key) : Option Str := (nodes.get? k.1).bind fun node => nodeValue node k.2.1 k.2.2

/-- The messages that may change or remove the value stored under `k`: a set for the same key, a
presentation of that node, a presentation of that child. -/
def Disturbs (k : Key) (m : Msg) : Prop :=
  m.node = k.1 ∧ ((m.cmd = Gen.cmdSet ∧ m.child = k.2.1 ∧ m.type = k.2.2) ∨
    (m.cmd = Gen.cmdPresentation ∧ (m.child = Gen.systemChildId ∨ m.child = k.2.1)))

theorem storedValue_set_ne (nodes : PDict Int Node) (id : Int) (n : Node) (k : Key) (h : k.1 ≠ id) :
    storedValue (nodes.set id n) k = storedValue nodes k := by
  unfold storedValue; rw [PDict.get?_set_ne _ _ h]

theorem storedValue_updNode (s : SpecSt) (id : Int) (f : Node → Option Node) (k : Key)
    (hf : ∀ node node', f node = some node' → id = k.1 → nodeValue node' k.2.1 k.2.2 = nodeValue node k.2.1 k.2.2) :
    storedValue (Spec.updNode s id f).nodes k = storedValue s.nodes k := by
  cases hn : s.nodes.get? id with
  | none => rw [updNode_none _ _ _ hn]
  | some node =>
    rw [updNode_some _ _ _ node hn]
    cases hfn : f node with
    | none => rfl
    | some node' =>
      simp only []
      by_cases hk : k.1 = id
      · unfold storedValue
        rw [hk, PDict.get?_set_self, hn]
        exact hf node node' hfn hk.symm
      · exact storedValue_set_ne _ _ _ _ hk

theorem versionReport_nodes (s : SpecSt) (p : Str) : (Spec.versionReport s p).nodes = s.nodes := by
  unfold Spec.versionReport; split <;> rfl

/-- In the specification: a message that does not disturb the key leaves its stored value in place. -/
theorem message_keeps_value (s : SpecSt) (m : Msg) (k : Key) (p : Str) (h : storedValue s.nodes k = some p)
    (hd : ¬ Disturbs k m) : storedValue (Spec.message s m).nodes k = some p := by
  rw [← h]
  unfold Spec.message
  split
  · next h0 =>
    -- presentation
    unfold Spec.presentation
    split
    · next hc =>
      have hne : k.1 ≠ m.node := fun e => hd ⟨e.symm, Or.inr ⟨h0, Or.inl hc⟩⟩
      simp only []
      split
      · rw [versionReport_nodes]; exact storedValue_set_ne _ _ _ _ hne
      · exact storedValue_set_ne _ _ _ _ hne
    · refine storedValue_updNode _ _ _ _ fun node node' hf hid => ?_
      simp only [Option.some.injEq] at hf; subst hf
      have hne : k.2.1 ≠ m.child := fun e => hd ⟨hid, Or.inr ⟨h0, Or.inr e.symm⟩⟩
      simp only [nodeValue]; rw [PDict.get?_set_ne _ _ hne]
  · split
    · next _ h1 =>
      -- set
      unfold Spec.setReport
      refine storedValue_updNode _ _ _ _ fun node node' hf hid => ?_
      cases hc : node.children.get? m.child with
      | none => simp [hc] at hf
      | some child =>
        simp only [hc, Option.map_some, Option.some.injEq] at hf; subst hf
        simp only [nodeValue]
        by_cases hck : k.2.1 = m.child
        · have hne : k.2.2 ≠ m.type := fun e => hd ⟨hid, Or.inl ⟨h1, hck.symm, e.symm⟩⟩
          rw [hck, PDict.get?_set_self, hc]
          simp only [Option.bind_some]
          rw [PDict.get?_set_ne _ _ hne]
        · rw [PDict.get?_set_ne _ _ hck]
    · split
      · -- internal
        unfold Spec.internal
        repeat' split
        all_goals first
          | rfl
          | exact congrArg (storedValue · k) (versionReport_nodes _ _)
          | (refine storedValue_updNode _ _ _ _ fun node node' hf hid => ?_
             first
             | (simp only [Option.some.injEq] at hf; subst hf; rfl)
             | (simp only [Option.map_eq_some_iff] at hf; obtain ⟨_, _, rfl⟩ := hf; first | rfl | (split <;> rfl)))
          | skip
        -- id request: the next free id is not a registered one
        refine storedValue_set_ne _ _ _ _ fun e => ?_
        have hf := C11.nextId_fresh s.nodes
        rw [← e] at hf
        unfold storedValue at h
        simp only [PDict.has] at hf
        cases hg : s.nodes.get? k.1 with
        | none => rw [hg] at h; simp at h
        | some n => rw [hg] at hf; simp at hf
      · rfl


/-- An operation that leaves the value under `k` alone: a send, or a received line that — decoded
under the protocol active when it arrives — is rejected or is not a disturbing message. -/
def QuietOp (k : Key) (s : SpecSt) : Op → Prop
  | .recv _ line _ => ∀ m', decode s.proto line = some m' → ¬ Disturbs k m'
  | .send _ _ _ => True

/-- No operation of the history disturbs `k`; each line is judged under the protocol active at
that point of the history (the protocol may change on the way). -/
def Undisturbed (k : Key) : SpecSt → List Op → Prop
  | _, [] => True
  | s, op :: ops => QuietOp k s op ∧ Undisturbed k (specStep s op) ops

theorem specStep_keeps_value (s : SpecSt) (op : Op) (k : Key) (p : Str) (h : storedValue s.nodes k = some p)
    (hq : QuietOp k s op) : storedValue (specStep s op).nodes k = some p := by
  cases op with
  | send _ _ _ => exact h
  | recv env line faults =>
    simp only [specStep]
    cases hd : decode s.proto line with
    | none => exact h
    | some m' => exact message_keeps_value s m' k p h (hq m' hd)

theorem specRun_keeps_value (s : SpecSt) (ops : List Op) (k : Key) (p : Str) (h : storedValue s.nodes k = some p)
    (hq : Undisturbed k s ops) : storedValue (specRun s ops).nodes k = some p := by
  induction ops generalizing s with
  | nil => exact h
  | cons op ops ih => exact ih _ (specStep_keeps_value s op k p h hq.1) hq.2

/-- In the specification: a set message for a registered child of a registered node stores its payload. -/
theorem message_stores_value (s : SpecSt) (m : Msg) (hset : m.cmd = Gen.cmdSet) (node : Node) (child : Child)
    (hn : s.nodes.get? m.node = some node) (hc : node.children.get? m.child = some child) :
    storedValue (Spec.message s m).nodes m.key = some m.payload := by
  have h0 : ¬ m.cmd = Gen.cmdPresentation := by rw [hset]; decide
  unfold Spec.message
  rw [if_neg h0, if_pos hset]
  unfold Spec.setReport
  rw [updNode_some _ _ _ node hn]
  simp only [hc, Option.map_some, storedValue, Msg.key, PDict.get?_set_self, Option.bind_some, nodeValue]

/-- **The stored value is the payload of the last set.**  Take any history
`pre ++ [line] ++ post` from any state, with any environments and write-fault schedules, where
`line` decodes (under the protocol active after `pre`) to a set message `m` for a node and child
registered at that point, and no later operation disturbs the key of `m` — sends are allowed, and so
is any traffic except, from the same node, a set for the same (child, value type), a presentation
of the node, or a presentation of that child.  Then the registry at the end holds `m.payload` under
(`m.node`, `m.child`, `m.type`). -/
theorem value_is_last_set (st : St) (pre post : List Op) (env : Env) (line : Str) (faults : List Fault) (m : Msg)
    (hd : decode (stateAfter st pre).proto line = some m) (hset : m.cmd = Gen.cmdSet)
    (hknown : ∃ node child, (stateAfter st pre).nodes.get? m.node = some node ∧ node.children.get? m.child = some child)
    (hpost : Undisturbed m.key (stateAfter st (pre ++ [.recv env line faults])).abs post) :
    storedValue (stateAfter st (pre ++ .recv env line faults :: post)).nodes m.key = some m.payload := by
  obtain ⟨node, child, hn, hc⟩ := hknown
  have e : pre ++ Op.recv env line faults :: post = (pre ++ [Op.recv env line faults]) ++ post := by simp
  rw [e, stateAfter_append]
  generalize hmid : stateAfter st (pre ++ [Op.recv env line faults]) = mid at hpost ⊢
  have hmidv : storedValue mid.nodes m.key = some m.payload := by
    have : mid.abs = Spec.message (stateAfter st pre).abs m := by
      rw [← hmid, stateAfter_append, stateAfter_cons]
      show (stateAfter _ []).abs = _
      have : ∀ s : St, stateAfter s [] = s := fun _ => rfl
      rw [this, registry_refines_spec]
      show (match decode (stateAfter st pre).proto line with
        | some m => Spec.message (stateAfter st pre).abs m | none => (stateAfter st pre).abs) = _
      rw [hd]
    show storedValue mid.abs.nodes m.key = _
    rw [this]
    exact message_stores_value _ m hset node child hn hc
  have := specRun_keeps_value mid.abs post m.key m.payload hmidv hpost
  rw [← history_refines_spec] at this
  exact this

/-- A received line that is not from node `n`, whichever protocol decodes it. -/
def NotFrom (n : Int) : Op → Prop
  | .recv _ line _ => ∀ v m', decode v line = some m' → m'.node ≠ n
  | .send _ _ _ => True

theorem undisturbed_of_notFrom (k : Key) (ops : List Op) (h : ∀ op ∈ ops, NotFrom k.1 op) (s : SpecSt) :
    Undisturbed k s ops := by
  induction ops generalizing s with
  | nil => trivial
  | cons op ops ih =>
    refine ⟨?_, ih (fun o ho => h o (List.mem_cons_of_mem _ ho)) _⟩
    have := h op (List.mem_cons_self)
    cases op with
    | send _ _ _ => trivial
    | recv env line faults => exact fun m' hm' hdist => this s.proto m' hm' hdist.1

/-- The same with the simpler side condition of the property text: after the set, no received line
is from node `m.node` (sends and traffic from other nodes are allowed, with any faults). -/
theorem value_is_last_set_from_node (st : St) (pre post : List Op) (env : Env) (line : Str) (faults : List Fault) (m : Msg)
    (hd : decode (stateAfter st pre).proto line = some m) (hset : m.cmd = Gen.cmdSet)
    (hknown : ∃ node child, (stateAfter st pre).nodes.get? m.node = some node ∧ node.children.get? m.child = some child)
    (hpost : ∀ op ∈ post, NotFrom m.node op) :
    storedValue (stateAfter st (pre ++ .recv env line faults :: post)).nodes m.key = some m.payload :=
  value_is_last_set st pre post env line faults m hd hset hknown (undisturbed_of_notFrom m.key post hpost _)


/-! ### Non-vacuity

The specification computes: node 7 presents itself and child 4, then reports a value (evaluated in
the specification — small closed terms, no handler runs); a gateway presentation switches the
protocol; an id request registers the placeholder. -/
def exPre : List Op :=
  [.recv {} "7;255;0;0;17;2.0\n".toList [], .send none true [.fail], .recv {} "7;4;0;0;6;temp\n".toList [.fail, .cancel]]

def exNode (values : PDict Int Str) : Node :=
  { ntype := 17, pv := "2.0".toList, children := [(4, ⟨4, 6, "temp".toList, values⟩)] }

example : specRun {} exPre = ⟨.v14, [(7, exNode [])]⟩ := by decide
example : specRun {} (exPre ++ [.recv {} "7;4;1;0;0;21.5\n".toList [.fail]]) = ⟨.v14, [(7, exNode [(0, "21.5".toList)])]⟩ := by
  decide
example : specRun {} [.recv {} "0;255;0;0;18;2.2.0\n".toList [], .recv {} "255;255;3;0;3;\n".toList [.fail]] =
    ⟨.v22, [(0, { ntype := 18, pv := "2.2.0".toList }), (1, placeholderNode)]⟩ := by decide

example : Disturbs (7, 4, 0) ⟨7, 4, 1, 0, 0, ['1']⟩ ∧ Disturbs (7, 4, 0) ⟨7, 255, 0, 0, 17, []⟩ ∧
    ¬ Disturbs (7, 4, 0) ⟨7, 4, 1, 0, 1, ['1']⟩ ∧ ¬ Disturbs (7, 4, 0) ⟨7, 255, 3, 0, 0, ['5', '0']⟩ ∧
    ¬ Disturbs (7, 4, 0) ⟨7, 5, 0, 0, 6, []⟩ := by
  simp [Disturbs, Gen.cmdSet, Gen.cmdPresentation, Gen.systemChildId]

theorem notFrom_example : NotFrom 7 (.recv {} "8;255;0;0;17;2.0\n".toList [.fail]) := by
  intro v m' h
  have : decode v "8;255;0;0;17;2.0\n".toList = some ⟨8, 255, 0, 0, 17, "2.0".toList⟩ := by cases v <;> decide
  rw [this] at h; cases h; decide
section
attribute [local irreducible] stateAfter

theorem abs_proto (st : St) : st.abs.proto = st.proto := rfl
theorem abs_nodes (st : St) : st.abs.nodes = st.nodes := rfl

/-- The hypotheses of `value_is_last_set_from_node` on a concrete history with failing writes and a send in
between (the model's history is never evaluated: its registry is read off the specification). -/
example : storedValue (stateAfter {} (exPre ++ .recv {} "7;4;1;0;0;21.5\n".toList [.fail] ::
      [.send (some ⟨7, 4, 1, 0, 0, ['9']⟩) true [.fail], .recv {} "8;255;0;0;17;2.0\n".toList [.fail]])).nodes (7, 4, 0)
    = some "21.5".toList := by
  have hpre : (stateAfter {} exPre).abs = ⟨.v14, [(7, exNode [])]⟩ := by rw [history_refines_spec]; decide
  refine value_is_last_set_from_node {} exPre _ {} _ [.fail] ⟨7, 4, 1, 0, 0, "21.5".toList⟩ ?_ rfl ?_ ?_
  · rw [← abs_proto, hpre]; decide
  · refine ⟨exNode [], ⟨4, 6, "temp".toList, []⟩, ?_, by decide⟩
    rw [← abs_nodes, hpre]; decide
  · intro op hop
    simp only [List.mem_cons, List.not_mem_nil, or_false] at hop
    rcases hop with rfl | rfl
    · trivial
    · exact notFrom_example
end

end AioMySensors.C04
