/-
C04 — The registry is a faithful record of what the network presented and reported.

Three layers of statement:
* for EVERY line, version, state and fault schedule (`Lemmas/Faithful.lean`, one traversal of the
  generated dispatch): a successfully handled line yields exactly its decoded field values; a
  missing-node / missing-child failure names the message's own node / child and leaves the registry
  untouched; a rejected line changes nothing;
* for every message: only the record of the node it is from can change (or a placeholder be added);
* per kind of report: the registry after the handler, as an explicit update of the registry before;
* over histories: the handler model refines the abstract registry specification
  (`Model/RegistrySpec.lean`, a pure function of the received lines): `registry_refines_spec` per
  operation — every line, environment, write-fault schedule, buffer content — and
  `history_refines_spec` by induction; from it `registry_independent_of_faults_and_buffers` and
  `value_is_last_set` (the stored value is the payload of the last set, over any history), the
  analogues for the node attributes (`battery_is_last_report`, `sketch_name_is_last_report`,
  `sketch_version_is_last_report`, `heartbeat_is_last_report`) and `absent_if_never_set` /
  `absent_if_not_set_since_presentation`.
-/
import AioMySensors.Lemmas.Faithful
import AioMySensors.Properties.C11
import AioMySensors.Properties.C07
import AioMySensors.Lemmas.Safe
import AioMySensors.Lemmas.RegistrySpec

namespace AioMySensors.C04
open AioMySensors M

/-! ### Every line -/

/-- **A line that does not decode changes nothing** and fails as an invalid message. -/
theorem rejected_line_changes_nothing (env : Env) (line : Str) (w : W) (h : decode w.st.proto line = none) :
    recv env line w = (.error (.lib .invalidMessage), w) := by
  simp [recv, M.bind, M.getSt, h, M.raise]

/-- **The yielded message carries the decoded field values.** -/
theorem yield_is_decoded (env : Env) (line : Str) (w : W) (r : Msg) (h : (recv env line w).1 = .ok r) :
    decode w.st.proto line = some r := by
  simp only [recv, M.bind, M.getSt] at h
  cases hd : decode w.st.proto line with
  | none => simp [hd, M.raise] at h
  | some m =>
    simp only [hd] at h
    rw [(faithful_dispatch env w.st.proto m).ret w r h]

/-- **A missing-node failure names the message's node and changes nothing in the registry.** -/
theorem missing_node_names_it (env : Env) (line : Str) (w : W) (n : Int)
    (h : (recv env line w).1 = .error (.lib (.missingNode n))) :
    ∃ m, decode w.st.proto line = some m ∧ n = m.node ∧ (recv env line w).2.st.nodes = w.st.nodes := by
  simp only [recv, M.bind, M.getSt] at h ⊢
  cases hd : decode w.st.proto line with
  | none => simp [hd, M.raise] at h
  | some m =>
    simp only [hd] at h ⊢
    exact ⟨m, rfl, (faithful_dispatch env w.st.proto m).missNode w n h⟩

/-- **A missing-child failure names the message's child and changes nothing in the registry.** -/
theorem missing_child_names_it (env : Env) (line : Str) (w : W) (c : Int)
    (h : (recv env line w).1 = .error (.lib (.missingChild c))) :
    ∃ m, decode w.st.proto line = some m ∧ c = m.child ∧ (recv env line w).2.st.nodes = w.st.nodes := by
  simp only [recv, M.bind, M.getSt] at h ⊢
  cases hd : decode w.st.proto line with
  | none => simp [hd, M.raise] at h
  | some m =>
    simp only [hd] at h ⊢
    exact ⟨m, rfl, (faithful_dispatch env w.st.proto m).missChild w c h⟩

/-- One observation per operation, in order: every line is handled (or fails) exactly once. -/
theorem one_observation_per_op (st : St) (ops : List Op) : (run st ops).2.length = ops.length := by
  induction ops generalizing st with
  | nil => rfl
  | cons op ops ih => simp [run, ih]

/-- Send calls never change the registry. -/
theorem send_keeps_registry (obj : Option Msg) (b : Bool) (w : W) : (apiSend obj b w).2.st.nodes = w.st.nodes := by
  cases obj with
  | none => rfl
  | some m => exact (gwSend_frame m b w).1

/-! ### Only the sender's record can change -/

def OthersRecordsKept (n : Int) : W → W → Prop :=
  OnSt fun s s' => ∀ k, k ≠ n → s.nodes.has k = true → s'.nodes.get? k = s.nodes.get? k ∧ s'.nodes.has k = true

theorem othersRecordsKept_preO (n : Int) : PreO (OthersRecordsKept n) :=
  OnSt.preO (fun _ _ _ h => ⟨rfl, h⟩) (fun h1 h2 k hk hh => by
    obtain ⟨a, b⟩ := h1 k hk hh
    obtain ⟨c, d⟩ := h2 k hk b
    exact ⟨c.trans a, d⟩)

theorem others_nodes_same (n : Int) {f : St → St} (h : ∀ s, (f s).nodes = s.nodes) : Rel (OthersRecordsKept n) (modifySt f) :=
  Rel.modifySt f fun s k _ hh => by simp [h s, hh]

theorem othersRecordsKept_stepRel (m : Msg) : StepRel (OthersRecordsKept m.node) m where
  pre := othersRecordsKept_preO m.node
  write := fun _ _ => Rel.transportWrite (fun _ _ _ h => ⟨rfl, h⟩) _
  setNode := fun node => Rel.modifySt _ fun s k hk hh => by
    simp only [PDict.has] at hh ⊢
    rw [PDict.get?_set_ne _ _ hk]; exact ⟨rfl, hh⟩
  alloc := Rel.modifySt _ fun s k _ hh => by
    have hne : k ≠ nextId s.nodes := by
      intro e; subst e
      have := C11.nextId_fresh s.nodes
      rw [this] at hh; exact absurd hh (by simp)
    simp only [PDict.has] at hh ⊢
    rw [PDict.get?_set_ne _ _ hne]; exact ⟨rfl, hh⟩
  erase := fun _ _ _ => others_nodes_same _ fun s => by split <;> rfl
  mark := others_nodes_same _ fun _ => rfl
  unmark := others_nodes_same _ fun s => by split <;> rfl
  version := fun _ _ => others_nodes_same _ fun _ => rfl

/-- **A message changes at most the record of the node it is from** (and may add a placeholder
under a fresh id): every other registered node keeps its complete record — type, version,
children, values, sketch, battery, heartbeat, flags — whatever the version, outcome and faults. -/
theorem other_records_untouched (env : Env) (v : Ver) (m : Msg) (w : W) (k : Int) (hk : k ≠ m.node)
    (hh : w.st.nodes.has k = true) : (dispatch env v m w).2.st.nodes.get? k = w.st.nodes.get? k :=
  ((rel_dispatch (othersRecordsKept_stepRel m) (ParkOK.of_all fun _ => others_nodes_same _ fun _ => rfl) env v).step w k hk hh).1

/-! ### What each report does to the sender's record -/

/-- **Node presentation** (re)creates the node with the presented type and library version and no children. -/
theorem node_presentation (env : Env) (v : Ver) (m : Msg) (w : W) (hc : m.child = 255) (hn : m.node ≠ 0) :
    hPresentation env v m w = (.ok m, { w with st := { w.st with nodes := w.st.nodes.set m.node { ntype := m.type, pv := m.payload } } }) := by
  have h1 : (m.child == Gen.systemChildId) = true := by simp [hc, Gen.systemChildId]
  have h2 : (m.node == 0) = false := by simpa using hn
  simp [hPresentation, h1, h2, M.seq, M.bind, setNode, M.modifySt, M.pure]

theorem fresh_node_is_blank (t : Int) (pv : Str) :
    ({ ntype := t, pv := pv } : Node) = ⟨t, pv, [], [], [], 0, 0, false, false⟩ := rfl

/-- **Child presentation** adds or replaces that child with its type and description (no values). -/
theorem child_presentation (env : Env) (v : Ver) (m : Msg) (w : W) (node : Node) (hc : m.child ≠ 255)
    (hn : w.st.nodes.get? m.node = some node) :
    hPresentation env v m w = (.ok m, { w with st := { w.st with nodes :=
      (w.st.nodes.set m.node { node with children := node.children.set m.child ⟨m.child, m.type, m.payload, []⟩ }) } }) := by
  have h1 : (m.child == Gen.systemChildId) = false := by simpa [Gen.systemChildId] using hc
  simp [hPresentation, h1, requireNode, M.bind, M.getSt, hn, M.pure, M.seq, setNode, M.modifySt]

theorem send_then_pure (m sm : Msg) (b : Bool) (w : W) : (M.seq (gwSend sm b) (pure m) w).2.st.nodes = w.st.nodes := by
  have := (gwSend_frame sm b w).1
  simp only [M.seq, M.bind]
  cases hg : gwSend sm b w with
  | mk r w' => rw [hg] at this; cases r <;> simpa [M.pure] using this

/-- **Set** records the payload under (child, value type); the registry is otherwise as before. -/
theorem set_known (m : Msg) (w : W) (node : Node) (child : Child)
    (hn : w.st.nodes.get? m.node = some node) (hc : node.children.get? m.child = some child) :
    (hSet m w).2.st.nodes = w.st.nodes.set m.node
      { node with children := node.children.set m.child { child with values := child.values.set m.type m.payload } } := by
  simp only [hSet, requireNode, M.bind, M.getSt, hn, M.pure, hc, setNode, M.modifySt]
  cases node.reboot
  · simp [M.seq, M.bind, M.pure, M.modifySt]
  · simp only [if_true]
    simp only [M.seq, M.bind]
    exact send_then_pure m _ _ _

/-- The value just set is what a lookup now returns; other value types of the child are untouched. -/
theorem latest_value_recorded (values : PDict Int Str) (t : Int) (p : Str) :
    (values.set t p).get? t = some p ∧ ∀ t', t' ≠ t → (values.set t p).get? t' = values.get? t' :=
  ⟨PDict.get?_set_self _ _ _, fun _ h => PDict.get?_set_ne _ _ h⟩

/-- **Battery report** (a level within the generated bounds) updates the battery level only. -/
theorem battery_report (m : Msg) (w : W) (node : Node) (level : Int) (hn : w.st.nodes.get? m.node = some node)
    (hp : pyRoundFloat m.payload = .ok level) (hr : Gen.minBattery ≤ level ∧ level ≤ Gen.maxBattery) :
    hBattery m w = (.ok m, { w with st := { w.st with nodes := w.st.nodes.set m.node { node with battery := level } } }) := by
  simp [hBattery, requireNode, M.bind, M.getSt, hn, M.pure, convertExn, hp, hr, M.seq, setNode, M.modifySt]

/-- … and a level outside them, or an unparsable payload, is an invalid message that changes nothing. -/
theorem battery_rejected (m : Msg) (w : W) (node : Node) (hn : w.st.nodes.get? m.node = some node)
    (hp : (∃ level, pyRoundFloat m.payload = .ok level ∧ ¬ (Gen.minBattery ≤ level ∧ level ≤ Gen.maxBattery)) ∨
          (∃ c, pyRoundFloat m.payload = .error c)) :
    hBattery m w = (.error (.lib .invalidMessage), w) := by
  rcases hp with ⟨level, hp, hr⟩ | ⟨c, hp⟩
  · simp [hBattery, requireNode, M.bind, M.getSt, hn, M.pure, convertExn, hp, hr, M.raise]
  · have := battery_errors_caught m.payload c hp
    simp [hBattery, requireNode, M.bind, M.getSt, hn, M.pure, convertExn, hp, this, M.raise]

theorem sketch_name_report (m : Msg) (w : W) (node : Node) (hn : w.st.nodes.get? m.node = some node) :
    hSketchName m w = (.ok m, { w with st := { w.st with nodes := w.st.nodes.set m.node { node with sketchName := m.payload } } }) := by
  simp [hSketchName, requireNode, M.bind, M.getSt, hn, M.pure, M.seq, setNode, M.modifySt]

theorem sketch_version_report (m : Msg) (w : W) (node : Node) (hn : w.st.nodes.get? m.node = some node) :
    hSketchVersion m w = (.ok m, { w with st := { w.st with nodes := w.st.nodes.set m.node { node with sketchVersion := m.payload } } }) := by
  simp [hSketchVersion, requireNode, M.bind, M.getSt, hn, M.pure, M.seq, setNode, M.modifySt]

/-- **Heartbeat report** in 2.2: the heartbeat attribute, nothing else. -/
theorem heartbeat_report_22 (m : Msg) (w : W) (node : Node) (hb : Int) (hn : w.st.nodes.get? m.node = some node)
    (hp : pyInt? m.payload = some hb) :
    hHeartbeat22 m w = (.ok m, { w with st := { w.st with nodes := w.st.nodes.set m.node { node with heartbeat := hb } } }) := by
  simp [hHeartbeat22, requireNode, M.bind, M.getSt, hn, M.pure, heartbeatValue, convertExn, hp, M.seq, setNode, M.modifySt]

/-- The release loop never touches the registry. -/
theorem flush_nodes (m : Msg) (w0 : W) : (flush m w0).2.st.nodes = w0.st.nodes := by
  rw [flush_eq]
  have := (flushList_frame (snapshotOf w0.st m.node) w0).1
  cases hf : flushList (snapshotOf w0.st m.node) w0 with
  | mk r w' => rw [hf] at this; cases r <;> simpa using this

/-- In 2.0/2.1 the heartbeat report also marks the node as sleeping (and releases its commands, C07);
the release does not touch the registry. -/
theorem heartbeat_report_20 (m : Msg) (w : W) (node : Node) (hb : Int) (hn : w.st.nodes.get? m.node = some node)
    (hp : pyInt? m.payload = some hb) :
    (hHeartbeat20 m w).2.st.nodes = w.st.nodes.set m.node { node with sleeping := true, heartbeat := hb } := by
  rw [C07.heartbeat_wake m w node hb hn hp, flush_nodes]

/-- An absurd heartbeat payload is an invalid message and changes nothing (the conversion runs
before the node is touched). -/
theorem heartbeat_rejected (m : Msg) (w : W) (node : Node) (hn : w.st.nodes.get? m.node = some node)
    (hp : pyInt? m.payload = none) :
    hHeartbeat20 m w = (.error (.lib .invalidMessage), w) ∧ hHeartbeat22 m w = (.error (.lib .invalidMessage), w) := by
  have h1 : pyCaught .ValueError (clause Gen.excHeartbeat20 0) = true := by decide
  have h2 : pyCaught .ValueError (clause Gen.excHeartbeat22 0) = true := by decide
  constructor
  · simp [hHeartbeat20, requireNode, M.bind, M.getSt, hn, M.pure, heartbeatValue, convertExn, hp, h1, M.raise]
  · simp [hHeartbeat22, requireNode, M.bind, M.getSt, hn, M.pure, heartbeatValue, convertExn, hp, h2, M.raise]

/-- Requests and reactions that only read: the registry is unchanged. -/
theorem readers_keep_registry (env : Env) (m : Msg) (w : W) :
    (hReq m w).2.st.nodes = w.st.nodes ∧ (hConfig env m w).2.st.nodes = w.st.nodes ∧
    (hTime env m w).2.st.nodes = w.st.nodes ∧ (hGatewayReady m w).2.st.nodes = w.st.nodes ∧
    (hDiscoverResponse m w).2.st.nodes = w.st.nodes ∧ (hVersion m w).2.st.nodes = w.st.nodes := by
  refine ⟨?_, send_then_pure m _ _ w, send_then_pure m _ _ w, send_then_pure m _ _ w, ?_, ?_⟩
  · simp only [hReq, requireNode, M.bind, M.getSt]
    cases hn : w.st.nodes.get? m.node with
    | none => simp [M.raise]
    | some node =>
      simp only [M.pure]
      cases hc : node.children.get? m.child with
      | none => simp [M.raise]
      | some child =>
        simp only []
        cases hv : child.values.get? m.type with
        | none => simp [M.pure]
        | some value => exact send_then_pure m _ _ w
  · simp only [hDiscoverResponse, requireNode, M.bind, M.getSt]
    cases hn : w.st.nodes.get? m.node <;> simp [M.raise, M.pure]
  · simp only [hVersion, convertExn, M.bind]
    cases hp : getProtocolE m.payload with
    | error c => by_cases hc : pyCaught c (clause Gen.excVersion 0) = true <;> simp [hc, M.raise]
    | ok v => simp [M.pure, M.seq, M.bind, M.modifySt]

/-! ### Through the dispatch: the decorators never touch the registry -/

theorem wrapMissingPV_nodes (inner : Msg → M Msg) (m : Msg) (w : W) :
    (wrapMissingPV inner m w).2.st.nodes = (inner m w).2.st.nodes := by
  rw [wrapMissingPV_eq]
  simp only []
  have aw := after_write (inner m w).1 (inner m w).2 (encode versionQuery)
  simp only [] at aw
  cases hr : (inner m w).1 with
  | ok m' =>
    rw [hr] at aw
    by_cases hc : ((inner m w).2.st.pv.isNone && wantsVersionQuery m') = true
    · simp only [hc, if_true]; exact congrArg St.nodes aw.1
    · simp only [hc]; rfl
  | error e =>
    rw [hr] at aw
    by_cases hc : ((inner m w).2.st.pv.isNone && wantsVersionQuery m) = true
    · simp only [hc, if_true]; exact congrArg St.nodes aw.1
    · simp only [hc]; rfl

theorem wrapMissingNC_nodes (inner : Msg → M Msg) (m : Msg) (w : W) :
    (wrapMissingNC inner m w).2.st.nodes = (inner m w).2.st.nodes := by
  cases hin : inner m w with
  | mk r w' =>
    cases r with
    | ok r => rw [wrapMissingNC_ok inner m r w w' hin]
    | error e =>
      by_cases he : missingCaught e = true
      · by_cases hm : w'.st.ibuf.has (presentationRequest m.node).key = true
        · rw [wrapMissingNC_marked inner m e w w' hin he hm]
        · have hm' : w'.st.ibuf.has (presentationRequest m.node).key = false := by simpa using hm
          rw [wrapMissingNC_unmarked inner m e w w' hin he hm']
          simp only [transportWrite]
          cases hf : w'.faults with
          | nil => simp
          | cons f fs => cases f <;> simp
      · have he' : missingCaught e = false := by simpa using he
        rw [wrapMissingNC_other inner m e w w' hin he']

theorem wrapNC_nodes (v : Ver) (inner : Msg → M Msg) (m : Msg) (w : W) :
    (wrapNC v inner m w).2.st.nodes = (inner m w).2.st.nodes := by
  unfold wrapNC; split
  · exact wrapMissingNC_nodes inner m w
  · rfl

/-- **Set, through the whole receive path, in every version**: the registry after the step is the
registry `handle_set` leaves — the latest payload recorded under (child, value type), or unchanged
when the node or child is unknown — whatever the write faults and the decorators do. -/
theorem set_through_dispatch (env : Env) (v : Ver) (m : Msg) (w : W) (hcmd : m.cmd = 1) :
    (dispatch env v m w).2.st.nodes = (hSet m w).2.st.nodes := by
  rw [dispatch_set env v m hcmd, wrapNC_nodes, wrapMissingPV_nodes]

theorem req_through_dispatch (env : Env) (v : Ver) (m : Msg) (w : W) (hcmd : m.cmd = 2) :
    (dispatch env v m w).2.st.nodes = w.st.nodes := by
  rw [dispatch_req env v m hcmd, wrapNC_nodes, wrapMissingPV_nodes, (readers_keep_registry {} m w).1]

theorem battery_through_dispatch (env : Env) (v : Ver) (m : Msg) (w : W) (hcmd : m.cmd = 3) (ht : m.type = 0) :
    (dispatch env v m w).2.st.nodes = (hBattery m w).2.st.nodes := by
  rw [dispatch_internal env v m hcmd, wrapMissingPV_nodes, internal_battery env v m ht, wrapNC_nodes]

theorem sketch_name_through_dispatch (env : Env) (v : Ver) (m : Msg) (w : W) (hcmd : m.cmd = 3) (ht : m.type = 11) :
    (dispatch env v m w).2.st.nodes = (hSketchName m w).2.st.nodes := by
  rw [dispatch_internal env v m hcmd, wrapMissingPV_nodes, internal_sketch_name env v m ht, wrapNC_nodes]

theorem sketch_version_through_dispatch (env : Env) (v : Ver) (m : Msg) (w : W) (hcmd : m.cmd = 3) (ht : m.type = 12) :
    (dispatch env v m w).2.st.nodes = (hSketchVersion m w).2.st.nodes := by
  rw [dispatch_internal env v m hcmd, wrapMissingPV_nodes, internal_sketch_version env v m ht, wrapNC_nodes]

/-- Config, time, log and version-less traffic: the registry is untouched through the whole path. -/
theorem config_time_through_dispatch (env : Env) (v : Ver) (m : Msg) (w : W) (hcmd : m.cmd = 3)
    (ht : m.type = 6 ∨ m.type = 1 ∨ m.type = 9) : (dispatch env v m w).2.st.nodes = w.st.nodes := by
  rw [dispatch_internal env v m hcmd, wrapMissingPV_nodes]
  rcases ht with ht | ht | ht
  · rw [internal_config env v m ht]; exact (readers_keep_registry env m w).2.1
  · rw [internal_time env v m ht]; exact (readers_keep_registry env m w).2.2.1
  · rw [internal_log env v m ht]; rfl

/-! Non-vacuity: the F6 witness — node 7 without child 4. -/
example : errOf (hSet ⟨7, 4, 1, 0, 0, ['1']⟩ { st := { nodes := [(7, { ntype := 17, pv := [] })] } }).1
    = some (.lib (.missingChild 4)) := by decide

/-! ### Refinement: the registry after any history is the specification's -/

theorem stepOp_recv_st (st : St) (env : Env) (line : Str) (faults : List Fault) :
    (stepOp st (.recv env line faults)).1 = (recv env line { st := st, faults := faults }).2.st := by
  simp only [stepOp]; split <;> simp [*]

theorem stepOp_send_st (st : St) (obj : Option Msg) (b : Bool) (faults : List Fault) :
    (stepOp st (.send obj b faults)).1 = (apiSend obj b { st := st, faults := faults }).2.st := by
  simp only [stepOp]; split <;> simp [*]

/-- One iteration of `listen`, in any world (any fault schedule, any earlier writes). -/
theorem recv_refines_spec (env : Env) (line : Str) (w : W) :
    (recv env line w).2.st.abs = specStep w.st.abs (.recv env line w.faults) := by
  simp only [recv, M.bind, M.getSt, specStep]
  show _ = match decode w.st.proto line with | some m => Spec.message w.st.abs m | none => w.st.abs
  cases decode w.st.proto line with
  | none => rfl
  | some m => exact dispatch_abs env w.st.proto m w rfl

/-- `gateway.send` changes neither registry nor protocol. -/
theorem send_refines_spec (obj : Option Msg) (b : Bool) (w : W) : (apiSend obj b w).2.st.abs = w.st.abs := by
  cases obj with
  | none => rfl
  | some m => exact gwSend_abs m b w

/-- **The handler model refines the registry specification**, one operation at a time: for every
state (any contents of both buffers, version known or unknown), every received line with its
environment and every send call, under every write-fault schedule, the registry and the active
protocol after the operation are `specStep` of the registry and protocol before — a function of the
decoded message alone. -/
theorem registry_refines_spec (st : St) (op : Op) : (stepOp st op).1.abs = specStep st.abs op := by
  cases op with
  | recv env line faults => rw [stepOp_recv_st]; exact recv_refines_spec env line _
  | send obj b faults => rw [stepOp_send_st]; exact send_refines_spec obj b _

theorem stateAfter_cons (st : St) (op : Op) (ops : List Op) :
    stateAfter st (op :: ops) = stateAfter (stepOp st op).1 ops := by
  simp [stateAfter, run]

theorem stateAfter_append (st : St) (a b : List Op) : stateAfter st (a ++ b) = stateAfter (stateAfter st a) b := by
  induction a generalizing st with
  | nil => simp [stateAfter, run]
  | cons op a ih => simp only [List.cons_append, stateAfter_cons, ih]

/-- **… and so over every history**: the registry after any sequence of received lines and send
calls, with any faults, is the specification's fold over the operations. -/
theorem history_refines_spec (st : St) (ops : List Op) : (stateAfter st ops).abs = specRun st.abs ops := by
  induction ops generalizing st with
  | nil => simp [stateAfter, run, specRun]
  | cons op ops ih => rw [stateAfter_cons, ih, registry_refines_spec]; rfl


/-- What the specification looks at in an operation: the received line, or nothing for a send. -/
def opLine : Op → Option Str
  | .recv _ line _ => some line
  | .send _ _ _ => none

theorem specStep_of_opLine (s : SpecSt) (op op' : Op) (h : opLine op = opLine op') : specStep s op = specStep s op' := by
  cases op <;> cases op' <;> simp only [opLine, Option.some.injEq, reduceCtorEq] at h
  · subst h; rfl
  · rfl

/-- **Registry and protocol after a history depend on the received lines alone**: two runs from
states with the same registry and protocol — whatever their buffers, markers and reported version
strings — fed the same lines, with any sends in between, under any environments and any write-fault
schedules, end with the same registry and protocol. -/
theorem registry_independent_of_faults_and_buffers (st1 st2 : St) (ops1 ops2 : List Op) (h : st1.abs = st2.abs)
    (hops : ops1.map opLine = ops2.map opLine) : (stateAfter st1 ops1).abs = (stateAfter st2 ops2).abs := by
  rw [history_refines_spec, history_refines_spec, h]
  generalize st2.abs = s
  induction ops1 generalizing ops2 s with
  | nil => cases ops2 with
    | nil => rfl
    | cons _ _ => simp at hops
  | cons op ops ih =>
    cases ops2 with
    | nil => simp at hops
    | cons op' ops' =>
      simp only [List.map_cons, List.cons.injEq] at hops
      simp only [specRun, List.foldl_cons]
      rw [specStep_of_opLine s op op' hops.1]
      exact ih ops' hops.2 _

/-! ### The stored value is the payload of the last set -/

/-- The value stored in a node record for (child, value type). -/
def nodeValue (node : Node) (c t : Int) : Option Str := (node.children.get? c).bind fun child => child.values.get? t

/-- The value the registry holds for the key (node, child, value type). -/
def storedValue (nodes : PDict Int Node) (k : Key) : Option Str := (nodes.get? k.1).bind fun node => nodeValue node k.2.1 k.2.2

/-- The messages that may change or remove the value stored under `k`: a set for the same key, a
presentation of that node, a presentation of that child. -/
def Disturbs (k : Key) (m : Msg) : Prop :=
  m.node = k.1 ∧ ((m.cmd = Gen.cmdSet ∧ m.child = k.2.1 ∧ m.type = k.2.2) ∨
    (m.cmd = Gen.cmdPresentation ∧ (m.child = Gen.systemChildId ∨ m.child = k.2.1)))

theorem storedValue_set_ne (nodes : PDict Int Node) (id : Int) (n : Node) (k : Key) (h : k.1 ≠ id) :
    storedValue (nodes.set id n) k = storedValue nodes k := by
  unfold storedValue; rw [PDict.get?_set_ne _ _ h]

theorem storedValue_updNode (s : SpecSt) (id : Int) (f : Node → Option Node) (k : Key)
    (hf : ∀ node node', f node = some node' → id = k.1 → nodeValue node' k.2.1 k.2.2 = nodeValue node k.2.1 k.2.2) :
    storedValue (Spec.updNode s id f).nodes k = storedValue s.nodes k := by
  cases hn : s.nodes.get? id with
  | none => rw [updNode_none _ _ _ hn]
  | some node =>
    rw [updNode_some _ _ _ node hn]
    cases hfn : f node with
    | none => rfl
    | some node' =>
      simp only []
      by_cases hk : k.1 = id
      · unfold storedValue
        rw [hk, PDict.get?_set_self, hn]
        exact hf node node' hfn hk.symm
      · exact storedValue_set_ne _ _ _ _ hk

theorem versionReport_nodes (s : SpecSt) (p : Str) : (Spec.versionReport s p).nodes = s.nodes := by
  unfold Spec.versionReport; split <;> rfl

/-- In the specification: a message that does not disturb the key leaves its stored value in place. -/
theorem message_keeps_value (s : SpecSt) (m : Msg) (k : Key) (p : Str) (h : storedValue s.nodes k = some p)
    (hd : ¬ Disturbs k m) : storedValue (Spec.message s m).nodes k = some p := by
  rw [← h]
  unfold Spec.message
  split
  · next h0 =>
    -- presentation
    unfold Spec.presentation
    split
    · next hc =>
      have hne : k.1 ≠ m.node := fun e => hd ⟨e.symm, Or.inr ⟨h0, Or.inl hc⟩⟩
      simp only []
      split
      · rw [versionReport_nodes]; exact storedValue_set_ne _ _ _ _ hne
      · exact storedValue_set_ne _ _ _ _ hne
    · refine storedValue_updNode _ _ _ _ fun node node' hf hid => ?_
      simp only [Option.some.injEq] at hf; subst hf
      have hne : k.2.1 ≠ m.child := fun e => hd ⟨hid, Or.inr ⟨h0, Or.inr e.symm⟩⟩
      simp only [nodeValue]; rw [PDict.get?_set_ne _ _ hne]
  · split
    · next _ h1 =>
      -- set
      unfold Spec.setReport
      refine storedValue_updNode _ _ _ _ fun node node' hf hid => ?_
      cases hc : node.children.get? m.child with
      | none => simp [hc] at hf
      | some child =>
        simp only [hc, Option.map_some, Option.some.injEq] at hf; subst hf
        simp only [nodeValue]
        by_cases hck : k.2.1 = m.child
        · have hne : k.2.2 ≠ m.type := fun e => hd ⟨hid, Or.inl ⟨h1, hck.symm, e.symm⟩⟩
          rw [hck, PDict.get?_set_self, hc]
          simp only [Option.bind_some]
          rw [PDict.get?_set_ne _ _ hne]
        · rw [PDict.get?_set_ne _ _ hck]
    · split
      · -- internal
        unfold Spec.internal
        repeat' split
        all_goals first
          | rfl
          | exact congrArg (storedValue · k) (versionReport_nodes _ _)
          | (refine storedValue_updNode _ _ _ _ fun node node' hf hid => ?_
             first
             | (simp only [Option.some.injEq] at hf; subst hf; rfl)
             | (simp only [Option.map_eq_some_iff] at hf; obtain ⟨_, _, rfl⟩ := hf; first | rfl | (split <;> rfl)))
          | skip
        -- id request: the next free id is not a registered one
        refine storedValue_set_ne _ _ _ _ fun e => ?_
        have hf := C11.nextId_fresh s.nodes
        rw [← e] at hf
        unfold storedValue at h
        simp only [PDict.has] at hf
        cases hg : s.nodes.get? k.1 with
        | none => rw [hg] at h; simp at h
        | some n => rw [hg] at hf; simp at hf
      · rfl


/-- An operation that leaves the value under `k` alone: a send, or a received line that — decoded
under the protocol active when it arrives — is rejected or is not a disturbing message. -/
def QuietOp (k : Key) (s : SpecSt) : Op → Prop
  | .recv _ line _ => ∀ m', decode s.proto line = some m' → ¬ Disturbs k m'
  | .send _ _ _ => True

/-- No operation of the history disturbs `k`; each line is judged under the protocol active at
that point of the history (the protocol may change on the way). -/
def Undisturbed (k : Key) : SpecSt → List Op → Prop
  | _, [] => True
  | s, op :: ops => QuietOp k s op ∧ Undisturbed k (specStep s op) ops

theorem specStep_keeps_value (s : SpecSt) (op : Op) (k : Key) (p : Str) (h : storedValue s.nodes k = some p)
    (hq : QuietOp k s op) : storedValue (specStep s op).nodes k = some p := by
  cases op with
  | send _ _ _ => exact h
  | recv env line faults =>
    simp only [specStep]
    cases hd : decode s.proto line with
    | none => exact h
    | some m' => exact message_keeps_value s m' k p h (hq m' hd)

theorem specRun_keeps_value (s : SpecSt) (ops : List Op) (k : Key) (p : Str) (h : storedValue s.nodes k = some p)
    (hq : Undisturbed k s ops) : storedValue (specRun s ops).nodes k = some p := by
  induction ops generalizing s with
  | nil => exact h
  | cons op ops ih => exact ih _ (specStep_keeps_value s op k p h hq.1) hq.2

/-- In the specification: a set message for a registered child of a registered node stores its payload. -/
theorem message_stores_value (s : SpecSt) (m : Msg) (hset : m.cmd = Gen.cmdSet) (node : Node) (child : Child)
    (hn : s.nodes.get? m.node = some node) (hc : node.children.get? m.child = some child) :
    storedValue (Spec.message s m).nodes m.key = some m.payload := by
  have h0 : ¬ m.cmd = Gen.cmdPresentation := by rw [hset]; decide
  unfold Spec.message
  rw [if_neg h0, if_pos hset]
  unfold Spec.setReport
  rw [updNode_some _ _ _ node hn]
  simp only [hc, Option.map_some, storedValue, Msg.key, PDict.get?_set_self, Option.bind_some, nodeValue]

/-- **The stored value is the payload of the last set.**  Take any history
`pre ++ [line] ++ post` from any state, with any environments and write-fault schedules, where
`line` decodes (under the protocol active after `pre`) to a set message `m` for a node and child
registered at that point, and no later operation disturbs the key of `m` — sends are allowed, and so
is any traffic except, from the same node, a set for the same (child, value type), a presentation
of the node, or a presentation of that child.  Then the registry at the end holds `m.payload` under
(`m.node`, `m.child`, `m.type`). -/
theorem value_is_last_set (st : St) (pre post : List Op) (env : Env) (line : Str) (faults : List Fault) (m : Msg)
    (hd : decode (stateAfter st pre).proto line = some m) (hset : m.cmd = Gen.cmdSet)
    (hknown : ∃ node child, (stateAfter st pre).nodes.get? m.node = some node ∧ node.children.get? m.child = some child)
    (hpost : Undisturbed m.key (stateAfter st (pre ++ [.recv env line faults])).abs post) :
    storedValue (stateAfter st (pre ++ .recv env line faults :: post)).nodes m.key = some m.payload := by
  obtain ⟨node, child, hn, hc⟩ := hknown
  have e : pre ++ Op.recv env line faults :: post = (pre ++ [Op.recv env line faults]) ++ post := by simp
  rw [e, stateAfter_append]
  generalize hmid : stateAfter st (pre ++ [Op.recv env line faults]) = mid at hpost ⊢
  have hmidv : storedValue mid.nodes m.key = some m.payload := by
    have : mid.abs = Spec.message (stateAfter st pre).abs m := by
      rw [← hmid, stateAfter_append, stateAfter_cons]
      show (stateAfter _ []).abs = _
      have : ∀ s : St, stateAfter s [] = s := fun _ => rfl
      rw [this, registry_refines_spec]
      show (match decode (stateAfter st pre).proto line with
        | some m => Spec.message (stateAfter st pre).abs m | none => (stateAfter st pre).abs) = _
      rw [hd]
    show storedValue mid.abs.nodes m.key = _
    rw [this]
    exact message_stores_value _ m hset node child hn hc
  have := specRun_keeps_value mid.abs post m.key m.payload hmidv hpost
  rw [← history_refines_spec] at this
  exact this

/-- A received line that is not from node `n`, whichever protocol decodes it. -/
def NotFrom (n : Int) : Op → Prop
  | .recv _ line _ => ∀ v m', decode v line = some m' → m'.node ≠ n
  | .send _ _ _ => True

theorem undisturbed_of_notFrom (k : Key) (ops : List Op) (h : ∀ op ∈ ops, NotFrom k.1 op) (s : SpecSt) :
    Undisturbed k s ops := by
  induction ops generalizing s with
  | nil => trivial
  | cons op ops ih =>
    refine ⟨?_, ih (fun o ho => h o (List.mem_cons_of_mem _ ho)) _⟩
    have := h op (List.mem_cons_self)
    cases op with
    | send _ _ _ => trivial
    | recv env line faults => exact fun m' hm' hdist => this s.proto m' hm' hdist.1

/-- The same with the simpler side condition of the property text: after the set, no received line
is from node `m.node` (sends and traffic from other nodes are allowed, with any faults). -/
theorem value_is_last_set_from_node (st : St) (pre post : List Op) (env : Env) (line : Str) (faults : List Fault) (m : Msg)
    (hd : decode (stateAfter st pre).proto line = some m) (hset : m.cmd = Gen.cmdSet)
    (hknown : ∃ node child, (stateAfter st pre).nodes.get? m.node = some node ∧ node.children.get? m.child = some child)
    (hpost : ∀ op ∈ post, NotFrom m.node op) :
    storedValue (stateAfter st (pre ++ .recv env line faults :: post)).nodes m.key = some m.payload :=
  value_is_last_set st pre post env line faults m hd hset hknown (undisturbed_of_notFrom m.key post hpost _)


/-! ### Non-vacuity

The specification computes: node 7 presents itself and child 4, then reports a value (evaluated in
the specification — small closed terms, no handler runs); a gateway presentation switches the
protocol; an id request registers the placeholder. -/
def exPre : List Op :=
  [.recv {} "7;255;0;0;17;2.0\n".toList [], .send none true [.fail], .recv {} "7;4;0;0;6;temp\n".toList [.fail, .cancel]]

def exNode (values : PDict Int Str) : Node :=
  { ntype := 17, pv := "2.0".toList, children := [(4, ⟨4, 6, "temp".toList, values⟩)] }

example : specRun {} exPre = ⟨.v14, [(7, exNode [])]⟩ := by decide
example : specRun {} (exPre ++ [.recv {} "7;4;1;0;0;21.5\n".toList [.fail]]) = ⟨.v14, [(7, exNode [(0, "21.5".toList)])]⟩ := by
  decide
example : specRun {} [.recv {} "0;255;0;0;18;2.2.0\n".toList [], .recv {} "255;255;3;0;3;\n".toList [.fail]] =
    ⟨.v22, [(0, { ntype := 18, pv := "2.2.0".toList }), (1, placeholderNode)]⟩ := by decide

example : Disturbs (7, 4, 0) ⟨7, 4, 1, 0, 0, ['1']⟩ ∧ Disturbs (7, 4, 0) ⟨7, 255, 0, 0, 17, []⟩ ∧
    ¬ Disturbs (7, 4, 0) ⟨7, 4, 1, 0, 1, ['1']⟩ ∧ ¬ Disturbs (7, 4, 0) ⟨7, 255, 3, 0, 0, ['5', '0']⟩ ∧
    ¬ Disturbs (7, 4, 0) ⟨7, 5, 0, 0, 6, []⟩ := by
  simp [Disturbs, Gen.cmdSet, Gen.cmdPresentation, Gen.systemChildId]

theorem notFrom_example : NotFrom 7 (.recv {} "8;255;0;0;17;2.0\n".toList [.fail]) := by
  intro v m' h
  have : decode v "8;255;0;0;17;2.0\n".toList = some ⟨8, 255, 0, 0, 17, "2.0".toList⟩ := by cases v <;> decide
  rw [this] at h; cases h; decide
section
attribute [local irreducible] stateAfter

theorem abs_proto (st : St) : st.abs.proto = st.proto := rfl
theorem abs_nodes (st : St) : st.abs.nodes = st.nodes := rfl

/-- The hypotheses of `value_is_last_set_from_node` on a concrete history with failing writes and a send in
between (the model's history is never evaluated: its registry is read off the specification). -/
example : storedValue (stateAfter {} (exPre ++ .recv {} "7;4;1;0;0;21.5\n".toList [.fail] ::
      [.send (some ⟨7, 4, 1, 0, 0, ['9']⟩) true [.fail], .recv {} "8;255;0;0;17;2.0\n".toList [.fail]])).nodes (7, 4, 0)
    = some "21.5".toList := by
  have hpre : (stateAfter {} exPre).abs = ⟨.v14, [(7, exNode [])]⟩ := by rw [history_refines_spec]; decide
  refine value_is_last_set_from_node {} exPre _ {} _ [.fail] ⟨7, 4, 1, 0, 0, "21.5".toList⟩ ?_ rfl ?_ ?_
  · rw [← abs_proto, hpre]; decide
  · refine ⟨exNode [], ⟨4, 6, "temp".toList, []⟩, ?_, by decide⟩
    rw [← abs_nodes, hpre]; decide
  · intro op hop
    simp only [List.mem_cons, List.not_mem_nil, or_false] at hop
    rcases hop with rfl | rfl
    · trivial
    · exact notFrom_example
end

/-! ### Node attributes: the last accepted report; absent if never set -/

/-- An operation none of whose decoded messages satisfies `D` (a send, a rejected line, or a line that
decodes — under the protocol active when it arrives — to a message outside `D`). -/
def QuietFor (D : Msg → Prop) (s : SpecSt) : Op → Prop
  | .recv _ line _ => ∀ m', decode s.proto line = some m' → ¬ D m'
  | .send _ _ _ => True

/-- No operation of the history delivers a message in `D`; each line is judged under the protocol
active at that point of the history. -/
def Quiet (D : Msg → Prop) : SpecSt → List Op → Prop
  | _, [] => True
  | s, op :: ops => QuietFor D s op ∧ Quiet D (specStep s op) ops

theorem specRun_inv (D : Msg → Prop) (P : SpecSt → Prop) (hP : ∀ s m, P s → ¬ D m → P (Spec.message s m))
    (s : SpecSt) (ops : List Op) (h : P s) (hq : Quiet D s ops) : P (specRun s ops) := by
  induction ops generalizing s with
  | nil => exact h
  | cons op ops ih =>
    refine ih _ ?_ hq.2
    cases op with
    | send _ _ _ => exact h
    | recv env line faults =>
      simp only [specStep]
      cases hd : decode s.proto line with
      | none => exact h
      | some m' => exact hP s m' h (hq.1 m' hd)

theorem quiet_of_notFrom (D : Msg → Prop) (n : Int) (hD : ∀ m, D m → m.node = n) (ops : List Op)
    (h : ∀ op ∈ ops, NotFrom n op) (s : SpecSt) : Quiet D s ops := by
  induction ops generalizing s with
  | nil => trivial
  | cons op ops ih =>
    refine ⟨?_, ih (fun o ho => h o (List.mem_cons_of_mem _ ho)) _⟩
    have := h op (List.mem_cons_self)
    cases op with
    | send _ _ _ => trivial
    | recv env line faults => exact fun m' hm' hdist => this s.proto m' hm' (hD m' hdist)

/-- An attribute of the record of node `n` (absent when the node is not registered). -/
def nodeAttr (nodes : PDict Int Node) (n : Int) (attr : Node → α) : Option α := (nodes.get? n).map attr

/-- The messages that may change the attribute reported by internal type `t` of node `n`: an internal
message of that type from `n`, or a presentation of node `n` (which recreates the record). -/
def AttrDisturbs (n t : Int) (m : Msg) : Prop :=
  m.node = n ∧ ((m.cmd = Gen.cmdInternal ∧ m.type = t) ∨ (m.cmd = Gen.cmdPresentation ∧ m.child = Gen.systemChildId))

/-- `attr` is the attribute reported by internal type `t`: every other update of a record that the
specification performs leaves it as it is. -/
structure AttrOf (attr : Node → α) (t : Int) : Prop where
  children : ∀ (node : Node) c, attr { node with children := c } = attr node
  battery : t ≠ Spec.iBatteryLevel → ∀ (node : Node) l, attr { node with battery := l } = attr node
  sketchName : t ≠ Spec.iSketchName → ∀ (node : Node) p, attr { node with sketchName := p } = attr node
  sketchVersion : t ≠ Spec.iSketchVersion → ∀ (node : Node) p, attr { node with sketchVersion := p } = attr node
  heartbeat : t ≠ Spec.iHeartbeatResponse → ∀ (node : Node) b, attr { node with heartbeat := b } = attr node
  sleeping : ∀ (node : Node) b, attr { node with sleeping := b } = attr node

theorem nodeAttr_set_ne (nodes : PDict Int Node) (id : Int) (x : Node) (n : Int) (attr : Node → α) (h : n ≠ id) :
    nodeAttr (nodes.set id x) n attr = nodeAttr nodes n attr := by
  unfold nodeAttr; rw [PDict.get?_set_ne _ _ h]

theorem nodeAttr_updNode (s : SpecSt) (id : Int) (f : Node → Option Node) (n : Int) (attr : Node → α)
    (hf : ∀ node node', f node = some node' → id = n → attr node' = attr node) :
    nodeAttr (Spec.updNode s id f).nodes n attr = nodeAttr s.nodes n attr := by
  cases hn : s.nodes.get? id with
  | none => rw [updNode_none _ _ _ hn]
  | some node =>
    rw [updNode_some _ _ _ node hn]
    cases hfn : f node with
    | none => rfl
    | some node' =>
      simp only []
      by_cases hk : n = id
      · unfold nodeAttr
        rw [hk, PDict.get?_set_self, hn]
        exact congrArg some (hf node node' hfn hk.symm)
      · exact nodeAttr_set_ne _ _ _ _ _ hk

/-- In the specification: a message that does not disturb the attribute leaves it in place. -/
theorem message_keeps_attr {attr : Node → α} {t : Int} (ha : AttrOf attr t) (s : SpecSt) (m : Msg) (n : Int) (a : α)
    (h : nodeAttr s.nodes n attr = some a) (hd : ¬ AttrDisturbs n t m) :
    nodeAttr (Spec.message s m).nodes n attr = some a := by
  rw [← h]
  unfold Spec.message
  split
  · next h0 =>
    unfold Spec.presentation
    split
    · next hc =>
      have hne : n ≠ m.node := fun e => hd ⟨e.symm, Or.inr ⟨h0, hc⟩⟩
      simp only []
      split
      · rw [versionReport_nodes]; exact nodeAttr_set_ne _ _ _ _ _ hne
      · exact nodeAttr_set_ne _ _ _ _ _ hne
    · refine nodeAttr_updNode _ _ _ _ _ fun node node' hf _ => ?_
      simp only [Option.some.injEq] at hf; subst hf
      exact ha.children _ _
  · split
    · unfold Spec.setReport
      refine nodeAttr_updNode _ _ _ _ _ fun node node' hf _ => ?_
      simp only [Option.map_eq_some_iff] at hf; obtain ⟨_, _, rfl⟩ := hf
      exact ha.children _ _
    · split
      · next h3 =>
        unfold Spec.internal
        split
        · next ht =>
          refine nodeAttr_updNode _ _ _ _ _ fun node node' hf hid => ?_
          simp only [Option.map_eq_some_iff] at hf; obtain ⟨_, _, rfl⟩ := hf
          exact ha.battery (fun e => hd ⟨hid, Or.inl ⟨h3, ht.trans e.symm⟩⟩) _ _
        · split
          · next ht =>
            refine nodeAttr_updNode _ _ _ _ _ fun node node' hf hid => ?_
            simp only [Option.some.injEq] at hf; subst hf
            exact ha.sketchName (fun e => hd ⟨hid, Or.inl ⟨h3, ht.trans e.symm⟩⟩) _ _
          · split
            · next ht =>
              refine nodeAttr_updNode _ _ _ _ _ fun node node' hf hid => ?_
              simp only [Option.some.injEq] at hf; subst hf
              exact ha.sketchVersion (fun e => hd ⟨hid, Or.inl ⟨h3, ht.trans e.symm⟩⟩) _ _
            · split
              · next ht =>
                refine nodeAttr_updNode _ _ _ _ _ fun node node' hf hid => ?_
                simp only [Option.map_eq_some_iff] at hf; obtain ⟨b, _, rfl⟩ := hf
                have hb := ha.heartbeat (fun e => hd ⟨hid, Or.inl ⟨h3, ht.1.trans e.symm⟩⟩)
                split
                · exact hb _ _
                · exact (hb { node with sleeping := true } b).trans (ha.sleeping node true)
              · split
                · refine nodeAttr_updNode _ _ _ _ _ fun node node' hf hid => ?_
                  simp only [Option.some.injEq] at hf; subst hf
                  exact ha.sleeping _ _
                · split
                  · split
                    · refine nodeAttr_set_ne _ _ _ _ _ fun e => ?_
                      have hf := C11.nextId_fresh s.nodes
                      rw [← e] at hf
                      unfold nodeAttr at h
                      simp only [PDict.has] at hf
                      cases hg : s.nodes.get? n with
                      | none => rw [hg] at h; simp at h
                      | some x => rw [hg] at hf; simp at hf
                    · rfl
                  · split
                    · exact congrArg (nodeAttr · n attr) (versionReport_nodes _ _)
                    · rfl
      · rfl

theorem stateAfter_nil (st : St) : stateAfter st [] = st := rfl

/-- The state after one more received line that decodes, in the specification's terms. -/
theorem abs_after_recv (st : St) (pre : List Op) (env : Env) (line : Str) (faults : List Fault) (m : Msg)
    (hd : decode (stateAfter st pre).proto line = some m) :
    (stateAfter st (pre ++ [.recv env line faults])).abs = Spec.message (stateAfter st pre).abs m := by
  rw [stateAfter_append, stateAfter_cons, stateAfter_nil, registry_refines_spec]
  show (match decode (stateAfter st pre).proto line with
    | some m => Spec.message (stateAfter st pre).abs m | none => (stateAfter st pre).abs) = _
  rw [hd]

/-- The generic form: an attribute a received message leaves in the sender's record is still there
after any continuation that does not disturb it. -/
theorem attr_kept_after {attr : Node → α} {t : Int} (ha : AttrOf attr t) (st : St) (pre post : List Op) (env : Env)
    (line : Str) (faults : List Fault) (m : Msg) (a : α)
    (hd : decode (stateAfter st pre).proto line = some m)
    (hstored : nodeAttr (Spec.message (stateAfter st pre).abs m).nodes m.node attr = some a)
    (hpost : Quiet (AttrDisturbs m.node t) (stateAfter st (pre ++ [.recv env line faults])).abs post) :
    nodeAttr (stateAfter st (pre ++ .recv env line faults :: post)).nodes m.node attr = some a := by
  have e : pre ++ Op.recv env line faults :: post = (pre ++ [Op.recv env line faults]) ++ post := by simp
  rw [e, stateAfter_append]
  have hmid := abs_after_recv st pre env line faults m hd
  generalize stateAfter st (pre ++ [Op.recv env line faults]) = mid at hpost hmid ⊢
  have hmidv : nodeAttr mid.abs.nodes m.node attr = some a := by rw [hmid]; exact hstored
  have := specRun_inv (AttrDisturbs m.node t) (fun s => nodeAttr s.nodes m.node attr = some a)
    (fun s m' h hd' => message_keeps_attr ha s m' m.node a h hd') mid.abs post hmidv hpost
  rw [← history_refines_spec] at this
  exact this

theorem attrOf_battery : AttrOf Node.battery Spec.iBatteryLevel :=
  ⟨fun _ _ => rfl, fun h => absurd rfl h, fun _ _ _ => rfl, fun _ _ _ => rfl, fun _ _ _ => rfl, fun _ _ => rfl⟩
theorem attrOf_sketchName : AttrOf Node.sketchName Spec.iSketchName :=
  ⟨fun _ _ => rfl, fun _ _ _ => rfl, fun h => absurd rfl h, fun _ _ _ => rfl, fun _ _ _ => rfl, fun _ _ => rfl⟩
theorem attrOf_sketchVersion : AttrOf Node.sketchVersion Spec.iSketchVersion :=
  ⟨fun _ _ => rfl, fun _ _ _ => rfl, fun _ _ _ => rfl, fun h => absurd rfl h, fun _ _ _ => rfl, fun _ _ => rfl⟩
theorem attrOf_heartbeat : AttrOf Node.heartbeat Spec.iHeartbeatResponse :=
  ⟨fun _ _ => rfl, fun _ _ _ => rfl, fun _ _ _ => rfl, fun _ _ _ => rfl, fun h => absurd rfl h, fun _ _ => rfl⟩

theorem message_internal (s : SpecSt) (m : Msg) (h : m.cmd = Gen.cmdInternal) : Spec.message s m = Spec.internal s m := by
  have h0 : ¬ m.cmd = Gen.cmdPresentation := by rw [h]; decide
  have h1 : ¬ m.cmd = Gen.cmdSet := by rw [h]; decide
  unfold Spec.message
  rw [if_neg h0, if_neg h1, if_pos h]

/-- In the specification: an accepted battery report from a registered node stores the rounded level. -/
theorem message_stores_battery (s : SpecSt) (m : Msg) (hcmd : m.cmd = Gen.cmdInternal) (ht : m.type = Spec.iBatteryLevel)
    (node : Node) (hn : s.nodes.get? m.node = some node) (level : Int) (hp : pyRoundFloat m.payload = .ok level)
    (hr : Gen.minBattery ≤ level ∧ level ≤ Gen.maxBattery) :
    nodeAttr (Spec.message s m).nodes m.node Node.battery = some level := by
  rw [message_internal s m hcmd]
  unfold Spec.internal
  rw [if_pos ht, updNode_some _ _ _ node hn]
  simp [Spec.batteryLevel?, hp, hr, nodeAttr, PDict.get?_set_self]

theorem message_stores_sketch_name (s : SpecSt) (m : Msg) (hcmd : m.cmd = Gen.cmdInternal) (ht : m.type = Spec.iSketchName)
    (node : Node) (hn : s.nodes.get? m.node = some node) :
    nodeAttr (Spec.message s m).nodes m.node Node.sketchName = some m.payload := by
  rw [message_internal s m hcmd]
  unfold Spec.internal
  rw [if_neg (by rw [ht]; decide), if_pos ht, updNode_some _ _ _ node hn]
  simp [nodeAttr, PDict.get?_set_self]

theorem message_stores_sketch_version (s : SpecSt) (m : Msg) (hcmd : m.cmd = Gen.cmdInternal) (ht : m.type = Spec.iSketchVersion)
    (node : Node) (hn : s.nodes.get? m.node = some node) :
    nodeAttr (Spec.message s m).nodes m.node Node.sketchVersion = some m.payload := by
  rw [message_internal s m hcmd]
  unfold Spec.internal
  rw [if_neg (by rw [ht]; decide), if_neg (by rw [ht]; decide), if_pos ht, updNode_some _ _ _ node hn]
  simp [nodeAttr, PDict.get?_set_self]

theorem message_stores_heartbeat (s : SpecSt) (m : Msg) (hcmd : m.cmd = Gen.cmdInternal) (ht : m.type = Spec.iHeartbeatResponse)
    (hv : Ver.v20 ≤ s.proto) (node : Node) (hn : s.nodes.get? m.node = some node) (beat : Int)
    (hp : pyInt? m.payload = some beat) :
    nodeAttr (Spec.message s m).nodes m.node Node.heartbeat = some beat := by
  rw [message_internal s m hcmd]
  unfold Spec.internal
  rw [if_neg (by rw [ht]; decide), if_neg (by rw [ht]; decide), if_neg (by rw [ht]; decide), if_pos ⟨ht, hv⟩,
    updNode_some _ _ _ node hn]
  simp only [hp, Option.map_some, nodeAttr, PDict.get?_set_self]
  split <;> rfl

/-- **The battery level is that of the last accepted battery report.**  Take any history
`pre ++ [line] ++ post` from any state, with any environments and write-fault schedules, where `line`
decodes (under the protocol active after `pre`) to a battery report `m` from a node registered at that
point whose payload is accepted — `round(float(payload)) = level` within the generated bounds 0..100 —
and no later operation delivers, from the same node, a battery report or a presentation of the node
(each line judged under the protocol active when it arrives; sends and all other traffic are
allowed).  Then the node's `battery` at the end is `level`. -/
theorem battery_is_last_report (st : St) (pre post : List Op) (env : Env) (line : Str) (faults : List Fault) (m : Msg)
    (level : Int) (hd : decode (stateAfter st pre).proto line = some m)
    (hcmd : m.cmd = Gen.cmdInternal) (ht : m.type = Spec.iBatteryLevel)
    (hknown : ∃ node, (stateAfter st pre).nodes.get? m.node = some node)
    (hp : pyRoundFloat m.payload = .ok level) (hr : Gen.minBattery ≤ level ∧ level ≤ Gen.maxBattery)
    (hpost : Quiet (AttrDisturbs m.node Spec.iBatteryLevel) (stateAfter st (pre ++ [.recv env line faults])).abs post) :
    nodeAttr (stateAfter st (pre ++ .recv env line faults :: post)).nodes m.node Node.battery = some level := by
  obtain ⟨node, hn⟩ := hknown
  exact attr_kept_after attrOf_battery st pre post env line faults m level hd
    (message_stores_battery _ m hcmd ht node hn level hp hr) hpost

/-- **The sketch name is the payload of the last sketch-name report** (same shape; every payload is accepted). -/
theorem sketch_name_is_last_report (st : St) (pre post : List Op) (env : Env) (line : Str) (faults : List Fault) (m : Msg)
    (hd : decode (stateAfter st pre).proto line = some m)
    (hcmd : m.cmd = Gen.cmdInternal) (ht : m.type = Spec.iSketchName)
    (hknown : ∃ node, (stateAfter st pre).nodes.get? m.node = some node)
    (hpost : Quiet (AttrDisturbs m.node Spec.iSketchName) (stateAfter st (pre ++ [.recv env line faults])).abs post) :
    nodeAttr (stateAfter st (pre ++ .recv env line faults :: post)).nodes m.node Node.sketchName = some m.payload := by
  obtain ⟨node, hn⟩ := hknown
  exact attr_kept_after attrOf_sketchName st pre post env line faults m m.payload hd
    (message_stores_sketch_name _ m hcmd ht node hn) hpost

/-- **The sketch version is the payload of the last sketch-version report.** -/
theorem sketch_version_is_last_report (st : St) (pre post : List Op) (env : Env) (line : Str) (faults : List Fault) (m : Msg)
    (hd : decode (stateAfter st pre).proto line = some m)
    (hcmd : m.cmd = Gen.cmdInternal) (ht : m.type = Spec.iSketchVersion)
    (hknown : ∃ node, (stateAfter st pre).nodes.get? m.node = some node)
    (hpost : Quiet (AttrDisturbs m.node Spec.iSketchVersion) (stateAfter st (pre ++ [.recv env line faults])).abs post) :
    nodeAttr (stateAfter st (pre ++ .recv env line faults :: post)).nodes m.node Node.sketchVersion = some m.payload := by
  obtain ⟨node, hn⟩ := hknown
  exact attr_kept_after attrOf_sketchVersion st pre post env line faults m m.payload hd
    (message_stores_sketch_version _ m hcmd ht node hn) hpost

/-- **The heartbeat is that of the last accepted heartbeat response.**  The report exists from 2.0 on
(`hv`: the protocol active when the line arrives), and the payload must be an integer (`int(payload)`);
in 2.0 / 2.1 the same report also sets `sleeping`, which is not part of this statement. -/
theorem heartbeat_is_last_report (st : St) (pre post : List Op) (env : Env) (line : Str) (faults : List Fault) (m : Msg)
    (beat : Int) (hd : decode (stateAfter st pre).proto line = some m)
    (hcmd : m.cmd = Gen.cmdInternal) (ht : m.type = Spec.iHeartbeatResponse) (hv : Ver.v20 ≤ (stateAfter st pre).proto)
    (hknown : ∃ node, (stateAfter st pre).nodes.get? m.node = some node)
    (hp : pyInt? m.payload = some beat)
    (hpost : Quiet (AttrDisturbs m.node Spec.iHeartbeatResponse) (stateAfter st (pre ++ [.recv env line faults])).abs post) :
    nodeAttr (stateAfter st (pre ++ .recv env line faults :: post)).nodes m.node Node.heartbeat = some beat := by
  obtain ⟨node, hn⟩ := hknown
  exact attr_kept_after attrOf_heartbeat st pre post env line faults m beat hd
    (message_stores_heartbeat _ m hcmd ht hv node hn beat hp) hpost

/-! ### Absent if never set -/

/-- A set message for the key `k` = (node, child, value type). -/
def SetsKey (k : Key) (m : Msg) : Prop := m.cmd = Gen.cmdSet ∧ m.key = k

theorem storedValue_set_blank (nodes : PDict Int Node) (id : Int) (x : Node) (k : Key) (hx : x.children = [])
    (h : storedValue nodes k = none) : storedValue (nodes.set id x) k = none := by
  by_cases hk : k.1 = id
  · unfold storedValue nodeValue
    rw [hk, PDict.get?_set_self]
    simp only [Option.bind_some, hx]; rfl
  · rw [storedValue_set_ne _ _ _ _ hk]; exact h

theorem storedValue_updNode_absent (s : SpecSt) (id : Int) (f : Node → Option Node) (k : Key)
    (h : storedValue s.nodes k = none)
    (hf : ∀ node node', f node = some node' → id = k.1 → nodeValue node k.2.1 k.2.2 = none →
      nodeValue node' k.2.1 k.2.2 = none) :
    storedValue (Spec.updNode s id f).nodes k = none := by
  cases hn : s.nodes.get? id with
  | none => rw [updNode_none _ _ _ hn]; exact h
  | some node =>
    rw [updNode_some _ _ _ node hn]
    cases hfn : f node with
    | none => exact h
    | some node' =>
      simp only []
      by_cases hk : k.1 = id
      · unfold storedValue at h ⊢
        rw [hk, PDict.get?_set_self]
        rw [hk, hn] at h
        exact hf node node' hfn hk.symm h
      · rw [storedValue_set_ne _ _ _ _ hk]; exact h

/-- In the specification: no message other than a set for the key makes a value appear under it. -/
theorem message_keeps_absent (s : SpecSt) (m : Msg) (k : Key) (h : storedValue s.nodes k = none)
    (hd : ¬ SetsKey k m) : storedValue (Spec.message s m).nodes k = none := by
  unfold Spec.message
  split
  · unfold Spec.presentation
    split
    · simp only []
      split
      · rw [versionReport_nodes]; exact storedValue_set_blank _ _ _ _ rfl h
      · exact storedValue_set_blank _ _ _ _ rfl h
    · refine storedValue_updNode_absent _ _ _ _ h fun node node' hf _ hv => ?_
      simp only [Option.some.injEq] at hf; subst hf
      simp only [nodeValue] at hv ⊢
      by_cases hck : k.2.1 = m.child
      · rw [hck, PDict.get?_set_self]; rfl
      · rw [PDict.get?_set_ne _ _ hck]; exact hv
  · split
    · next _ h1 =>
      unfold Spec.setReport
      refine storedValue_updNode_absent _ _ _ _ h fun node node' hf hid hv => ?_
      simp only [Option.map_eq_some_iff] at hf; obtain ⟨child, hc, rfl⟩ := hf
      simp only [nodeValue] at hv ⊢
      by_cases hck : k.2.1 = m.child
      · rw [hck, hc] at hv
        simp only [Option.bind_some] at hv
        have hne : k.2.2 ≠ m.type := fun e => hd ⟨h1, by
          obtain ⟨k1, k2, k3⟩ := k
          simp only at hid hck e
          simp [Msg.key, hid, hck, e]⟩
        rw [hck, PDict.get?_set_self]
        simp only [Option.bind_some]
        rw [PDict.get?_set_ne _ _ hne]; exact hv
      · rw [PDict.get?_set_ne _ _ hck]; exact hv
    · split
      · unfold Spec.internal
        repeat' split
        all_goals first
          | exact h
          | (rw [versionReport_nodes]; exact h)
          | exact storedValue_set_blank _ _ _ _ rfl h
          | (refine storedValue_updNode_absent _ _ _ _ h fun node node' hf _ hv => ?_
             first
             | (simp only [Option.some.injEq] at hf; subst hf; exact hv)
             | (simp only [Option.map_eq_some_iff] at hf; obtain ⟨_, _, rfl⟩ := hf; first | exact hv | (split <;> exact hv)))
      · exact h

/-- **Absent if never set.**  From any state in which nothing is stored under the key
`k` = (node, child, value type) — in particular the empty gateway — and over any history (any lines,
environments, write faults, sends) none of whose received lines decodes, under the protocol active
when it arrives, to a set message for exactly that key, nothing is stored under `k` at the end:
presentations, reports, other sets, id requests and sends never make a value appear. -/
theorem absent_if_never_set (st : St) (ops : List Op) (k : Key) (h0 : storedValue st.nodes k = none)
    (hq : Quiet (SetsKey k) st.abs ops) : storedValue (stateAfter st ops).nodes k = none := by
  have := specRun_inv (SetsKey k) (fun s => storedValue s.nodes k = none)
    (fun s m h hd => message_keeps_absent s m k h hd) st.abs ops h0 hq
  rw [← history_refines_spec] at this
  exact this

/-- A received line that is no set for `k`, whichever protocol decodes it. -/
def NoSetFor (k : Key) : Op → Prop
  | .recv _ line _ => ∀ v m', decode v line = some m' → ¬ SetsKey k m'
  | .send _ _ _ => True

theorem quiet_of_noSetFor (k : Key) (ops : List Op) (h : ∀ op ∈ ops, NoSetFor k op) (s : SpecSt) :
    Quiet (SetsKey k) s ops := by
  induction ops generalizing s with
  | nil => trivial
  | cons op ops ih =>
    refine ⟨?_, ih (fun o ho => h o (List.mem_cons_of_mem _ ho)) _⟩
    have := h op (List.mem_cons_self)
    cases op with
    | send _ _ _ => trivial
    | recv env line faults => exact fun m' hm' => this s.proto m' hm'

/-- From the empty gateway: if no received line of the history decodes (in any protocol version) to a
set message with that node, child and value type, no value is stored for them. -/
theorem absent_if_never_set_from_empty (ops : List Op) (k : Key) (h : ∀ op ∈ ops, NoSetFor k op) :
    storedValue (stateAfter {} ops).nodes k = none :=
  absent_if_never_set {} ops k rfl (quiet_of_noSetFor k ops h _)

/-- In the specification: a presentation of the node or of the child leaves no value under the key. -/
theorem presentation_clears_value (s : SpecSt) (m : Msg) (k : Key) (hcmd : m.cmd = Gen.cmdPresentation)
    (hn : m.node = k.1) (hc : m.child = Gen.systemChildId ∨ m.child = k.2.1) :
    storedValue (Spec.message s m).nodes k = none := by
  unfold Spec.message
  rw [if_pos hcmd]
  unfold Spec.presentation
  split
  · have hb : ∀ nodes : PDict Int Node, storedValue (nodes.set m.node { ntype := m.type, pv := m.payload }) k = none := by
      intro nodes; unfold storedValue nodeValue; rw [← hn, PDict.get?_set_self]; rfl
    simp only []
    split
    · rw [versionReport_nodes]; exact hb _
    · exact hb _
  · next hsys =>
    have hck : m.child = k.2.1 := hc.resolve_left hsys
    cases hg : s.nodes.get? m.node with
    | none =>
      rw [updNode_none _ _ _ hg]
      unfold storedValue; rw [← hn, hg]; rfl
    | some node =>
      rw [updNode_some _ _ _ node hg]
      simp only [storedValue, nodeValue]
      rw [← hn, PDict.get?_set_self, ← hck]
      simp only [Option.bind_some]
      rw [PDict.get?_set_self]; rfl

/-- **Absent if not set since the last presentation.**  After `pre ++ [line] ++ post`, where `line`
decodes to a presentation of node `k.1` or of its child `k.2.1` and no later line is a set for `k`,
nothing is stored under `k` — whatever was stored before. -/
theorem absent_if_not_set_since_presentation (st : St) (pre post : List Op) (env : Env) (line : Str)
    (faults : List Fault) (m : Msg) (k : Key)
    (hd : decode (stateAfter st pre).proto line = some m) (hcmd : m.cmd = Gen.cmdPresentation)
    (hn : m.node = k.1) (hc : m.child = Gen.systemChildId ∨ m.child = k.2.1)
    (hpost : Quiet (SetsKey k) (stateAfter st (pre ++ [.recv env line faults])).abs post) :
    storedValue (stateAfter st (pre ++ .recv env line faults :: post)).nodes k = none := by
  have e : pre ++ Op.recv env line faults :: post = (pre ++ [Op.recv env line faults]) ++ post := by simp
  rw [e, stateAfter_append]
  refine absent_if_never_set _ post k ?_ hpost
  show storedValue (stateAfter st (pre ++ [Op.recv env line faults])).abs.nodes k = none
  rw [abs_after_recv st pre env line faults m hd]
  exact presentation_clears_value _ m k hcmd hn hc

/-! ### Non-vacuity of the attribute theorems (closed terms of the specification) -/

theorem round_example : pyRoundFloat "49.6".toList = .ok 50 := by rfl

example : Spec.batteryLevel? "49.6".toList = some 50 ∧ Spec.batteryLevel? "101".toList = none ∧
    Spec.batteryLevel? "x".toList = none := by decide

example : specRun {} (exPre ++ [.recv {} "7;255;3;0;0;49.6\n".toList [.fail], .recv {} "7;255;3;0;11;Relay\n".toList [],
      .recv {} "7;255;3;0;12;1.1\n".toList [], .recv {} "7;255;3;0;0;101\n".toList []]) =
    ⟨.v14, [(7, { exNode [] with battery := 50, sketchName := "Relay".toList, sketchVersion := "1.1".toList })]⟩ := by
  decide

/-- A 2.2 gateway, node 7, a heartbeat response; a non-integer payload is ignored. -/
def exPre22 : List Op :=
  [.recv {} "0;255;0;0;18;2.2.0\n".toList [], .recv {} "7;255;0;0;17;2.2.0\n".toList [.cancel]]

example : specRun {} (exPre22 ++ [.recv {} "7;255;3;0;22;1234\n".toList [], .recv {} "7;255;3;0;22;12.5\n".toList []]) =
    ⟨.v22, [(0, { ntype := 18, pv := "2.2.0".toList }), (7, { ntype := 17, pv := "2.2.0".toList, heartbeat := 1234 })]⟩ := by
  decide

example : AttrDisturbs 7 0 ⟨7, 255, 3, 0, 0, ['1']⟩ ∧ AttrDisturbs 7 0 ⟨7, 255, 0, 0, 17, []⟩ ∧
    ¬ AttrDisturbs 7 0 ⟨7, 255, 3, 0, 11, ['1']⟩ ∧ ¬ AttrDisturbs 7 0 ⟨7, 4, 0, 0, 6, []⟩ ∧
    ¬ AttrDisturbs 7 0 ⟨8, 255, 3, 0, 0, ['1']⟩ ∧ SetsKey (7, 4, 0) ⟨7, 4, 1, 0, 0, ['1']⟩ ∧
    ¬ SetsKey (7, 4, 0) ⟨7, 4, 1, 0, 1, ['1']⟩ := by
  simp [AttrDisturbs, SetsKey, Msg.key, Gen.cmdSet, Gen.cmdInternal, Gen.cmdPresentation, Gen.systemChildId]

section
attribute [local irreducible] stateAfter

/-- The hypotheses of `battery_is_last_report` on a concrete history (failing writes, a send and
foreign traffic after the report; the model's history is never evaluated). -/
example : nodeAttr (stateAfter {} (exPre ++ .recv {} "7;255;3;0;0;49.6\n".toList [.fail] ::
      [.send (some ⟨7, 4, 1, 0, 0, ['9']⟩) true [.fail], .recv {} "8;255;0;0;17;2.0\n".toList [.fail]])).nodes 7 Node.battery
    = some 50 := by
  have hpre : (stateAfter {} exPre).abs = ⟨.v14, [(7, exNode [])]⟩ := by rw [history_refines_spec]; decide
  refine battery_is_last_report {} exPre _ {} _ [.fail] ⟨7, 255, 3, 0, 0, "49.6".toList⟩ 50 ?_ rfl rfl ?_ round_example
    (by decide) ?_
  · rw [← abs_proto, hpre]; decide
  · refine ⟨exNode [], ?_⟩
    rw [← abs_nodes, hpre]; decide
  · refine quiet_of_notFrom _ 7 (fun _ h => h.1) _ (fun op hop => ?_) _
    simp only [List.mem_cons, List.not_mem_nil, or_false] at hop
    rcases hop with rfl | rfl
    · trivial
    · exact notFrom_example

/-- … and of `heartbeat_is_last_report` (protocol 2.2 after the gateway's presentation). -/
example : nodeAttr (stateAfter {} (exPre22 ++ .recv {} "7;255;3;0;22;1234\n".toList [] ::
      [.recv {} "8;255;0;0;17;2.0\n".toList [.fail]])).nodes 7 Node.heartbeat = some 1234 := by
  have hpre : (stateAfter {} exPre22).abs =
      ⟨.v22, [(0, { ntype := 18, pv := "2.2.0".toList }), (7, { ntype := 17, pv := "2.2.0".toList })]⟩ := by
    rw [history_refines_spec]; decide
  refine heartbeat_is_last_report {} exPre22 _ {} _ [] ⟨7, 255, 3, 0, 22, "1234".toList⟩ 1234 ?_ rfl rfl ?_ ?_
    (by decide) ?_
  · rw [← abs_proto, hpre]; decide
  · rw [← abs_proto, hpre]; decide
  · refine ⟨{ ntype := 17, pv := "2.2.0".toList }, ?_⟩
    rw [← abs_nodes, hpre]; decide
  · refine quiet_of_notFrom _ 7 (fun _ h => h.1) _ (fun op hop => ?_) _
    simp only [List.mem_cons, List.not_mem_nil, or_false] at hop
    subst hop
    exact notFrom_example

/-- `absent_if_never_set_from_empty`: node 7 and child 4 are presented, node 8 talks, nobody sets (7, 4, 0). -/
example : storedValue (stateAfter {} (exPre ++ [.recv {} "8;255;0;0;17;2.0\n".toList [.fail]])).nodes (7, 4, 0) = none := by
  refine absent_if_never_set_from_empty _ _ fun op hop => ?_
  simp only [exPre, List.cons_append, List.nil_append, List.mem_cons, List.not_mem_nil, or_false] at hop
  rcases hop with rfl | rfl | rfl | rfl
  · intro v m' h
    have : decode v "7;255;0;0;17;2.0\n".toList = some ⟨7, 255, 0, 0, 17, "2.0".toList⟩ := by cases v <;> decide
    rw [this] at h; cases h; simp [SetsKey, Gen.cmdSet]
  · trivial
  · intro v m' h
    have : decode v "7;4;0;0;6;temp\n".toList = some ⟨7, 4, 0, 0, 6, "temp".toList⟩ := by cases v <;> decide
    rw [this] at h; cases h; simp [SetsKey, Gen.cmdSet]
  · intro v m' h
    have : decode v "8;255;0;0;17;2.0\n".toList = some ⟨8, 255, 0, 0, 17, "2.0".toList⟩ := by cases v <;> decide
    rw [this] at h; cases h; simp [SetsKey, Gen.cmdSet]
end

end AioMySensors.C04
