/-
C04 — The registry is a faithful record of what the network presented and reported.

Three layers of statement:
* for EVERY line, version, state and fault schedule (`Lemmas/Faithful.lean`, one traversal of the
  generated dispatch): a successfully handled line yields exactly its decoded field values; a
  missing-node / missing-child failure names the message's own node / child and leaves the registry
  untouched; a rejected line changes nothing;
* for every message: only the record of the node it is from can change (or a placeholder be added);
* per kind of report: the registry after the handler, as an explicit update of the registry before.
-/
import AioMySensors.Lemmas.Faithful
import AioMySensors.Properties.C11
import AioMySensors.Properties.C07
import AioMySensors.Lemmas.Safe

namespace AioMySensors.C04
open AioMySensors M

/-! ### Every line -/

/-- **A line that does not decode changes nothing** and fails as an invalid message. -/
theorem rejected_line_changes_nothing (env : Env) (line : Str) (w : W) (h : decode w.st.proto line = none) :
    recv env line w = (.error (.lib .invalidMessage), w) := by
  simp [recv, M.bind, M.getSt, h, M.raise]

/-- **The yielded message carries the decoded field values.** -/
theorem yield_is_decoded (env : Env) (line : Str) (w : W) (r : Msg) (h : (recv env line w).1 = .ok r) :
    decode w.st.proto line = some r := by
  simp only [recv, M.bind, M.getSt] at h
  cases hd : decode w.st.proto line with
  | none => simp [hd, M.raise] at h
  | some m =>
    simp only [hd] at h
    rw [(faithful_dispatch env w.st.proto m).ret w r h]

/-- **A missing-node failure names the message's node and changes nothing in the registry.** -/
theorem missing_node_names_it (env : Env) (line : Str) (w : W) (n : Int)
    (h : (recv env line w).1 = .error (.lib (.missingNode n))) :
    ∃ m, decode w.st.proto line = some m ∧ n = m.node ∧ (recv env line w).2.st.nodes = w.st.nodes := by
  simp only [recv, M.bind, M.getSt] at h ⊢
  cases hd : decode w.st.proto line with
  | none => simp [hd, M.raise] at h
  | some m =>
    simp only [hd] at h ⊢
    exact ⟨m, rfl, (faithful_dispatch env w.st.proto m).missNode w n h⟩

/-- **A missing-child failure names the message's child and changes nothing in the registry.** -/
theorem missing_child_names_it (env : Env) (line : Str) (w : W) (c : Int)
    (h : (recv env line w).1 = .error (.lib (.missingChild c))) :
    ∃ m, decode w.st.proto line = some m ∧ c = m.child ∧ (recv env line w).2.st.nodes = w.st.nodes := by
  simp only [recv, M.bind, M.getSt] at h ⊢
  cases hd : decode w.st.proto line with
  | none => simp [hd, M.raise] at h
  | some m =>
    simp only [hd] at h ⊢
    exact ⟨m, rfl, (faithful_dispatch env w.st.proto m).missChild w c h⟩

/-- One observation per operation, in order: every line is handled (or fails) exactly once. -/
theorem one_observation_per_op (st : St) (ops : List Op) : (run st ops).2.length = ops.length := by
  induction ops generalizing st with
  | nil => rfl
  | cons op ops ih => simp [run, ih]

/-- Send calls never change the registry. -/
theorem send_keeps_registry (obj : Option Msg) (b : Bool) (w : W) : (apiSend obj b w).2.st.nodes = w.st.nodes := by
  cases obj with
  | none => rfl
  | some m => exact (gwSend_frame m b w).1

/-! ### Only the sender's record can change -/

def OthersRecordsKept (n : Int) : W → W → Prop :=
  OnSt fun s s' => ∀ k, k ≠ n → s.nodes.has k = true → s'.nodes.get? k = s.nodes.get? k ∧ s'.nodes.has k = true

theorem othersRecordsKept_preO (n : Int) : PreO (OthersRecordsKept n) :=
  OnSt.preO (fun _ _ _ h => ⟨rfl, h⟩) (fun h1 h2 k hk hh => by
    obtain ⟨a, b⟩ := h1 k hk hh
    obtain ⟨c, d⟩ := h2 k hk b
    exact ⟨c.trans a, d⟩)

theorem others_nodes_same (n : Int) {f : St → St} (h : ∀ s, (f s).nodes = s.nodes) : Rel (OthersRecordsKept n) (modifySt f) :=
  Rel.modifySt f fun s k _ hh => by simp [h s, hh]

theorem othersRecordsKept_stepRel (m : Msg) : StepRel (OthersRecordsKept m.node) m where
  pre := othersRecordsKept_preO m.node
  write := fun _ _ => Rel.transportWrite (fun _ _ _ h => ⟨rfl, h⟩) _
  setNode := fun node => Rel.modifySt _ fun s k hk hh => by
    simp only [PDict.has] at hh ⊢
    rw [PDict.get?_set_ne _ _ hk]; exact ⟨rfl, hh⟩
  alloc := Rel.modifySt _ fun s k _ hh => by
    have hne : k ≠ nextId s.nodes := by
      intro e; subst e
      have := C11.nextId_fresh s.nodes
      rw [this] at hh; exact absurd hh (by simp)
    simp only [PDict.has] at hh ⊢
    rw [PDict.get?_set_ne _ _ hne]; exact ⟨rfl, hh⟩
  erase := fun _ _ _ => others_nodes_same _ fun s => by split <;> rfl
  mark := others_nodes_same _ fun _ => rfl
  unmark := others_nodes_same _ fun s => by split <;> rfl
  version := fun _ _ => others_nodes_same _ fun _ => rfl

/-- **A message changes at most the record of the node it is from** (and may add a placeholder
under a fresh id): every other registered node keeps its complete record — type, version,
children, values, sketch, battery, heartbeat, flags — whatever the version, outcome and faults. -/
theorem other_records_untouched (env : Env) (v : Ver) (m : Msg) (w : W) (k : Int) (hk : k ≠ m.node)
    (hh : w.st.nodes.has k = true) : (dispatch env v m w).2.st.nodes.get? k = w.st.nodes.get? k :=
  ((rel_dispatch (othersRecordsKept_stepRel m) (ParkOK.of_all fun _ => others_nodes_same _ fun _ => rfl) env v).step w k hk hh).1

/-! ### What each report does to the sender's record -/

/-- **Node presentation** (re)creates the node with the presented type and library version and no children. -/
theorem node_presentation (env : Env) (v : Ver) (m : Msg) (w : W) (hc : m.child = 255) (hn : m.node ≠ 0) :
    hPresentation env v m w = (.ok m, { w with st := { w.st with nodes := w.st.nodes.set m.node { ntype := m.type, pv := m.payload } } }) := by
  have h1 : (m.child == Gen.systemChildId) = true := by simp [hc, Gen.systemChildId]
  have h2 : (m.node == 0) = false := by simpa using hn
  simp [hPresentation, h1, h2, M.seq, M.bind, setNode, M.modifySt, M.pure]

theorem fresh_node_is_blank (t : Int) (pv : Str) :
    ({ ntype := t, pv := pv } : Node) = ⟨t, pv, [], [], [], 0, 0, false, false⟩ := rfl

/-- **Child presentation** adds or replaces that child with its type and description (no values). -/
theorem child_presentation (env : Env) (v : Ver) (m : Msg) (w : W) (node : Node) (hc : m.child ≠ 255)
    (hn : w.st.nodes.get? m.node = some node) :
    hPresentation env v m w = (.ok m, { w with st := { w.st with nodes :=
      (w.st.nodes.set m.node { node with children := node.children.set m.child ⟨m.child, m.type, m.payload, []⟩ }) } }) := by
  have h1 : (m.child == Gen.systemChildId) = false := by simpa [Gen.systemChildId] using hc
  simp [hPresentation, h1, requireNode, M.bind, M.getSt, hn, M.pure, M.seq, setNode, M.modifySt]

theorem send_then_pure (m sm : Msg) (b : Bool) (w : W) : (M.seq (gwSend sm b) (pure m) w).2.st.nodes = w.st.nodes := by
  have := (gwSend_frame sm b w).1
  simp only [M.seq, M.bind]
  cases hg : gwSend sm b w with
  | mk r w' => rw [hg] at this; cases r <;> simpa [M.pure] using this

/-- **Set** records the payload under (child, value type); the registry is otherwise as before. -/
theorem set_known (m : Msg) (w : W) (node : Node) (child : Child)
    (hn : w.st.nodes.get? m.node = some node) (hc : node.children.get? m.child = some child) :
    (hSet m w).2.st.nodes = w.st.nodes.set m.node
      { node with children := node.children.set m.child { child with values := child.values.set m.type m.payload } } := by
  simp only [hSet, requireNode, M.bind, M.getSt, hn, M.pure, hc, setNode, M.modifySt]
  cases node.reboot
  · simp [M.seq, M.bind, M.pure, M.modifySt]
  · simp only [if_true]
    simp only [M.seq, M.bind]
    exact send_then_pure m _ _ _

/-- The value just set is what a lookup now returns; other value types of the child are untouched. -/
theorem latest_value_recorded (values : PDict Int Str) (t : Int) (p : Str) :
    (values.set t p).get? t = some p ∧ ∀ t', t' ≠ t → (values.set t p).get? t' = values.get? t' :=
  ⟨PDict.get?_set_self _ _ _, fun _ h => PDict.get?_set_ne _ _ h⟩

/-- **Battery report** (a level within the generated bounds) updates the battery level only. -/
theorem battery_report (m : Msg) (w : W) (node : Node) (level : Int) (hn : w.st.nodes.get? m.node = some node)
    (hp : pyRoundFloat m.payload = .ok level) (hr : Gen.minBattery ≤ level ∧ level ≤ Gen.maxBattery) :
    hBattery m w = (.ok m, { w with st := { w.st with nodes := w.st.nodes.set m.node { node with battery := level } } }) := by
  simp [hBattery, requireNode, M.bind, M.getSt, hn, M.pure, convertExn, hp, hr, M.seq, setNode, M.modifySt]

/-- … and a level outside them, or an unparsable payload, is an invalid message that changes nothing. -/
theorem battery_rejected (m : Msg) (w : W) (node : Node) (hn : w.st.nodes.get? m.node = some node)
    (hp : (∃ level, pyRoundFloat m.payload = .ok level ∧ ¬ (Gen.minBattery ≤ level ∧ level ≤ Gen.maxBattery)) ∨
          (∃ c, pyRoundFloat m.payload = .error c)) :
    hBattery m w = (.error (.lib .invalidMessage), w) := by
  rcases hp with ⟨level, hp, hr⟩ | ⟨c, hp⟩
  · simp [hBattery, requireNode, M.bind, M.getSt, hn, M.pure, convertExn, hp, hr, M.raise]
  · have := battery_errors_caught m.payload c hp
    simp [hBattery, requireNode, M.bind, M.getSt, hn, M.pure, convertExn, hp, this, M.raise]

theorem sketch_name_report (m : Msg) (w : W) (node : Node) (hn : w.st.nodes.get? m.node = some node) :
    hSketchName m w = (.ok m, { w with st := { w.st with nodes := w.st.nodes.set m.node { node with sketchName := m.payload } } }) := by
  simp [hSketchName, requireNode, M.bind, M.getSt, hn, M.pure, M.seq, setNode, M.modifySt]

theorem sketch_version_report (m : Msg) (w : W) (node : Node) (hn : w.st.nodes.get? m.node = some node) :
    hSketchVersion m w = (.ok m, { w with st := { w.st with nodes := w.st.nodes.set m.node { node with sketchVersion := m.payload } } }) := by
  simp [hSketchVersion, requireNode, M.bind, M.getSt, hn, M.pure, M.seq, setNode, M.modifySt]

/-- **Heartbeat report** in 2.2: the heartbeat attribute, nothing else. -/
theorem heartbeat_report_22 (m : Msg) (w : W) (node : Node) (hb : Int) (hn : w.st.nodes.get? m.node = some node)
    (hp : pyInt? m.payload = some hb) :
    hHeartbeat22 m w = (.ok m, { w with st := { w.st with nodes := w.st.nodes.set m.node { node with heartbeat := hb } } }) := by
  simp [hHeartbeat22, requireNode, M.bind, M.getSt, hn, M.pure, heartbeatValue, convertExn, hp, M.seq, setNode, M.modifySt]

/-- The release loop never touches the registry. -/
theorem flush_nodes (m : Msg) (w0 : W) : (flush m w0).2.st.nodes = w0.st.nodes := by
  rw [flush_eq]
  have := (flushList_frame (snapshotOf w0.st m.node) w0).1
  cases hf : flushList (snapshotOf w0.st m.node) w0 with
  | mk r w' => rw [hf] at this; cases r <;> simpa using this

/-- In 2.0/2.1 the heartbeat report also marks the node as sleeping (and releases its commands, C07);
the release does not touch the registry. -/
theorem heartbeat_report_20 (m : Msg) (w : W) (node : Node) (hb : Int) (hn : w.st.nodes.get? m.node = some node)
    (hp : pyInt? m.payload = some hb) :
    (hHeartbeat20 m w).2.st.nodes = w.st.nodes.set m.node { node with sleeping := true, heartbeat := hb } := by
  rw [C07.heartbeat_wake m w node hb hn hp, flush_nodes]

/-- An absurd heartbeat payload is an invalid message and changes nothing (the conversion runs
before the node is touched). -/
theorem heartbeat_rejected (m : Msg) (w : W) (node : Node) (hn : w.st.nodes.get? m.node = some node)
    (hp : pyInt? m.payload = none) :
    hHeartbeat20 m w = (.error (.lib .invalidMessage), w) ∧ hHeartbeat22 m w = (.error (.lib .invalidMessage), w) := by
  have h1 : pyCaught .ValueError (clause Gen.excHeartbeat20 0) = true := by decide
  have h2 : pyCaught .ValueError (clause Gen.excHeartbeat22 0) = true := by decide
  constructor
  · simp [hHeartbeat20, requireNode, M.bind, M.getSt, hn, M.pure, heartbeatValue, convertExn, hp, h1, M.raise]
  · simp [hHeartbeat22, requireNode, M.bind, M.getSt, hn, M.pure, heartbeatValue, convertExn, hp, h2, M.raise]

/-- Requests and reactions that only read: the registry is unchanged. -/
theorem readers_keep_registry (env : Env) (m : Msg) (w : W) :
    (hReq m w).2.st.nodes = w.st.nodes ∧ (hConfig env m w).2.st.nodes = w.st.nodes ∧
    (hTime env m w).2.st.nodes = w.st.nodes ∧ (hGatewayReady m w).2.st.nodes = w.st.nodes ∧
    (hDiscoverResponse m w).2.st.nodes = w.st.nodes ∧ (hVersion m w).2.st.nodes = w.st.nodes := by
  refine ⟨?_, send_then_pure m _ _ w, send_then_pure m _ _ w, send_then_pure m _ _ w, ?_, ?_⟩
  · simp only [hReq, requireNode, M.bind, M.getSt]
    cases hn : w.st.nodes.get? m.node with
    | none => simp [M.raise]
    | some node =>
      simp only [M.pure]
      cases hc : node.children.get? m.child with
      | none => simp [M.raise]
      | some child =>
        simp only []
        cases hv : child.values.get? m.type with
        | none => simp [M.pure]
        | some value => exact send_then_pure m _ _ w
  · simp only [hDiscoverResponse, requireNode, M.bind, M.getSt]
    cases hn : w.st.nodes.get? m.node <;> simp [M.raise, M.pure]
  · simp only [hVersion, convertExn, M.bind]
    cases hp : getProtocolE m.payload with
    | error c => by_cases hc : pyCaught c (clause Gen.excVersion 0) = true <;> simp [hc, M.raise]
    | ok v => simp [M.pure, M.seq, M.bind, M.modifySt]

/-! ### Through the dispatch: the decorators never touch the registry -/

theorem wrapMissingPV_nodes (inner : Msg → M Msg) (m : Msg) (w : W) :
    (wrapMissingPV inner m w).2.st.nodes = (inner m w).2.st.nodes := by
  rw [wrapMissingPV_eq]
  simp only []
  have aw := after_write (inner m w).1 (inner m w).2 (encode versionQuery)
  simp only [] at aw
  cases hr : (inner m w).1 with
  | ok m' =>
    rw [hr] at aw
    by_cases hc : ((inner m w).2.st.pv.isNone && wantsVersionQuery m') = true
    · simp only [hc, if_true]; exact congrArg St.nodes aw.1
    · simp only [hc]; rfl
  | error e =>
    rw [hr] at aw
    by_cases hc : ((inner m w).2.st.pv.isNone && wantsVersionQuery m) = true
    · simp only [hc, if_true]; exact congrArg St.nodes aw.1
    · simp only [hc]; rfl

theorem wrapMissingNC_nodes (inner : Msg → M Msg) (m : Msg) (w : W) :
    (wrapMissingNC inner m w).2.st.nodes = (inner m w).2.st.nodes := by
  cases hin : inner m w with
  | mk r w' =>
    cases r with
    | ok r => rw [wrapMissingNC_ok inner m r w w' hin]
    | error e =>
      by_cases he : missingCaught e = true
      · by_cases hm : w'.st.ibuf.has (presentationRequest m.node).key = true
        · rw [wrapMissingNC_marked inner m e w w' hin he hm]
        · have hm' : w'.st.ibuf.has (presentationRequest m.node).key = false := by simpa using hm
          rw [wrapMissingNC_unmarked inner m e w w' hin he hm']
          simp only [transportWrite]
          cases hf : w'.faults with
          | nil => simp
          | cons f fs => cases f <;> simp
      · have he' : missingCaught e = false := by simpa using he
        rw [wrapMissingNC_other inner m e w w' hin he']

theorem wrapNC_nodes (v : Ver) (inner : Msg → M Msg) (m : Msg) (w : W) :
    (wrapNC v inner m w).2.st.nodes = (inner m w).2.st.nodes := by
  unfold wrapNC; split
  · exact wrapMissingNC_nodes inner m w
  · rfl

/-- **Set, through the whole receive path, in every version**: the registry after the step is the
registry `handle_set` leaves — the latest payload recorded under (child, value type), or unchanged
when the node or child is unknown — whatever the write faults and the decorators do. -/
theorem set_through_dispatch (env : Env) (v : Ver) (m : Msg) (w : W) (hcmd : m.cmd = 1) :
    (dispatch env v m w).2.st.nodes = (hSet m w).2.st.nodes := by
  rw [dispatch_set env v m hcmd, wrapNC_nodes, wrapMissingPV_nodes]

theorem req_through_dispatch (env : Env) (v : Ver) (m : Msg) (w : W) (hcmd : m.cmd = 2) :
    (dispatch env v m w).2.st.nodes = w.st.nodes := by
  rw [dispatch_req env v m hcmd, wrapNC_nodes, wrapMissingPV_nodes, (readers_keep_registry {} m w).1]

theorem battery_through_dispatch (env : Env) (v : Ver) (m : Msg) (w : W) (hcmd : m.cmd = 3) (ht : m.type = 0) :
    (dispatch env v m w).2.st.nodes = (hBattery m w).2.st.nodes := by
  rw [dispatch_internal env v m hcmd, wrapMissingPV_nodes, internal_battery env v m ht, wrapNC_nodes]

theorem sketch_name_through_dispatch (env : Env) (v : Ver) (m : Msg) (w : W) (hcmd : m.cmd = 3) (ht : m.type = 11) :
    (dispatch env v m w).2.st.nodes = (hSketchName m w).2.st.nodes := by
  rw [dispatch_internal env v m hcmd, wrapMissingPV_nodes, internal_sketch_name env v m ht, wrapNC_nodes]

theorem sketch_version_through_dispatch (env : Env) (v : Ver) (m : Msg) (w : W) (hcmd : m.cmd = 3) (ht : m.type = 12) :
    (dispatch env v m w).2.st.nodes = (hSketchVersion m w).2.st.nodes := by
  rw [dispatch_internal env v m hcmd, wrapMissingPV_nodes, internal_sketch_version env v m ht, wrapNC_nodes]

/-- Config, time, log and version-less traffic: the registry is untouched through the whole path. -/
theorem config_time_through_dispatch (env : Env) (v : Ver) (m : Msg) (w : W) (hcmd : m.cmd = 3)
    (ht : m.type = 6 ∨ m.type = 1 ∨ m.type = 9) : (dispatch env v m w).2.st.nodes = w.st.nodes := by
  rw [dispatch_internal env v m hcmd, wrapMissingPV_nodes]
  rcases ht with ht | ht | ht
  · rw [internal_config env v m ht]; exact (readers_keep_registry env m w).2.1
  · rw [internal_time env v m ht]; exact (readers_keep_registry env m w).2.2.1
  · rw [internal_log env v m ht]; rfl

/-! Non-vacuity: the F6 witness — node 7 without child 4. -/
example : errOf (hSet ⟨7, 4, 1, 0, 0, ['1']⟩ { st := { nodes := [(7, { ntype := 17, pv := [] })] } }).1
    = some (.lib (.missingChild 4)) := by decide

end AioMySensors.C04
