/-
CPython's `int(str)` (base 10) and `str(int)`.
`int()` first maps every `str.isspace()` character to a blank and every Unicode decimal digit
(category Nd) to its ASCII digit, strips, then accepts `[+-]? digit+ (_ digit+)*` with at most
`sys.get_int_max_str_digits()` digits.
-/
import AioMySensors.Model.Text

namespace AioMySensors

/-- Value of a decimal digit character (ASCII or any other Nd block), as `int()` reads it. -/
def pyDigit? (c : Char) : Option Nat :=
  if 48 ≤ c.toNat ∧ c.toNat ≤ 57 then some (c.toNat - 48)
  else (Gen.pyDecimalZeros.find? fun z => z ≤ c.toNat ∧ c.toNat < z + 10).map fun z => c.toNat - z

/-- Digits with single inner underscores: returns (value, number of digits). -/
def parseDigits : Str → Nat → Nat → Bool → Option (Nat × Nat)
  | [], acc, cnt, prevDigit => if prevDigit then some (acc, cnt) else none
  | c :: cs, acc, cnt, prevDigit =>
    if c = '_' then (if prevDigit then parseDigits cs acc cnt false else none)
    else match pyDigit? c with
      | some d => parseDigits cs (10 * acc + d) (cnt + 1) true
      | none => none

/-- Unsigned part of `int()`, with the digit-count limit. -/
def pyNat? (s : Str) : Option Nat :=
  match parseDigits s 0 0 false with
  | some (v, cnt) => if cnt ≤ Gen.pyMaxStrDigits then some v else none
  | none => none

/-- C `isspace` in the "C" locale: what `PyLong_FromString` strips. -/
def isCSpace (c : Char) : Bool := c.toNat == 32 || (9 ≤ c.toNat && c.toNat ≤ 13)

/-- The whitespace `int()` strips.  Characters below U+007F reach the C parser unchanged, which
strips C whitespace only (so `int("\\x1c1")` is a `ValueError` although `"\\x1c".isspace()`); every
other `str.isspace()` character is first replaced by a blank. -/
def intSpace (c : Char) : Bool :=
  if c.toNat < 127 then isCSpace c else isPySpace c

/-- `int(s)` for a `str` argument; `none` is `ValueError`. -/
def pyInt? (s : Str) : Option Int :=
  match dropTrailing intSpace (s.dropWhile intSpace) with
  | '-' :: r => (pyNat? r).map fun n => -(n : Int)
  | '+' :: r => (pyNat? r).map fun n => (n : Int)
  | r => (pyNat? r).map fun n => (n : Int)

/-- `str(n)` for an `int`. -/
def dec (n : Int) : Str :=
  match n with
  | .ofNat k => Nat.toDigits 10 k
  | .negSucc k => '-' :: Nat.toDigits 10 (k + 1)

end AioMySensors
