/-
The JSON *text* layer of the persistence code: `json.dumps(data, sort_keys=True, indent=2)` as
`Persistence.save` calls it and `json.loads(text)` as `Persistence.load` calls it (CPython 3.12,
the C accelerated encoder and scanner).

Rendering
* `render lvl v` is `json.dumps(v, indent=2)` for a value at nesting level `lvl` (the whole text is
  `render 0 v`): members in the order given, `ensure_ascii=True` (everything outside
  U+0020..U+007E is escaped: the short escapes, `\u00XX`, `\uXXXX`, a surrogate pair for astral
  characters), `,` + newline + indentation between members, `: ` after a key, `{}` / `[]` for empty
  containers.  `json.dumps` raises for an integer beyond the interpreter's digit limit
  (`str(int)`); such integers and reals are outside the rendered fragment: `Renderable`.  A real is
  rendered as `NaN` (right for NaN only) and excluded by `Renderable` in every theorem.
* `sort_keys=True` sorts the keys *as Python objects, before they are turned into strings*: the
  dict handed over by `save` has `int` keys at three levels (node ids, child ids, value types),
  which sort numerically (`"2"` before `"10"`), and `str` keys in the records (field names), which
  sort by code point.  A `Json` object only has the strings, so sorting is not part of `render`:
  `sortKeys` sorts string keys (`dumpsSorted v` is `json.dumps(v, sort_keys=True, indent=2)` for a
  value whose dicts all have `str` keys) and `Persist.saveSorted r` is the value `save` hands to
  `json.dumps` with every dict in the order `sort_keys` puts it; `Persist.saveText r` is the file.

Parsing
* `parse : Str → Except PErr Json` is a one-pass machine over the characters (structural recursion
  on the text, no fuel): a stack of open containers and a lexical mode.  It follows the C scanner:
  whitespace is blank, tab, LF, CR; literals `null true false NaN Infinity -Infinity`; integers
  `-?(0|[1-9][0-9]*)`; strings with the escapes `\" \\ \/ \b \f \n \r \t \uXXXX` (either case),
  raw control characters rejected (`strict=True`); a `\uD800`–`\uDBFF` escape followed by a
  `\uDC00`–`\uDFFF` escape is one astral character; trailing commas, leading zeros, comments,
  single quotes, trailing data are errors.  A duplicate key keeps the position of its first
  occurrence and the value of its last one (`PDict.set`, as `dict[key] = value`).
* Outcomes: `.ok v`; `.error .invalid` = `json.JSONDecodeError`; `.error .hugeInt` = the plain
  `ValueError` of an integer literal beyond the digit limit (raised when the literal has been
  scanned, before anything after it is looked at); `.error .unsupported` = the text leaves the
  modelled fragment: a real literal (fraction or exponent; no binary64 rounding is modelled) or a
  lone surrogate escape (not a Lean `Char`).  `unsupported` is reported at the first such place even
  if the real parser would find a syntax error later: it means "no claim".
* Not modelled: the recursion limit (`RecursionError` on deep nesting), the universal-newline
  translation of text-mode `read` (CR and CRLF become LF: all three are whitespace between tokens
  and invalid inside strings, so validity and value are unaffected).

Bytes
* `decodeUtf8` is the strict UTF-8 decoder of `open(path)` (overlong forms, surrogates, values above
  U+10FFFF and truncated sequences are `UnicodeDecodeError`); `encodeUtf8` its inverse.
  `classify : Bytes → Option FileState` is the first `try` block of `load` up to the parsed value
  (`none` = outside the modelled fragment).
-/
import AioMySensors.Model.Persist
import AioMySensors.Model.FileOps

namespace AioMySensors.JsonText
open AioMySensors

/-! ## Rendering -/

/-- Lower-case hexadecimal digit. -/
def hexDigit (n : Nat) : Char := if n < 10 then Char.ofNat (48 + n) else Char.ofNat (87 + n)

def hex4 (n : Nat) : Str :=
  [hexDigit (n / 4096 % 16), hexDigit (n / 256 % 16), hexDigit (n / 16 % 16), hexDigit (n % 16)]

/-- `\uXXXX` -/
def uEsc (n : Nat) : Str := '\\' :: 'u' :: hex4 n

/-- One character of a string as `ensure_ascii=True` writes it. -/
def escChar (c : Char) : Str :=
  if c = '"' then ['\\', '"']
  else if c = '\\' then ['\\', '\\']
  else if c = '\n' then ['\\', 'n']
  else if c = '\r' then ['\\', 'r']
  else if c = '\t' then ['\\', 't']
  else if c = Char.ofNat 8 then ['\\', 'b']
  else if c = Char.ofNat 12 then ['\\', 'f']
  else if 32 ≤ c.toNat ∧ c.toNat < 127 then [c]
  else if c.toNat < 65536 then uEsc c.toNat
  else uEsc (55296 + (c.toNat - 65536) / 1024) ++ uEsc (56320 + (c.toNat - 65536) % 1024)

def escStr : Str → Str
  | [] => []
  | c :: cs => escChar c ++ escStr cs

def renderStr (s : Str) : Str := '"' :: (escStr s ++ ['"'])

/-- Newline and the indentation of nesting level `lvl` (`indent=2`). -/
def nl (lvl : Nat) : Str := '\n' :: List.replicate (2 * lvl) ' '

mutual
/-- `json.dumps(v, indent=2)`, the value standing at nesting level `lvl`. -/
def render (lvl : Nat) : Json → Str
  | .null => cs!"null"
  | .bool true => cs!"true"
  | .bool false => cs!"false"
  | .int n => dec n
  | .real _ => cs!"NaN"
  | .str s => renderStr s
  | .arr [] => cs!"[]"
  | .arr (x :: xs) => '[' :: (nl (lvl + 1) ++ (render (lvl + 1) x ++ (renderRest (lvl + 1) xs ++ (nl lvl ++ [']']))))
  | .obj [] => cs!"{}"
  | .obj ((k, x) :: kvs) =>
    '{' :: (nl (lvl + 1) ++ (renderStr k ++ (':' :: ' ' :: (render (lvl + 1) x ++ (renderMore (lvl + 1) kvs ++ (nl lvl ++ ['}']))))))
/-- The elements after the first: each preceded by `,` newline indentation. -/
def renderRest (lvl : Nat) : List Json → Str
  | [] => []
  | x :: xs => ',' :: (nl lvl ++ (render lvl x ++ renderRest lvl xs))
/-- The members after the first. -/
def renderMore (lvl : Nat) : List (Str × Json) → Str
  | [] => []
  | (k, x) :: kvs => ',' :: (nl lvl ++ (renderStr k ++ (':' :: ' ' :: (render lvl x ++ renderMore lvl kvs))))
end

mutual
/-- No real anywhere, every integer printable by `str(int)`. -/
def renderable : Json → Bool
  | .real _ => false
  | .int n => decide ((Nat.toDigits 10 n.natAbs).length ≤ Gen.pyMaxStrDigits)
  | .arr xs => renderableList xs
  | .obj kvs => renderableKvs kvs
  | _ => true
def renderableList : List Json → Bool
  | [] => true
  | x :: xs => renderable x && renderableList xs
def renderableKvs : List (Str × Json) → Bool
  | [] => true
  | (_, x) :: kvs => renderable x && renderableKvs kvs
end

mutual
/-- No object has the same key twice (true of every Python dict). -/
def distinctKeys : Json → Bool
  | .arr xs => distinctKeysList xs
  | .obj kvs => decide ((kvs.map (·.1)).Nodup) && distinctKeysKvs kvs
  | _ => true
def distinctKeysList : List Json → Bool
  | [] => true
  | x :: xs => distinctKeys x && distinctKeysList xs
def distinctKeysKvs : List (Str × Json) → Bool
  | [] => true
  | (_, x) :: kvs => distinctKeys x && distinctKeysKvs kvs
end

/-- The values `json.dumps` renders and `json.loads` reads back as they were. -/
def Renderable (v : Json) : Prop := renderable v = true ∧ distinctKeys v = true

/-! ### `sort_keys=True` for `str` keys -/

/-- `a < b` for Python strings: by code point. -/
def strLt : Str → Str → Bool
  | _, [] => false
  | [], _ :: _ => true
  | a :: as, b :: bs => decide (a.toNat < b.toNat) || (a == b && strLt as bs)

/-- Insert before the first member whose key is not smaller (stable). -/
def insertBy {κ α : Type} (lt : κ → κ → Bool) (kv : κ × α) : List (κ × α) → List (κ × α)
  | [] => [kv]
  | x :: xs => if lt x.1 kv.1 then x :: insertBy lt kv xs else kv :: x :: xs

def sortBy {κ α : Type} (lt : κ → κ → Bool) (l : List (κ × α)) : List (κ × α) := l.foldr (insertBy lt) []

mutual
/-- Every object's members sorted by key, recursively. -/
def sortKeys : Json → Json
  | .arr xs => .arr (sortKeysList xs)
  | .obj kvs => .obj (sortBy strLt (sortKeysKvs kvs))
  | j => j
def sortKeysList : List Json → List Json
  | [] => []
  | x :: xs => sortKeys x :: sortKeysList xs
def sortKeysKvs : List (Str × Json) → List (Str × Json)
  | [] => []
  | (k, x) :: kvs => (k, sortKeys x) :: sortKeysKvs kvs
end

/-- `json.dumps(v, sort_keys=True, indent=2)` for a value whose dicts all have `str` keys. -/
def dumpsSorted (v : Json) : Str := render 0 (sortKeys v)

/-! ## Parsing -/

inductive PErr where
  /-- `json.JSONDecodeError` -/
  | invalid
  /-- `ValueError`: integer literal beyond the interpreter's digit limit -/
  | hugeInt
  /-- outside the modelled fragment: a real literal or a lone surrogate escape -/
  | unsupported
  deriving DecidableEq, Repr

/-- An open container. -/
inductive Frame where
  /-- array with the elements read so far -/
  | arr (acc : List Json)
  /-- object with the members read so far, no key pending -/
  | obj (acc : List (Str × Json))
  /-- object with a key read, its value outstanding -/
  | objv (acc : List (Str × Json)) (key : Str)

inductive Mode where
  /-- a value must start here -/
  | value
  /-- just after `[` -/
  | arrFirst
  /-- just after `{` -/
  | objFirst
  /-- after `,` in an object: a key must start here -/
  | objKey
  /-- after a key -/
  | colon
  /-- after a complete value inside a container -/
  | after
  /-- the top-level value is complete -/
  | done (v : Json)
  /-- inside a string (`key`: it is an object key) -/
  | str (key : Bool) (acc : Str)
  /-- after a backslash -/
  | esc (key : Bool) (acc : Str)
  /-- inside `\uXXXX`: `k` digits read with value `n`; `hi` = the high surrogate just before -/
  | hex (key : Bool) (acc : Str) (hi : Option Nat) (n k : Nat)
  /-- after a high surrogate escape: `\` must follow -/
  | hi1 (key : Bool) (acc : Str) (hi : Nat)
  /-- … then `u` -/
  | hi2 (key : Bool) (acc : Str) (hi : Nat)
  /-- after `-` -/
  | minus
  /-- after a leading `0` -/
  | zero (neg : Bool)
  /-- inside an integer: value `n`, `k` digits, within the digit limit -/
  | int (neg : Bool) (n k : Nat)
  /-- inside an integer beyond the digit limit -/
  | big
  /-- after `.` -/
  | frac
  /-- after `e` / `E` -/
  | exp
  /-- after the sign of an exponent -/
  | expSign
  /-- inside a literal: `rest` is still to come -/
  | lit (rest : Str) (v : Json)

structure St where
  stack : List Frame
  mode : Mode

def isWs (c : Char) : Bool := c = ' ' || c = '\t' || c = '\n' || c = '\r'

def hexVal? (c : Char) : Option Nat :=
  if 48 ≤ c.toNat ∧ c.toNat ≤ 57 then some (c.toNat - 48)
  else if 97 ≤ c.toNat ∧ c.toNat ≤ 102 then some (c.toNat - 87)
  else if 65 ≤ c.toNat ∧ c.toNat ≤ 70 then some (c.toNat - 55)
  else none

def simpleEsc? (c : Char) : Option Char :=
  if c = '"' then some '"'
  else if c = '\\' then some '\\'
  else if c = '/' then some '/'
  else if c = 'b' then some (Char.ofNat 8)
  else if c = 'f' then some (Char.ofNat 12)
  else if c = 'n' then some '\n'
  else if c = 'r' then some '\r'
  else if c = 't' then some '\t'
  else none

/-- A complete value arrives in the innermost open container. -/
def deliver (stack : List Frame) (v : Json) : Except PErr St :=
  match stack with
  | [] => .ok ⟨[], .done v⟩
  | .arr acc :: s => .ok ⟨.arr (acc ++ [v]) :: s, .after⟩
  | .objv acc k :: s => .ok ⟨.obj (PDict.set acc k v) :: s, .after⟩
  | .obj _ :: _ => .error .invalid

/-- The closing quote of a string. -/
def endStr (stack : List Frame) (key : Bool) (s : Str) : Except PErr St :=
  if key then
    match stack with
    | .obj acc :: r => .ok ⟨.objv acc s :: r, .colon⟩
    | _ => .error .invalid
  else deliver stack (.str s)

/-- First character of a value (not whitespace). -/
def startValue (stack : List Frame) (c : Char) : Except PErr St :=
  if c = '"' then .ok ⟨stack, .str false []⟩
  else if c = '{' then .ok ⟨.obj [] :: stack, .objFirst⟩
  else if c = '[' then .ok ⟨.arr [] :: stack, .arrFirst⟩
  else if c = 'n' then .ok ⟨stack, .lit cs!"ull" .null⟩
  else if c = 't' then .ok ⟨stack, .lit cs!"rue" (.bool true)⟩
  else if c = 'f' then .ok ⟨stack, .lit cs!"alse" (.bool false)⟩
  else if c = 'N' then .ok ⟨stack, .lit cs!"aN" (.real .nan)⟩
  else if c = 'I' then .ok ⟨stack, .lit cs!"nfinity" (.real .inf)⟩
  else if c = '-' then .ok ⟨stack, .minus⟩
  else if c = '0' then .ok ⟨stack, .zero false⟩
  else if c.isDigit then .ok ⟨stack, .int false (c.toNat - 48) 1⟩
  else .error .invalid

/-- A character after a complete value inside a container. -/
def afterStep (stack : List Frame) (c : Char) : Except PErr St :=
  if isWs c then .ok ⟨stack, .after⟩
  else match stack with
    | .arr acc :: s =>
      if c = ',' then .ok ⟨stack, .value⟩ else if c = ']' then deliver s (.arr acc) else .error .invalid
    | .obj acc :: s =>
      if c = ',' then .ok ⟨stack, .objKey⟩ else if c = '}' then deliver s (.obj acc) else .error .invalid
    | _ => .error .invalid

def doneStep (v : Json) (c : Char) : Except PErr St :=
  if isWs c then .ok ⟨[], .done v⟩ else .error .invalid

/-- The integer `v` ended just before `c`. -/
def settle (stack : List Frame) (v : Json) (c : Char) : Except PErr St :=
  match stack with
  | [] => doneStep v c
  | _ => (deliver stack v).bind fun st => afterStep st.stack c

def intVal (neg : Bool) (n : Nat) : Json := .int (if neg then -(n : Int) else n)

/-- The fourth hexadecimal digit of a `\u` escape has been read; the escape's value is `m`. -/
def hexDone (stack : List Frame) (key : Bool) (acc : Str) (hi : Option Nat) (m : Nat) : Except PErr St :=
  match hi with
  | some h =>
    if 56320 ≤ m ∧ m < 57344 then .ok ⟨stack, .str key (acc ++ [Char.ofNat (65536 + (h - 55296) * 1024 + (m - 56320))])⟩
    else .error .unsupported
  | none =>
    if 55296 ≤ m ∧ m < 56320 then .ok ⟨stack, .hi1 key acc m⟩
    else if 56320 ≤ m ∧ m < 57344 then .error .unsupported
    else .ok ⟨stack, .str key (acc ++ [Char.ofNat m])⟩

def step (st : St) (c : Char) : Except PErr St :=
  match st.mode with
  | .value => if isWs c then .ok st else startValue st.stack c
  | .arrFirst =>
    if isWs c then .ok st
    else if c = ']' then
      match st.stack with
      | .arr acc :: s => deliver s (.arr acc)
      | _ => .error .invalid
    else startValue st.stack c
  | .objFirst =>
    if isWs c then .ok st
    else if c = '}' then
      match st.stack with
      | .obj acc :: s => deliver s (.obj acc)
      | _ => .error .invalid
    else if c = '"' then .ok ⟨st.stack, .str true []⟩
    else .error .invalid
  | .objKey => if isWs c then .ok st else if c = '"' then .ok ⟨st.stack, .str true []⟩ else .error .invalid
  | .colon => if isWs c then .ok st else if c = ':' then .ok ⟨st.stack, .value⟩ else .error .invalid
  | .after => afterStep st.stack c
  | .done v => doneStep v c
  | .str key acc =>
    if c = '"' then endStr st.stack key acc
    else if c = '\\' then .ok ⟨st.stack, .esc key acc⟩
    else if c.toNat < 32 then .error .invalid
    else .ok ⟨st.stack, .str key (acc ++ [c])⟩
  | .esc key acc =>
    match simpleEsc? c with
    | some d => .ok ⟨st.stack, .str key (acc ++ [d])⟩
    | none => if c = 'u' then .ok ⟨st.stack, .hex key acc none 0 0⟩ else .error .invalid
  | .hex key acc hi n k =>
    match hexVal? c with
    | some d =>
      if k = 3 then hexDone st.stack key acc hi (n * 16 + d)
      else .ok ⟨st.stack, .hex key acc hi (n * 16 + d) (k + 1)⟩
    | none => if hi.isSome then .error .unsupported else .error .invalid
  | .hi1 key acc h => if c = '\\' then .ok ⟨st.stack, .hi2 key acc h⟩ else .error .unsupported
  | .hi2 key acc h => if c = 'u' then .ok ⟨st.stack, .hex key acc (some h) 0 0⟩ else .error .unsupported
  | .minus =>
    if c = '0' then .ok ⟨st.stack, .zero true⟩
    else if c.isDigit then .ok ⟨st.stack, .int true (c.toNat - 48) 1⟩
    else if c = 'I' then .ok ⟨st.stack, .lit cs!"nfinity" (.real .inf)⟩
    else .error .invalid
  | .zero neg =>
    if c = '.' then .ok ⟨st.stack, .frac⟩
    else if c = 'e' ∨ c = 'E' then .ok ⟨st.stack, .exp⟩
    else settle st.stack (intVal neg 0) c
  | .int neg n k =>
    if c.isDigit then
      (if k + 1 ≤ Gen.pyMaxStrDigits then .ok ⟨st.stack, .int neg (10 * n + (c.toNat - 48)) (k + 1)⟩
       else .ok ⟨st.stack, .big⟩)
    else if c = '.' then .ok ⟨st.stack, .frac⟩
    else if c = 'e' ∨ c = 'E' then .ok ⟨st.stack, .exp⟩
    else settle st.stack (intVal neg n) c
  | .big =>
    if c.isDigit then .ok st
    else if c = '.' then .ok ⟨st.stack, .frac⟩
    else if c = 'e' ∨ c = 'E' then .ok ⟨st.stack, .exp⟩
    else .error .hugeInt
  | .frac => if c.isDigit then .error .unsupported else .error .invalid
  | .exp =>
    if c.isDigit then .error .unsupported
    else if c = '+' ∨ c = '-' then .ok ⟨st.stack, .expSign⟩
    else .error .invalid
  | .expSign => if c.isDigit then .error .unsupported else .error .invalid
  | .lit rest v =>
    match rest with
    | [] => .error .invalid
    | x :: xs =>
      if c = x then (if xs.isEmpty then deliver st.stack v else .ok ⟨st.stack, .lit xs v⟩)
      else .error .invalid

/-- Feed a text to the machine. -/
def run (st : St) : Str → Except PErr St
  | [] => .ok st
  | c :: cs => (step st c).bind fun st' => run st' cs

/-- End of the text. -/
def finish (st : St) : Except PErr Json :=
  match st.stack, st.mode with
  | [], .done v => .ok v
  | [], .zero neg => .ok (intVal neg 0)
  | [], .int neg n _ => .ok (intVal neg n)
  | _, .big => .error .hugeInt
  | _, _ => .error .invalid

def init : St := ⟨[], .value⟩

/-- `json.loads(text)` -/
def parse (text : Str) : Except PErr Json := (run init text).bind finish

/-! ## Bytes -/


/-- `text.encode("utf-8")` -/
def encodeUtf8 : Str → FileOps.Bytes
  | [] => []
  | c :: cs => String.utf8EncodeChar c ++ encodeUtf8 cs

def isCont (b : UInt8) : Bool := 128 ≤ b.toNat && b.toNat < 192

/-- `data.decode("utf-8")`, strict; `none` = `UnicodeDecodeError`. -/
def decodeUtf8 : FileOps.Bytes → Option Str
  | [] => some []
  | b0 :: rest =>
    if b0.toNat < 128 then (decodeUtf8 rest).map (Char.ofNat b0.toNat :: ·)
    else if 194 ≤ b0.toNat ∧ b0.toNat < 224 then
      match rest with
      | b1 :: r =>
        if isCont b1 then (decodeUtf8 r).map (Char.ofNat ((b0.toNat - 192) * 64 + (b1.toNat - 128)) :: ·) else none
      | _ => none
    else if 224 ≤ b0.toNat ∧ b0.toNat < 240 then
      match rest with
      | b1 :: b2 :: r =>
        let n := (b0.toNat - 224) * 4096 + (b1.toNat - 128) * 64 + (b2.toNat - 128)
        if isCont b1 && isCont b2 && decide (2048 ≤ n) && !(decide (55296 ≤ n) && decide (n < 57344)) then
          (decodeUtf8 r).map (Char.ofNat n :: ·)
        else none
      | _ => none
    else if 240 ≤ b0.toNat ∧ b0.toNat < 245 then
      match rest with
      | b1 :: b2 :: b3 :: r =>
        let n := (b0.toNat - 240) * 262144 + (b1.toNat - 128) * 4096 + (b2.toNat - 128) * 64 + (b3.toNat - 128)
        if isCont b1 && isCont b2 && isCont b3 && decide (65536 ≤ n) && decide (n < 1114112) then
          (decodeUtf8 r).map (Char.ofNat n :: ·)
        else none
      | _ => none
    else none

open Persist in
/-- The first `try` block of `Persistence.load` from the bytes of the file to the parsed value:
`read` (decode), `read or "{}"`, `json.loads`.  `none`: outside the modelled fragment. -/
def classify (b : FileOps.Bytes) : Option FileState :=
  match decodeUtf8 b with
  | none => some .undecodable
  | some [] => some .empty
  | some text =>
    match parse text with
    | .ok j => some (.value j)
    | .error .invalid => some .notJson
    | .error .hugeInt => some .hugeInt
    | .error .unsupported => none

end AioMySensors.JsonText

namespace AioMySensors.Persist
open AioMySensors Schema JsonText

/-! ## The value `save` hands to `json.dumps`, in the order `sort_keys=True` writes it -/

def intLt (a b : Int) : Bool := decide (a < b)

/-- A dict with `int` keys in key order. -/
def sortDict {α : Type} (d : PDict Int α) : PDict Int α := sortBy intLt d

/-- The declared fields in the order of their names. -/
def sortSpecs (specs : List FieldSpec) : List FieldSpec :=
  (sortBy strLt (specs.map fun f => (f.name.toList, f))).map (·.2)

def canonChild (c : Child) : Child := { c with values := sortDict c.values }

def canonNode (n : Node) : Node :=
  { n with children := sortDict (n.children.map fun kc => (kc.1, canonChild kc.2)) }

/-- The registry with its three dict levels in key order (the same Python dicts: `==` ignores order). -/
def canonReg (r : PDict Int Node) : PDict Int Node := sortDict (r.map fun kn => (kn.1, canonNode kn.2))

/-- `ChildSchema().dump(child)` with the fields in name order. -/
def saveChildS (c : Child) : Json := dumpRecord (sortSpecs Gen.childSchema) (childAttr c) (fun _ => .null)

/-- `NodeSchema().dump(node)` with the fields in name order. -/
def saveNodeS (id : Int) (n : Node) : Json := dumpRecord (sortSpecs Gen.nodeSchema) (nodeAttr id n) saveChildS

/-- `save`'s dict as `json.dumps(…, sort_keys=True)` traverses it. -/
def saveSorted (r : PDict Int Node) : Json :=
  .obj ((canonReg r).map fun kv => (dec kv.1, saveNodeS kv.1 kv.2))

/-- The text `Persistence.save` writes. -/
def saveText (r : PDict Int Node) : Str := render 0 (saveSorted r)

/-- The bytes `Persistence.save` writes. -/
def saveBytes (r : PDict Int Node) : FileOps.Bytes := encodeUtf8 (saveText r)

/-- Every integer attribute that is not a dict key is printable by `json.dumps` (RegOK speaks
about keys, node id and battery level only). -/
def childIntsOK (c : Child) : Bool := intOK c.cid && intOK c.ctype

def nodeIntsOK (n : Node) : Bool :=
  intOK n.ntype && intOK n.heartbeat && n.children.all fun kc => childIntsOK kc.2

def regIntsOK (r : PDict Int Node) : Bool := r.all fun kn => nodeIntsOK kn.2

end AioMySensors.Persist
