/-
Handler bodies and decorators of `model/protocol/protocol_{14,20,22}.py`, and `Gateway.send`.
Which body and which decorators run for a command / type in a version comes from the generated
chains; which `message_buffer=` flag a reaction is sent with comes from the generated call-site
table; which exceptions a conversion maps to `InvalidMessageError` from the generated except tuples.
-/
import AioMySensors.Model.Effects
import AioMySensors.Model.Version
import AioMySensors.Model.PyFloat

namespace AioMySensors
open M

/-- `Gateway.send` after the dump: pick the outgoing handler of the active protocol by command. -/
def gwSend (m : Msg) (buffer : Bool) : M Unit :=
  bind getSt fun st =>
  match (Gen.outgoingHandlers st.proto).lookup m.cmd with
  | none => raise (.foreign .ValueError)                 -- `protocol.Command(message.command)`
  | some none => raise (.foreign .AttributeError)        -- no `handle_<command>` attribute
  | some (some .direct) => transportWrite (encode m)
  | some (some .set14) =>
    match st.nodes.get? m.node with
    | some node =>
      if buffer && node.sleeping then modifySt fun s => { s with sbuf := s.sbuf.set m.key m }
      else transportWrite (encode m)
    | none => transportWrite (encode m)

/-- `Gateway.send(obj, message_buffer=b)`: anything that is not a `Message` fails the dump. -/
def apiSend (obj : Option Msg) (buffer : Bool) : M Unit :=
  match obj with
  | none => raise (.lib .invalidMessage)
  | some m => gwSend m buffer

def versionQuery : Msg := ⟨0, Gen.systemChildId, Gen.cmdInternal, 0, Gen.iVersion, []⟩

/-- Does the `finally` clause of `handle_missing_protocol_version` send for this message? -/
def wantsVersionQuery (m : Msg) : Bool :=
  m.cmd != Gen.cmdInternal || !(m.type == Gen.iLogMessage || m.type == Gen.iGatewayReady)

/-- `handle_missing_protocol_version`: `try: func finally: version query while the version is unknown`. -/
def wrapMissingPV (inner : Msg → M Msg) (m : Msg) : M Msg :=
  tryFinally (inner m) fun r =>
    let m' := match r with | .ok m' => m' | .error _ => m
    bind getSt fun st =>
    if st.pv.isNone && wantsVersionQuery m' then gwSend versionQuery Gen.bufVersionQuery else pure ()

def presentationRequest (node : Int) : Msg := ⟨node, Gen.systemChildId, Gen.cmdInternal, 0, Gen.iPresentation, []⟩

/-- Does `except (MissingNodeError, MissingChildError)` (as generated) catch this exception? -/
def missingCaught (e : Exn) : Bool :=
  match e with
  | .lib (.missingNode _) => Gen.excMissingNC.contains "MissingNodeError"
  | .lib (.missingChild _) => Gen.excMissingNC.contains "MissingChildError"
  | _ => false

/-- `handle_missing_node_child`: on a missing node/child, request a presentation once, remember it, re-raise. -/
def wrapMissingNC (inner : Msg → M Msg) (m : Msg) : M Msg :=
  tryCatch (inner m) fun e =>
    if missingCaught e then
      some (
        let pm := presentationRequest m.node
        bind getSt fun st =>
        if st.ibuf.has pm.key then raise e
        else seq (gwSend pm Gen.bufPresentationRequest)
          (seq (modifySt fun s => { s with ibuf := s.ibuf.set pm.key pm }) (raise e)))
    else none

/-- `if node_id not in gateway.nodes: raise MissingNodeError(node_id)` -/
def requireNode (id : Int) : M Node :=
  bind getSt fun st =>
  match st.nodes.get? id with
  | some n => pure n
  | none => raise (.lib (.missingNode id))

def setNode (id : Int) (n : Node) : M Unit := modifySt fun s => { s with nodes := s.nodes.set id n }

/-- `_handle_sleep_buffer`: write the woken node's parked commands in dict order, removing each
after its write returned (and only if it is still the entry that was written). -/
def flushList : List (Key × Msg) → M Unit
  | [] => pure ()
  | (k, bm) :: rest =>
    seq (gwSend bm Gen.bufFlush)
      (seq (modifySt fun s => if s.sbuf.get? k = some bm then { s with sbuf := s.sbuf.erase k } else s)
        (flushList rest))

def flush (m : Msg) : M Msg :=
  bind getSt fun st =>
  seq (flushList (st.sbuf.filter fun e => e.2.node == m.node)) (pure m)

/-- `handle_i_version`: resolve first, store after; unparsable → `InvalidMessageError`. -/
def hVersion (m : Msg) : M Msg :=
  bind (convertExn (clause Gen.excVersion 0) .invalidMessage (getProtocolE m.payload)) fun v =>
  seq (modifySt fun s => { s with pv := some m.payload, proto := v }) (pure m)

/-- `max(gateway.nodes) + 1 if gateway.nodes else 1` -/
def nextId (nodes : PDict Int Node) : Int :=
  match nodes.keys with
  | [] => 1
  | k :: ks => ks.foldl max k + 1

/-- The temporary node registered for an id that was handed out. -/
def placeholderNode : Node := { ntype := Gen.sArduinoNode, pv := Gen.defaultVersionStr.toList }

/-- `gateway.nodes[next_id] = Node(next_id, S_ARDUINO_NODE, "1.4")` -/
def allocNode : M Unit := modifySt fun s => { s with nodes := s.nodes.set (nextId s.nodes) placeholderNode }

def hIdRequest (m : Msg) : M Msg :=
  bind getSt fun st =>
  if nextId st.nodes > Gen.maxNodeId then raise (.lib .tooManyNodes)
  else
    seq allocNode
      (seq (gwSend ⟨m.node, m.child, m.cmd, 0, Gen.iIdResponse, dec (nextId st.nodes)⟩ Gen.bufIdResponse) (pure m))

def hConfig (env : Env) (m : Msg) : M Msg :=
  seq (gwSend ⟨m.node, m.child, m.cmd, 0, m.type, if env.metric then ['M'] else ['I']⟩ Gen.bufConfig) (pure m)

def hTime (env : Env) (m : Msg) : M Msg :=
  seq (gwSend ⟨m.node, m.child, m.cmd, 0, m.type, dec env.timegm⟩ Gen.bufTime) (pure m)

def hBattery (m : Msg) : M Msg :=
  bind (requireNode m.node) fun node =>
  bind (convertExn (clause Gen.excBattery 0) .invalidMessage (pyRoundFloat m.payload)) fun level =>
  if Gen.minBattery ≤ level ∧ level ≤ Gen.maxBattery then
    seq (setNode m.node { node with battery := level }) (pure m)
  else raise (.lib .invalidMessage)

def hSketchName (m : Msg) : M Msg :=
  bind (requireNode m.node) fun node => seq (setNode m.node { node with sketchName := m.payload }) (pure m)

def hSketchVersion (m : Msg) : M Msg :=
  bind (requireNode m.node) fun node => seq (setNode m.node { node with sketchVersion := m.payload }) (pure m)

def hGatewayReady (m : Msg) : M Msg :=
  seq (gwSend ⟨Gen.broadcastId, m.child, m.cmd, 0, Gen.iDiscover, []⟩ Gen.bufDiscover) (pure m)

def hDiscoverResponse (m : Msg) : M Msg :=
  bind (requireNode m.node) fun _ => pure m

/-- `int(message.payload)` with the handler's except clause. -/
def heartbeatValue (classes : List PyExn) (m : Msg) : M Int :=
  convertExn classes .invalidMessage (match pyInt? m.payload with | some n => .ok n | none => .error .ValueError)

def hHeartbeat20 (m : Msg) : M Msg :=
  bind (requireNode m.node) fun node =>
  bind (heartbeatValue (clause Gen.excHeartbeat20 0) m) fun hb =>
  seq (setNode m.node { node with sleeping := true, heartbeat := hb }) (flush m)

def hHeartbeat22 (m : Msg) : M Msg :=
  bind (requireNode m.node) fun node =>
  bind (heartbeatValue (clause Gen.excHeartbeat22 0) m) fun hb =>
  seq (setNode m.node { node with heartbeat := hb }) (pure m)

def hPreSleep22 (m : Msg) : M Msg :=
  bind (requireNode m.node) fun node =>
  seq (setNode m.node { node with sleeping := true }) (flush m)

def hSet (m : Msg) : M Msg :=
  bind (requireNode m.node) fun node =>
  match node.children.get? m.child with
  | none => raise (.lib (.missingChild m.child))
  | some child =>
    let node' := { node with children := node.children.set m.child { child with values := child.values.set m.type m.payload } }
    seq (setNode m.node node')
      (if node.reboot then
        seq (gwSend ⟨m.node, Gen.systemChildId, Gen.cmdInternal, 0, Gen.iReboot, []⟩ Gen.bufReboot) (pure m)
      else pure m)

def hReq (m : Msg) : M Msg :=
  bind (requireNode m.node) fun node =>
  match node.children.get? m.child with
  | none => raise (.lib (.missingChild m.child))
  | some child =>
    match child.values.get? m.type with
    | some value => seq (gwSend ⟨m.node, m.child, Gen.cmdSet, 0, m.type, value⟩ Gen.bufReqReply) (pure m)
    | none => pure m

/-- Bodies that dispatch no further. `none`: the body is not a leaf (model limitation, never
produced by the translator for an inner chain — theorem `inner_chains_are_leaves`). -/
def runLeaf (env : Env) : Body → Option (Msg → M Msg)
  | .iVersion14 => some hVersion
  | .iIdRequest14 => some hIdRequest
  | .iConfig14 => some (hConfig env)
  | .iTime14 => some (hTime env)
  | .iBatteryLevel14 => some hBattery
  | .iSketchName14 => some hSketchName
  | .iSketchVersion14 => some hSketchVersion
  | .iGatewayReady20 => some hGatewayReady
  | .iDiscoverResponse20 => some hDiscoverResponse
  | .iHeartbeatResponse20 => some hHeartbeat20
  | .iHeartbeatResponse22 => some hHeartbeat22
  | .iPreSleepNotification22 => some hPreSleep22
  | .set14 => some hSet
  | .req14 => some hReq
  | _ => none

/-- `protocol_20.handle_presentation` before its `super()` call: forget the request marker. -/
def prePresentation20 (m : Msg) : M Unit :=
  modifySt fun s =>
    if s.ibuf.has (m.node, m.child, Gen.iPresentation) then
      { s with ibuf := s.ibuf.erase (m.node, m.child, Gen.iPresentation) }
    else s

def runPre : Body → Msg → M Unit
  | .presentation20 => prePresentation20
  | _ => fun _ => raise (.foreign .RuntimeError)   -- not produced by the translator

/-- Apply the layers of a resolved handler around its innermost body. -/
def applyLayers (layers : List Layer) (base : Msg → M Msg) : Msg → M Msg :=
  match layers with
  | [] => base
  | .wrap .missingPV :: ls => wrapMissingPV (applyLayers ls base)
  | .wrap .missingNC :: ls => wrapMissingNC (applyLayers ls base)
  | .pre b :: ls => fun m => seq (runPre b m) (applyLayers ls base m)

/-- A handler reached through `getattr(cls, "handle_<type name>")` or called directly. -/
def runInner (env : Env) (ch : Chain) : Msg → M Msg :=
  match runLeaf env ch.base with
  | some f => applyLayers ch.layers f
  | none => fun _ => raise (.foreign .RuntimeError)

/-- `_handle_message`: no handler → the message is returned as it is. -/
def runTyped (env : Env) (ch : Option Chain) : Msg → M Msg :=
  match ch with
  | some ch => runInner env ch
  | none => pure

/-- `protocol_14.handle_presentation`. -/
def hPresentation (env : Env) (v : Ver) (m : Msg) : M Msg :=
  if m.child == Gen.systemChildId then
    seq (setNode m.node { ntype := m.type, pv := m.payload })
      (if m.node == 0 then runTyped env (Gen.versionHandlerChain v) m else pure m)
  else
    bind (requireNode m.node) fun node =>
    seq (setNode m.node { node with children := node.children.set m.child ⟨m.child, m.type, m.payload, []⟩ }) (pure m)

/-- `protocol_14.handle_internal`: the type gate, then the handler named after the type. -/
def hInternal (env : Env) (v : Ver) (m : Msg) : M Msg :=
  match (Gen.internalTypes v).lookup m.type with
  | none => raise (.lib .unsupported)
  | some _ => runTyped env (((Gen.internalChains v).lookup m.type).join) m

/-- `protocol_14.handle_stream`. -/
def hStream (env : Env) (v : Ver) (m : Msg) : M Msg :=
  bind (requireNode m.node) fun _ =>
  match (Gen.streamTypes v).lookup m.type with
  | none => raise (.lib .unsupported)
  | some _ => runTyped env (((Gen.streamChains v).lookup m.type).join) m

/-- The innermost body of a command-level handler. -/
def runBase (env : Env) (v : Ver) : Body → Msg → M Msg
  | .presentation14 => hPresentation env v
  | .internal14 => hInternal env v
  | .stream14 => hStream env v
  | b => match runLeaf env b with
    | some f => f
    | none => fun _ => raise (.foreign .RuntimeError)

/-- `get_incoming_message_handler(protocol, message)(gateway, message, buffer)` for protocol `v`. -/
def dispatch (env : Env) (v : Ver) (m : Msg) : M Msg :=
  match (Gen.commandChains v).lookup m.cmd with
  | none => raise (.foreign .ValueError)
  | some ch => applyLayers ch.layers (runBase env v ch.base) m

/-- One iteration of `Gateway.listen` on a line the transport delivered. -/
def recv (env : Env) (line : Str) : M Msg :=
  bind getSt fun st =>
  match decode st.proto line with
  | none => raise (.lib .invalidMessage)
  | some m => dispatch env st.proto m

end AioMySensors
