/-
File-system operations of `Persistence.save` and their crash states (C15).

`Persistence.save` (persistence.py) performs, on the *live* persistence file,

    async with aiofiles.open(self.path, mode="w") as fil:      -- open + truncate
        await fil.write(json.dumps(data, sort_keys=True, indent=2))   -- one write
                                                               -- close on leaving the block

The model: a file system of two paths (the live file and an optional temporary file), the
operation sequence `saveOps new` the code performs, and `crashStates fs ops` = the file system
after every prefix of the sequence, a `write` contributing every byte prefix (torn write).
`saveOpsAtomic` (temporary file + rename) is the sequence of the well-known repair, kept for
comparison.

Where the bytes reach the file: Python's text layer buffers, so the bytes of the one `write` call
may reach the file at `write`, at an intermediate flush, or at the flush inside `close`, in chunks
of any size.  All of these give the same *set* of crash states (the truncated file followed by
growing prefixes of the new text), which is what `crashStates` enumerates.

No Mathlib.  `List.inits` is not in core, so `prefixes` is defined here with its membership lemma.
-/

namespace AioMySensors.FileOps

abbrev Bytes := List UInt8

/-- The two paths a save can touch. -/
inductive Path where
  | live   -- `Persistence.path`
  | tmp    -- a temporary file next to it (only used by `saveOpsAtomic`)
  deriving DecidableEq, Repr

/-- `path ↦ bytes`; `none` = the file does not exist. -/
structure Fs where
  live : Option Bytes
  tmp : Option Bytes := none
  deriving DecidableEq, Repr

def Fs.get (fs : Fs) : Path → Option Bytes
  | .live => fs.live
  | .tmp => fs.tmp

def Fs.set (fs : Fs) : Path → Option Bytes → Fs
  | .live, v => { fs with live := v }
  | .tmp, v => { fs with tmp := v }

/-- The file system before a save: the live file holds the previously saved text. -/
def Fs.init (old : Bytes) : Fs := { live := some old, tmp := none }

inductive FsOp where
  /-- `open(p, "w")`: create the file or truncate it to length 0. -/
  | openTrunc (p : Path)
  /-- append `data` at the file position (sequential writes after a truncating open). -/
  | write (p : Path) (data : Bytes)
  | close (p : Path)
  /-- `os.replace(a, b)`: atomic. -/
  | rename (a b : Path)
  deriving DecidableEq, Repr

def applyOp (fs : Fs) : FsOp → Fs
  | .openTrunc p => fs.set p (some [])
  | .write p d => fs.set p (some ((fs.get p).getD [] ++ d))
  | .close _ => fs
  | .rename a b => if a = b then fs else (fs.set b (fs.get a)).set a none

def applyOps (fs : Fs) (ops : List FsOp) : Fs := ops.foldl applyOp fs

/-- All prefixes of a list, shortest first (`[]` … the list itself). -/
def prefixes : List α → List (List α)
  | [] => [[]]
  | a :: l => [] :: (prefixes l).map (a :: ·)

theorem mem_prefixes {p l : List α} : p ∈ prefixes l ↔ p <+: l := by
  induction l generalizing p with
  | nil => simp [prefixes]
  | cons a l ih =>
    simp only [prefixes, List.mem_cons, List.mem_map]
    constructor
    · rintro (h | ⟨q, hq, rfl⟩)
      · subst h; exact List.nil_prefix
      · exact List.cons_prefix_cons.mpr ⟨rfl, ih.mp hq⟩
    · intro h
      cases p with
      | nil => exact Or.inl rfl
      | cons b q =>
        obtain ⟨hb, hq⟩ := List.cons_prefix_cons.mp h
        subst hb
        exact Or.inr ⟨q, ih.mpr hq, rfl⟩

theorem length_prefixes (l : List α) : (prefixes l).length = l.length + 1 := by
  induction l with
  | nil => rfl
  | cons a l ih => simp [prefixes, ih]

/-- The file system at every crash point of an operation sequence: before the first operation,
between any two operations, after the last one, and — for a `write` — after every byte prefix of
its data.  (States may repeat; only membership matters.) -/
def crashStates (fs : Fs) : List FsOp → List Fs
  | [] => [fs]
  | .write p d :: rest =>
    (prefixes d).map (fun pre => applyOp fs (.write p pre)) ++ crashStates (applyOp fs (.write p d)) rest
  | op :: rest => fs :: crashStates (applyOp fs op) rest

/-- What `Persistence.save` performs today: truncate the live file in place, one write, close. -/
def saveOps (new : Bytes) : List FsOp :=
  [.openTrunc .live, .write .live new, .close .live]

/-- The atomic variant: write a temporary file, close it, rename it over the live file. -/
def saveOpsAtomic (new : Bytes) : List FsOp :=
  [.openTrunc .tmp, .write .tmp new, .close .tmp, .rename .tmp .live]

/-- A tempting variant ("keep a backup"): move the live file away first, then write the new one in
place.  Between the rename and the completed write there is no usable file at the live path. -/
def saveOpsBackupFirst (new : Bytes) : List FsOp :=
  [.rename .live .tmp, .openTrunc .live, .write .live new, .close .live]

/-! ### The loader, abstractly -/

inductive LoadResult (Reg : Type) where
  | ok (r : Reg)      -- `load` into an empty dict left exactly this registry
  | readError         -- `PersistenceReadError`
  | other             -- neither: another exception escapes, or the file is outside the modelled text fragment
  deriving DecidableEq, Repr

/-- What C15 needs to know about `Persistence.load` / the text `save` writes.
* `ok`: the registries the laws speak about — those `save` can write and `load` reproduces
  (C13's hypothesis; `True` for the toy loader);
* `load_empty`: `json.loads(read or "{}")` — an empty file loads as the empty registry;
* `load_dump`: a saved registry loads back (C13);
* `prefix_error`: a non-empty strict prefix of a dumped text is not valid JSON (the text is one
  `{…}` object, so every proper prefix has an unclosed brace) — a read error.
`C15.realLoader` instantiates it with the modelled `json.dumps` / `json.loads` / schema load. -/
structure Loader (Reg : Type) where
  load : Bytes → LoadResult Reg
  dump : Reg → Bytes
  empty : Reg
  ok : Reg → Prop := fun _ => True
  load_empty : load [] = .ok empty
  load_dump : ∀ r, ok r → load (dump r) = .ok r
  prefix_error : ∀ r p, ok r → p <+: dump r → p ≠ [] → p ≠ dump r → load p = .readError

/-- Loading the live file of a file system.  A missing file is the `FileNotFoundError` branch of
`load`: the registry stays empty (and an empty registry is saved). -/
def loadFs (L : Loader Reg) (fs : Fs) : LoadResult Reg :=
  match fs.live with
  | some b => L.load b
  | none => .ok L.empty

/-! ### A toy loader (non-vacuity of `Loader`; also what the driver can run)

Registry = a number `n`; its text is `{` followed by `n` times `1` and `}`. -/

def toyDump (n : Nat) : Bytes := 123 :: (List.replicate n 49 ++ [125])

def toyBody : Bytes → Option Nat
  | [125] => some 0
  | 49 :: rest => (toyBody rest).map (· + 1)
  | _ => none

def toyLoad : Bytes → LoadResult Nat
  | [] => .ok 0
  | 123 :: rest => match toyBody rest with
    | some n => .ok n
    | none => .readError
  | _ => .readError

end AioMySensors.FileOps
