/-
The wire codec: `MessageSchema.dump` (`encode`) and `MessageSchema.load` (`decode`),
`src/aiomysensors/model/message.py`.

`decode` follows the code: `rstrip`, `split(';', 5)`, `zip` with the six field names, then the
per-field validators.  Every validation failure is a marshmallow `ValidationError`, which
`Gateway.listen` turns into `InvalidMessageError`; the model has the single outcome `none`.
-/
import AioMySensors.Model.PyNum

namespace AioMySensors

/-- `aiomysensors.model.message.Message` (all numeric attributes are Python ints). -/
structure Msg where
  node : Int
  child : Int
  cmd : Int
  ack : Int
  type : Int
  payload : Str
  deriving DecidableEq, Repr, Inhabited

/-- `MessageSchema.dump`: the six attributes joined with the delimiter, plus a newline.
No validator runs on dump. -/
def encode (m : Msg) : Str :=
  dec m.node ++ Gen.delimiter :: (dec m.child ++ Gen.delimiter :: (dec m.cmd ++ Gen.delimiter ::
    (dec m.ack ++ Gen.delimiter :: (dec m.type ++ Gen.delimiter :: (m.payload ++ [Gen.terminator])))))

/-- `validate_child_id`: range, then the cross-field rule (needs command and type). -/
def childIdOK (v : Ver) (child cmd type : Int) : Bool :=
  decide (0 ≤ child) && decide (child ≤ Gen.systemChildId) &&
  ((cmd == Gen.internalCommand v && (Gen.nodeIdRequestTypes v).contains type) ||
   !((Gen.strictSystemCommands v).contains cmd && child != Gen.systemChildId))

/-- `CommandField.validate_command`: the command set, narrowed for the system child. -/
def commandOK (v : Ver) (child cmd : Int) : Bool :=
  if child == Gen.systemChildId then (Gen.validSystemCommands v).contains cmd
  else (Gen.commandValues v).contains cmd

/-- All field validators of `MessageSchema` on parsed integers. -/
def fieldsOK (v : Ver) (node child cmd ack type : Int) : Bool :=
  decide (Gen.nodeIdMin ≤ node) && decide (node ≤ Gen.nodeIdMax) &&
  childIdOK v child cmd type && commandOK v child cmd && Gen.ackValues.contains ack

/-- `MessageSchema.load` under protocol `v`; `none` = `ValidationError`. -/
def decode (v : Ver) (line : Str) : Option Msg :=
  match splitN Gen.delimiter 5 (rstrip line) with
  | [f0, f1, f2, f3, f4, f5] =>
    match pyInt? f0, pyInt? f1, pyInt? f2, pyInt? f3, pyInt? f4 with
    | some node, some child, some cmd, some ack, some type =>
      if fieldsOK v node child cmd ack type then some ⟨node, child, cmd, ack, type, f5⟩ else none
    | _, _, _, _, _ => none
  | _ => none

end AioMySensors
