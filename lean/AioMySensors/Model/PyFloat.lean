/-
`round(float(s))` for a `str`, computed exactly with integer arithmetic (no `Float`).

`float()` strips the same whitespace as `int()`, accepts `[+-]? (digits [. digits?] | . digits) ([eE] [+-]? digits)?`
with single underscores between digits, any Unicode decimal digit, and `inf` / `infinity` / `nan`
(case-insensitive, optionally signed).  The decimal value is rounded to the nearest binary64
(ties to even), overflowing to infinity; `round` then rounds that double to an integer (ties to
even), raising `ValueError` for NaN and `OverflowError` for infinities.
-/
import AioMySensors.Model.PyNum

namespace AioMySensors

/-- Digits with single inner underscores; returns (value, count) and allows the empty string when
`allowEmpty`. -/
def floatDigits (s : Str) (allowEmpty : Bool) : Option (Nat × Nat) :=
  if s.isEmpty then (if allowEmpty then some (0, 0) else none) else parseDigits s 0 0 false

def lowerAscii (c : Char) : Char := if 65 ≤ c.toNat ∧ c.toNat ≤ 90 then Char.ofNat (c.toNat + 32) else c

/-- Outcome of parsing a float literal. -/
inductive FloatLit where
  | finite (neg : Bool) (mant : Nat) (exp10 : Int)
  | inf (neg : Bool)
  | nan
  deriving Repr, DecidableEq

/-- Split at the first character satisfying `p`. -/
def breakAt (p : Char → Bool) : Str → Str × Option (Char × Str)
  | [] => ([], none)
  | c :: cs => if p c then ([], some (c, cs)) else
      let r := breakAt p cs
      (c :: r.1, r.2)

/-- Unicode decimal digits are mapped to ASCII before the C parser sees them; anything else that
is not ASCII makes the literal invalid. -/
def asciiDigitise (s : Str) : Option Str :=
  s.mapM fun c =>
    if c.toNat < 127 then some c
    else if isPySpace c then some ' '
    else (pyDigit? c).map fun d => Char.ofNat (48 + d)

def parseFloatLit (s0 : Str) : Option FloatLit := do
  let s1 ← asciiDigitise s0
  let s := dropTrailing isCSpace (s1.dropWhile isCSpace)
  let (neg, body) := match s with
    | '-' :: r => (true, r)
    | '+' :: r => (false, r)
    | r => (false, r)
  let low := body.map lowerAscii
  if low = "inf".toList ∨ low = "infinity".toList then some (.inf neg)
  else if low = "nan".toList then some .nan
  else
    let (mantPart, expPart) := breakAt (fun c => c = 'e' || c = 'E') body
    let (intPart, fracPart) := breakAt (fun c => c = '.') mantPart
    let frac : Str := match fracPart with | some (_, f) => f | none => []
    if intPart.isEmpty ∧ frac.isEmpty then none else do
    let (iv, _) ← floatDigits intPart true
    let (fv, fc) ← floatDigits frac true
    let e : Int ← match expPart with
      | none => some 0
      | some (_, es) =>
        let (eneg, ed) := match es with
          | '-' :: r => (true, r)
          | '+' :: r => (false, r)
          | r => (false, r)
        (floatDigits ed false).map fun (ev, _) => if eneg then -(ev : Int) else (ev : Int)
    some (.finite neg (iv * 10 ^ fc + fv) (e - fc))

/-- Round the positive rational `p / q` to the nearest multiple of `2^k`, ties to even; returns the
multiple's coefficient. -/
def roundDiv (p q : Nat) : Nat :=
  let d := p / q
  let r := p % q
  if 2 * r < q then d else if 2 * r > q then d + 1 else if d % 2 = 0 then d else d + 1

/-- Nearest binary64 to `p / q` (`p, q > 0`) as (mantissa, binary exponent), `none` = overflow to infinity. -/
def toDouble (p q : Nat) : Option (Nat × Int) :=
  if p = 0 then some (0, 0) else
  let k0 : Int := (Nat.log2 p : Int) - (Nat.log2 q : Int) - 52
  let scaled (k : Int) : Nat × Nat := if k ≥ 0 then (p, q * 2 ^ k.toNat) else (p * 2 ^ (-k).toNat, q)
  let pick (k : Int) : Int :=
    let (a, b) := scaled k
    let d := a / b
    if d ≥ 2 ^ 53 then k + 1 else if d < 2 ^ 52 then k - 1 else k
  let k1 := pick k0
  let k := if k1 < -1074 then -1074 else k1
  let (a, b) := scaled k
  let m := roundDiv a b
  -- the largest finite double is (2^53 - 1) * 2^971
  if (m = 2 ^ 53 ∧ k ≥ 971) ∨ k > 971 then none else some (m, k)

/-- `round(x)` for the double `m * 2^k`. -/
def roundDouble (m : Nat) (k : Int) : Nat :=
  if k ≥ 0 then m * 2 ^ k.toNat else roundDiv m (2 ^ (-k).toNat)

/-- The two ways `round(float(s))` fails. -/
inductive FloatErr where
  | value     -- ValueError: not a float literal, or NaN
  | overflow  -- OverflowError: infinity
  deriving DecidableEq, Repr

def FloatErr.toPy : FloatErr → PyExn
  | .value => .ValueError
  | .overflow => .OverflowError

def pyRoundFloatE (s : Str) : Except FloatErr Int :=
  match parseFloatLit s with
  | none => .error .value
  | some .nan => .error .value
  | some (.inf _) => .error .overflow
  | some (.finite neg mant e) =>
    let nd : Int := (Nat.toDigits 10 mant).length
    -- shortcuts that keep huge exponents cheap: 0, certain overflow (≥ 10^309), certain underflow (< 10^-330)
    if mant = 0 then .ok 0
    else if e + nd > 310 then .error .overflow
    else if e + nd < -330 then .ok 0
    else
    let (p, q) : Nat × Nat := if e ≥ 0 then (mant * 10 ^ e.toNat, 1) else (mant, 10 ^ (-e).toNat)
    match toDouble p q with
    | none => .error .overflow
    | some (m, k) =>
      let r := roundDouble m k
      .ok (if neg then -(r : Int) else (r : Int))

/-- `round(float(s))`. -/
def pyRoundFloat (s : Str) : Except PyExn Int :=
  match pyRoundFloatE s with
  | .ok n => .ok n
  | .error e => .error e.toPy

end AioMySensors
