/-
The control skeleton of the gateway context (C16): vocabulary, meaning, machine.

`tools/translate_lifecycle.py` compiles the AST of `Gateway.__aenter__` / `__aexit__` (gateway.py) and of
`Persistence.start` (with its inner `save_on_schedule` and `cancel_save`) / `Persistence.stop` (persistence.py) into
terms of the small statement language `Stmt` below (`Generated/LifecycleBodies.lean`): WHICH steps are awaited, in
which ORDER, under which `if`, inside which `try … except … raise` / `try … finally` / `suppress(...)` / `while True`.

Meaning.  `den` gives a statement its resumption tree `Res` (continuation-passing: what is awaited next and, for every
way that await can end, what follows; `try/finally`, `except …: …; raise`, `suppress`, `break` are the usual clauses).
A coroutine IS such a tree: the machine `stepL` runs the main coroutine from its tree one await at a time, over the same
system state `Sys`, scheduler `Choice` and saver positions as `Model/Lifecycle.lean`; the saver task runs the tree of
one iteration of its `while True` body again and again.  `Lemmas/LifecycleBodiesEq.lean` proves that this machine,
started on the GENERATED skeletons, passes through exactly the states of `Lifecycle.step` — for every fault record, every
exception class of the failing steps (cancellation-like or not), every start time, file and schedule.

What the primitives are (constant, trusted like every `Lit*` vocabulary): one `Op` per step the model of
`Model/Lifecycle.lean` distinguishes (`completeMain` / `completeSaver` give its effect on `Sys` and how it can end;
`createTask` and `cancelTask` are steps of their own although they do not suspend — the model's granularity, finer than
the event loop's, hence more interleavings).  `Stmt.save` is `Persistence.save` seen from outside: `open`, then `write`
with the `close` of `async with aiofiles.open(...)` as its `finally` (the order of these operations is tied to the code by
`PersistBodiesEq.saveOps_eq`).  `contextStmt` is what `async with` does with an `__aexit__` that returns nothing.

No Mathlib.
-/
import AioMySensors.Model.Lifecycle

namespace AioMySensors.LL
open AioMySensors AioMySensors.Lifecycle

/-! ### The statement language -/

/-- The awaited steps. -/
inductive Op where
  | load          -- `await self.persistence.load()`
  | createTask    -- `task = asyncio.create_task(save_on_schedule())`
  | connect       -- `await self.transport.connect()`
  | body          -- the body of the `async with` statement
  | disconnect    -- `await self.transport.disconnect()`
  | cancelTask    -- `task.cancel()`
  | awaitTask     -- `await task`
  | saveOpen | saveWrite | saveClose   -- the three executor awaits of `Persistence.save`
  | sleep         -- `await asyncio.sleep(SAVE_INTERVAL)`
  deriving DecidableEq, Repr

/-- Stores that do not suspend. -/
inductive Silent where
  | setCancel     -- `self._cancel_save = cancel_save`
  | clearCancel   -- `self._cancel_save = None`
  deriving DecidableEq, Repr

/-- The classes of an `except` clause / `contextlib.suppress(...)`. -/
inductive Catch where
  | all                          -- `except BaseException` / bare `except`
  | classes (cs : List PyExn)    -- `except (A, B)`
  deriving DecidableEq, Repr

inductive Stmt where
  | call (op : Op)
  | silent (a : Silent)
  | skip
  | seq (a b : Stmt)
  | ifPersistence (t e : Stmt)                               -- `if self.persistence: t else: e`
  | ifCancelSave (t e : Stmt)                                -- `if self._cancel_save: t else: e`
  | tryExceptReraise (body : Stmt) (c : Catch) (handler : Stmt)   -- `try: body except c: handler; raise`
  | tryFinally (body fin : Stmt)                             -- `try: body finally: fin`
  | suppress (c : Catch) (body : Stmt)                       -- `with suppress(c): body` / `try: body except c: pass`
  | tryExceptBreak (body : Stmt) (c : Catch)                 -- `try: body except c: break`
  | loopForever (body : Stmt)                                -- `while True: body`
  deriving Repr

/-- `await self.save()`: `open`, then `write` with the `close` of the `async with` block as its `finally`. -/
def Stmt.save : Stmt := .seq (.call .saveOpen) (.tryFinally (.call .saveWrite) (.call .saveClose))

/-- `async with G: body` for an `__aexit__` that returns nothing: enter; run the body; run `__aexit__` however the
body ended; an exception of `__aexit__` replaces the body's, otherwise the body's propagates. -/
def contextStmt (aenter aexit : Stmt) : Stmt := .seq aenter (.tryFinally (.call .body) aexit)

/-- The body of a `while True:` loop. -/
def Stmt.loopBody : Stmt → Stmt
  | .loopForever b => b
  | _ => .skip

/-! ### Exceptions and outcomes -/

/-- An exception in flight: which step's failure it is (what the context statement reports), and whether its class
is cancellation-like (`CancelledError`: a `BaseException` that is not an `Exception`) or an ordinary `Exception`. -/
structure Exn where
  tag : Exc
  cancel : Bool
  deriving DecidableEq, Repr

/-- Is the exception caught by the clause?  An ordinary exception is known only to be an `Exception`. -/
def Catch.catches : Catch → Exn → Bool
  | .all, _ => true
  | .classes cs, e => pyCaught (if e.cancel then .CancelledError else .Exception) cs

/-- How a statement ends. -/
inductive Out where
  | ok | brk | raise (e : Exn)
  deriving DecidableEq, Repr

/-! ### Resumption trees -/

inductive Res where
  | done (o : Out)
  | await (op : Op) (k : Out → Res)
  | test (k : Bool → Res)              -- read `self._cancel_save`
  | silent (a : Silent) (r : Res)
  | bad                                -- outside the meaning given here (a loop that is not a task's whole body)

/-- The meaning of a statement, given what follows it.  `p`: a persistence file is configured. -/
def den (p : Bool) : Stmt → (Out → Res) → Res
  | .call op, k => .await op k
  | .silent a, k => .silent a (k .ok)
  | .skip, k => k .ok
  | .seq a b, k => den p a fun o => match o with
      | .ok => den p b k
      | o => k o
  | .ifPersistence t e, k => if p then den p t k else den p e k
  | .ifCancelSave t e, k => .test fun b => if b then den p t k else den p e k
  | .tryExceptReraise body c h, k => den p body fun o => match o with
      | .raise e => if c.catches e then (den p h fun o' => match o' with
                        | .ok => k (.raise e)
                        | o' => k o')
                    else k (.raise e)
      | o => k o
  | .tryFinally body fin, k => den p body fun o => den p fin fun o' => match o' with
      | .ok => k o
      | o' => k o'
  | .suppress c body, k => den p body fun o => match o with
      | .raise e => if c.catches e then k .ok else k (.raise e)
      | o => k o
  | .tryExceptBreak body c, k => den p body fun o => match o with
      | .raise e => if c.catches e then k .brk else k (.raise e)
      | o => k o
  | .loopForever _, _ => .bad

/-- The tree of a whole coroutine. -/
def tree (s : Stmt) : Res := den true s .done

/-! ### Comparing trees on the outcomes an await can have -/

/-- The ways each step can end: the fault positions of the model, each failure of a step the caller controls
(load, connect, body, disconnect) with either kind of class; the steps of the saver can also end by the saver's own
cancellation. -/
def possible : Op → List Out
  | .load => [.ok, .raise ⟨.loadErr, false⟩, .raise ⟨.loadErr, true⟩]
  | .createTask => [.ok]
  | .connect => [.ok, .raise ⟨.connectErr, false⟩, .raise ⟨.connectErr, true⟩]
  | .body => [.ok, .raise ⟨.bodyErr, false⟩, .raise ⟨.bodyErr, true⟩, .raise ⟨.bodyCancel, true⟩]
  | .disconnect => [.ok, .raise ⟨.disconnectErr, false⟩, .raise ⟨.disconnectErr, true⟩]
  | .cancelTask => [.ok]
  | .awaitTask => [.ok, .raise ⟨.cancelled, true⟩, .raise ⟨.saveErr, false⟩]
  | .saveOpen => [.ok, .raise ⟨.saveErr, false⟩, .raise ⟨.cancelled, true⟩]
  | .saveWrite => [.ok, .raise ⟨.cancelled, true⟩]
  | .saveClose => [.ok, .raise ⟨.cancelled, true⟩]
  | .sleep => [.ok, .raise ⟨.cancelled, true⟩]

/-- Do two trees agree — same awaits, same stores, same tests, same ends — along every path of possible outcomes? -/
def Res.same : Res → Res → Bool
  | .done o, .done o' => o == o'
  | .await op k, .await op' k' => op == op' && (possible op).all fun o => Res.same (k o) (k' o)
  | .test k, .test k' => Res.same (k true) (k' true) && Res.same (k false) (k' false)
  | .silent a r, .silent a' r' => a == a' && Res.same r r'
  | _, _ => false

/-! ### The machine -/

/-- Whether each failure of a step the caller controls has a cancellation-like class. -/
structure Classes where
  load : Bool := false
  connect : Bool := false
  body : Bool := false
  disconnect : Bool := false
  deriving DecidableEq, Repr

structure St where
  sys : Sys
  ctl : Res               -- the main coroutine: what remains of the context statement
  cancelSet : Bool        -- `self._cancel_save` is set
  iter : Res              -- the saver: one iteration of its loop
  sctl : Res              -- the saver: what remains of the current iteration

/-- The step `op` of the main coroutine completes: its effect and how it ends. -/
def completeMain (κ : Classes) (op : Op) (s : Sys) : Sys × Out :=
  match op with
  | .load =>
    if s.faults.loadFails then (s, .raise ⟨.loadErr, κ.load⟩)
    else ({ s with loaded := true, reg := (match s.file with | .holds v => v | .truncated => 0) }, .ok)
  | .createTask => ({ s with saver := .notStarted, started := true, t0 := s.now }, .ok)
  | .connect => if s.faults.connectFails then (s, .raise ⟨.connectErr, κ.connect⟩) else (s, .ok)
  | .body =>
    (s, if s.faults.bodyCancelled then .raise ⟨.bodyCancel, true⟩
        else if s.faults.bodyRaises then .raise ⟨.bodyErr, κ.body⟩ else .ok)
  | .disconnect =>
    ({ s with disconnectTried := true },
     if s.faults.disconnectFails then .raise ⟨.disconnectErr, κ.disconnect⟩ else .ok)
  | .cancelTask => ({ s with cancelReq := s.saver.alive }, .ok)
  | .awaitTask =>
    (s, match s.saver with
        | .cancelled => .raise ⟨.cancelled, true⟩
        | .failed => .raise ⟨.saveErr, false⟩
        | _ => .ok)
  | .saveOpen => if s.faults.finalSaveFails then (s, .raise ⟨.saveErr, false⟩) else ({ s with file := .truncated }, .ok)
  | .saveWrite => ({ s with file := .holds s.fsnap }, .ok)
  | .saveClose => ({ s with finalSaveDone := true }, .ok)
  | .sleep => (s, .ok)

/-- The name `Model/Lifecycle.lean` gives to "the main coroutine is suspended in `op`". -/
def phase : Op → MainPc
  | .load => .load | .createTask => .start | .connect => .connect | .body => .body | .disconnect => .disconnect
  | .cancelTask => .stopCancel | .awaitTask => .stopAwait
  | .saveOpen => .finalSave .opening | .saveWrite => .finalSave .writing | .saveClose => .finalSave .closing
  | .sleep => .finished

/-- What the main coroutine does on reaching `op`, before suspending in it: reaching the body means `__aenter__`
returned; `save` dumps the registry before it opens the file. -/
def beginMain (op : Op) (s : Sys) : Sys :=
  match op with
  | .body => { s with entered := true }
  | .saveOpen => { s with fsnap := s.reg }
  | _ => s

def tagOf : Out → Option Exc
  | .raise e => some e.tag
  | _ => none

/-- Run the stores and tests up to the next await (or the end). -/
def settle : Res → Bool → Res × Bool
  | .silent .setCancel r, _ => settle r true
  | .silent .clearCancel r, _ => settle r false
  | .test k, c => settle (k c) c
  | r, c => (r, c)

/-- The main coroutine arrives at `r` (already settled). -/
def arriveMain (r : Res) (s : Sys) : Sys :=
  match r with
  | .await op _ => { beginMain op s with main := phase op }
  | .done o => { s with main := .finished, outcome := tagOf o }
  | _ => { s with main := .finished }

def mainRunnableL (st : St) : Bool :=
  match st.ctl with
  | .await .awaitTask _ => !st.sys.saver.alive
  | .await _ _ => true
  | _ => false

/-- One atomic block of the main coroutine: the await it is suspended in completes, the coroutine runs to its next
await. -/
def mainStepL (κ : Classes) (st : St) : St :=
  match st.ctl with
  | .await op k =>
    let (s', o) := completeMain κ op st.sys
    let (r, c) := settle (k o) st.cancelSet
    { st with sys := arriveMain r s', ctl := r, cancelSet := c }
  | _ => st

/-! #### The saver task -/

/-- A step of the saver completes.  `cancelReq`: the task is being cancelled, so the await raises `CancelledError`;
`lands`: the file operation it interrupts takes effect all the same. -/
def completeSaver (op : Op) (s : Sys) (lands : Bool) : Sys × Out :=
  match op with
  | .saveOpen =>
    if s.cancelReq then ({ s with file := if lands then .truncated else s.file }, .raise ⟨.cancelled, true⟩)
    else ({ s with file := .truncated }, .ok)
  | .saveWrite =>
    if s.cancelReq then ({ s with file := if lands then .holds s.snap else s.file }, .raise ⟨.cancelled, true⟩)
    else ({ s with file := .holds s.snap }, .ok)
  | .saveClose => if s.cancelReq then (s, .raise ⟨.cancelled, true⟩) else (s, .ok)
  | .sleep => if s.cancelReq then (s, .raise ⟨.cancelled, true⟩) else (s, .ok)
  | _ => (s, .ok)

/-- The saver arrives at `r` (settled), the await it comes from having ended with `o`.  Reaching `open` is the begin
of a save (the registry is dumped, the time noted); reaching `close` with an exception in flight is the `close` done by
`async with` while the exception propagates; the end of the coroutine is the end of the task: returned (`break`),
cancelled, or failed. -/
def arriveSaver (r : Res) (o : Out) (s : Sys) : Sys :=
  match r with
  | .await .saveOpen _ => beginSave s
  | .await .saveWrite _ => { s with saver := .inSave .writing }
  | .await .saveClose _ => { s with saver := .inSave (if o = .ok then .closing else .unwinding) }
  | .await .sleep _ => { s with saver := .sleeping (s.now + interval) }
  | .done (.raise e) => { s with saver := if e.cancel then .cancelled else .failed }
  | .done _ => { s with saver := .done }
  | _ => { s with saver := .failed }

/-- At the end of an iteration the loop body starts again. -/
def loopBack (iter r : Res) : Res :=
  match r with
  | .done .ok => iter
  | r => r

def saverStepL (st : St) (lands : Bool) : St :=
  match st.sys.saver with
  | .notStarted =>
    -- a task cancelled before its first step never runs its coroutine
    if st.sys.cancelReq then { st with sys := { st.sys with saver := .cancelled } }
    else
      let (r, c) := settle st.iter st.cancelSet
      { st with sys := arriveSaver r .ok st.sys, sctl := r, cancelSet := c }
  | _ =>
    match st.sctl with
    | .await op k =>
      let (s', o) := completeSaver op st.sys lands
      let (r, c) := settle (loopBack st.iter (k o)) st.cancelSet
      { st with sys := arriveSaver r o s', sctl := r, cancelSet := c }
    | _ => st

def stepL (κ : Classes) (st : St) : Choice → St
  | .main => if mainRunnableL st then mainStepL κ st else st
  | .saver lands => if saverRunnable st.sys then saverStepL st lands else st
  | .tick d => if saverRunnable st.sys then st else { st with sys := tickStep st.sys d }
  | .mutate =>
    match st.ctl with
    | .await .body _ => { st with sys := { st.sys with reg := st.sys.reg + 1 } }
    | _ => st

def runL (κ : Classes) (st : St) (cs : List Choice) : St := cs.foldl (stepL κ) st

/-- The system whose main coroutine is `main` and whose saver repeats `iter`, before the context statement begins. -/
def initL (main iter : Res) (f : Faults) (t v : Nat) : St :=
  let (r, c) := settle main false
  { sys := arriveMain r (init f t v), ctl := r, cancelSet := c, iter := iter, sctl := iter }

/-! ### The phase program of `Model/Lifecycle.lean`, as a tree

What `Lifecycle.mainStep` does, written as the resumption tree of the main coroutine: one definition per phase, each
saying what is awaited and where every ending of that await leads.  `pend` is the exception in flight while `stop`
runs (`.ok`: none). -/

def tSaveClose (pend : Out) : Res :=
  .await .saveClose fun o => match o with
    | .ok => .done pend
    | o => .done o

/-- `write` failed with `o`: the `close` of `async with`, then `o` propagates. -/
def tSaveUnwind (o : Out) : Res :=
  .await .saveClose fun o' => match o' with
    | .ok => .done o
    | o' => .done o'

def tSaveWrite (pend : Out) : Res :=
  .await .saveWrite fun o => match o with
    | .ok => tSaveClose pend
    | o => tSaveUnwind o

def tSave (pend : Out) : Res :=
  .await .saveOpen fun o => match o with
    | .ok => tSaveWrite pend
    | o => .done o

def tStopAwait (pend : Out) : Res :=
  .await .awaitTask fun o => match o with
    | .ok => .silent .clearCancel (tSave pend)
    | .raise e => if e.cancel then .silent .clearCancel (tSave pend) else .done (.raise e)
    | .brk => .bad

def tStopCancel (pend : Out) : Res :=
  .await .cancelTask fun o => match o with
    | .ok => tStopAwait pend
    | o => .done o

def tStop (pend : Out) : Res := .test fun b => if b then tStopCancel pend else tSave pend

def tDisconnect (pend : Out) : Res :=
  .await .disconnect fun o => match o with
    | .ok => tStop pend
    | o => tStop o

def tBody : Res := .await .body fun o => tDisconnect o

def tConnect : Res :=
  .await .connect fun o => match o with
    | .ok => tBody
    | o => tStop o

def tStart : Res :=
  .await .createTask fun o => match o with
    | .ok => .silent .setCancel tConnect
    | o => .done o

def tLoad : Res :=
  .await .load fun o => match o with
    | .ok => tStart
    | o => .done o

/-- The context statement when NO persistence file is configured: connect, body, disconnect — nothing else. -/
def tPlain : Res :=
  .await .connect fun o => match o with
    | .ok => .await .body fun o => .await .disconnect fun o' => match o' with
        | .ok => .done o
        | o' => .done o'
    | o => .done o

/-- One iteration of the saver's loop as `Lifecycle.saverStep` has it: a save, then the sleep; `catches`: a
cancellation arriving in the sleep ends the loop (`break`), otherwise it ends the task. -/
def tsSleep (catches : Bool) : Res :=
  .await .sleep fun o => match o with
    | .raise e => if catches && e.cancel then .done .brk else .done (.raise e)
    | o => .done o

def tsClose (catches : Bool) : Res :=
  .await .saveClose fun o => match o with
    | .ok => tsSleep catches
    | o => .done o

def tsWrite (catches : Bool) : Res :=
  .await .saveWrite fun o => match o with
    | .ok => tsClose catches
    | o => tSaveUnwind o

def tSaverIter (catches : Bool) : Res :=
  .await .saveOpen fun o => match o with
    | .ok => tsWrite catches
    | o => .done o

end AioMySensors.LL
