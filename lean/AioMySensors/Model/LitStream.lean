/-
The object-level vocabulary for `StreamTransport`'s four methods (`transport/__init__.py`), the target of the
second part of the body translator (`tools/translate.py: translate_stream`).  One primitive per Python operation
on the transport object and on asyncio's reader / writer as modelled in `Model/Stream.lean`, raising what they
raise; where an injected fault can strike is an argument, as in the hand-written model.
`Generated/StreamBodies.lean` is written in this vocabulary; `Lemmas/StreamBodiesEq.lean` proves each generated
method equal to the `Transport.*` function the C17 theorems speak about.
-/
import AioMySensors.Model.Stream

namespace AioMySensors.Stream

/-- How a transport method stops early: an exception, or (reads only) suspended until more data arrives. -/
inductive Stop where
  | exn (e : TExn)
  | wait
  deriving DecidableEq, Repr

/-- A transport method: reads and updates the transport object. -/
abbrev TM (α : Type) := Transport → Except Stop α × Transport

namespace TM

@[inline] def pure (a : α) : TM α := fun t => (.ok a, t)
@[inline] def raise (e : TExn) : TM α := fun t => (.error (.exn e), t)
@[inline] def bind (x : TM α) (f : α → TM β) : TM β := fun t =>
  match x t with
  | (.ok a, t') => f a t'
  | (.error e, t') => (.error e, t')
@[inline] def seq (x : TM Unit) (y : TM β) : TM β := bind x fun _ => y

/-- `try: x  except (classes₁): raise E₁  except (classes₂): raise E₂ …` — the first clause that matches wins;
library errors and a suspension pass through. -/
def catchMap (x : TM α) (clauses : List (List PyExn × TErr)) : TM α := fun t =>
  match x t with
  | (.error (.exn (.foreign c)), t') =>
    match clauses.find? fun cl => pyCaught c cl.1 with
    | some cl => (.error (.exn (.lib cl.2)), t')
    | none => (.error (.exn (.foreign c)), t')
  | r => r

/-- `try: x  except (classes): pass` -/
def suppress (x : TM Unit) (classes : List PyExn) : TM Unit := fun t =>
  match x t with
  | (.error (.exn (.foreign c)), t') => if pyCaught c classes then (.ok (), t') else (.error (.exn (.foreign c)), t')
  | r => r

end TM

namespace LS

/-- `self.reader is None` -/
def readerIsNone : TM Bool := fun t => (.ok t.conn.isNone, t)

/-- `self.writer is None` (reader and writer are set together) -/
def writerIsNone : TM Bool := fun t => (.ok t.conn.isNone, t)

/-- `self.reader, self.writer = await self._open_connection()`: the call raises `c`, or both fields are set. -/
def openConnection (limit : Nat) (fault : Option PyExn) : TM Unit := fun t =>
  match fault with
  | some c => (.error (.exn (.foreign c)), t)
  | none => (.ok (), { conn := some { reader := { limit := limit } } })

/-- `await self.reader.readuntil(TERMINATOR)` on the connected reader. -/
def readuntil : TM Bytes := fun t =>
  match t.conn with
  | none => (.error (.exn (.foreign .AttributeError)), t)
  | some cn =>
    match cn.reader.readuntil with
    | (.line b, r') => (.ok b, { conn := some { cn with reader := r' } })
    | (.wait, r') => (.error .wait, { conn := some { cn with reader := r' } })
    | (.limitOverrun, r') => (.error (.exn (.foreign .LimitOverrunError)), { conn := some { cn with reader := r' } })
    | (.incomplete _, r') => (.error (.exn (.foreign .IncompleteReadError)), { conn := some { cn with reader := r' } })
    | (.raised c, r') => (.error (.exn (.foreign c)), { conn := some { cn with reader := r' } })

/-- `bytes.decode()` -/
def decode (decodeUtf8 : Bytes → Option Str) (b : Bytes) : TM Str := fun t =>
  match decodeUtf8 b with
  | some s => (.ok s, t)
  | none => (.error (.exn (.foreign .UnicodeDecodeError)), t)

/-- `self.writer.write(line.encode())`: raises the injected exception before anything is accepted. -/
def writerWrite (line : Str) (fault : WriteFault) : TM Unit := fun t =>
  match t.conn with
  | none => (.error (.exn (.foreign .AttributeError)), t)
  | some cn =>
    match fault with
    | .atWrite c => (.error (.exn (.foreign c)), t)
    | _ => (.ok (), { conn := some { cn with writer := { cn.writer with out := cn.writer.out ++ encodeUtf8 line } } })

/-- `await self.writer.drain()` -/
def drain (fault : WriteFault) : TM Unit := fun t =>
  match fault with
  | .atDrain c => (.error (.exn (.foreign c)), t)
  | _ => (.ok (), t)

/-- `self.writer.close()` -/
def close (fault : CloseFault) : TM Unit := fun t =>
  match t.conn with
  | none => (.error (.exn (.foreign .AttributeError)), t)
  | some cn =>
    match fault with
    | .atClose c => (.error (.exn (.foreign c)), t)
    | _ => (.ok (), { conn := some { cn with writer := { cn.writer with closed := true } } })

/-- `await self.writer.wait_closed()` -/
def waitClosed (fault : CloseFault) : TM Unit := fun t =>
  match fault with
  | .atWaitClosed c => (.error (.exn (.foreign c)), t)
  | _ => (.ok (), t)

end LS

/-- The outcome of a method that returns nothing, as the hand-written model reports it. -/
def unitOutcome (r : Except Stop Unit × Transport) : Option TExn × Transport :=
  match r with
  | (.ok (), t) => (none, t)
  | (.error (.exn e), t) => (some e, t)
  | (.error .wait, t) => (none, t)

/-- The outcome of `read`, as the hand-written model reports it. -/
def readOutcome (r : Except Stop Str × Transport) : ReadRes × Transport :=
  match r with
  | (.ok s, t) => (.ok s, t)
  | (.error (.exn e), t) => (.err e, t)
  | (.error .wait, t) => (.wait, t)

end AioMySensors.Stream
