/-
The gateway context and the background saver as a small-step system (C16).

Two coroutines share one event loop (DESIGN 4.4: code between two suspension points is atomic):

* **main** — `async with Gateway(transport, Config(persistence_file=…)): body`
    `__aenter__`: `await persistence.load()`; `await persistence.start()` (creates the saver task);
                  `await transport.connect()`, on failure `await persistence.stop()` and re-raise;
    body (ends normally, by an exception, or by cancellation of the task running the statement:
          a `CancelledError` thrown into the body is just the exception in flight for `__aexit__`);
    `__aexit__`:  `try: await transport.disconnect()  finally: await persistence.stop()`;
    `stop`:       `task.cancel()`; `with suppress(CancelledError): await task`; `await self.save()`.
* **saver** — `while True: await self.save(); try: await asyncio.sleep(SAVE_INTERVAL) except CancelledError: break`,
  where `save` is `open` (truncates) / `write` / `close`, each one executor await.

A scheduler (`Choice`) picks which coroutine runs its next atomic block, lets virtual time pass, or
lets the body change the registry.  Cancellation is CPython's: cancelling a task that has not
started finishes it without running its body; cancelling a suspended task raises `CancelledError`
at that await; awaiting a cancelled task raises `CancelledError` in the awaiter unless suppressed.
Which `except`/`suppress` clauses exist is read from the generated tables (`Gen.excPersistStartSleep`, `Gen.excPersistStartAwait`,
`Gen.excPersistSave`), so the theorems depend on what the code says.

Time: file operations take no virtual time and a due timer fires before time moves on (a runnable
saver step is *urgent*: `tick` does nothing while the saver is runnable, and never jumps over the
saver's wake-up time).  The main coroutine may dawdle for any stretch of time at any await.

No Mathlib.
-/
import AioMySensors.Generated.Tables
import AioMySensors.Model.Effects

namespace AioMySensors.Lifecycle
open AioMySensors

/-- `SAVE_INTERVAL`, from the generated constant. -/
def interval : Nat := Gen.saveInterval.toNat

/-- Is `CancelledError`, raised at the saver's `asyncio.sleep`, caught by its `except` clause
(the clauses the extractor found AROUND that await in `Persistence.start`)? -/
def sleepCatchesCancel : Bool := pyCaught .CancelledError Gen.excPersistStartSleep

/-- Is `CancelledError`, raised by `await task` in `cancel_save`, suppressed
(the `contextlib.suppress(...)` / `except` clauses the extractor found AROUND that await)? -/
def awaitSuppressesCancel : Bool := pyCaught .CancelledError Gen.excPersistStartAwait

/-- Would `save`'s `except OSError` turn a `CancelledError` into a `PersistenceWriteError`? -/
def saveCatchesCancel : Bool := pyCaught .CancelledError (clause Gen.excPersistSave 0)

/-- What can propagate out of the context statement.
* `cancelled` — a `CancelledError` that came from awaiting the cancelled *saver* task and leaked out
  of `stop()` (the defect class: the final save is skipped);
* `bodyCancel` — the `CancelledError` thrown into the body because the task running the context
  statement was cancelled (`asyncio.timeout`, Ctrl-C, a parent `TaskGroup`, …).  It is an ordinary
  exception in flight for `__aexit__`: a legitimate way of leaving the context. -/
inductive Exc where
  | loadErr | connectErr | bodyErr | disconnectErr | saveErr | cancelled | bodyCancel
  deriving DecidableEq, Repr

/-- The executor await a `save` is suspended in.  `unwinding` = the `close` performed by
`async with aiofiles.open(...)` while a `CancelledError` thrown into `write` propagates. -/
inductive Phase where
  | opening | writing | closing | unwinding
  deriving DecidableEq, Repr

inductive SaverPc where
  | absent                 -- no task (persistence not started)
  | notStarted             -- `create_task` done, the coroutine has not run yet
  | inSave (ph : Phase)
  | sleeping (wake : Nat)  -- in `asyncio.sleep`, due at `wake`
  | done                   -- returned (broke out of the loop)
  | cancelled              -- finished by cancellation
  | failed                 -- finished with an exception (`PersistenceWriteError`)
  deriving DecidableEq, Repr

def SaverPc.alive : SaverPc → Bool
  | .notStarted | .inSave _ | .sleeping _ => true
  | _ => false

inductive MainPc where
  | load | start | connect | body | disconnect
  | stopCancel             -- `task.cancel()`
  | stopAwait              -- `await task`
  | finalSave (ph : Phase)
  | finished
  deriving DecidableEq, Repr

structure Faults where
  loadFails : Bool := false
  connectFails : Bool := false
  bodyRaises : Bool := false
  disconnectFails : Bool := false
  finalSaveFails : Bool := false
  bodyCancelled : Bool := false      -- the body ends because the task running the context is cancelled
  deriving DecidableEq, Repr

/-- How the body ends: by cancellation of the task that runs the context statement, by an exception
of its own, or normally.  The two flags are alternatives; if both are set the cancellation wins (the
body is cancelled before it gets to raise — the harness parks the body for cancellation first, too). -/
def bodyExit (f : Faults) : Option Exc :=
  if f.bodyCancelled then some .bodyCancel else if f.bodyRaises then some .bodyErr else none

/-- The persistence file relative to registry versions. -/
inductive FileSt where
  | holds (v : Nat)        -- a complete dump of registry version `v`
  | truncated              -- opened with "w", nothing written yet
  deriving DecidableEq, Repr

structure Sys where
  faults : Faults
  main : MainPc := .load
  saver : SaverPc := .absent
  cancelReq : Bool := false          -- `task.cancel()` was called on a task that was not finished
  now : Nat := 0
  t0 : Nat := 0                      -- virtual time of `start()`
  reg : Nat := 0                     -- registry version (the body bumps it)
  snap : Nat := 0                    -- the data the saver's current save writes
  fsnap : Nat := 0                   -- the data the final save writes
  file : FileSt := .holds 0
  saveStarts : List Nat := []        -- virtual times at which the saver began a save
  loaded : Bool := false
  started : Bool := false
  entered : Bool := false            -- `__aenter__` returned
  disconnectTried : Bool := false
  finalSaveDone : Bool := false
  pending : Option Exc := none       -- exception in flight while `stop` runs
  outcome : Option Exc := none       -- what the context statement raised (`none`: nothing)
  deriving DecidableEq, Repr

def init (f : Faults) (t : Nat := 0) (v : Nat := 0) : Sys := { faults := f, now := t, file := .holds v }

inductive Choice where
  | main                    -- the main coroutine runs its next atomic block
  | saver (lands : Bool)    -- the saver runs its next atomic block; `lands`: if it is being cancelled
                            -- inside a file operation, did that operation still take effect?
  | tick (d : Nat)          -- virtual time passes
  | mutate                  -- the body changes the registry
  deriving DecidableEq, Repr

def saverRunnable (s : Sys) : Bool :=
  match s.saver with
  | .notStarted => true
  | .inSave _ => true
  | .sleeping w => s.cancelReq || decide (w ≤ s.now)
  | _ => false

def mainRunnable (s : Sys) : Bool :=
  match s.main with
  | .finished => false
  | .stopAwait => !s.saver.alive
  | _ => true

/-- The saver begins a save: snapshot the registry, submit `open`. -/
def beginSave (s : Sys) : Sys :=
  { s with snap := s.reg, saveStarts := s.saveStarts ++ [s.now], saver := .inSave .opening }

def saverStep (s : Sys) (lands : Bool) : Sys :=
  match s.saver with
  | .notStarted => if s.cancelReq then { s with saver := .cancelled } else beginSave s
  | .inSave .opening =>
    if s.cancelReq then
      { s with file := if lands then .truncated else s.file,
               saver := if saveCatchesCancel then .failed else .cancelled }
    else { s with file := .truncated, saver := .inSave .writing }
  | .inSave .writing =>
    if s.cancelReq then
      { s with file := if lands then .holds s.snap else s.file, saver := .inSave .unwinding }
    else { s with file := .holds s.snap, saver := .inSave .closing }
  | .inSave .closing =>
    if s.cancelReq then { s with saver := if saveCatchesCancel then .failed else .cancelled }
    else { s with saver := .sleeping (s.now + interval) }
  | .inSave .unwinding => { s with saver := if saveCatchesCancel then .failed else .cancelled }
  | .sleeping _ =>
    if s.cancelReq then { s with saver := if sleepCatchesCancel then .done else .cancelled }
    else beginSave s
  | _ => s

/-- One atomic block of the main coroutine.  `load` reads the file into the registry (an empty file
gives the empty registry, version 0 by convention). -/
def mainStep (s : Sys) : Sys :=
  match s.main with
  | .load =>
    if s.faults.loadFails then { s with main := .finished, outcome := some .loadErr }
    else { s with loaded := true, reg := (match s.file with | .holds v => v | .truncated => 0), main := .start }
  | .start => { s with saver := .notStarted, started := true, t0 := s.now, main := .connect }
  | .connect =>
    if s.faults.connectFails then { s with pending := some .connectErr, main := .stopCancel }
    else { s with entered := true, main := .body }
  | .body => { s with pending := bodyExit s.faults, main := .disconnect }
  | .disconnect =>
    { s with disconnectTried := true,
             pending := if s.faults.disconnectFails then some .disconnectErr else s.pending,
             main := .stopCancel }
  | .stopCancel => { s with cancelReq := s.saver.alive, main := .stopAwait }
  | .stopAwait =>
    match s.saver with
    | .cancelled =>
      if awaitSuppressesCancel then { s with fsnap := s.reg, main := .finalSave .opening }
      else { s with outcome := some .cancelled, main := .finished }
    | .failed => { s with outcome := some .saveErr, main := .finished }
    | _ => { s with fsnap := s.reg, main := .finalSave .opening }
  | .finalSave .opening =>
    if s.faults.finalSaveFails then { s with outcome := some .saveErr, main := .finished }
    else { s with file := .truncated, main := .finalSave .writing }
  | .finalSave .writing => { s with file := .holds s.fsnap, main := .finalSave .closing }
  | .finalSave _ => { s with finalSaveDone := true, outcome := s.pending, main := .finished }
  | .finished => s

def tickStep (s : Sys) (d : Nat) : Sys :=
  match s.saver with
  | .sleeping w => { s with now := min (s.now + d) w }
  | _ => { s with now := s.now + d }

def step (s : Sys) : Choice → Sys
  | .main => if mainRunnable s then mainStep s else s
  | .saver lands => if saverRunnable s then saverStep s lands else s
  | .tick d => if saverRunnable s then s else tickStep s d
  | .mutate => if s.main = .body then { s with reg := s.reg + 1 } else s

def run (s : Sys) (cs : List Choice) : Sys := cs.foldl step s

/-- The exception the context statement has to raise for a fault combination (when the saver
machinery is in order): the final save's error wins over the disconnect's, which wins over the
body's (its own exception or the cancellation of the task running it, `bodyExit`); a connect failure
is re-raised unless the final save fails too. -/
def expectedOutcome (f : Faults) : Option Exc :=
  if f.loadFails then some .loadErr
  else if f.connectFails then (if f.finalSaveFails then some .saveErr else some .connectErr)
  else if f.finalSaveFails then some .saveErr
  else if f.disconnectFails then some .disconnectErr
  else bodyExit f

/-- Saves the saver began at a virtual time within `[t0, t0 + T]`. -/
def startsWithin (s : Sys) (T : Nat) : Nat :=
  s.saveStarts.countP fun t => decide (s.t0 ≤ t ∧ t ≤ s.t0 + T)

end AioMySensors.Lifecycle
