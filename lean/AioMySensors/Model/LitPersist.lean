/-
The object-level vocabulary for `Persistence.load` and `Persistence.save` (`persistence.py`), the target of the fifth
part of the body translator (`tools/translate.py: translate_persist`): the two `try` statements of `load` with their
handlers in source order, and the file operations `save` performs in the order it performs them.
`Generated/PersistBodies.lean` is written in this vocabulary; `Lemmas/PersistBodiesEq.lean` proves the generated
`load` equal to `Persist.loadFile` (C13, C14) and the generated operation sequence equal to `FileOps.saveOps` (C15).
-/
import AioMySensors.Model.Persist
import AioMySensors.Model.FileOps

namespace AioMySensors.LP
open AioMySensors Persist

/-- What an `except` clause of the first `try` of `load` does. -/
inductive ReadAction where
  /-- `await self.save(); return` — the missing file is created from the registry as it is -/
  | saveAndReturn
  /-- `raise PersistenceReadError(err) from err` -/
  | raiseRead
  deriving DecidableEq, Repr

/-- The body of the first `try`: `async with aiofiles.open(path) as fil: read = await fil.read()`, then
`data = json.loads(read or "{}")`. -/
def openReadParse (fs : FileState) : Except PyExn Json := readFile fs

/-- The body of the second `try`: `for node_data in data.values(): node = node_schema.load(node_data);
self.nodes[node.node_id] = node`. -/
def loadEach (cur : PDict Int Node) (data : Json) : Except PyExn (PDict Int Node) := loadRaw cur data

/-- `try: x except <clauses in source order>`; the first matching clause acts; then `k` runs on the value. -/
def tryRead (cur : PDict Int Node) (x : Except PyExn Json) (clauses : List (List PyExn × ReadAction))
    (k : Json → Except Persist.Exn Persist.Loaded) : Except Persist.Exn Persist.Loaded :=
  match x with
  | .ok j => k j
  | .error c =>
    match clauses.find? fun cl => pyCaught c cl.1 with
    | some (_, .saveAndReturn) => .ok ⟨cur, some (save cur)⟩
    | some (_, .raiseRead) => .error (Persist.Exn.lib Persist.LibErr.persistenceRead)
    | none => .error (Persist.Exn.foreign c)

/-- `try: x except (classes) as err: raise PersistenceReadError(err) from err`, then return normally. -/
def catchRead (x : Except PyExn (PDict Int Node)) (classes : List PyExn) : Except Persist.Exn Persist.Loaded :=
  match x with
  | .ok r => .ok ⟨r, none⟩
  | .error c => if pyCaught c classes then .error (Persist.Exn.lib Persist.LibErr.persistenceRead) else .error (Persist.Exn.foreign c)

/-- `try: <file operations> except (classes) as err: raise PersistenceWriteError(err) from err` -/
def writeErr (classes : List PyExn) (c : PyExn) : Persist.Exn :=
  if pyCaught c classes then Persist.Exn.lib Persist.LibErr.persistenceWrite else Persist.Exn.foreign c

end AioMySensors.LP
