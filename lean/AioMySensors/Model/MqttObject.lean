/-
The MQTT client OBJECT, `MQTTClient` of `src/aiomysensors/transport/mqtt.py`, as a small-step system.

`Model/Mqtt.lean` describes the pieces (`connect` returns a task state, `disconnect` takes one, the
queue and the receive task are separate functions).  Here they are the fields of one object that lives
across connect / disconnect / connect again:

* `client`  — `self._client is not None`.  `_connect` assigns it BEFORE `__aenter__` is awaited, and
  nothing resets it when `__aenter__` raises; `_disconnect` resets it as its last statement.
* `task`    — `self._incoming_task`: `none`, or the state of the `_handle_incoming` task.  Created by
  `_connect` after a successful `__aenter__`; reset by `_disconnect` after the task has been cancelled
  and awaited (under the first `suppress`), before `__aexit__`.
* `q`       — `MQTTTransport._incoming_messages` (created once, in `__init__`) with the blocked
  `read` calls and the results handed out: the `QState` of `Model/Mqtt.lean`.

Operations are the public methods plus what the broker does; every operation is total and says what
the call raises.  The guards of `_connect`, `_disconnect`, `_publish`, `_subscribe` are transcribed
(`RuntimeError`); which exceptions are converted or suppressed is read from the generated except
tuples through the definitions of `Model/Mqtt.lean` (`connect`, `disconnect`, `write`, `convert`,
`suppress`), which are reused as they are.
-/
import AioMySensors.Model.Mqtt

namespace AioMySensors.Mqtt
open AioMySensors

/-- One `MQTTClient` object. -/
structure OState where
  /-- `self._client is not None` -/
  client : Bool := false
  /-- `self._incoming_task` -/
  task : Option TaskState := none
  /-- `self._incoming_messages`, the reads blocked on it, the results handed out -/
  q : QState := {}
  deriving DecidableEq, Repr

/-- What is done to the object. -/
inductive OOp where
  /-- `await transport.connect()`: `aenter` is the outcome of `client.__aenter__()`, `subs` the outcomes
  of the `client.subscribe` calls, `aexit` the outcome of `client.__aexit__` if the clean-up after a
  failed subscription gets that far. -/
  | connect (aenter : Outcome) (subs : List Outcome) (aexit : Outcome)
  /-- `await transport.disconnect()`: `aexit` is the outcome of `client.__aexit__`. -/
  | disconnect (aexit : Outcome)
  /-- the broker / aiomqtt does something to the connection the object currently holds (`Evt.cancel`:
  somebody else cancels the receive task) -/
  | broker (e : Evt)
  /-- a `read()` call is issued -/
  | read
  /-- `await transport.write(line)`: `pub` is the outcome of `client.publish` -/
  | write (outPrefix line : Str) (pub : Outcome)
  /-- `await transport._subscribe(topic, qos)` called directly: `sub` is the outcome of `client.subscribe` -/
  | subscribe (sub : Outcome)
  deriving DecidableEq, Repr

/-- What the caller of an operation sees. -/
inductive ORes where
  /-- the call returned (`connect`, `disconnect`, `_subscribe`), or there is no caller (broker events);
  a `read` that was issued (its result is in `q.delivered` once it has one) -/
  | done
  /-- `write` returned after publishing this -/
  | published (topic payload : Str) (qos : Int)
  /-- the call raised -/
  | raised (e : MqttExn)
  deriving DecidableEq, Repr

/-- The misuse error of the four guards. -/
def misuse : MqttExn := .foreign .RuntimeError

/-- `put_nowait` of everything a task step queued. -/
def enqueue (q : QState) (items : List Item) : QState := qRun q (items.map .arrive)

/-- The body of `MQTTClient._disconnect`.

Guard: `if not self._client or not self._incoming_task: raise RuntimeError`.  Then `task.cancel()` and
`await task` under the first `suppress`; `self._incoming_task = None`; `client.__aexit__` under the
second `suppress`; `self._client = None`.  The outcome is `Mqtt.disconnect`.  An exception that gets
past the first `suppress` leaves both fields set (the task is finished by then); one that gets past
the second leaves `_client` set.  What the cancelled task queued on its way out is in the queue. -/
def oDisconnect (s : OState) (aexit : Outcome) : OState × Outcome :=
  match s.client, s.task with
  | true, some t =>
    let r := disconnect t aexit
    ({ client := r != .ok,
       task := match suppress (clause Gen.excMqttDisconnect 0) (cancelAndAwait t) with
         | .ok => none
         | .raised _ => some (.finished (cancelTask t).1),
       q := enqueue s.q (cancelTask t).2 }, r)
  | _, _ => (s, .raised .RuntimeError)

/-- `MQTTTransport.connect` on an `MQTTClient`.

Guard of `_connect`: `if self._client is not None or self._incoming_task is not None: raise
RuntimeError`.  `self._client = AsyncioClient(...)` comes before `await self._client.__aenter__()`:
when that raises, `_client` stays set and no task exists.  Otherwise the receive task is created and
the subscriptions are gathered; `except BaseException: await self._disconnect(); raise` — an exception
out of that clean-up replaces the subscription error.  The outcome of the whole call when nothing goes
wrong in the clean-up is `Mqtt.connect aenter subs`. -/
def oConnect (s : OState) (aenter : Outcome) (subs : List Outcome) (aexit : Outcome) :
    OState × Except MqttExn Unit :=
  if s.client || s.task.isSome then (s, .error misuse)
  else
    match connect aenter subs with
    | .ok t => ({ s with client := true, task := some t }, .ok ())
    | .error e =>
      match convert (clause Gen.excMqttConnect 0) .transportError aenter with
      | .error _ => ({ s with client := true }, .error e)
      | .ok () =>
        -- the receive task was created by `_connect` and first ran at the `gather` await
        let r := oDisconnect { s with client := true, task := some .waiting } aexit
        match r.2 with
        | .ok => (r.1, .error e)
        | .raised c => (r.1, .error (.foreign c))

/-- `MQTTTransport.write`: `_parse_message_to_mqtt` first (its `ValueError`), then the guard of
`_publish` (`if not self._client`), then `Mqtt.write`. -/
def oWrite (s : OState) (outPrefix line : Str) (pub : Outcome) : Except MqttExn (Str × Str × Int) :=
  match toTopic outPrefix line with
  | none => .error (.foreign .ValueError)
  | some _ => if s.client then write outPrefix line pub else .error misuse

/-- `MQTTClient._subscribe`: guard, then the conversion of the generated clause. -/
def oSubscribe (s : OState) (sub : Outcome) : Except MqttExn Unit :=
  if s.client then convert (clause Gen.excMqttSubscribe 0) .transportError sub else .error misuse

def ORes.ofUnit : Except MqttExn Unit → ORes
  | .ok () => .done
  | .error e => .raised e

def ORes.ofOutcome : Outcome → ORes
  | .ok => .done
  | .raised c => .raised (.foreign c)

/-- One operation on the object: the new state and what the caller sees. -/
def oStep (s : OState) : OOp → OState × ORes
  | .connect aenter subs aexit =>
    let r := oConnect s aenter subs aexit
    (r.1, .ofUnit r.2)
  | .disconnect aexit =>
    let r := oDisconnect s aexit
    (r.1, .ofOutcome r.2)
  | .broker e =>
    match s.task with
    | none => (s, .done)   -- no connection: nothing the broker does reaches the object
    | some t =>
      let r := taskStep t e
      ({ s with task := some r.1, q := enqueue s.q r.2 }, .done)
  | .read => ({ s with q := qStep s.q .read }, .done)
  | .write p l pub =>
    (s, match oWrite s p l pub with
        | .ok r => .published r.1 r.2.1 r.2.2
        | .error e => .raised e)
  | .subscribe sub => (s, .ofUnit (oSubscribe s sub))

/-- A history of the object. -/
def oRun (s : OState) (ops : List OOp) : OState := ops.foldl (fun s op => (oStep s op).1) s

/-- What the callers saw, operation by operation. -/
def oResults : OState → List OOp → List ORes
  | _, [] => []
  | s, op :: ops => (oStep s op).2 :: oResults (oStep s op).1 ops

/-- What one operation puts on the queue: what the receive task queues for a broker event that reaches
it, and what a task queues while it is being cancelled by `_disconnect` (also in the clean-up of a
failed `connect`). -/
def oArrive (s : OState) : OOp → List Item
  | .broker e =>
    match s.task with
    | none => []
    | some t => (taskStep t e).2
  | .disconnect _ =>
    match s.client, s.task with
    | true, some t => (cancelTask t).2
    | _, _ => []
  | .connect aenter subs _ =>
    if s.client || s.task.isSome then []
    else
      match connect aenter subs, convert (clause Gen.excMqttConnect 0) MqttExn.transportError aenter with
      | .error _, .ok () => (cancelTask .waiting).2
      | _, _ => []
  | _ => []

/-- Everything queued over a history, in order. -/
def oArrivals : OState → List OOp → List Item
  | _, [] => []
  | s, op :: ops => oArrive s op ++ oArrivals (oStep s op).1 ops

/-- The number of `read` calls of a history. -/
def oReads : List OOp → Nat
  | [] => 0
  | .read :: ops => oReads ops + 1
  | _ :: ops => oReads ops

/-! ### Histories made of whole connections -/

/-- A stretch of a history: one connection (a successful `connect`, then broker events and reads in any
interleaving, then `disconnect`), or a `read` issued while the object is not connected. -/
inductive Seg where
  | session (subs : Nat) (body : List TOp) (aexit : Outcome)
  | idleRead
  deriving DecidableEq, Repr

def liftTOp : TOp → OOp
  | .broker e => .broker e
  | .read => .read

def Seg.ops : Seg → List OOp
  | .session n body aexit =>
    .connect .ok (List.replicate n .ok) .ok :: body.map liftTOp ++ [.disconnect aexit]
  | .idleRead => [.read]

/-- What the receive task of one connection queues: the task run of `Model/Mqtt.lean` over the events
of that connection alone. -/
def Seg.arrivals : Seg → List Item
  | .session _ body _ => (taskRun .waiting (eventsOf body)).2
  | .idleRead => []

def Seg.reads : Seg → Nat
  | .session _ body _ => treadsOf body
  | .idleRead => 1

end AioMySensors.Mqtt
