/-
The object-level vocabulary for `get_protocol` (`model/protocol/__init__.py`), the target of
`tools/translate_version.py`.  The function is one `next(generator, default)` over the keys of `PROTOCOL_VERSIONS`;
what `awesomeversion` does in a comparison is `Model/AwesomeVersion.lean` (modelled, tied by the correspondence run).
`Generated/VersionBodies.lean` is written in this vocabulary; `Lemmas/VersionBodiesEq.lean` proves it equal to
`getProtocolX`, the function the C05 theorems speak about.
-/
import AioMySensors.Model.Version

namespace AioMySensors.LV

/-- A key of `PROTOCOL_VERSIONS` as the tables give it: (protocol module, major, minor). -/
abbrev Key := Ver × Nat × Nat

/-- `sorted(PROTOCOL_VERSIONS, reverse=r)`; `Gen.versionKeys` is in ascending order (the extractor insists on the
canonical `major.minor` keys in that order, for which string order and numeric order coincide). -/
def sortedKeys (reverse : Bool) : List Key := if reverse then Gen.versionKeys.reverse else Gen.versionKeys

/-- `AwesomeVersion(s) < AwesomeVersion(key)`: the result, or what the comparison raises. -/
def avLt (s : Str) (k : Key) : Except AvErr Bool :=
  avLtKeyOf (avString (avNorm s)) (avStrategy (avString (avNorm s))) k.2.1 k.2.2

/-- `not x` on a condition that may raise. -/
def notB (x : Except AvErr Bool) : Except AvErr Bool :=
  match x with
  | .ok b => .ok (!b)
  | .error e => .error e

/-- `PROTOCOL_VERSIONS[key]` -/
def moduleOf (k : Key) : Ver := k.1

/-- `next((elem k for k in keys if cond k), default)`, evaluated lazily: the first key whose condition holds; a
condition that raises ends the search with that exception. -/
def nextOr (keys : List Key) (cond : Key → Except AvErr Bool) (elem : Key → Ver) (default : Ver) : Except AvErr Ver :=
  match keys with
  | [] => .ok default
  | k :: ks =>
    match cond k with
    | .error e => .error e
    | .ok true => .ok (elem k)
    | .ok false => nextOr ks cond elem default

end AioMySensors.LV
