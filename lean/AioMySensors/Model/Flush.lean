/-
C09 — the wake-up flush racing with `send`: a small-step interleaving model.

Code modelled (`/repo/src/aiomysensors`):
* `model/protocol/protocol_20.py: _handle_sleep_buffer` — snapshot of the woken node's entries of
  `set_messages` in dict order; for each `(key, buffer_message)`:
  `await gateway.send(buffer_message, message_buffer=False)` (reaches `transport.write`), then
  `if set_messages.get(key) is buffer_message: set_messages.pop(key)`;
* `model/protocol/protocol_14.py: OutgoingMessageHandler.handle_set` — with the default buffer flag, a
  known node and `node.sleeping`, `set_messages[key] = message` and return: no `await` is reached,
  so a buffered `send` to the sleeping node is one atomic block;
* `gateway.py: send` / `listen` — one listener task; a handler runs to completion before the next
  line is read, so flushes never overlap each other.

asyncio is cooperative: the only suspension points are the transport writes (DESIGN 4.4).  A write
is three scheduler steps: `writeBegin` (the listener enters `transport.write` and suspends),
`wireAppend` (the bytes reach the wire — a scheduler-chosen moment, which covers a stream
transport that writes at once and an MQTT publish that completes at the end) and `writeEnd`
(`write` returns; the `is` test and the `pop` run in the same atomic block, and so does the entry
into the next iteration up to its own suspension).  Application tasks may run between any two of
them.

Scope: sends with default buffering to the one sleeping node that wakes; one listener.  Entries of
other nodes are filtered out of the snapshot and never touched (C07 `other_nodes_untouched`), so
the model holds only the woken node's entries.  Object identity (`is`) is the `Id` component, fresh
for every `send` call.  Write failures are C08's subject and are not part of this model.

`stepOld` is the loop before the repair (commit 78dd245 of /repo): unconditional `pop(key)`.
-/
import AioMySensors.Model.State

namespace AioMySensors.Flush

/-- Payload of a `set` command. -/
abbrev Val := Str
/-- Identity of a `Message` object (`is` in the code is equality of `Id`s). -/
abbrev Id := Nat
/-- A message object as the flush sees it: buffer key, payload, identity. -/
abbrev Entry := Key × Val × Id

/-- Where the listener task is. `flushing snapshot w`: inside `_handle_sleep_buffer`; the head of
`snapshot` is the entry of the current iteration, the tail is still to come.
`w = none`: about to call `transport.write` for the head; `some false`: suspended inside the write,
bytes not yet on the wire; `some true`: suspended inside the write, bytes on the wire. -/
inductive Pc where
  | idle
  | flushing (snapshot : List Entry) (inWrite : Option Bool)
  deriving DecidableEq, Repr

structure State where
  /-- `MessageBuffer.set_messages` restricted to the woken node, in dict order -/
  buf : PDict Key (Val × Id) := []
  /-- what the transport has written, in order -/
  wire : List Entry := []
  pc : Pc := .idle
  /-- per application task: the `send` calls it still has to make, in order -/
  senders : List (List (Key × Val)) := []
  /-- completed `send` calls, in order of completion -/
  log : List Entry := []
  /-- next fresh identity -/
  next : Id := 0
  deriving DecidableEq, Repr

/-- The scheduler's choices: which task runs its next atomic block. -/
inductive Choice where
  | send (i : Nat)
  | wakeStart
  | writeBegin
  | wireAppend
  | writeEnd
  deriving DecidableEq, Repr

/-- `await gateway.send(Message(key, value))` to the sleeping node with default buffering:
`set_messages[key] = message` with a fresh object, atomically. -/
def park (s : State) (kv : Key × Val) : State :=
  { s with buf := s.buf.set kv.1 (kv.2, s.next), log := s.log ++ [(kv.1, kv.2, s.next)], next := s.next + 1 }

/-- Take the next call of sender `i`, if it has one. -/
def popSender : List (List (Key × Val)) → Nat → Option ((Key × Val) × List (List (Key × Val)))
  | [], _ => none
  | [] :: _, 0 => none
  | (kv :: rest) :: ls, 0 => some (kv, rest :: ls)
  | l :: ls, i + 1 =>
    match popSender ls i with
    | some (kv, ls') => some (kv, l :: ls')
    | none => none

/-- After an iteration: the loop goes on with the rest of the snapshot, or the handler returns. -/
def nextPc : List Entry → Pc
  | [] => .idle
  | e :: r => .flushing (e :: r) none

/-- The repaired removal: `if set_messages.get(key) is buffer_message: set_messages.pop(key)`. -/
def popIfSame (buf : PDict Key (Val × Id)) (e : Entry) : PDict Key (Val × Id) :=
  if buf.get? e.1 = some e.2 then buf.erase e.1 else buf

/-- The removal before the repair: `set_messages.pop(key)`.  (With one listener the key is always
present at this point, so the `KeyError` of a missing key cannot arise.) -/
def popAlways (buf : PDict Key (Val × Id)) (e : Entry) : PDict Key (Val × Id) :=
  buf.erase e.1

/-- One atomic block of one task; `none` = that task is not at such a point. -/
def stepG (pop : PDict Key (Val × Id) → Entry → PDict Key (Val × Id)) (s : State) : Choice → Option State
  | .send i =>
    match popSender s.senders i with
    | some (kv, rest) => some (park { s with senders := rest } kv)
    | none => none
  | .wakeStart =>
    match s.pc with
    | .idle => some { s with pc := nextPc s.buf }
    | _ => none
  | .writeBegin =>
    match s.pc with
    | .flushing (e :: r) none => some { s with pc := .flushing (e :: r) (some false) }
    | _ => none
  | .wireAppend =>
    match s.pc with
    | .flushing (e :: r) (some false) => some { s with wire := s.wire ++ [e], pc := .flushing (e :: r) (some true) }
    | _ => none
  | .writeEnd =>
    match s.pc with
    | .flushing (e :: r) (some true) => some { s with buf := pop s.buf e, pc := nextPc r }
    | _ => none

/-- The code as it is now. -/
def step : State → Choice → Option State := stepG popIfSame
/-- The code before commit 78dd245. -/
def stepOld : State → Choice → Option State := stepG popAlways

/-- Run a schedule; a choice whose task is not at that point leaves the state as it is. -/
def execG (pop : PDict Key (Val × Id) → Entry → PDict Key (Val × Id)) (s : State) : List Choice → State
  | [] => s
  | c :: cs => execG pop ((stepG pop s c).getD s) cs

def exec : State → List Choice → State := execG popIfSame
def execOld : State → List Choice → State := execG popAlways

/-- The listener's part of an undisturbed wake with `n` parked entries. -/
def wakeSchedule : Nat → List Choice
  | 0 => []
  | n + 1 => .writeBegin :: .wireAppend :: .writeEnd :: wakeSchedule n

/-- The final sequential wake: the node wakes once more and nothing else runs. -/
def finalSchedule (s : State) : List Choice := .wakeStart :: wakeSchedule s.buf.length

def finalWake (s : State) : State := exec s (finalSchedule s)
def finalWakeOld (s : State) : State := execOld s (finalSchedule s)

/-- Initial configuration: commands parked before the wake (sent one after the other, possibly
overwriting each other) and the calls each application task is going to make. -/
structure Config where
  parked : List (Key × Val) := []
  senders : List (List (Key × Val)) := []
  deriving DecidableEq, Repr

def init (cfg : Config) : State :=
  cfg.parked.foldl park { senders := cfg.senders }

/-- The last entry of `l` (the wire or the send log) under key `k`. -/
def lastFor (k : Key) (l : List Entry) : Option Entry :=
  (l.filter fun e => e.1 = k).getLast?

/-- All sends completed so far for key `k`, in order. -/
def sentTo (k : Key) (s : State) : List Entry := s.log.filter fun e => e.1 = k

def lastSent (k : Key) (s : State) : Option Entry := lastFor k s.log
def lastWire (k : Key) (s : State) : Option Entry := lastFor k s.wire

end AioMySensors.Flush
