/-
Buffered writes: what is on disk at a crash point is what was *flushed*, not what was written (C15).

`Model/FileOps.lean` lets the bytes of a `write` reach the file when the call returns ("write-through").
For today's sequence (open "w", one write, close) that is harmless: wherever the flushes happen, the live
file holds the truncated file followed by growing prefixes of the new text.  It is NOT harmless for a
sequence that does something to the *name* of a file while a handle with unflushed text is still open on
it - a `rename` of a temporary file over the live file before the temporary file is closed publishes a
file whose text is still in the process's buffer: the write-through model sees the complete new text at
the live path, the disk holds an empty file.

The model here: every open handle (named by the path it was opened at) has a buffer and a location (the
path its file has *now*: a handle follows its file through a rename; a file that is replaced by a rename
is unlinked and what is flushed to it afterwards is lost).  `write` only fills the buffer, `close`
flushes it.  A crash point sees the disk with *any prefix* of every buffer flushed (`visible`): Python
flushes when a buffer overflows, in chunks of any size, and flushing only ever moves a prefix of the
buffer to the end of the file, so the lazy semantics with `visible` covers every flushing policy.
-/
import AioMySensors.Model.FileOps

namespace AioMySensors.FileOps

/-- The disk, and for the handle opened at each of the two paths: its unflushed text and where its
file is now (`none`: no handle, or the file was unlinked by a rename over it). -/
structure BFs where
  disk : Fs
  bufLive : Bytes := []
  bufTmp : Bytes := []
  locLive : Option Path := none
  locTmp : Option Path := none
  deriving DecidableEq, Repr

def BFs.init (old : Bytes) : BFs := { disk := Fs.init old }

def BFs.buf (b : BFs) : Path → Bytes
  | .live => b.bufLive
  | .tmp => b.bufTmp

def BFs.loc (b : BFs) : Path → Option Path
  | .live => b.locLive
  | .tmp => b.locTmp

def BFs.setHandle (b : BFs) : Path → Bytes → Option Path → BFs
  | .live, d, l => { b with bufLive := d, locLive := l }
  | .tmp, d, l => { b with bufTmp := d, locTmp := l }

/-- Append `d` to the file a handle points at (nothing happens without a file). -/
def flushTo (fs : Fs) : Option Path → Bytes → Fs
  | none, _ => fs
  | some p, d => match fs.get p with
    | some x => fs.set p (some (x ++ d))
    | none => fs

/-- Where a handle's file is after `rename a b`. -/
def moveLoc (a b : Path) : Option Path → Option Path
  | none => none
  | some p => if p = a then some b else if p = b then none else some p

def applyOpB (b : BFs) : FsOp → BFs
  | .openTrunc p => { b with disk := b.disk.set p (some []) }.setHandle p [] (some p)
  | .write p d => b.setHandle p (b.buf p ++ d) (b.loc p)
  | .close p => { b with disk := flushTo b.disk (b.loc p) (b.buf p) }.setHandle p [] none
  | .rename x y =>
    if x = y then b else
      { b with disk := (b.disk.set y (b.disk.get x)).set x none,
               locLive := moveLoc x y b.locLive, locTmp := moveLoc x y b.locTmp }

/-- What a crash can find on disk in state `b`: any prefix of each buffer has been flushed. -/
def visible (b : BFs) : List Fs :=
  (prefixes b.bufLive).flatMap fun pl =>
    (prefixes b.bufTmp).map fun pt => flushTo (flushTo b.disk b.locLive pl) b.locTmp pt

/-- The disk at every crash point of an operation sequence under buffered writes: before the first
operation, between any two operations and after the last one, with any part of the unflushed text on disk. -/
def crashStatesB (b : BFs) : List FsOp → List Fs
  | [] => visible b
  | op :: rest => visible b ++ crashStatesB (applyOpB b op) rest

/-- The sequence of a save that moves the temporary file over the live file *before* closing it. -/
def saveOpsRenameOpen (new : Bytes) : List FsOp :=
  [.openTrunc .tmp, .write .tmp new, .rename .tmp .live, .close .tmp]

@[simp] theorem flushTo_nil (fs : Fs) (l : Option Path) : flushTo fs l [] = fs := by
  cases l with
  | none => rfl
  | some p =>
    cases p <;> cases fs with
    | mk lv tp => cases lv <;> cases tp <;> simp [flushTo, Fs.get, Fs.set]

end AioMySensors.FileOps
