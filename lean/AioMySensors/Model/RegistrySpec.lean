/-
An abstract specification of the node registry (property C04): what the registry is after a
history, written down once, as a pure function of the messages the history delivers.

There is no effects monad here, no transport, no write faults, no buffers, no request markers, no
decorators and no dispatch tables.  The specification state is the registry and the active protocol
(the protocol decides how a line is decoded and which report types exist; nothing else of the
gateway state is needed: in particular not the reported version *string*, which only decides whether
a version query is written, and neither of the two message buffers).  `specStep` has one clause per
kind of report and reads like the property text.  It does not mention any handler of
`Model/Handlers.lean`; the only things shared with the handler model are pure helpers (`decode`,
`getProtocol?`, `pyRoundFloat`, `pyInt?`, `nextId`, `placeholderNode`, `PDict`).

`Properties/C04.lean` proves that the handler model refines this specification
(`registry_refines_spec`, `history_refines_spec`): for every state, line, environment and write-fault
schedule, whatever is parked or marked, the registry and protocol after `stepOp` are `specStep` of
the registry and protocol before.  No clause below depends on a fault or a buffer because no handler
updates the registry after a write: `handle_set` stores the value before it sends the reboot command,
`handle_i_id_request` registers the placeholder before it writes the id response, the heartbeat /
pre-sleep handlers update the node before they release its parked commands.
-/
import AioMySensors.Model.Gateway

namespace AioMySensors

/-- The specification state: the active protocol and the registry. -/
structure SpecSt where
  proto : Ver := Gen.defaultVersion
  nodes : PDict Int Node := []
  deriving DecidableEq, Repr, Inhabited

/-- The abstraction function: forget the reported version string and both buffers. -/
def St.abs (st : St) : SpecSt := ⟨st.proto, st.nodes⟩

namespace Spec

/-! Values of the `Internal` enum the registry depends on (the refinement proof ties each of them to
the handler the generated tables resolve for it, in every version). -/
def iBatteryLevel : Int := 0
def iIdRequest : Int := 3
def iSketchName : Int := 11
def iSketchVersion : Int := 12
def iHeartbeatResponse : Int := 22
def iPreSleepNotification : Int := 32

/-- Rewrite the record of node `id` — if that node is registered and `f` accepts the report.
A message from an unknown node, about an unknown child, or with a payload the report's conversion
rejects changes nothing. -/
def updNode (s : SpecSt) (id : Int) (f : Node → Option Node) : SpecSt :=
  match (s.nodes.get? id).bind f with
  | some node' => { s with nodes := s.nodes.set id node' }
  | none => s

/-- A reported library version switches the active protocol when it parses; the registry is not touched. -/
def versionReport (s : SpecSt) (payload : Str) : SpecSt :=
  match getProtocol? payload with
  | some v => { s with proto := v }
  | none => s

/-- A battery level is `round(float(payload))` within the allowed range. -/
def batteryLevel? (payload : Str) : Option Int :=
  match pyRoundFloat payload with
  | .ok level => if Gen.minBattery ≤ level ∧ level ≤ Gen.maxBattery then some level else none
  | .error _ => none

/-- **Presentation.**  Of a node (system child): the node record is replaced by a blank one with the
presented type and library version — no children, attributes at their defaults; when it is the
gateway itself (node 0) the presented version is also a version report.  Of a child: the child is
added to, or replaced in, its (registered) node with the presented type and description and no values. -/
def presentation (s : SpecSt) (m : Msg) : SpecSt :=
  if m.child = Gen.systemChildId then
    let s' := { s with nodes := s.nodes.set m.node { ntype := m.type, pv := m.payload } }
    if m.node = 0 then versionReport s' m.payload else s'
  else
    updNode s m.node fun node =>
      some { node with children := node.children.set m.child ⟨m.child, m.type, m.payload, []⟩ }

/-- **Set.**  The payload becomes the stored value of (child, value type) of a registered child of a
registered node. -/
def setReport (s : SpecSt) (m : Msg) : SpecSt :=
  updNode s m.node fun node =>
    (node.children.get? m.child).map fun child =>
      { node with children := node.children.set m.child { child with values := child.values.set m.type m.payload } }

/-- **Internal messages.**  Battery, sketch name, sketch version and heartbeat reports update that
attribute of the (registered) sender; the heartbeat report exists from 2.0 on and in 2.0 / 2.1 also
marks the node as sleeping, which in 2.2 the pre-sleep notification does instead; an id request
registers the placeholder node under the next free id unless the id space is exhausted; a version
report switches the protocol.  Every other internal type leaves registry and protocol alone. -/
def internal (s : SpecSt) (m : Msg) : SpecSt :=
  if m.type = iBatteryLevel then
    updNode s m.node fun node => (batteryLevel? m.payload).map fun level => { node with battery := level }
  else if m.type = iSketchName then
    updNode s m.node fun node => some { node with sketchName := m.payload }
  else if m.type = iSketchVersion then
    updNode s m.node fun node => some { node with sketchVersion := m.payload }
  else if m.type = iHeartbeatResponse ∧ Ver.v20 ≤ s.proto then
    updNode s m.node fun node => (pyInt? m.payload).map fun beat =>
      if s.proto = .v22 then { node with heartbeat := beat } else { node with sleeping := true, heartbeat := beat }
  else if m.type = iPreSleepNotification ∧ s.proto = .v22 then
    updNode s m.node fun node => some { node with sleeping := true }
  else if m.type = iIdRequest then
    if nextId s.nodes ≤ Gen.maxNodeId then { s with nodes := s.nodes.set (nextId s.nodes) placeholderNode } else s
  else if m.type = Gen.iVersion then versionReport s m.payload
  else s

/-- What a decoded message does to registry and protocol.  Requests (`req`) and stream messages
change nothing. -/
def message (s : SpecSt) (m : Msg) : SpecSt :=
  if m.cmd = Gen.cmdPresentation then presentation s m
  else if m.cmd = Gen.cmdSet then setReport s m
  else if m.cmd = Gen.cmdInternal then internal s m
  else s

end Spec

/-- **One operation.**  A received line is decoded under the active protocol; a line the decoder
rejects changes nothing.  Sends never change the registry.  Environment (metric flag, local time)
and write-fault schedule are ignored. -/
def specStep (s : SpecSt) : Op → SpecSt
  | .recv _ line _ =>
    match decode s.proto line with
    | some m => Spec.message s m
    | none => s
  | .send _ _ _ => s

/-- The specification of a history. -/
def specRun (s : SpecSt) (ops : List Op) : SpecSt := ops.foldl specStep s

end AioMySensors
