/-
JSON values as `json.loads` hands them to the persistence code.

* `int` is a Python `int` (arbitrary size; `json.loads` itself refuses literals beyond the
  interpreter's digit limit, which the harness classifies as "not JSON").
* `real` is a Python `float`.  A finite binary64 is an exact rational `num/den` (`den > 0`,
  `float.as_integer_ratio()`); `NaN`, `Infinity` and `-Infinity` are accepted by `json.loads` and
  are the two non-finite constructors (the sign of an infinity is irrelevant to every coercion).
  Only three things are ever asked of a real: truncation toward zero (`int(x)`), `x == 1`, `x == 0`.
* `obj` is a Python `dict` in insertion order.  `json.loads` never yields the same key twice (the
  last duplicate wins inside the parser, which is not modelled); lookups in the model take the first
  occurrence, so on duplicate-free lists they are Python's `d.get`.
* Strings are lists of Unicode scalar values; lone surrogates (`"\ud800"`) are outside the model.
-/
import AioMySensors.Model.Text

namespace AioMySensors

/-- `cs!"abc"` is the character list `['a', 'b', 'c']`, built when the file is elaborated.  (Reducing
`"abc".toList` inside a proof decodes the literal's UTF-8 bytes every time it is compared; keys the
proofs compute with are therefore written with this macro.) -/
macro:max "cs!" s:str : term => do
  let chars := s.getString.toList.map fun c => Lean.Syntax.mkCharLit c
  `(([$(chars.toArray),*] : List Char))

/-- A Python `float` as far as the schema coercions can tell. -/
inductive JReal where
  | fin (num : Int) (den : Nat)
  | nan
  | inf
  deriving DecidableEq, Repr

inductive Json where
  | null
  | bool (b : Bool)
  | int (n : Int)
  | real (r : JReal)
  | str (s : Str)
  | arr (xs : List Json)
  | obj (kvs : List (Str × Json))
  deriving Repr

namespace Json

mutual
/-- Number of constructors (hand-written: `Json` is nested through `List`). -/
def size : Json → Nat
  | .arr xs => 1 + sizeList xs
  | .obj kvs => 1 + sizeKvs kvs
  | _ => 1
def sizeList : List Json → Nat
  | [] => 0
  | x :: xs => x.size + sizeList xs
def sizeKvs : List (Str × Json) → Nat
  | [] => 0
  | (_, v) :: kvs => v.size + sizeKvs kvs
end

mutual
/-- Nesting depth (what `json.loads`' recursion limit is about). -/
def depth : Json → Nat
  | .arr xs => 1 + depthList xs
  | .obj kvs => 1 + depthKvs kvs
  | _ => 0
def depthList : List Json → Nat
  | [] => 0
  | x :: xs => max x.depth (depthList xs)
def depthKvs : List (Str × Json) → Nat
  | [] => 0
  | (_, v) :: kvs => max v.depth (depthKvs kvs)
end

/-- `x == key` for a Python `str` key: only a JSON string can be equal to it. -/
def isStr (key : Str) : Json → Bool
  | .str s => s == key
  | _ => false

def isNull : Json → Bool
  | .null => true
  | _ => false

end Json

/-- `int(x)` for a float: truncation toward zero; `None` = `ValueError` (NaN) / `OverflowError` (∞). -/
def JReal.trunc? : JReal → Option Int
  | .fin n d => some (Int.tdiv n d)
  | .nan => none
  | .inf => none

/-- `x == k` for a float `x` and a small integer `k`. -/
def JReal.eqInt (r : JReal) (k : Int) : Bool :=
  match r with
  | .fin n d => d != 0 && n == k * d
  | _ => false

/-- `needle in hay` for Python strings (substring test). -/
def hasSub (needle : Str) : Str → Bool
  | [] => needle.isEmpty
  | c :: cs => needle.isPrefixOf (c :: cs) || hasSub needle cs

end AioMySensors
