/-
C06's reaction table as one pure function: which lines the controller writes, and in which order,
in reaction to one decoded message — a specification to read next to the property text.

Nothing here runs a handler: the clauses look at the received message, the registry, the two
buffers, the configuration and the generated constants / type-name tables only.  (The import of
`Model/Handlers.lean` is for the pure helper `nextId`, "max(nodes) + 1 if nodes else 1".)  That the
handler model writes exactly these lines is theorem `C06.writes_eq_expected`; what it attempts
under an arbitrary schedule of completing, failing and cancelled writes is `C06.writes_eq_attempts`.
-/
import AioMySensors.Model.Handlers

namespace AioMySensors
namespace WriteSpec

/-- The name of the message's type in the `Internal` enum of protocol `v` (lower-cased, as in the
generated table); `none` for other commands and for types that protocol does not have. -/
def internalName (v : Ver) (m : Msg) : Option String :=
  if m.cmd = Gen.cmdInternal then (Gen.internalTypes v).lookup m.type else none

/-- `m` is an internal message of the type the active protocol calls `name`. -/
abbrev isInternal (st : St) (m : Msg) (name : String) : Prop := internalName st.proto m = some name

/-- The sender is in the registry. -/
def knownNode (st : St) (m : Msg) : Bool := st.nodes.has m.node

/-- The sender is in the registry and has the child the message names. -/
def knownChild (st : St) (m : Msg) : Bool :=
  match st.nodes.get? m.node with
  | some n => n.children.has m.child
  | none => false

/-- The value stored for the (node, child, type) the message names. -/
def storedValue? (st : St) (m : Msg) : Option Str :=
  (st.nodes.get? m.node).bind fun n => (n.children.get? m.child).bind fun c => c.values.get? m.type

/-! ### The reactions, one clause each -/

/-- An id request gets an id response carrying the next free id — while one is free. -/
def idReply (st : St) (m : Msg) : List Msg :=
  if isInternal st m "i_id_request" ∧ nextId st.nodes ≤ Gen.maxNodeId then
    [⟨m.node, m.child, m.cmd, 0, Gen.iIdResponse, dec (nextId st.nodes)⟩]
  else []

/-- A config request gets `M` or `I` per configuration. -/
def configReply (env : Env) (st : St) (m : Msg) : List Msg :=
  if isInternal st m "i_config" then [⟨m.node, m.child, m.cmd, 0, m.type, if env.metric then ['M'] else ['I']⟩]
  else []

/-- A time request gets the controller's local time as epoch seconds. -/
def timeReply (env : Env) (st : St) (m : Msg) : List Msg :=
  if isInternal st m "i_time" then [⟨m.node, m.child, m.cmd, 0, m.type, dec env.timegm⟩] else []

/-- A value request gets the stored value as a set message; nothing if none is stored. -/
def valueReply (st : St) (m : Msg) : List Msg :=
  if m.cmd = Gen.cmdReq then
    match storedValue? st m with
    | some value => [⟨m.node, m.child, Gen.cmdSet, 0, m.type, value⟩]
    | none => []
  else []

/-- A gateway-ready message gets a broadcast discover request (protocol 2.0 and newer). -/
def discover (st : St) (m : Msg) : List Msg :=
  if isInternal st m "i_gateway_ready" ∧ Ver.v20 ≤ st.proto then
    [⟨Gen.broadcastId, m.child, m.cmd, 0, Gen.iDiscover, []⟩]
  else []

/-- A set from a node flagged for reboot (for a child it has) gets the reboot command. -/
def rebootCmd (st : St) (m : Msg) : List Msg :=
  if m.cmd = Gen.cmdSet ∧ knownChild st m = true ∧ ((st.nodes.get? m.node).map (·.reboot)) = some true then
    [⟨m.node, Gen.systemChildId, Gen.cmdInternal, 0, Gen.iReboot, []⟩]
  else []

/-- The wake signal of a known node: a heartbeat response carrying an integer in 2.0 / 2.1, the
pre-sleep notification in 2.2 (C07). -/
def isWake (st : St) (m : Msg) : Prop :=
  knownNode st m = true ∧
  ((isInternal st m "i_heartbeat_response" ∧ st.proto < Ver.v22 ∧ (pyInt? m.payload).isSome = true) ∨
   isInternal st m "i_pre_sleep_notification")

instance (st : St) (m : Msg) : Decidable (isWake st m) := by unfold isWake; infer_instance

/-- The commands parked for a node, in buffer (insertion) order. -/
def parkedFor (st : St) (n : Int) : List Msg := (st.sbuf.filter fun e => e.2.node == n).map (·.2)

/-- At a wake the node's parked commands are released, in buffer order. -/
def released (st : St) (m : Msg) : List Msg := if isWake st m then parkedFor st m.node else []

/-- The handler's own reactions. At most one of the clauses applies to a given message. -/
def reactions (env : Env) (st : St) (m : Msg) : List Msg :=
  idReply st m ++ configReply env st m ++ timeReply env st m ++ valueReply st m ++ discover st m ++
    rebootCmd st m ++ released st m

/-! ### The presentation request (C10) -/

/-- Internal types whose handler needs the sender's node record. -/
def nodeReports : List String :=
  ["i_battery_level", "i_sketch_name", "i_sketch_version", "i_discover_response", "i_heartbeat_response",
   "i_pre_sleep_notification"]

/-- The message refers to a node or child the registry does not have: a child presentation, a
stream message or a node report from an unknown node; a set / req for an unknown node or child. -/
def refersToUnknown (st : St) (m : Msg) : Prop :=
  (m.cmd = Gen.cmdPresentation ∧ m.child ≠ Gen.systemChildId ∧ knownNode st m = false) ∨
  ((m.cmd = Gen.cmdSet ∨ m.cmd = Gen.cmdReq) ∧ knownChild st m = false) ∨
  (m.cmd = Gen.cmdStream ∧ knownNode st m = false) ∨
  ((∃ name ∈ nodeReports, isInternal st m name) ∧ knownNode st m = false)

instance (st : St) (m : Msg) : Decidable (refersToUnknown st m) := by unfold refersToUnknown; infer_instance

/-- The marker of an outstanding presentation request to the node (key in `internal_messages`). -/
def markerKey (n : Int) : Key := (n, Gen.systemChildId, Gen.iPresentation)

/-- From 2.0 on, a message that refers to an unknown node / child gets one presentation request
to its sender, unless one is outstanding. -/
def request (st : St) (m : Msg) : List Msg :=
  if Ver.v20 ≤ st.proto ∧ refersToUnknown st m ∧ st.ibuf.has (markerKey m.node) = false then
    [⟨m.node, Gen.systemChildId, Gen.cmdInternal, 0, Gen.iPresentation, []⟩]
  else []

/-! ### The version query -/

/-- The message itself makes the gateway's version known: a version reply, or the gateway's own
presentation, carrying a version string the library accepts. -/
def reportsVersion (st : St) (m : Msg) : Prop :=
  (isInternal st m "i_version" ∨ (m.cmd = Gen.cmdPresentation ∧ m.child = Gen.systemChildId ∧ m.node = 0)) ∧
  (getProtocol? m.payload).isSome = true

instance (st : St) (m : Msg) : Decidable (reportsVersion st m) := by unfold reportsVersion; infer_instance

/-- Log and gateway-ready messages are never followed by the query. -/
def exemptFromQuery (m : Msg) : Prop :=
  m.cmd = Gen.cmdInternal ∧ (m.type = Gen.iLogMessage ∨ m.type = Gen.iGatewayReady)

instance (m : Msg) : Decidable (exemptFromQuery m) := by unfold exemptFromQuery; infer_instance

/-- While the gateway's version is unknown, every other message is followed by one version query —
unless that message itself made the version known. -/
def query (st : St) (m : Msg) : List Msg :=
  if st.pv = none ∧ ¬ reportsVersion st m ∧ ¬ exemptFromQuery m then
    [⟨0, Gen.systemChildId, Gen.cmdInternal, 0, Gen.iVersion, []⟩]
  else []

/-! ### Order

The query is sent by the decorator of the command-level handler, the presentation request by a
decorator that sits outside it for presentation / set / req / stream and inside it (around the
type's own handler) for internal messages.  Hence three segments. -/

/-- Written by the handler of the message (for internal messages: including the request). -/
def first (env : Env) (st : St) (m : Msg) : List Msg :=
  reactions env st m ++ (if m.cmd = Gen.cmdInternal then request st m else [])

/-- Written after the version query (presentation / set / req / stream only). -/
def last (st : St) (m : Msg) : List Msg := if m.cmd = Gen.cmdInternal then [] else request st m

/-- The messages written in reaction to `m`, in order. -/
def expectedMsgs (env : Env) (st : St) (m : Msg) : List Msg := first env st m ++ query st m ++ last st m

/-! ### Writes that do not complete

A coming write attempt either completes (`pass`), fails in the transport (`fail`), or is where the
task gets cancelled (`cancel`).  For *which lines are attempted* the last two are the same: the
attempt is logged as not written and ends its segment. They differ in the exception the step ends in. -/

/-- Does the write complete under this fault? -/
def _root_.AioMySensors.Fault.ok (f : Fault) : Bool := f.exn.isNone

/-- Attempts made, the schedule left, and the exception of the attempt that did not complete
(`none`: all completed). -/
abbrev Att := List WriteEvt × List Fault × Option Exn

/-- Write the lines in order; the first write that does not complete (`fail` or `cancel` in the
schedule; the schedule running out means success) ends the attempt with that fault's exception. -/
def attempt : List Str → List Fault → Att
  | [], fs => ([], fs, none)
  | l :: ls, [] => let r := attempt ls []; (⟨l, true⟩ :: r.1, r.2.1, r.2.2)
  | l :: ls, f :: fs =>
    match f.exn with
    | some e => ([⟨l, false⟩], fs, some e)
    | none => let r := attempt ls fs; (⟨l, true⟩ :: r.1, r.2.1, r.2.2)

/-- One attempt after another: the second runs on the schedule the first left; an exception of the
second replaces one of the first (as an exception raised in a `finally` clause does). -/
def andThen (a : Att) (next : List Fault → Att) : Att :=
  (a.1 ++ (next a.2.1).1, (next a.2.1).2.1, (next a.2.1).2.2.or a.2.2)

/-- The write attempts of one step under a schedule: the first segment up to its first write that
does not complete; then the version query in any case (it is sent from a `finally` clause, which
also runs when the task was cancelled); then the last segment only if everything before completed. -/
def attempts (env : Env) (st : St) (m : Msg) (faults : List Fault) : Att :=
  let a := andThen (attempt ((first env st m).map encode) faults) (attempt ((query st m).map encode))
  andThen a fun fs => if a.2.2.isSome then ([], fs, none) else attempt ((last st m).map encode) fs

/-- The exception of the last write of a schedule prefix that does not complete. -/
def lastExn : List Fault → Option Exn
  | [] => none
  | f :: fs => (lastExn fs).or f.exn

end WriteSpec

/-- **The lines the controller writes in reaction to the decoded message `m`**, in the order they
are written, when no write fails. -/
def expectedWrites (env : Env) (st : St) (m : Msg) : List Str := (WriteSpec.expectedMsgs env st m).map encode

/-- The write attempts of the step under a schedule of completing / failing / cancelled writes. -/
def expectedAttempts (env : Env) (st : St) (m : Msg) (faults : List Fault) : List WriteEvt :=
  (WriteSpec.attempts env st m faults).1

/-- The exception the step ends in because of its writes: that of the last attempt that did not
complete (a failing version query in the `finally` clause replaces the handler's exception);
`none` if every attempt completed. -/
def expectedExn (env : Env) (st : St) (m : Msg) (faults : List Fault) : Option Exn :=
  (WriteSpec.attempts env st m faults).2.2

end AioMySensors
