/-
The object-level vocabulary for the MQTT transport OBJECT (`MQTTTransport` / `MQTTClient` of `transport/mqtt.py`),
the target of `tools/translate_mqttclient.py`.  One primitive per Python operation on the client object, on the
aiomqtt client it holds, on the receive task and on the incoming queue, as modelled in `Model/MqttObject.lean`,
raising what Python raises; the outcome of every awaited call on the aiomqtt client (where an injected fault can
strike) is an argument, as in the hand-written model (`aenter`, `subs`, `aexit`, `pub`, `sub`).

Besides the model's object (`OState`) a method sees the list of calls it made on the aiomqtt client
(`subscribe` / `publish` with their arguments), so that the equalities also say WHAT is subscribed to and published.

`Generated/MqttObjectBodies.lean` is written in this vocabulary; `Lemmas/MqttObjectBodiesEq.lean` proves each generated
method equal to the `oConnect / oDisconnect / oWrite / oSubscribe / qStep / taskStep` the C18 theorems speak about.
-/
import AioMySensors.Model.MqttObject
import AioMySensors.Model.LitMqtt

namespace AioMySensors.Mqtt
open AioMySensors

/-- A keyword-argument value of a call on the aiomqtt client. -/
inductive KwVal where
  | str (s : Str)
  | int (n : Int)
  | bool (b : Bool)
  deriving DecidableEq, Repr

/-- Keyword arguments (a dict literal, in source order; a later store replaces an earlier one). -/
abbrev Kw := List (String × KwVal)

/-- A call made on the aiomqtt client (`self._client.subscribe(topic, **kw)`, `self._client.publish(topic, **kw)`). -/
inductive Call where
  | subscribe (topic : Str) (kw : Kw)
  | publish (topic : Str) (kw : Kw)
  deriving DecidableEq, Repr

/-- What a method of the transport object works on: the object, and the calls made on the aiomqtt client so far. -/
structure World where
  o : OState := {}
  calls : List Call := []
  deriving DecidableEq, Repr

/-- How a method stops early: an exception, or suspended for ever / until something arrives (`await` on an empty
queue, on a task that nobody finishes). -/
inductive Stop where
  | exn (e : MqttExn)
  | wait
  deriving DecidableEq, Repr

/-- A method of the transport object. -/
abbrev OM (α : Type) := World → Except Stop α × World

namespace OM

@[inline] def pure (a : α) : OM α := fun w => (.ok a, w)
@[inline] def raise (e : MqttExn) : OM α := fun w => (.error (.exn e), w)
@[inline] def bind (x : OM α) (f : α → OM β) : OM β := fun w =>
  match x w with
  | (.ok a, w') => f a w'
  | (.error e, w') => (.error e, w')
@[inline] def seq (x : OM Unit) (y : OM β) : OM β := bind x fun _ => y

/-- A pure computation that may raise a Python exception. -/
def liftPM (x : LMq.PM α) : OM α := fun w =>
  match x with
  | .ok a => (.ok a, w)
  | .error c => (.error (.exn (.foreign c)), w)

/-- A condition on the object's fields (`self._client is None`, `not self._incoming_task`, …). -/
def test (p : OState → Bool) : OM Bool := fun w => (.ok (p w.o), w)

/-- The first clause of a `try … except (classes₁): raise E₁  except (classes₂): raise E₂ …` that catches `c`. -/
def firstMatch (c : PyExn) (clauses : List (List PyExn × MqttExn)) : Option MqttExn :=
  (clauses.find? fun cl => pyCaught c cl.1).map (·.2)

/-- `try: x  except (classes₁) as err: raise E₁ from err …` — the first clause that matches wins; library errors
(none of the clauses names one) and a suspension pass through. -/
def catchMap (x : OM α) (clauses : List (List PyExn × MqttExn)) : OM α := fun w =>
  match x w with
  | (.error (.exn (.foreign c)), w') =>
    match firstMatch c clauses with
    | some e => (.error (.exn e), w')
    | none => (.error (.exn (.foreign c)), w')
  | r => r

/-- `with contextlib.suppress(classes): x`  /  `try: x  except (classes): pass` -/
def suppress (x : OM Unit) (classes : List PyExn) : OM Unit := fun w =>
  match x w with
  | (.error (.exn (.foreign c)), w') => if pyCaught c classes then (.ok (), w') else (.error (.exn (.foreign c)), w')
  | r => r

/-- `try: x  except BaseException: cleanup; raise` — an exception out of the clean-up replaces the original one. -/
def onExcept (x : OM α) (cleanup : OM Unit) : OM α := fun w =>
  match x w with
  | (.error (.exn e), w') =>
    match cleanup w' with
    | (.ok (), w'') => (.error (.exn e), w'')
    | (.error s, w'') => (.error s, w'')
  | r => r

/-- `try: v = x  except (classes): handler  (the iteration / function goes on with `k v` otherwise)`. -/
def tryCatch (x : OM α) (classes : List PyExn) (handler : OM β) (k : α → OM β) : OM β := fun w =>
  match x w with
  | (.ok a, w') => k a w'
  | (.error (.exn (.foreign c)), w') => if pyCaught c classes then handler w' else (.error (.exn (.foreign c)), w')
  | (.error e, w') => (.error e, w')

/-- `if x is None: a` and the rest of the block with `x` known not to be `None`. -/
def ifNone (x : Option α) (a : OM β) (k : α → OM β) : OM β :=
  match x with
  | none => a
  | some v => k v

end OM

/-! Pure computations that may raise (`LMq.PM`): the part of `connect` before the first await. -/
namespace PM

/-- `try: v = x  except (classes): v = d` -/
def catchDefault (x : LMq.PM α) (classes : List PyExn) (d : α) : LMq.PM α :=
  match x with
  | .error c => if pyCaught c classes then .ok d else .error c
  | r => r

/-- `out = []` / `for a in xs: …; out.append(f a)`: stops at the first exception. -/
def mapM (f : α → LMq.PM β) : List α → LMq.PM (List β)
  | [] => .ok []
  | a :: as =>
    match f a with
    | .error e => .error e
    | .ok b =>
      match mapM f as with
      | .error e => .error e
      | .ok bs => .ok (b :: bs)

/-- `xs[k]` for a literal `k ≥ 0`; `IndexError` outside. -/
def indexPos (xs : List α) (k : Nat) : LMq.PM α :=
  match xs[k]? with
  | some x => .ok x
  | none => .error .IndexError

/-- `xs[-k]` for a literal `k > 0`; `IndexError` outside. -/
def indexNeg (xs : List α) (k : Nat) : LMq.PM α :=
  if k = 0 ∨ xs.length < k then .error .IndexError else indexPos xs (xs.length - k)

end PM

/-- The outcome of an awaited call on the aiomqtt client / on the receive task, as a method sees it. -/
def ofOutcome (x : Outcome) : Except Stop Unit :=
  match x with
  | .ok => .ok ()
  | .raised c => .error (.exn (.foreign c))

namespace LO

/-- `self._client is not None` (and the truth value of `self._client`: an aiomqtt client object is truthy). -/
def hasClient (o : OState) : Bool := o.client

/-- `self._incoming_task is not None` (a task object is truthy). -/
def hasTask (o : OState) : Bool := o.task.isSome

/-- `self._client = AsyncioClient(...)` -/
def newClient : OM Unit := fun w => (.ok (), { w with o := { w.o with client := true } })

/-- `self._client = None` -/
def clearClient : OM Unit := fun w => (.ok (), { w with o := { w.o with client := false } })

/-- `await self._client.__aenter__()` with outcome `x` (`AttributeError` on `None`). -/
def aenter (x : Outcome) : OM Unit := fun w =>
  if w.o.client then (ofOutcome x, w) else (.error (.exn (.foreign .AttributeError)), w)

/-- `await self._client.__aexit__(None, None, None)` with outcome `x`. -/
def aexit (x : Outcome) : OM Unit := fun w =>
  if w.o.client then (ofOutcome x, w) else (.error (.exn (.foreign .AttributeError)), w)

/-- `await self._client.subscribe(topic, **kw)` with outcome `x`; the call is recorded whatever its outcome. -/
def subscribe (topic : Str) (kw : Kw) (x : Outcome) : OM Unit := fun w =>
  if w.o.client then (ofOutcome x, { w with calls := w.calls ++ [.subscribe topic kw] })
  else (.error (.exn (.foreign .AttributeError)), w)

/-- `await self._client.publish(topic, **kw)` with outcome `x`; the call is recorded whatever its outcome. -/
def publish (topic : Str) (kw : Kw) (x : Outcome) : OM Unit := fun w =>
  if w.o.client then (ofOutcome x, { w with calls := w.calls ++ [.publish topic kw] })
  else (.error (.exn (.foreign .AttributeError)), w)

/-- `params[key] = v` on a dict of keyword arguments. -/
def kwSet (kw : Kw) (key : String) (v : KwVal) : Kw :=
  if kw.any (·.1 == key) then kw.map fun e => if e.1 == key then (key, v) else e else kw ++ [(key, v)]

/-- The truth value of a `str`. -/
def truthy (s : Str) : Bool := !s.isEmpty

/-- `self._incoming_task = asyncio.create_task(self._handle_incoming())`: the task exists and has not run yet. -/
def createTask : OM Unit := fun w => (.ok (), { w with o := { w.o with task := some .notStarted } })

/-- `self._incoming_task = None` -/
def clearTask : OM Unit := fun w => (.ok (), { w with o := { w.o with task := none } })

/-- `self._incoming_task.cancel()`, with the loop running the task until it has finished (`taskStep t .cancel` of the
model: nothing else can run between `cancel()` and the `await` that follows it); what the task queues on its way out
is put on the queue.  `AttributeError` on `None`. -/
def taskCancel : OM Unit := fun w =>
  match w.o.task with
  | none => (.error (.exn (.foreign .AttributeError)), w)
  | some t =>
    (.ok (), { w with o := { w.o with task := some (.finished (cancelTask t).1), q := enqueue w.o.q (cancelTask t).2 } })

/-- `await self._incoming_task`: the result or exception of a finished task (awaiting a cancelled task raises
`CancelledError`); suspended while the task is not finished; `TypeError` on `None`. -/
def awaitTask : OM Unit := fun w =>
  match w.o.task with
  | none => (.error (.exn (.foreign .TypeError)), w)
  | some (.finished r) => (ofOutcome r, w)
  | some _ => (.error .wait, w)

/-- The caller suspends and the loop runs what is ready: a receive task that was created and has not run yet runs to
its first await (the `async for` over the client's messages). -/
def runPending : OM Unit := fun w =>
  match w.o.task with
  | some .notStarted => (.ok (), { w with o := { w.o with task := some .waiting } })
  | _ => (.ok (), w)

/-- The children of a `gather`, each run with its outcome (the i-th child gets the i-th of `outs`; `ok` when the list
is shorter): every child runs; the first exception is what `gather` raises, later ones are lost. -/
def gatherGo : List (Outcome → OM Unit) → List Outcome → Option Stop → OM Unit
  | [], _, none => OM.pure ()
  | [], _, some e => fun w => (.error e, w)
  | c :: cs, outs, first => fun w =>
    match c (outs.headD .ok) w with
    | (.ok (), w') => gatherGo cs outs.tail first w'
    | (.error e, w') => gatherGo cs outs.tail (first.orElse fun _ => some e) w'

/-- `await asyncio.gather(*coros)`: with no children the call returns at once; otherwise the caller suspends (the
pending receive task gets its first run) and the children run in order. -/
def gather (coros : List (Outcome → OM Unit)) (outs : List Outcome) : OM Unit :=
  match coros with
  | [] => OM.pure ()
  | _ => OM.seq runPending (gatherGo coros outs none)

/-- `await self._incoming_messages.get()`: the head of the queue, or suspended behind the reads already waiting
(`qStep _ .read` either way). -/
def queueGet : OM Item := fun w =>
  match w.o.q.queue with
  | x :: _ => (.ok x, { w with o := { w.o with q := qStep w.o.q .read } })
  | [] => (.error .wait, { w with o := { w.o with q := qStep w.o.q .read } })

/-- `self._incoming_messages.task_done()` (nobody joins the queue). -/
def taskDone : OM Unit := OM.pure ()

/-- `self._incoming_messages.put_nowait(x)` -/
def putNowait (x : Item) : OM Unit := fun w => (.ok (), { w with o := { w.o with q := qStep w.o.q (.arrive x) } })

/-- `ReceivedMessage(message_type=MQTTMessageType.MESSAGE, message=line)` -/
def messageEntry (line : Str) : Item := .msg line

/-- `ReceivedMessage(message_type=MQTTMessageType.ERROR, error=error)` where `error` is a `TransportFailedError`
instance: the model's queue has one kind of error entry; the translator accepts `_receive_error` only when every
call of it passes a `TransportFailedError(...)`. -/
def errorEntry : Item := .err

/-- `x.message_type is MQTTMessageType.ERROR` -/
def isError : Item → Bool
  | .err => true
  | .msg _ => false

/-- `x.error` -/
def errorOf : Item → Option MqttExn
  | .err => some .transportFailed
  | .msg _ => none

/-- `x.message` -/
def messageOf : Item → Option Str
  | .err => none
  | .msg l => some l

/-- `payload.decode()` on the bytes of a broker message. -/
def decodeBytes (b : List Nat) : OM Str := fun w =>
  match utf8Decode b with
  | some s => (.ok s, w)
  | none => (.error (.exn (.foreign .UnicodeDecodeError)), w)

/-- The receive task, `MQTTClient._handle_incoming`, cut where the translator cuts it: the body of its `async for`
(one message: topic, payload bytes) and the clauses of the `try` around the loop (classes, handler). -/
structure Incoming where
  body : Str → List Nat → OM Unit
  clauses : List (List PyExn × OM Unit)

/-- An exception `c` raised inside the `try` around the `async for` (by the loop body, by the message iterator, or
thrown into the task at its await): the first clause that catches it runs and the task returns; otherwise the task
ends with `c`. -/
def Incoming.raiseInLoop (h : Incoming) (c : PyExn) : OM Unit := fun w =>
  match h.clauses.find? fun cl => pyCaught c cl.1 with
  | some cl =>
    match cl.2 w with
    | (.ok (), w') => (.ok (), { w' with o := { w'.o with task := some (.finished .ok) } })
    | (.error (.exn (.foreign c')), w') => (.ok (), { w' with o := { w'.o with task := some (.finished (.raised c')) } })
    -- a library error out of the handler (a subclass of `Exception`; `TaskState` records Python classes only)
    | (.error _, w') => (.ok (), { w' with o := { w'.o with task := some (.finished (.raised .Exception)) } })
  | none => (.ok (), { w with o := { w.o with task := some (.finished (.raised c)) } })

/-- One broker event reaching the object (constant glue around the translated loop body and clauses): nothing
without a task or with a finished one; a message runs the loop body once (a task that has not run yet behaves like
a waiting one: aiomqtt buffers); an `MqttError` of the iterator and a cancellation are raised at the `async for`
(a task cancelled before its first run ends without running). -/
def Incoming.event (h : Incoming) (e : Evt) : OM Unit := fun w =>
  match w.o.task with
  | none => (.ok (), w)
  | some (.finished _) => (.ok (), w)
  | some t =>
    match e with
    | .message topic payload =>
      match h.body topic payload { w with o := { w.o with task := some .waiting } } with
      | (.ok (), w') => (.ok (), w')
      | (.error (.exn (.foreign c)), w') => h.raiseInLoop c w'
      | (.error _, w') => (.ok (), { w' with o := { w'.o with task := some (.finished (.raised .Exception)) } })
    | .mqttError => h.raiseInLoop .MqttError w
    | .cancel =>
      match t with
      | .notStarted => (.ok (), { w with o := { w.o with task := some (.finished (.raised .CancelledError)) } })
      | _ => h.raiseInLoop .CancelledError w

end LO

/-! ### What the caller of a generated method sees, in the model's terms -/

/-- A method that returns nothing, as `oConnect` / `oSubscribe` report it (`none`: suspended). -/
def unitResult (r : Except Stop Unit) : Option (Except MqttExn Unit) :=
  match r with
  | .ok () => some (.ok ())
  | .error (.exn e) => some (.error e)
  | .error .wait => none

/-- `(topic, payload, qos)` of a `publish` call: aiomqtt's defaults for a keyword that is not passed
(`payload=None` publishes an empty payload, `qos=0`). -/
def Call.published : Call → Option (Str × Str × Int)
  | .publish topic kw =>
    some (topic,
      (match kw.lookup "payload" with | some (.str p) => p | _ => []),
      (match kw.lookup "qos" with | some (.int q) => q | _ => 0))
  | _ => none

/-- Is it a `publish` call asking the broker to retain the message (`retain=True`; aiomqtt's default is `False`)? -/
def Call.retained : Call → Bool
  | .publish _ kw => (match kw.lookup "retain" with | some (.bool b) => b | _ => false)
  | _ => false

/-- `(topic, qos)` of a `subscribe` call. -/
def Call.subscribed : Call → Option (Str × Int)
  | .subscribe topic kw => some (topic, (match kw.lookup "qos" with | some (.int q) => q | _ => 0))
  | _ => none

end AioMySensors.Mqtt
