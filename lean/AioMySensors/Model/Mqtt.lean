/-
The MQTT transport, `src/aiomysensors/transport/mqtt.py`.

* `toTopic` is `MQTTTransport._parse_message_to_mqtt` (`rstrip`, `split(";", 5)`, unpacking into
  five topic levels, `int(ack)`); `none` is the `ValueError` of a short line or a non-integer ack.
* `toLine` is `MQTTTransport._parse_mqtt_to_message` (`topic.split("/")[-5:] + [payload]` joined
  with `;`).
* `matchesFilter` is the broker's topic-filter matching restricted to what the code subscribes to:
  `+` matches exactly one level, every other level is literal (`#` and the `$`-topic rule are not
  modelled: the generated filters contain neither).
* `subscriptions` is the loop in `MQTTTransport.connect`: the five generated partial topics after the
  in-prefix, with the qos the code computes (`int(topic_levels[-2])`, `ValueError` -> 0).
* The incoming queue is a list of `Item`s; `asyncio.Queue` semantics (`qStep`): an arrival wakes the
  oldest blocked `read`, otherwise it is appended; a `read` takes the head or blocks.
* The receive task `MQTTClient._handle_incoming` is a small-step system over broker events; which
  exceptions its two `except` clauses catch is read from the generated `Gen.excMqttIncoming`, and
  `_connect`/`_disconnect`/`_publish`/`_subscribe` read `Gen.excMqttConnect`/`excMqttDisconnect`/
  `excMqttPublish`/`excMqttSubscribe`, so the theorems depend on the code's except clauses.
* The `MQTTClient` object that holds these pieces across connect / disconnect / connect again
  (`_client`, `_incoming_task`, the queue created in `__init__`) is `Model/MqttObject.lean`.
-/
import AioMySensors.Model.PyNum
import AioMySensors.Model.Effects

namespace AioMySensors.Mqtt
open AioMySensors

/-! ### Topic mapping -/

/-- `MQTTTransport._parse_message_to_mqtt`: (topic, payload, qos); `none` = `ValueError`
(fewer than six fields: the unpacking `_, _, _, ack, _ = topic_levels` fails; or `int(ack)` fails). -/
def toTopic (outPrefix : Str) (line : Str) : Option (Str × Str × Int) :=
  match splitN ';' 5 (rstrip line) with
  | [f0, f1, f2, f3, f4, payload] =>
    match pyInt? f3 with
    | some ack => some (outPrefix ++ '/' :: joinWith '/' [f0, f1, f2, f3, f4], payload, ack)
    | none => none
  | _ => none

/-- `l[-n:]` for `n > 0`. -/
def lastN (n : Nat) (l : List α) : List α := l.drop (l.length - n)

/-- `MQTTTransport._parse_mqtt_to_message`: the last five topic levels (all of them when there are
fewer) and the payload, joined with `;`. -/
def toLine (topic payload : Str) : Str :=
  joinWith ';' (lastN 5 (splitOn '/' topic) ++ [payload])

/-! ### Topic filters -/

/-- Level-wise matching: `+` matches any single level, anything else must be equal. -/
def levelsMatch : List Str → List Str → Bool
  | [], [] => true
  | f :: fs, t :: ts => (f == ['+'] || f == t) && levelsMatch fs ts
  | _, _ => false

/-- Does a broker deliver a message published on `topic` to a subscription on `filter`? -/
def matchesFilter (filter topic : Str) : Bool :=
  levelsMatch (splitOn '/' filter) (splitOn '/' topic)

/-- The topic filters `connect` subscribes to: `f"{self.in_prefix}{partial_topic}"`. -/
def filters (inPrefix : Str) : List Str :=
  Gen.mqttPartialTopics.map fun t => inPrefix ++ t.toList

/-- `l[-2]`; `none` = `IndexError`. -/
def secondLast (l : List α) : Option α :=
  match l.reverse with
  | _ :: a :: _ => some a
  | _ => none

/-- The qos `connect` computes for a filter: `int(topic.split("/")[-2])`, `ValueError` -> 0.
`none` = `IndexError` (a filter without any `/`).  For the generated filters the level at `[-2]` is the
*ack position*, which is `+`, so the result is 0. -/
def subQos (filter : Str) : Option Int :=
  match secondLast (splitOn '/' filter) with
  | none => none
  | some level =>
    match pyInt? level with
    | some q => some q
    | none => some 0

/-- The `_subscribe(topic, qos)` calls of `connect`, in order. -/
def subscriptions (inPrefix : Str) : List (Str × Option Int) :=
  (filters inPrefix).map fun f => (f, subQos f)

/-! ### UTF-8 (`bytes.decode()`, strict) -/

/-- Decoder state: code point so far, continuation bytes still expected, bounds of the next byte. -/
structure Pending where
  acc : Nat
  rem : Nat
  lo : Nat
  hi : Nat

/-- Strict UTF-8 (no overlong forms, no surrogates, nothing above U+10FFFF, no truncation), as
CPython's `bytes.decode()`.  Bytes are naturals below 256. `none` = `UnicodeDecodeError`. -/
def utf8Go : List Nat → Option Pending → Option Str
  | [], none => some []
  | [], some _ => none
  | b :: bs, none =>
    if b < 0x80 then (utf8Go bs none).map (Char.ofNat b :: ·)
    else if 0xC2 ≤ b ∧ b ≤ 0xDF then utf8Go bs (some ⟨b - 0xC0, 1, 0x80, 0xBF⟩)
    else if b = 0xE0 then utf8Go bs (some ⟨0, 2, 0xA0, 0xBF⟩)
    else if b = 0xED then utf8Go bs (some ⟨0xD, 2, 0x80, 0x9F⟩)
    else if 0xE1 ≤ b ∧ b ≤ 0xEF then utf8Go bs (some ⟨b - 0xE0, 2, 0x80, 0xBF⟩)
    else if b = 0xF0 then utf8Go bs (some ⟨0, 3, 0x90, 0xBF⟩)
    else if 0xF1 ≤ b ∧ b ≤ 0xF3 then utf8Go bs (some ⟨b - 0xF0, 3, 0x80, 0xBF⟩)
    else if b = 0xF4 then utf8Go bs (some ⟨4, 3, 0x80, 0x8F⟩)
    else none
  | b :: bs, some p =>
    if p.lo ≤ b ∧ b ≤ p.hi then
      if p.rem ≤ 1 then (utf8Go bs none).map (Char.ofNat (p.acc * 64 + (b - 0x80)) :: ·)
      else utf8Go bs (some ⟨p.acc * 64 + (b - 0x80), p.rem - 1, 0x80, 0xBF⟩)
    else none

/-- `payload.decode()`. -/
def utf8Decode (bytes : List Nat) : Option Str := utf8Go bytes none

/-! ### The incoming queue -/

/-- A `ReceivedMessage`: a decoded line, or an error (always a `TransportFailedError` instance when
it comes from `_handle_incoming`). -/
inductive Item where
  | msg (line : Str)
  | err
  deriving DecidableEq, Repr

/-- `_incoming_messages` together with the `read` calls blocked on it and the results already handed
out (in the order the reads were issued). -/
structure QState where
  queue : List Item := []
  waiting : Nat := 0
  delivered : List Item := []
  deriving DecidableEq, Repr

inductive QOp where
  /-- `_receive` / `_receive_error`: `put_nowait` -/
  | arrive (x : Item)
  /-- a `read()` call is issued -/
  | read
  deriving DecidableEq, Repr

/-- One queue operation.  `asyncio.Queue`: `put_nowait` hands the item to the oldest waiting getter if
there is one; `get` returns the head at once or blocks behind earlier getters. -/
def qStep (s : QState) : QOp → QState
  | .arrive x =>
    match s.waiting, s.queue with
    | n + 1, [] => { s with waiting := n, delivered := s.delivered ++ [x] }
    | _, _ => { s with queue := s.queue ++ [x] }
  | .read =>
    match s.queue with
    | x :: q => { s with queue := q, delivered := s.delivered ++ [x] }
    | [] => { s with waiting := s.waiting + 1 }

def qRun (s : QState) (ops : List QOp) : QState := ops.foldl qStep s

/-- The items put on the queue, in order. -/
def arrivalsOf : List QOp → List Item
  | [] => []
  | .arrive x :: ops => x :: arrivalsOf ops
  | .read :: ops => arrivalsOf ops

/-- The number of `read` calls. -/
def readsOf : List QOp → Nat
  | [] => 0
  | .arrive _ :: ops => readsOf ops
  | .read :: ops => readsOf ops + 1

/-- What `read()` does with the item it got: return the line or raise the queued error. -/
inductive ReadResult where
  | line (l : Str)
  | transportFailed
  deriving DecidableEq, Repr

def readResult : Item → ReadResult
  | .msg l => .line l
  | .err => .transportFailed

/-! ### The receive task -/

/-- How an awaited call or a task ends: normally, or by raising a Python exception. -/
inductive Outcome where
  | ok
  | raised (c : PyExn)
  deriving DecidableEq, Repr

/-- State of the `_handle_incoming` task. `finished r`: returned (`ok`), ended by cancellation
(`raised CancelledError`) or died with another exception. -/
inductive TaskState where
  | notStarted
  | waiting
  | finished (r : Outcome)
  deriving DecidableEq, Repr

/-- What the broker / aiomqtt / `_disconnect` does to the receive task. -/
inductive Evt where
  /-- the message iterator yields a message -/
  | message (topic : Str) (payload : List Nat)
  /-- the message iterator raises `MqttError` -/
  | mqttError
  /-- `task.cancel()` (and the loop runs the task until it has finished) -/
  | cancel
  deriving DecidableEq, Repr

/-- The `except UnicodeDecodeError` clause around `payload.decode()` (first in source order). -/
def innerClause : List PyExn := clause Gen.excMqttIncoming 0
/-- The `except MqttError` clause around the `async for` (second in source order). -/
def outerClause : List PyExn := clause Gen.excMqttIncoming 1

/-- An exception `c` raised inside the `async for` statement but outside the inner `try`: the outer
clause turns it into a queued error and the task returns; otherwise the task ends with `c`.
Result: how the task finished, and what it queued. -/
def raiseInLoop (c : PyExn) : Outcome × List Item :=
  if pyCaught c outerClause then (.ok, [.err]) else (.raised c, [])

/-- One loop iteration for a message taken from the iterator. -/
def onMessage (topic : Str) (payload : List Nat) : TaskState × List Item :=
  match utf8Decode payload with
  | some s => (.waiting, [.msg (toLine topic s)])
  | none =>
    if pyCaught .UnicodeDecodeError innerClause then (.waiting, [.err])
    else
      let r := raiseInLoop .UnicodeDecodeError
      (.finished r.1, r.2)

/-- `task.cancel()`, the loop then running the task until it has finished: how it finished and what it
queued on the way.  A task that never ran is finished without running its body; a waiting one gets
`CancelledError` at its await; a finished one is left alone. -/
def cancelTask : TaskState → Outcome × List Item
  | .finished r => (r, [])
  | .notStarted => (.raised .CancelledError, [])
  | .waiting => raiseInLoop .CancelledError

/-- One event: the new task state and what the task put on the queue.  A task that has not run yet
behaves like a waiting one for broker events (aiomqtt buffers them until the task first awaits).
A finished task ignores everything. -/
def taskStep : TaskState → Evt → TaskState × List Item
  | t, .cancel => (.finished (cancelTask t).1, (cancelTask t).2)
  | .finished r, _ => (.finished r, [])
  | _, .mqttError => (.finished (raiseInLoop .MqttError).1, (raiseInLoop .MqttError).2)
  | _, .message topic payload => onMessage topic payload

/-- Run the task over a list of events: final state and everything it queued, in order. -/
def taskRun : TaskState → List Evt → TaskState × List Item
  | t, [] => (t, [])
  | t, e :: es =>
    let r := taskStep t e
    let r' := taskRun r.1 es
    (r'.1, r.2 ++ r'.2)

/-! ### The whole transport: broker events interleaved with reads -/

inductive TOp where
  | broker (e : Evt)
  | read
  deriving DecidableEq, Repr

structure TState where
  task : TaskState := .waiting
  q : QState := {}
  deriving DecidableEq, Repr

def tStep (s : TState) : TOp → TState
  | .broker e =>
    let r := taskStep s.task e
    { task := r.1, q := qRun s.q (r.2.map .arrive) }
  | .read => { s with q := qStep s.q .read }

def tRun (s : TState) (ops : List TOp) : TState := ops.foldl tStep s

def eventsOf : List TOp → List Evt
  | [] => []
  | .broker e :: ops => e :: eventsOf ops
  | .read :: ops => eventsOf ops

def treadsOf : List TOp → Nat
  | [] => 0
  | .broker _ :: ops => treadsOf ops
  | .read :: ops => treadsOf ops + 1

/-! ### connect / disconnect / publish -/

/-- What the transport's public methods can raise. -/
inductive MqttExn where
  /-- `TransportError` (connect, subscribe) -/
  | transportError
  /-- `TransportFailedError` (publish; queued receive errors) -/
  | transportFailed
  /-- any other exception escaping -/
  | foreign (c : PyExn)
  deriving DecidableEq, Repr

/-- `try: await x except <clause> as err: raise <e> from err`. -/
def convert (classes : List PyExn) (e : MqttExn) (x : Outcome) : Except MqttExn Unit :=
  match x with
  | .ok => .ok ()
  | .raised c => if pyCaught c classes then .error e else .error (.foreign c)

/-- `MQTTClient._connect` followed by the subscriptions of `MQTTTransport.connect`:
`aenter` is the outcome of `client.__aenter__()`, `subs` the outcomes of the `client.subscribe` calls.
On success the receive task exists (created, first run at the `gather` await). -/
def connect (aenter : Outcome) (subs : List Outcome) : Except MqttExn TaskState :=
  match convert (clause Gen.excMqttConnect 0) .transportError aenter with
  | .error e => .error e
  | .ok () =>
    match subs.mapM (convert (clause Gen.excMqttSubscribe 0) MqttExn.transportError) with
    | .error e => .error e
    | .ok _ => .ok .waiting

/-! ### `MQTTTransport.connect` over the four documented hooks

The hooks are an extension point: what an implementation of `_connect` / `_subscribe` / `_disconnect`
raises is not limited to the library's errors (a time-out, an `OSError` from the socket, an error type
of the integration, a cancellation).  `Outcome` ranges over every Python exception class of the
vocabulary, so the definitions below say what `connect()` does for each of them. -/

/-- The exception `asyncio.gather(*calls)` propagates when the calls complete in the order they were
started: the one raised first; `none` when every call returned. -/
def firstRaised : List Outcome → Option PyExn
  | [] => none
  | .ok :: os => firstRaised os
  | .raised c :: _ => some c

/-- What one `MQTTTransport.connect()` call did. -/
structure HookConnect where
  /-- how the call ended for its caller -/
  result : Outcome
  /-- the topic filters subscribed on the connection the caller is left with: those whose `_subscribe`
  call returned; none when there is no connection (any more) -/
  inPlace : List Str
  /-- `_disconnect` was awaited by `connect()` itself (the clean-up of a failed subscription) -/
  cleanedUp : Bool
  deriving DecidableEq, Repr

/-- `MQTTTransport.connect`: `await self._connect()` (outcome `c`); one `_subscribe` call per generated
filter (`sub f` is the outcome of the call for filter `f`), gathered; `except BaseException: await
self._disconnect(); raise` (outcome `d` of the hook; an exception out of the clean-up replaces the one
being handled). -/
def hookConnect (inPrefix : Str) (c : Outcome) (sub : Str → Outcome) (d : Outcome) : HookConnect :=
  match c with
  | .raised e => ⟨.raised e, [], false⟩
  | .ok =>
    match firstRaised ((filters inPrefix).map sub) with
    | none => ⟨.ok, (filters inPrefix).filter fun f => sub f == .ok, false⟩
    | some e =>
      ⟨match d with
        | .ok => .raised e
        | .raised e' => .raised e', [], true⟩

/-- `MQTTTransport.write` with `MQTTClient._publish`: `pub` is the outcome of `client.publish`. -/
def write (outPrefix line : Str) (pub : Outcome) : Except MqttExn (Str × Str × Int) :=
  match toTopic outPrefix line with
  | none => .error (.foreign .ValueError)
  | some r =>
    match convert (clause Gen.excMqttPublish 0) .transportFailed pub with
    | .error e => .error e
    | .ok () => .ok r

/-- `task.cancel()` followed by `await task`: what the awaiter gets (the task's result or exception;
awaiting a cancelled task raises `CancelledError` in the awaiter). -/
def cancelAndAwait (t : TaskState) : Outcome := (cancelTask t).1

/-- `with contextlib.suppress(<clause>): await x`. -/
def suppress (classes : List PyExn) (x : Outcome) : Outcome :=
  match x with
  | .ok => .ok
  | .raised c => if pyCaught c classes then .ok else .raised c

/-- `MQTTClient._disconnect` when connected: cancel and await the receive task under the first
`suppress`, then `client.__aexit__` (outcome `aexit`) under the second. -/
def disconnect (t : TaskState) (aexit : Outcome) : Outcome :=
  match suppress (clause Gen.excMqttDisconnect 0) (cancelAndAwait t) with
  | .raised c => .raised c
  | .ok => suppress (clause Gen.excMqttDisconnect 1) aexit

end AioMySensors.Mqtt
