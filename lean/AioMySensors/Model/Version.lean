/-
Protocol selection, `get_protocol` in `model/protocol/__init__.py`.

The code hands the reported string to `awesomeversion` and takes the first key, newest first, that the
reported version is not below (`not AwesomeVersion(s) < AwesomeVersion(key)`, evaluated lazily by `next`).
`Model/AwesomeVersion.lean` models that comparison for EVERY Python `str`; `getProtocolX` is `get_protocol`
over it: a protocol, or the exception class the first failing comparison raises.

The release grammar `d+(.d+){1,3}` over ASCII digits (each component within CPython's digit limit) keeps its
own numeric definition (`verParse?`, `selectVer`, `getProtocolRelease?`); `C05.release_grammar_agrees` proves
that the awesomeversion model coincides with it there.
-/
import AioMySensors.Model.AwesomeVersion

namespace AioMySensors

/-- ASCII-decimal component within the digit limit. -/
def verComponent? (s : Str) : Option Nat :=
  if s ≠ [] ∧ s.all (fun c => c.isDigit) ∧ s.length ≤ Gen.pyMaxStrDigits then
    some (Nat.ofDigitChars 10 s 0) else none

/-- The components of a release version string, or `none` if it is not in the modelled grammar. -/
def verParse? (s : Str) : Option (List Nat) :=
  let parts := splitOn '.' s
  if 2 ≤ parts.length ∧ parts.length ≤ 4 then parts.mapM verComponent? else none

/-- major.minor of a parsed version. -/
def verKey : List Nat → Nat × Nat
  | a :: b :: _ => (a, b)
  | [a] => (a, 0)
  | [] => (0, 0)

/-- Lexicographic `<` on (major, minor). -/
def keyLt (x y : Nat × Nat) : Bool := x.1 < y.1 || (x.1 == y.1 && x.2 < y.2)

/-- Keys sorted descending (the code sorts the key strings in reverse). -/
def keysDesc : List (Ver × Nat × Nat) := Gen.versionKeys.reverse

/-- `get_protocol`: the first key, newest first, that the reported version is not below;
the default protocol if there is none. -/
def selectVer (x : Nat × Nat) : Ver :=
  match keysDesc.find? fun k => !keyLt x (k.2.1, k.2.2) with
  | some k => k.1
  | none => Gen.defaultVersion

/-- `get_protocol` on the release grammar, numerically (the definition the awesomeversion model is proved to
agree with on that grammar). -/
def getProtocolRelease? (s : Str) : Option Ver := (verParse? s).map fun p => selectVer (verKey p)

/-- The generator expression of `get_protocol`: keys newest first, the first one `s` is not below. -/
def getProtocolFrom (str : Str) (st : AvStrategy) : List (Ver × Nat × Nat) → Except AvErr Ver
  | [] => .ok Gen.defaultVersion
  | k :: ks =>
    match avLtKeyOf str st k.2.1 k.2.2 with
    | .error e => .error e
    | .ok false => .ok k.1
    | .ok true => getProtocolFrom str st ks

/-- `get_protocol(s)` for any `str`: the protocol, or what the first failing comparison raises. -/
def getProtocolX (s : Str) : Except AvErr Ver :=
  getProtocolFrom (avString (avNorm s)) (avStrategy (avString (avNorm s))) keysDesc

/-- The Python class of a comparison error.  `IndexError` is what awesomeversion's `sections` raises on a CalVer
string that ends in `".\n"` once stripped (e.g. `"20.1.2.\n."`, reachable through an MQTT payload); whether the
version handler catches it is read from the generated except tuple `Gen.excVersion`, like every other class. -/
def AvErr.toPy : AvErr → PyExn
  | .compare => .AwesomeVersionCompareException
  | .value => .ValueError
  | .index => .IndexError

/-- `get_protocol(s)` with the exception class. -/
def getProtocolE (s : Str) : Except PyExn Ver :=
  match getProtocolX s with
  | .ok v => .ok v
  | .error e => .error e.toPy

/-- `get_protocol(s)`: `none` = the comparison raises (mapped to `InvalidMessageError`). -/
def getProtocol? (s : Str) : Option Ver :=
  match getProtocolX s with
  | .ok v => some v
  | .error _ => none

end AioMySensors
