/-
The object-level vocabulary for the two pure mapping functions of `transport/mqtt.py`
(`MQTTTransport._parse_message_to_mqtt`, `_parse_mqtt_to_message`), the target of the fourth part of the body
translator (`tools/translate.py: translate_mqtt`): Python's string and list operations as the model's own text
functions, with the two ways a tuple assignment can fail.  `Generated/MqttBodies.lean` is written in this vocabulary;
`Lemmas/MqttBodiesEq.lean` proves the generated functions equal to `Mqtt.toTopic` / `Mqtt.toLine`.
-/
import AioMySensors.Model.Mqtt

namespace AioMySensors.LMq

abbrev PM (α : Type) := Except PyExn α

def bind (x : PM α) (f : α → PM β) : PM β :=
  match x with
  | .ok a => f a
  | .error e => .error e

/-- `*init, last = xs`: `ValueError` on an empty list. -/
def unpackInitLast (xs : List Str) : PM (List Str × Str) :=
  match xs.reverse with
  | [] => .error .ValueError
  | l :: r => .ok (r.reverse, l)

/-- `a, b, c, d, e = xs`: `ValueError` unless there are exactly five. -/
def unpack5 (xs : List Str) : PM (Str × Str × Str × Str × Str) :=
  match xs with
  | [a, b, c, d, e] => .ok (a, b, c, d, e)
  | _ => .error .ValueError

/-- `int(text)` -/
def pyInt (s : Str) : PM Int :=
  match pyInt? s with
  | some n => .ok n
  | none => .error .ValueError

/-- `xs[-n:]` for `n > 0` -/
def lastN (n : Nat) (xs : List Str) : List Str := Mqtt.lastN n xs

end AioMySensors.LMq
