/-
Vocabulary shared by the generated tables and the hand-written model.
Nothing in this file depends on the repository; it only names things the
translator (`tools/extract.py`) refers to.
-/
namespace AioMySensors

/-- The five protocol versions the library supports (`PROTOCOL_VERSIONS`). -/
inductive Ver where
  | v14 | v15 | v20 | v21 | v22
  deriving DecidableEq, Repr, Inhabited

def Ver.all : List Ver := [.v14, .v15, .v20, .v21, .v22]

def Ver.toNat : Ver → Nat
  | .v14 => 0 | .v15 => 1 | .v20 => 2 | .v21 => 3 | .v22 => 4

instance : LE Ver := ⟨fun a b => a.toNat ≤ b.toNat⟩
instance : LT Ver := ⟨fun a b => a.toNat < b.toNat⟩
instance (a b : Ver) : Decidable (a ≤ b) := inferInstanceAs (Decidable (a.toNat ≤ b.toNat))
instance (a b : Ver) : Decidable (a < b) := inferInstanceAs (Decidable (a.toNat < b.toNat))

theorem Ver.forall_iff (p : Ver → Prop) : (∀ v, p v) ↔ p .v14 ∧ p .v15 ∧ p .v20 ∧ p .v21 ∧ p .v22 :=
  ⟨fun h => ⟨h _, h _, h _, h _, h _⟩, fun ⟨a, b, c, d, e⟩ v => by cases v <;> assumption⟩

/-- Statements quantified over the five versions are decidable when each instance is. -/
instance (p : Ver → Prop) [DecidablePred p] : Decidable (∀ v, p v) :=
  decidable_of_iff _ (Ver.forall_iff p).symm

/-- The two decorators that wrap incoming handlers. -/
inductive Wrapper where
  /-- `protocol_14.handle_missing_protocol_version` (try/finally: version query). -/
  | missingPV
  /-- `protocol_20.handle_missing_node_child` (except Missing*: presentation request). -/
  | missingNC
  deriving DecidableEq, Repr

/-- Function bodies of incoming handlers the model knows, by defining module and name. -/
inductive Body where
  | presentation14 | set14 | req14 | internal14 | stream14
  | iVersion14 | iIdRequest14 | iConfig14 | iTime14
  | iBatteryLevel14 | iSketchName14 | iSketchVersion14
  /-- `protocol_20.handle_presentation`: drop the request marker, then `super()`. -/
  | presentation20
  | iGatewayReady20 | iDiscoverResponse20 | iHeartbeatResponse20
  | iHeartbeatResponse22 | iPreSleepNotification22
  deriving DecidableEq, Repr

/-- One layer of a resolved handler: a decorator, or a body that ends in `super().same(...)`. -/
inductive Layer where
  | wrap (w : Wrapper)
  | pre (b : Body)
  deriving DecidableEq, Repr

/-- A resolved handler: the layers from the outside in, and the innermost body. -/
structure Chain where
  layers : List Layer
  base : Body
  deriving DecidableEq, Repr

/-- Bodies of outgoing handlers. -/
inductive OutBody where
  /-- write the line at once -/
  | direct
  /-- `protocol_14.OutgoingMessageHandler.handle_set`: park for a sleeping node, else write -/
  | set14
  deriving DecidableEq, Repr

/-- Python exception classes the model distinguishes. -/
inductive PyExn where
  | KeyError | ValueError | TypeError | AttributeError | OverflowError | RecursionError
  | UnicodeDecodeError | JSONDecodeError | OSError | FileNotFoundError
  | ValidationError | AwesomeVersionException | AwesomeVersionCompareException
  | LimitOverrunError | IncompleteReadError | CancelledError | MqttError
  | RuntimeError | IndexError | Exception
  deriving DecidableEq, Repr

/-- Kinds of marshmallow field the persistence schemas use. -/
inductive FieldKind where
  | int | str | bool | dictIntStr | dictIntNested
  deriving DecidableEq, Repr

structure FieldSpec where
  name : String
  kind : FieldKind
  required : Bool
  range : Option (Int × Int)
  deriving DecidableEq, Repr

end AioMySensors
