/-
The object-level vocabulary the body translator (`tools/translate.py`) compiles Python statements
into.  One definition per Python operation on the objects the handlers touch (`gateway.nodes`, a
`Node`, its `children`, a `Child`'s `values`, the two dictionaries of `MessageBuffer`), with the
exception Python raises where Python raises one.  `Generated/Bodies.lean` is written in this
vocabulary; `Lemmas/BodiesEq.lean` proves each generated body equal to the hand-written handler the
property theorems speak about.
-/
import AioMySensors.Model.Handlers

namespace AioMySensors.Lit
open M

/-- `id in gateway.nodes` -/
def nodeIn (id : Int) : M Bool := bind getSt fun st => pure (st.nodes.has id)

/-- `gateway.nodes[id]` in load position: `KeyError` when absent. -/
def nodeAt (id : Int) : M Node :=
  bind getSt fun st =>
  match st.nodes.get? id with
  | some n => pure n
  | none => raise (.foreign .KeyError)

/-- `gateway.nodes.get(id)` -/
def nodeGet (id : Int) : M (Option Node) := bind getSt fun st => pure (st.nodes.get? id)

/-- `gateway.nodes[id] = n` -/
def storeNode (id : Int) (n : Node) : M Unit := setNode id n

/-- A mutation of the node object registered under `id` (an attribute store or a mutating method
call through `gateway.nodes[id]` or a local alias of it): the object is found by its key. -/
def updateNode (id : Int) (f : Node → Except Exn Node) : M Unit :=
  bind (nodeAt id) fun n =>
  match f n with
  | .ok n' => setNode id n'
  | .error e => raise e

/-- `bool(gateway.nodes)` -/
def nodesNonEmpty : M Bool := bind getSt fun st => pure (!st.nodes.isEmpty)

/-- `max(gateway.nodes)`: `ValueError` on an empty dict. -/
def maxNodeKey : M Int :=
  bind getSt fun st =>
  match st.nodes.keys with
  | [] => raise (.foreign .ValueError)
  | k :: ks => pure (ks.foldl max k)

/-- `c in node.children` -/
def childIn (n : Node) (c : Int) : Bool := n.children.has c

/-- `node.children[c]`: `KeyError` when absent. -/
def childAt (n : Node) (c : Int) : Except Exn Child :=
  match n.children.get? c with
  | some ch => .ok ch
  | none => .error (.foreign .KeyError)

/-- Lift a pure partial operation into a handler. -/
def liftE (x : Except Exn α) : M α :=
  match x with
  | .ok a => pure a
  | .error e => raise e

/-- `Child(child_id, child_type, description=..., values=None)` -/
def newChild (cid ctype : Int) (desc : Str) : Child := ⟨cid, ctype, desc, []⟩

/-- `Node(node_id, node_type, protocol_version)` (the id is the registry key) -/
def newNode (ntype : Int) (pv : Str) : Node := { ntype := ntype, pv := pv }

/-- `key in message_buffer.internal_messages` -/
def ibufHas (k : Key) : M Bool := bind getSt fun st => pure (st.ibuf.has k)

/-- `message_buffer.internal_messages[k] = msg` -/
def ibufSet (k : Key) (msg : Msg) : M Unit := modifySt fun s => { s with ibuf := s.ibuf.set k msg }

/-- `message_buffer.internal_messages.pop(k)`: `KeyError` when absent. -/
def ibufPop (k : Key) : M Unit :=
  bind getSt fun st =>
  if st.ibuf.has k then modifySt fun s => { s with ibuf := s.ibuf.erase k }
  else raise (.foreign .KeyError)

/-- `message_buffer.set_messages[k] = msg` -/
def sbufSet (k : Key) (msg : Msg) : M Unit := modifySt fun s => { s with sbuf := s.sbuf.set k msg }

/-- `message_buffer.set_messages.get(k) is msg` (object identity is value equality in this model;
the interleaving model of C09 keeps identities apart). -/
def sbufHolds (k : Key) (msg : Msg) : M Bool := bind getSt fun st => pure (st.sbuf.get? k = some msg)

/-- `message_buffer.set_messages.pop(k)`: `KeyError` when absent. -/
def sbufPop (k : Key) : M Unit :=
  bind getSt fun st =>
  if st.sbuf.has k then modifySt fun s => { s with sbuf := s.sbuf.erase k }
  else raise (.foreign .KeyError)

/-- `{k: v for k, v in message_buffer.set_messages.items() if p(k, v)}` -/
def sbufSnapshot (p : Key × Msg → Bool) : M (List (Key × Msg)) := bind getSt fun st => pure (st.sbuf.filter p)

/-- `for x in xs: body(x)` -/
def forEach : List α → (α → M Unit) → M Unit
  | [], _ => pure ()
  | x :: xs, body => seq (body x) (forEach xs body)

/-- `gateway.protocol_version is None` -/
def versionUnknown : M Bool := bind getSt fun st => pure st.pv.isNone

/-- `gateway.protocol.Internal(t)` / `gateway.protocol.Stream(t)`: `ValueError` when `t` is not a member
of the active protocol's enum; the result is the member's lower-cased name. -/
def enumMember (table : Ver → List (Int × String)) (t : Int) : M String :=
  bind getSt fun st =>
  match (table st.proto).lookup t with
  | some name => pure name
  | none => raise (.foreign .ValueError)

/-- `int(s)` -/
def pyIntE (s : Str) : Except PyExn Int :=
  match pyInt? s with
  | some n => .ok n
  | none => .error .ValueError

/-- An exception of a dependency propagating as it is. -/
def liftPy (x : Except PyExn α) : M α :=
  match x with
  | .ok a => pure a
  | .error c => raise (.foreign c)

/-- `try: x except (classes) as err: raise <library error> from err` around an effectful statement. -/
def catchTo (x : M α) (classes : List PyExn) (e : LibErr) : M α :=
  tryCatch x fun ex =>
    match ex with
    | .foreign c => if pyCaught c classes then some (raise (.lib e)) else none
    | .lib _ => none

/-- Does `except (names)` — library error classes, by name — catch this exception? -/
def libCaught (e : Exn) (names : List String) : Bool :=
  match e with
  | .lib (.missingNode _) => names.contains "MissingNodeError"
  | .lib (.missingChild _) => names.contains "MissingChildError"
  | .lib .invalidMessage => names.contains "InvalidMessageError"
  | .lib .tooManyNodes => names.contains "TooManyNodesError"
  | .lib .unsupported => names.contains "UnsupportedMessageError"
  | .lib .transportFailed => names.contains "TransportFailedError"
  | .foreign _ => false

end AioMySensors.Lit
