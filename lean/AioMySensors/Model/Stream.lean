/-
C17 — the stream transports (`transport/__init__.py: StreamTransport`, `tcp.py`, `serial.py`).

`Reader` models `asyncio.StreamReader` as far as `readuntil(b"\n")` is concerned.  Measured on
CPython 3.12.1 (limit `L`, body = the line without its newline):

* separator in the buffer and body ≤ `L`  → the line (with its newline), consumed;
* separator in the buffer and body > `L`  → `LimitOverrunError`, buffer *not* consumed;
* no separator and buffer longer than `L` → `LimitOverrunError` (also at EOF), buffer not consumed;
* no separator, buffer ≤ `L`, EOF         → `IncompleteReadError(partial = buffer)`, buffer cleared
                                             (so every later read raises it with an empty partial);
* no separator, buffer ≤ `L`, no EOF      → the coroutine waits for the next `feed_data`/`feed_eof`;
* an exception set on the reader (`set_exception`, what `connection_lost(exc)` does) is raised by
  every read, before the buffer is looked at.

A read that waits resumes its scan where it stopped; for a one-byte separator that is the same as
running `readuntil` afresh on the longer buffer, which is how `wait` is modelled: the caller
retries after the next feed.

`Transport` models `StreamTransport`: `connect`, `disconnect`, `read`, `write`, with the exception
mapping read from the generated `except` tuples (`Gen.excStream*`).  UTF-8 decoding is a parameter
(`String.fromUTF8?` in the driver), encoding is core's `String.toUTF8`.
-/
import AioMySensors.Model.Effects

namespace AioMySensors.Stream
open AioMySensors

abbrev Bytes := List UInt8

/-- `TERMINATOR = b"\n"` (the translator refuses any other value; see `C17.nl_is_terminator`). -/
def nl : UInt8 := 10

/-- `asyncio.StreamReader`: the part of its state `readuntil` depends on. -/
structure Reader where
  buf : Bytes := []
  eof : Bool := false
  limit : Nat
  /-- `_exception`, set by `set_exception` -/
  exc : Option PyExn := none
  deriving DecidableEq, Repr

/-- `feed_data(c)` (CPython asserts that `feed_eof` has not been called; schedules respect that). -/
def Reader.feed (r : Reader) (c : Bytes) : Reader := { r with buf := r.buf ++ c }

/-- `feed_eof()` -/
def Reader.feedEof (r : Reader) : Reader := { r with eof := true }

/-- `set_exception(c)` -/
def Reader.setException (r : Reader) (c : PyExn) : Reader := { r with exc := some c }

/-- Split at the first newline: the body before it and what follows it. -/
def splitNl : Bytes → Option (Bytes × Bytes)
  | [] => none
  | b :: bs =>
    if b = nl then some ([], bs)
    else match splitNl bs with
      | some (body, rest) => some (b :: body, rest)
      | none => none

/-- Outcome of one `readuntil(b"\n")`. -/
inductive Raw where
  | line (bytes : Bytes)            -- includes the newline
  | wait                            -- suspended until the next feed
  | limitOverrun
  | incomplete (part : Bytes)
  | raised (c : PyExn)              -- the exception set on the reader
  deriving DecidableEq, Repr

/-- `await reader.readuntil(b"\n")`. -/
def Reader.readuntil (r : Reader) : Raw × Reader :=
  match r.exc with
  | some c => (.raised c, r)
  | none =>
    match splitNl r.buf with
    | some (body, rest) =>
      if body.length ≤ r.limit then (.line (body ++ [nl]), { r with buf := rest })
      else (.limitOverrun, r)
    | none =>
      if r.limit < r.buf.length then (.limitOverrun, r)
      else if r.eof then (.incomplete r.buf, { r with buf := [] })
      else (.wait, r)

/-! ### The transport -/

/-- The library's transport errors: `TransportError` and its two subclasses. -/
inductive TErr where
  | transportError      -- plain `TransportError`
  | transportRead       -- `TransportReadError`
  | transportFailed     -- `TransportFailedError`
  deriving DecidableEq, Repr

/-- What propagates out of a transport method. -/
inductive TExn where
  | lib (e : TErr)
  | foreign (c : PyExn)
  deriving DecidableEq, Repr

/-- Result of `await transport.read()`. -/
inductive ReadRes where
  | ok (line : Str)
  | err (e : TExn)
  | wait
  deriving DecidableEq, Repr

/-- The library error an `except` clause of `read` raises, by the class name the translator found in its `raise`. -/
def clauseErr : String → Option TErr
  | "TransportError" => some .transportError
  | "TransportReadError" => some .transportRead
  | "TransportFailedError" => some .transportFailed
  | _ => none

/-- One `try` statement of `read` (its clauses in source order, each with the library error it raises) applied to
an exception of class `c`: the first clause that catches it decides; a clause that does something else than raising
a library transport error lets the model say "another exception". -/
def mapBlock (block : List (List PyExn × String)) (c : PyExn) : TExn :=
  match block.find? fun cl => pyCaught c cl.1 with
  | some cl =>
    match clauseErr cl.2 with
    | some e => .lib e
    | none => .foreign c
  | none => .foreign c

/-- The `try` around `readuntil` in `read` (first block of the generated table; today
`LimitOverrunError → TransportReadError`, `IncompleteReadError → TransportReadError`, `OSError → TransportFailedError`);
anything else propagates. -/
def mapReadExn (c : PyExn) : TExn := mapBlock (Gen.excStreamReadBlocks.getD 0 []) c

/-- The `try` around `read.decode()` (second block; today `UnicodeDecodeError → TransportReadError`). -/
def decodeExn : TExn := mapBlock (Gen.excStreamReadBlocks.getD 1 []) .UnicodeDecodeError

/-- From the outcome of `readuntil` to the outcome of `read`. -/
def finish (decodeUtf8 : Bytes → Option Str) : Raw → ReadRes
  | .line b =>
    match decodeUtf8 b with
    | some s => .ok s
    | none => .err decodeExn
  | .wait => .wait
  | .limitOverrun => .err (mapReadExn .LimitOverrunError)
  | .incomplete _ => .err (mapReadExn .IncompleteReadError)
  | .raised c => .err (mapReadExn c)

/-- `str.encode()` -/
def encodeUtf8 (s : Str) : Bytes := (String.ofList s).toUTF8.toList

/-- The `asyncio.StreamWriter` as the transport sees it: the bytes accepted by `write`, and
whether `close()` has completed. -/
structure Writer where
  out : Bytes := []
  closed : Bool := false
  deriving DecidableEq, Repr

structure Conn where
  reader : Reader
  writer : Writer := {}
  deriving DecidableEq, Repr

/-- `StreamTransport`: `reader`/`writer` are `None` until `connect` succeeds. -/
structure Transport where
  conn : Option Conn := none
  deriving DecidableEq, Repr

/-- Where an injected exception strikes inside `write`. -/
inductive WriteFault where
  | clean
  | atWrite (c : PyExn)     -- `writer.write(...)` raises: nothing reaches the stream
  | atDrain (c : PyExn)     -- `await writer.drain()` raises: the bytes were accepted
  deriving DecidableEq, Repr

/-- Where an injected exception strikes inside `disconnect`. -/
inductive CloseFault where
  | clean
  | atClose (c : PyExn)         -- `writer.close()` raises
  | atWaitClosed (c : PyExn)    -- `await writer.wait_closed()` raises
  deriving DecidableEq, Repr

/-- The exception injected into a call, if any. -/
def WriteFault.exn? : WriteFault → Option PyExn
  | .clean => Option.none
  | .atWrite c => some c
  | .atDrain c => some c

/-- The exception injected into `disconnect`, if any. -/
def CloseFault.exn? : CloseFault → Option PyExn
  | .clean => Option.none
  | .atClose c => some c
  | .atWaitClosed c => some c

def mapBy (classes : List PyExn) (e : TErr) (c : PyExn) : TExn :=
  if pyCaught c classes then .lib e else .foreign c

/-- `connect()`: `_open_connection()` either raises `c` or returns a fresh reader/writer pair. -/
def Transport.connect (t : Transport) (limit : Nat) (fault : Option PyExn) : Option TExn × Transport :=
  match fault with
  | some c => (some (mapBy (clause Gen.excStreamConnect 0) .transportError c), t)
  | none => (none, { conn := some { reader := { limit := limit } } })

/-- `read()` -/
def Transport.read (decodeUtf8 : Bytes → Option Str) (t : Transport) : ReadRes × Transport :=
  match t.conn with
  | none => (.err (.lib .transportError), t)
  | some cn =>
    match cn.reader.readuntil with
    | (x, r') => (finish decodeUtf8 x, { conn := some { cn with reader := r' } })

/-- `write(line)` -/
def Transport.write (t : Transport) (line : Str) (fault : WriteFault) : Option TExn × Transport :=
  match t.conn with
  | none => (some (.lib .transportError), t)
  | some cn =>
    match fault with
    | .atWrite c => (some (mapBy (clause Gen.excStreamWrite 0) .transportFailed c), t)
    | .atDrain c =>
      (some (mapBy (clause Gen.excStreamWrite 0) .transportFailed c),
       { conn := some { cn with writer := { cn.writer with out := cn.writer.out ++ encodeUtf8 line } } })
    | .clean =>
      (none, { conn := some { cn with writer := { cn.writer with out := cn.writer.out ++ encodeUtf8 line } } })

/-- An exception escaping `disconnect`: the clause's classes are absorbed. -/
def absorb (c : PyExn) : Option TExn :=
  if pyCaught c (clause Gen.excStreamDisconnect 0) then none else some (.foreign c)

/-- `disconnect()`: a no-op without a writer; otherwise `close()` then `wait_closed()`. -/
def Transport.disconnect (t : Transport) (fault : CloseFault) : Option TExn × Transport :=
  match t.conn with
  | none => (none, t)
  | some cn =>
    match fault with
    | .atClose c => (absorb c, t)
    | .atWaitClosed c => (absorb c, { conn := some { cn with writer := { cn.writer with closed := true } } })
    | .clean => (none, { conn := some { cn with writer := { cn.writer with closed := true } } })

/-! ### Schedules: the byte stream arriving in chunks while the consumer reads -/

/-- One event on a connected transport: a chunk arrives, the stream ends, or the consumer asks for
the next line.  (Reads are sequential: a new `read()` is only issued when the previous one has
returned; `pending` below counts the requests not yet answered.) -/
inductive Ev where
  | feed (c : Bytes)
  | eof
  | read
  deriving DecidableEq, Repr

/-- The effect of an arrival on the transport's reader (nothing if not connected). -/
def Transport.arrive (t : Transport) : Ev → Transport
  | .feed c => match t.conn with
    | some cn => { conn := some { cn with reader := cn.reader.feed c } }
    | none => t
  | .eof => match t.conn with
    | some cn => { conn := some { cn with reader := cn.reader.feedEof } }
    | none => t
  | .read => t

def Ev.reads : Ev → Nat
  | .read => 1
  | _ => 0

/-- Serve up to `n` outstanding read requests, stopping at the first one that has to wait. -/
def Transport.readN (d : Bytes → Option Str) : Nat → Transport → List ReadRes × Transport
  | 0, t => ([], t)
  | n + 1, t =>
    match Transport.read d t with
    | (.wait, _) => ([], t)
    | (x, t') =>
      match Transport.readN d n t' with
      | (xs, t'') => (x :: xs, t'')

/-- Run a schedule: after every event the outstanding reads are served as far as the buffered
data allows (a waiting read is resumed by the next arrival).  Returns the results of the completed
reads in order. -/
def Transport.run (d : Bytes → Option Str) : Transport → Nat → List Ev → List ReadRes
  | _, _, [] => []
  | t, pending, ev :: evs =>
    match Transport.readN d (pending + ev.reads) (t.arrive ev) with
    | (xs, t') => xs ++ Transport.run d t' (pending + ev.reads - xs.length) evs

/-- The chunks of a schedule, in order. -/
def feedsOf : List Ev → List Bytes
  | [] => []
  | .feed c :: evs => c :: feedsOf evs
  | _ :: evs => feedsOf evs

/-- The number of reads a schedule asks for. -/
def readsOf : List Ev → Nat
  | [] => 0
  | ev :: evs => ev.reads + readsOf evs

/-- asyncio's contract: no `feed_data` after `feed_eof` (`eofSeen` = EOF was already fed). -/
def WF : Bool → List Ev → Prop
  | _, [] => True
  | eofSeen, .feed _ :: evs => eofSeen = false ∧ WF eofSeen evs
  | _, .eof :: evs => WF true evs
  | eofSeen, .read :: evs => WF eofSeen evs

/-- A freshly connected transport with reader limit `L`. -/
def connected (L : Nat) : Transport := { conn := some { reader := { limit := L } } }

end AioMySensors.Stream
