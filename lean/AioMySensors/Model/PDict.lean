/-
Python `dict` as an association list in insertion order.
`set` replaces in place or appends, `erase` removes, iteration order is list order.
Well-formedness (no duplicate keys) is a separate predicate, not a subtype.
-/
namespace AioMySensors

abbrev PDict (κ : Type) (α : Type) := List (κ × α)

namespace PDict
variable {κ α : Type} [DecidableEq κ]

/-- `d.get(k)` -/
def get? : PDict κ α → κ → Option α
  | [], _ => none
  | (k', v) :: rest, k => if k' = k then some v else get? rest k

/-- `k in d` -/
def has (d : PDict κ α) (k : κ) : Bool := (get? d k).isSome

/-- `d[k] = v` -/
def set : PDict κ α → κ → α → PDict κ α
  | [], k, v => [(k, v)]
  | (k', v') :: rest, k, v => if k' = k then (k', v) :: rest else (k', v') :: set rest k v

/-- `d.pop(k)` (the key is known to be present where the code uses it) -/
def erase : PDict κ α → κ → PDict κ α
  | [], _ => []
  | (k', v') :: rest, k => if k' = k then rest else (k', v') :: erase rest k

def keys (d : PDict κ α) : List κ := d.map (·.1)

/-- No key occurs twice. -/
def WF (d : PDict κ α) : Prop := (keys d).Nodup

end PDict
end AioMySensors
