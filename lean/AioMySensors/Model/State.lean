/-
Controller state: the node registry (`model/node.py`), the reported protocol version, the active
protocol, and the two dictionaries of `MessageBuffer` (`gateway.py`).
-/
import AioMySensors.Model.Codec
import AioMySensors.Model.PDict

namespace AioMySensors

/-- `aiomysensors.model.node.Child` -/
structure Child where
  cid : Int
  ctype : Int
  desc : Str
  values : PDict Int Str
  deriving DecidableEq, Repr, Inhabited

/-- `aiomysensors.model.node.Node` (the node id is the registry key). -/
structure Node where
  ntype : Int
  pv : Str
  children : PDict Int Child := []
  sketchName : Str := []
  sketchVersion : Str := []
  battery : Int := 0
  heartbeat : Int := 0
  reboot : Bool := false
  sleeping : Bool := false
  deriving DecidableEq, Repr, Inhabited

/-- Key of both message buffers: (node id, child id, message type). -/
abbrev Key := Int × Int × Int

def Msg.key (m : Msg) : Key := (m.node, m.child, m.type)

/-- `Gateway` state. -/
structure St where
  nodes : PDict Int Node := []
  /-- `gateway.protocol_version` -/
  pv : Option Str := none
  /-- `gateway.protocol` -/
  proto : Ver := Gen.defaultVersion
  /-- `MessageBuffer.internal_messages`: markers of presentation requests already sent -/
  ibuf : PDict Key Msg := []
  /-- `MessageBuffer.set_messages`: the sleep buffer -/
  sbuf : PDict Key Msg := []
  deriving DecidableEq, Repr, Inhabited

/-- Read-only inputs of a step: `Config.metric` and the broken-down local time that
`time.localtime()` returns during this step. -/
structure Env where
  metric : Bool := true
  year : Nat := 1970
  month : Nat := 1
  day : Nat := 1
  hour : Nat := 0
  minute : Nat := 0
  second : Nat := 0
  deriving Repr, Inhabited

/-- Days from 1970-01-01 to the given proleptic Gregorian date (month 1-12). -/
def daysFromCivil (y m d : Nat) : Int :=
  let y' : Int := if m ≤ 2 then (y : Int) - 1 else y
  let era : Int := y' / 400
  let yoe : Int := y' - era * 400
  let mp : Int := if m > 2 then (m : Int) - 3 else (m : Int) + 9
  let doy : Int := (153 * mp + 2) / 5 + (d : Int) - 1
  let doe : Int := yoe * 365 + yoe / 4 - yoe / 100 + doy
  era * 146097 + doe - 719468

/-- `calendar.timegm(time.localtime())` for the step's local time. -/
def Env.timegm (e : Env) : Int :=
  ((daysFromCivil e.year e.month e.day * 24 + e.hour) * 60 + e.minute) * 60 + e.second

end AioMySensors
