/-
The object-level vocabulary for the marshmallow hooks and the constructors of `model/node.py`, the target of
`tools/translate_nodeschema.py`:

* the `pre_load` hooks `NodeSchema.handle_compatibility` / `ChildSchema.handle_compatibility` are compiled statement by
  statement into a small state monad `HM` whose state is the object the parameter `data` refers to — whatever
  `json.loads` put in a node's (child's) place, not only a dict — with one primitive per Python operation on it
  (`k in data`, `data.pop(k)`, `data[k]`, `data[k] = v`), each raising what Python raises on that kind of object;
* the `post_load` hooks `make_node` / `make_child` (`Node(**data)`, `Child(**data)`) and `Node.__init__` / `Child.__init__`
  are compiled into a keyword-argument binding (`kwargs`, `arg*`: parameter list and defaults read from the live
  signature) followed by the attribute stores of the body.

What marshmallow does between the two hooks (`Schema._deserialize`: field by field over the declarations of the
generated tables `Gen.nodeSchema` / `Gen.childSchema`) is `Schema.loadRecord`, used as constant glue by
`Generated/NodeSchemaBodies.lean`.  `Lemmas/NodeSchemaBodiesEq.lean` proves the generated hooks and constructors equal
to `Schema.nodePreLoad` / `childPreLoad` / `mkNode` / `mkChild` and the assembled loads equal to `Schema.loadNode` /
`loadChild` (what C13 and C14 speak about through `Persist.loadFile`).
-/
import AioMySensors.Model.Schema

namespace AioMySensors.LN
open AioMySensors Schema

/-! ### `pre_load` hooks: operations on the object `data` refers to -/

/-- A hook's computation: the state is the object bound to `data` (mutated in place); it stops with the Python
exception class raised. -/
abbrev HM (α : Type) := Json → Except PyExn (α × Json)

def pure {α : Type} (a : α) : HM α := fun d => .ok (a, d)

def bind {α β : Type} (x : HM α) (f : α → HM β) : HM β := fun d =>
  match x d with
  | .ok (a, d') => f a d'
  | .error e => .error e

def seq {β : Type} (x : HM Unit) (y : HM β) : HM β := bind x fun _ => y

/-- an `if` without `else` whose condition is false -/
def skip : HM Unit := pure ()

/-- `k in data` for a `str` constant `k`: a dict has the key; a string contains it; a list has it as an element;
a number, `True`/`False`, `None` are not iterable (`TypeError`). -/
def contains (k : Str) : HM Bool := fun d =>
  match d with
  | .obj kvs => .ok (PDict.has kvs k, d)
  | .str s => .ok (hasSub k s, d)
  | .arr xs => .ok (xs.any (Json.isStr k), d)
  | _ => .error .TypeError

/-- `data.pop(k)`: a dict gives the value up and forgets the key (`KeyError` when absent); `list.pop("k")` is a
`TypeError` (not an index); every other kind of object has no `pop` (`AttributeError`). -/
def pop (k : Str) : HM Json := fun d =>
  match d with
  | .obj kvs =>
    match PDict.get? kvs k with
    | some v => .ok (v, .obj (PDict.erase kvs k))
    | none => .error .KeyError
  | .arr _ => .error .TypeError
  | _ => .error .AttributeError

/-- `data[k]`: `KeyError` on a dict without the key; a string or list index must be an integer and the other kinds are
not subscriptable (`TypeError`). -/
def getItem (k : Str) : HM Json := fun d =>
  match d with
  | .obj kvs =>
    match PDict.get? kvs k with
    | some v => .ok (v, d)
    | none => .error .KeyError
  | _ => .error .TypeError

/-- `data[k] = v`: only a dict supports it with a `str` key (`TypeError` otherwise). -/
def setItem (k : Str) (v : Json) : HM Unit := fun d =>
  match d with
  | .obj kvs => .ok ((), .obj (PDict.set kvs k v))
  | _ => .error .TypeError

/-- `x is None` (also `x == None`: no JSON value other than `None` equals it). -/
def isNone (v : Json) : Bool := v.isNull

/-- `return data` -/
def retData : HM Json := fun d => .ok (d, d)

/-- What marshmallow passes on: the hook's return value. -/
def run (h : HM Json) (j : Json) : Except PyExn Json :=
  match h j with
  | .ok (r, _) => .ok r
  | .error e => .error e

/-! ### Constructors: `Cls(**data)` and the attribute stores of `__init__` -/

/-- `Cls(**data)`: a key of `data` that is no parameter is `TypeError` (unexpected keyword argument). -/
def kwargs (r : Rec) (params : List String) : Except PyExn Unit :=
  if r.all fun kv => params.contains kv.1 then .ok () else .error .TypeError

/-- The value bound to a parameter whose schema field is `fields.Int`: `dflt = none` is a parameter without default
(its absence: `TypeError`).  A value of another kind than the field delivers means the generated tables have left
the modelled fragment (`Exception`, which nothing catches). -/
def argInt (r : Rec) (name : String) (dflt : Option Int) : Except PyExn Int :=
  match r.lookup name with
  | some (.int n) => .ok n
  | some _ => .error .Exception
  | none => match dflt with
    | some d => .ok d
    | none => .error .TypeError

/-- … `fields.Str` -/
def argStr (r : Rec) (name : String) (dflt : Option Str) : Except PyExn Str :=
  match r.lookup name with
  | some (.str s) => .ok s
  | some _ => .error .Exception
  | none => match dflt with
    | some d => .ok d
    | none => .error .TypeError

/-- … `fields.Bool` -/
def argBool (r : Rec) (name : String) (dflt : Option Bool) : Except PyExn Bool :=
  match r.lookup name with
  | some (.bool b) => .ok b
  | some _ => .error .Exception
  | none => match dflt with
    | some d => .ok d
    | none => .error .TypeError

/-- … `fields.Dict(keys=Int, values=Str)`, default `None` -/
def argStrDictOrNone (r : Rec) (name : String) : Except PyExn (Option (PDict Int Str)) :=
  match r.lookup name with
  | some (.strDict d) => .ok (some d)
  | some _ => .error .Exception
  | none => .ok none

/-- … `fields.Dict(keys=Int, values=Nested(ChildSchema))`, default `None` -/
def argChildDictOrNone (r : Rec) (name : String) : Except PyExn (Option (PDict Int Child)) :=
  match r.lookup name with
  | some (.childDict d) => .ok (some d)
  | some _ => .error .Exception
  | none => .ok none

/-- `d or {}` for `d : dict | None` (an empty dict is falsy and replaced by another empty dict). -/
def orEmpty {κ α : Type} : Option (PDict κ α) → PDict κ α
  | some d => d
  | none => []

/-- `int(n)` for an `int` -/
def pyIntOfInt (n : Int) : Int := n

end AioMySensors.LN
