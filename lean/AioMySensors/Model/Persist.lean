/-
`Persistence.save` / `Persistence.load` (`src/aiomysensors/persistence.py`) at the level of JSON
values.  Text ↔ value (`json.dumps(sort_keys=True, indent=2)` / `json.loads`) is modelled
separately in `Model/JsonText.lean` (`render`, `parse`, `saveSorted`, `saveText`, `classify`).
Here `save` lists nodes, children and values in the registry's insertion order, whereas the file
has them sorted by key; observations at this level are therefore compared as Python compares dicts
(order-insensitive on the save side, file order on the load side).

`load` is two `try` blocks.  The first (open, read, `json.loads`) has the generated clauses
`Gen.excPersistLoad[0]` (missing file → create it by `save()`) and `[1]` (→ `PersistenceReadError`);
the second (`data.values()`, `NodeSchema().load`, registry update) has clause `[2]`.
`load` updates the registry in place node by node; the model returns the outcome class and, for a
load that succeeds, the registry.
-/
import AioMySensors.Model.Schema
import AioMySensors.Model.Effects

namespace AioMySensors.Persist
open AioMySensors Schema

/-- The persistence errors of `exceptions.py`. -/
inductive LibErr where
  | persistenceRead
  | persistenceWrite
  deriving DecidableEq, Repr

/-- What can propagate out of `load`: a library error or any other Python exception. -/
inductive Exn where
  | lib (e : LibErr)
  | foreign (c : PyExn)
  deriving DecidableEq, Repr

/-- `Persistence.save`, the value handed to `json.dumps`: `{node.node_id: NodeSchema().dump(node)}`. -/
def save (r : PDict Int Node) : Json :=
  .obj (r.map fun kv => (dec kv.1, saveNode kv.1 kv.2))

/-- `for node_data in data.values(): node = load(node_data); self.nodes[node.node_id] = node`.
The keys of the top-level object are never looked at. -/
def loadNodes (acc : PDict Int Node) : List (Str × Json) → Except PyExn (PDict Int Node)
  | [] => .ok acc
  | (_, v) :: rest =>
    match loadNode v with
    | .ok (id, n) => loadNodes (acc.set id n) rest
    | .error e => .error e

/-- The body of the second `try`, with the Python exception class it raises. -/
def loadRaw (cur : PDict Int Node) : Json → Except PyExn (PDict Int Node)
  | .obj kvs => loadNodes cur kvs
  | _ => .error .AttributeError                       -- `data.values()` on a non-dict

/-- `try: ... except <classes> as err: raise PersistenceReadError(err) from err` -/
def mapRead {α : Type} (classes : List PyExn) (x : Except PyExn α) : Except Exn α :=
  match x with
  | .ok a => .ok a
  | .error c => if pyCaught c classes then .error (.lib .persistenceRead) else .error (.foreign c)

/-- `load` once the file's text has been parsed to `j`, into the registry `cur`. -/
def loadInto (cur : PDict Int Node) (j : Json) : Except Exn (PDict Int Node) :=
  mapRead (clause Gen.excPersistLoad 2) (loadRaw cur j)

/-- `load` into an empty registry. -/
def load (j : Json) : Except Exn (PDict Int Node) := loadInto [] j

/-- What `load` finds at the path. -/
inductive FileState where
  /-- no such file -/
  | missing
  /-- `open`/`read` fails with another `OSError` (a directory, no permission) -/
  | unreadable
  /-- bytes that are not UTF-8 (`UnicodeDecodeError`) -/
  | undecodable
  /-- text that is not JSON (`JSONDecodeError`) -/
  | notJson
  /-- JSON with an integer literal beyond the interpreter's digit limit (plain `ValueError`) -/
  | hugeInt
  /-- JSON nested deeper than the interpreter's recursion limit (`RecursionError`) -/
  | tooDeep
  /-- the empty file (`read or "{}"`) -/
  | empty
  /-- text that parses to this value -/
  | value (j : Json)

/-- The first `try` block: what it raises, or the parsed value. -/
def readFile : FileState → Except PyExn Json
  | .missing => .error .FileNotFoundError
  | .unreadable => .error .OSError
  | .undecodable => .error .UnicodeDecodeError
  | .notJson => .error .JSONDecodeError
  | .hugeInt => .error .ValueError
  | .tooDeep => .error .RecursionError
  | .empty => .ok (.obj [])
  | .value j => .ok j

/-- Result of a `load` that returned normally. -/
structure Loaded where
  /-- the registry afterwards -/
  nodes : PDict Int Node
  /-- the value written by the `save()` of the missing-file branch, if it ran -/
  created : Option Json

/-- `Persistence.load` with the registry `cur`. -/
def loadFile (cur : PDict Int Node) (fs : FileState) : Except Exn Loaded :=
  match readFile fs with
  | .ok j =>
    match loadInto cur j with
    | .ok r => .ok ⟨r, none⟩
    | .error e => .error e
  | .error c =>
    if pyCaught c (clause Gen.excPersistLoad 0) then .ok ⟨cur, some (save cur)⟩
    else if pyCaught c (clause Gen.excPersistLoad 1) then .error (.lib .persistenceRead)
    else .error (.foreign c)

/-! ### The registries `save` can write back (executable form of C13's hypothesis) -/

/-- `str(n)` stays within the interpreter's digit limit (so `json.dumps` can print it and `int()`
can read it back). -/
def intOK (n : Int) : Bool := decide ((Nat.toDigits 10 n.natAbs).length ≤ Gen.pyMaxStrDigits)

def distinctKeys {α : Type} (d : PDict Int α) : Bool := decide (d.keys.Nodup)

/-- Value types within the digit limit, no type twice. -/
def valuesOK (vs : PDict Int Str) : Bool :=
  distinctKeys vs && vs.all fun kv => intOK kv.1

/-- A child's dict key is printable and its values can be written back.  (That the key equals the
child's `child_id` — true of every registry the gateway builds — is not needed: the two are
independent in the file.) -/
def childOK (key : Int) (c : Child) : Bool :=
  intOK key && valuesOK c.values

/-- Node id within the schema's range, battery level within the validator's range, no child key
twice. -/
def nodeOK (id : Int) (n : Node) : Bool :=
  decide (Gen.nodeIdMin ≤ id) && decide (id ≤ Gen.nodeIdMax) &&
  decide (Gen.minBattery ≤ n.battery) && decide (n.battery ≤ Gen.maxBattery) &&
  distinctKeys n.children && n.children.all fun kc => childOK kc.1 kc.2

def regOK (r : PDict Int Node) : Bool :=
  distinctKeys r && r.all fun kn => nodeOK kn.1 kn.2

/-- The registry as far as persistence speaks about it: `Node.reboot` is not a schema field (a
loaded node always has `reboot = False`); every attribute C13 lists is kept. -/
def persisted (r : PDict Int Node) : PDict Int Node :=
  r.map fun kn => (kn.1, { kn.2 with reboot := false })

/-! ### The legacy (pymysensors) layout -/

/-- Rename a key of a dict in place (used only to *build* legacy files). -/
def renameKey (old new : Str) (kvs : List (Str × Json)) : List (Str × Json) :=
  kvs.map fun kv => if kv.1 = old then (new, kv.2) else kv

/-- A native child record in pymysensors spelling: `child_id` → `id`, `child_type` → `type`. -/
def legacyChild : Json → Json
  | .obj kvs => .obj (renameKey cs!"child_type" cs!"type" (renameKey cs!"child_id" cs!"id" kvs))
  | j => j

/-- pymysensors stores an unset sketch name / version as `null`. -/
def emptyToNull (k : Str) (kvs : List (Str × Json)) : List (Str × Json) :=
  kvs.map fun kv => if kv.1 = k then (match kv.2 with | .str [] => (kv.1, .null) | _ => kv) else kv

def legacyChildren (k : Str) (kvs : List (Str × Json)) : List (Str × Json) :=
  kvs.map fun kv => if kv.1 = k then
    (match kv.2 with | .obj cs => (kv.1, .obj (cs.map fun c => (c.1, legacyChild c.2))) | _ => kv) else kv

/-- A native node record in pymysensors spelling: `node_id` → `sensor_id`, `node_type` → `type`,
empty sketch strings → `null`, children in their legacy spelling. -/
def legacyNode : Json → Json
  | .obj kvs =>
    .obj (legacyChildren cs!"children" (emptyToNull cs!"sketch_version" (emptyToNull cs!"sketch_name"
      (renameKey cs!"node_type" cs!"type" (renameKey cs!"node_id" cs!"sensor_id" kvs)))))
  | j => j

/-- A native file in the pymysensors layout. -/
def legacyOf : Json → Json
  | .obj kvs => .obj (kvs.map fun kv => (kv.1, legacyNode kv.2))
  | j => j

end AioMySensors.Persist
