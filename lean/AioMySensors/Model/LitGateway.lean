/-
The object-level vocabulary for the top of the receive path and of the send path: `Gateway.listen`, `Gateway.send`
(`gateway.py`) and the two handler lookups `get_incoming_message_handler` / `get_outgoing_message_handler`
(`model/protocol/__init__.py`), the target of `tools/translate_listen.py`.  Those four functions are compiled into
`Generated/GatewayBodies.lean` in this vocabulary; `Lemmas/GatewayBodiesEq.lean` proves the generated `listen` step
equal to `GenBodies.recvGen` (hence to `recv`) and the generated `send` equal to `GenBodies.apiSendGen` (hence to
`apiSend`).

What the callees do is *generated text too*: `self._message_schema.load` is `GenCodec.loadGen`, `.dump` is
`GenCodec.to_string` (the translated `post_dump` hook), calling an incoming handler runs the generated bodies under
their generated decorators (`GenBodies.applyLayersGen` / `baseGen`), calling an outgoing handler runs the generated
outgoing body (`GenBodies.outBody`).
-/
import AioMySensors.Generated.Bodies
import AioMySensors.Generated.CodecBodies

namespace AioMySensors.LG
open M

/-! ### pure lookups: enum call, `getattr` -/

/-- A member of an `IntEnum`: its value and its canonical name. -/
structure Member where
  value : Int
  name : String
  deriving DecidableEq, Repr

/-- An incoming handler as `getattr` returns it: a classmethod bound to the `IncomingMessageHandler` class of
protocol `ver` (the `cls` its body dispatches through), resolved to its decorators and innermost body. -/
structure InHandler where
  ver : Ver
  chain : Chain
  deriving DecidableEq, Repr

def bindE (x : Except PyExn α) (f : α → Except PyExn β) : Except PyExn β :=
  match x with
  | .ok a => f a
  | .error c => .error c

/-- `Enum(x)` — e.g. `protocol.Command(message.command)`: `ValueError` when `x` is not a member's value.
`members`: value ↦ canonical name (`Gen.commandNames protocol`). -/
def enumCall (members : List (Int × String)) (x : Int) : Except PyExn Member :=
  match members.lookup x with
  | some n => .ok ⟨x, n⟩
  | none => .error .ValueError

/-- `getattr(obj, name)` with two arguments: `AttributeError` when there is no such attribute.
`attrs`: the attributes of the object a name can select. -/
def getattr2 (attrs : List (String × α)) (name : String) : Except PyExn α :=
  match attrs.lookup name with
  | some a => .ok a
  | none => .error .AttributeError

/-- `protocol.IncomingMessageHandler`: the class object of protocol `v`, as the table of its handler attributes. -/
def inClass (v : Ver) (attrs : List (String × Chain)) : List (String × InHandler) :=
  attrs.map fun p => (p.1, ⟨v, p.2⟩)

/-- `obj.attr` on the argument of `send`: anything that is not a `Message` has none of its attributes. -/
def attrOf (obj : Option Msg) (f : Msg → α) : Except PyExn α :=
  match obj with
  | some m => .ok (f m)
  | none => .error .AttributeError

/-! ### effects -/

/-- `self.protocol` -/
def activeProtocol : M Ver := bind getSt fun st => pure st.proto

/-- A validator / schema outcome inside a gateway method: `ValidationError` is an exception like any other here. -/
def liftC (x : LC.CM α) : M α :=
  match x with
  | .ok a => pure a
  | .error .validation => raise (.foreign .ValidationError)
  | .error (.foreign c) => raise (.foreign c)

/-- `self._message_schema.load(line)`: the generated `MessageSchema.load` of the active protocol (the schema's
protocol follows the gateway's: the setter's `set_protocol` call). -/
def schemaLoad (line : Str) : M Msg :=
  bind getSt fun st =>
  match GenCodec.loadGen st.proto line with
  | .ok (some m) => pure m
  | .ok none => raise (.foreign .ValidationError)
  | .error c => raise (.foreign c)

/-- `self._message_schema.dump(obj)`: marshmallow collects the declared attributes the object has — all six for a
`Message` (`LC.dumpData`), none for an object that is not one — and hands the dict to the generated `to_string`. -/
def schemaDump (obj : Option Msg) : M Str :=
  match obj with
  | some m => liftC (GenCodec.dumpGen m)
  | none => liftC (GenCodec.to_string [])

/-- `await message_handler(self, message, self._message_buffer)` for an incoming handler. -/
def callIncoming (env : Env) (h : InHandler) (m : Msg) : M Msg :=
  GenBodies.applyLayersGen h.chain.layers (GenBodies.baseGen env h.ver h.chain.base) m

/-- `await message_handler(self, message, buffer_or_None, decoded_message)` for an outgoing handler.
The generated outgoing bodies are functions of the message: where the code writes its `decoded_message` parameter
they write `encode m` (`tools/translate.py`).  So the call demands that the line passed IS `encode m`; the other arms
are outside what the generated bodies represent (`RuntimeError`, as elsewhere in the model) and
`GatewayBodiesEq.send_eq_apiSendGen` shows they are never taken. -/
def callOutgoing (ob : OutBody) (obj : Option Msg) (buffer : Bool) (line : Str) : M Unit :=
  match obj with
  | some m => if line = encode m then GenBodies.outBody ob m buffer else raise (.foreign .RuntimeError)
  | none => raise (.foreign .RuntimeError)

end AioMySensors.LG
