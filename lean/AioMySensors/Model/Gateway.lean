/-
Histories: sequences of received lines and `send` calls applied to a gateway, each with its own
write-fault schedule (and, for a received line, the configuration and local time of that step).
-/
import AioMySensors.Model.Handlers

namespace AioMySensors

inductive Op where
  | recv (env : Env) (line : Str) (faults : List Fault)
  | send (obj : Option Msg) (buffer : Bool) (faults : List Fault)

/-- What one operation shows to the outside: the outcome and the write attempts. -/
structure Obs where
  out : Except Exn (Option Msg)
  writes : List WriteEvt

def stepOp (st : St) : Op → St × Obs
  | .recv env line faults =>
    match recv env line { st := st, faults := faults } with
    | (.ok m, w) => (w.st, ⟨.ok (some m), w.writes⟩)
    | (.error e, w) => (w.st, ⟨.error e, w.writes⟩)
  | .send obj buffer faults =>
    match apiSend obj buffer { st := st, faults := faults } with
    | (.ok (), w) => (w.st, ⟨.ok none, w.writes⟩)
    | (.error e, w) => (w.st, ⟨.error e, w.writes⟩)

/-- Run a history; returns the final state and the observations in order. -/
def run (st : St) : List Op → St × List Obs
  | [] => (st, [])
  | op :: ops =>
    let (st', o) := stepOp st op
    let (st'', os) := run st' ops
    (st'', o :: os)

/-- The state after a history. -/
def stateAfter (st : St) (ops : List Op) : St := (run st ops).1

end AioMySensors
