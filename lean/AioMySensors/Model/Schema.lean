/-
marshmallow 3.26 `Schema.load` / `Schema.dump` for the field kinds the persistence schemas use,
as an interpreter of the GENERATED tables `Gen.nodeSchema` / `Gen.childSchema`
(`model/node.py`: `NodeSchema`, `ChildSchema`, their `pre_load` hooks and `post_load` constructors).

Exception classes are modelled faithfully: every validation failure is collected by marshmallow
and raised as one `ValidationError` after all fields were processed (`soft`); a `TypeError` /
`AttributeError` raised by a `pre_load` hook on data that is not a dict propagates at once and
pre-empts collected validation errors.

Coercions as measured on marshmallow 3.26.2 (re-measured by the correspondence run):
`Int` <- int; float by truncation toward zero, then the range validator; `str` through `int()`;
bool, null, list, dict, NaN, Infinity rejected.  `Str` <- str only.  `Bool` <- true/false, 1/0,
1.0/0.0, the truthy/falsy strings.  `Dict` <- dict only, keys through `Int` (a later key that
coerces to the same integer replaces the earlier value, in the earlier position).  `null` is
rejected by every field ("Field may not be null").  Unknown keys are rejected, a missing required
field is rejected, a missing optional field is left to the constructor's default.
-/
import AioMySensors.Model.Json
import AioMySensors.Model.PyNum
import AioMySensors.Model.State

namespace AioMySensors.Schema
open AioMySensors

/-- `marshmallow.fields.Boolean.truthy`, its string members (the harness asserts that this table
and the two below equal the live sets).  The only non-string member is the integer `1`, which also
covers `True` and `1.0` (`True == 1 == 1.0` in a Python set). -/
def truthyStrings : List String :=
  ["t", "T", "true", "True", "TRUE", "on", "On", "ON", "y", "Y", "yes", "Yes", "YES", "1"]

/-- `marshmallow.fields.Boolean.falsy`, its string members; the other member is the integer `0`. -/
def falsyStrings : List String :=
  ["f", "F", "false", "False", "FALSE", "off", "Off", "OFF", "n", "N", "no", "No", "NO", "0"]

def truthyInt : Int := 1
def falsyInt : Int := 0

/-- `data["type"] = 18  # Set gateway type as default.` in `NodeSchema.handle_compatibility`. -/
def legacyGatewayType : Int := 18

/-- A deserialised field value (what ends up in the dict handed to the `post_load` constructor). -/
inductive Val where
  | int (n : Int)
  | str (s : Str)
  | bool (b : Bool)
  | strDict (d : PDict Int Str)
  | childDict (d : PDict Int Child)
  deriving DecidableEq, Repr

/-- The loaded data dict: attribute name ↦ value, in field order. -/
abbrev Rec := List (String × Val)

/-- A collected validation failure: raised as `ValidationError` once the whole record was seen. -/
abbrev soft {α : Type} : Except PyExn α := .error .ValidationError

/-! ### Scalar coercions -/

/-- `fields.Int()._deserialize`: `int(value)` with bools rejected. `none` = "Not a valid integer". -/
def coerceInt : Json → Option Int
  | .int n => some n
  | .real r => r.trunc?
  | .str s => pyInt? s
  | _ => none

/-- `validate.Range(min, max)` (both ends inclusive); no validator = everything passes. -/
def inRange (range : Option (Int × Int)) (n : Int) : Bool :=
  match range with
  | none => true
  | some (lo, hi) => decide (lo ≤ n) && decide (n ≤ hi)

/-- `fields.Str()._deserialize` -/
def coerceStr : Json → Option Str
  | .str s => some s
  | _ => none

/-- `fields.Bool()._deserialize`: `value in truthy`, `value in falsy` (unhashable → invalid). -/
def coerceBool : Json → Option Bool
  | .bool b => some b
  | .int n => if n = truthyInt then some true else if n = falsyInt then some false else none
  | .real r => if r.eqInt truthyInt then some true else if r.eqInt falsyInt then some false else none
  | .str s =>
    if truthyStrings.any (fun t => t.toList == s) then some true
    else if falsyStrings.any (fun t => t.toList == s) then some false
    else none
  | _ => none

/-! ### Dict fields -/

/-- `fields.Dict(keys=Int, values=Str)` on the items of a dict; `none` = some key or value invalid.
`acc.set` is `result[keys[key]] = value`. -/
def loadStrDict (acc : PDict Int Str) : List (Str × Json) → Option (PDict Int Str)
  | [] => some acc
  | (k, v) :: rest =>
    match pyInt? k, coerceStr v with
    | some i, some s => loadStrDict (acc.set i s) rest
    | _, _ => none

/-- `fields.Dict(keys=Int, values=Nested(...))` on the items of a dict.  A value whose nested load
raises something other than `ValidationError` ends the whole load at once; an invalid key or value
is remembered (`bad`) and the remaining values are still visited. -/
def loadNestedDict (nested : Json → Except PyExn Child) (acc : PDict Int Child) (bad : Bool) :
    List (Str × Json) → Except PyExn (PDict Int Child)
  | [] => if bad then soft else .ok acc
  | (k, v) :: rest =>
    if v.isNull then loadNestedDict nested acc true rest          -- "Field may not be null."
    else match nested v with
      | .ok c =>
        match pyInt? k with
        | some i => loadNestedDict nested (acc.set i c) bad rest
        | none => loadNestedDict nested acc true rest
      | .error e =>
        if e = .ValidationError then loadNestedDict nested acc true rest else .error e

/-! ### One field, one record -/

/-- `Field.deserialize` for a value that is present. -/
def loadField (nested : Json → Except PyExn Child) (f : FieldSpec) (v : Json) : Except PyExn Val :=
  if v.isNull then soft else
  match f.kind with
  | .int =>
    match coerceInt v with
    | some n => if inRange f.range n then .ok (.int n) else soft
    | none => soft
  | .str =>
    match coerceStr v with
    | some s => .ok (.str s)
    | none => soft
  | .bool =>
    match coerceBool v with
    | some b => .ok (.bool b)
    | none => soft
  | .dictIntStr =>
    match v with
    | .obj kvs =>
      match loadStrDict [] kvs with
      | some d => .ok (.strDict d)
      | none => soft
    | _ => soft
  | .dictIntNested =>
    match v with
    | .obj kvs =>
      match loadNestedDict nested [] false kvs with
      | .ok d => .ok (.childDict d)
      | .error e => .error e
    | _ => soft

/-- What happens to one declared field: `none` = its key is absent from the input. -/
def fieldResult (nested : Json → Except PyExn Child) (kvs : List (Str × Json)) (f : FieldSpec) :
    Option (Except PyExn Val) :=
  (PDict.get? kvs f.name.toList).map (loadField nested f)

/-- `Schema._deserialize`'s loop over the declared fields, in declaration order. -/
def collect : List (FieldSpec × Option (Except PyExn Val)) → Bool → Rec → Except PyExn Rec
  | [], bad, acc => if bad then soft else .ok acc
  | (f, none) :: rest, bad, acc => collect rest (bad || f.required) acc
  | (f, some (.ok v)) :: rest, bad, acc => collect rest bad (acc ++ [(f.name, v)])
  | (_, some (.error e)) :: rest, _, acc =>
    if e = .ValidationError then collect rest true acc else .error e

/-- No key outside the declared fields (`unknown = RAISE`). -/
def knownKeys (specs : List FieldSpec) (kvs : List (Str × Json)) : Bool :=
  kvs.all fun kv => specs.any fun f => f.name.toList == kv.1

/-- `Schema._deserialize` on a dict, up to (not including) `post_load`. -/
def loadRecord (specs : List FieldSpec) (nested : Json → Except PyExn Child) (kvs : List (Str × Json)) :
    Except PyExn Rec :=
  match collect (specs.map fun f => (f, fieldResult nested kvs f)) false [] with
  | .ok r => if knownKeys specs kvs then .ok r else soft
  | .error e => .error e

/-! ### Constructor arguments (`post_load`: `Child(**data)`, `Node(**data)`) -/

/-- A keyword argument of a given type.  `dflt = none`: a required positional argument, whose
absence is Python's `TypeError`.  A value of another kind than the constructor model knows means the
generated table has left the modelled fragment (`Exception`, which nothing catches). -/
def argInt (r : Rec) (name : String) (dflt : Option Int) : Except PyExn Int :=
  match r.lookup name with
  | some (.int n) => .ok n
  | some _ => .error .Exception
  | none => match dflt with
    | some d => .ok d
    | none => .error .TypeError

def argStr (r : Rec) (name : String) (dflt : Option Str) : Except PyExn Str :=
  match r.lookup name with
  | some (.str s) => .ok s
  | some _ => .error .Exception
  | none => match dflt with
    | some d => .ok d
    | none => .error .TypeError

def argBool (r : Rec) (name : String) (dflt : Bool) : Except PyExn Bool :=
  match r.lookup name with
  | some (.bool b) => .ok b
  | some _ => .error .Exception
  | none => .ok dflt

def argStrDict (r : Rec) (name : String) : Except PyExn (PDict Int Str) :=
  match r.lookup name with
  | some (.strDict d) => .ok d
  | some _ => .error .Exception
  | none => .ok []

def argChildDict (r : Rec) (name : String) : Except PyExn (PDict Int Child) :=
  match r.lookup name with
  | some (.childDict d) => .ok d
  | some _ => .error .Exception
  | none => .ok []

/-- Every loaded key is a parameter of the constructor (else `TypeError`: unexpected keyword). -/
def argsKnown (r : Rec) (params : List String) : Except PyExn Unit :=
  if r.all fun kv => params.contains kv.1 then .ok () else .error .TypeError

def childParams : List String := ["child_id", "child_type", "description", "values"]

def nodeParams : List String :=
  ["node_id", "node_type", "protocol_version", "children", "sketch_name", "sketch_version",
   "battery_level", "heartbeat", "sleeping"]

/-- `Child(**data)` -/
def mkChild (r : Rec) : Except PyExn Child :=
  (argsKnown r childParams).bind fun _ =>
  (argInt r "child_id" none).bind fun cid =>
  (argInt r "child_type" none).bind fun ctype =>
  (argStr r "description" (some [])).bind fun desc =>
  (argStrDict r "values").bind fun values =>
  .ok ⟨cid, ctype, desc, values⟩

/-- `Node(**data)`; the node id is returned beside the node (it is the registry key). -/
def mkNode (r : Rec) : Except PyExn (Int × Node) :=
  (argsKnown r nodeParams).bind fun _ =>
  (argInt r "node_id" none).bind fun id =>
  (argInt r "node_type" none).bind fun ntype =>
  (argStr r "protocol_version" none).bind fun pv =>
  (argChildDict r "children").bind fun children =>
  (argStr r "sketch_name" (some [])).bind fun sn =>
  (argStr r "sketch_version" (some [])).bind fun sv =>
  (argInt r "battery_level" (some 0)).bind fun battery =>
  (argInt r "heartbeat" (some 0)).bind fun hb =>
  (argBool r "sleeping" false).bind fun sleeping =>
  .ok (id, { ntype := ntype, pv := pv, children := children, sketchName := sn, sketchVersion := sv,
             battery := battery, heartbeat := hb, reboot := false, sleeping := sleeping })

/-! ### The `pre_load` compatibility hooks -/

/-- `if old in data: data[new] = f(data.pop(old))` on a dict. -/
def moveKey (old new : Str) (f : Json → Json) (kvs : List (Str × Json)) : List (Str × Json) :=
  match PDict.get? kvs old with
  | none => kvs
  | some v => PDict.set (PDict.erase kvs old) new (f v)

/-- `if k in data and data[k] is None: data[k] = ""` on a dict. -/
def nullToEmpty (k : Str) (kvs : List (Str × Json)) : List (Str × Json) :=
  match PDict.get? kvs k with
  | some .null => PDict.set kvs k (.str [])
  | _ => kvs

/-- `ChildSchema.handle_compatibility` on whatever the file holds in a child's place:
`"id" in data` / `"type" in data`, then `data.pop(...)`.
number, bool (null never gets here): `in` → `TypeError`; a string containing `id` or `type`:
`str.pop` → `AttributeError`; a list with the element `"id"` or `"type"`: `list.pop("id")` →
`TypeError`; any other string or list passes through unchanged (and fails the dict check later). -/
def childPreLoad : Json → Except PyExn Json
  | .obj kvs => .ok (.obj (moveKey cs!"type" cs!"child_type" id (moveKey cs!"id" cs!"child_id" id kvs)))
  | .str s =>
    if hasSub cs!"id" s || hasSub cs!"type" s then .error .AttributeError else .ok (.str s)
  | .arr xs =>
    if xs.any (Json.isStr cs!"id") || xs.any (Json.isStr cs!"type") then .error .TypeError
    else .ok (.arr xs)
  | _ => .error .TypeError

/-- `NodeSchema.handle_compatibility`.  On a string: `"sensor_id" in s` → `s.pop` →
`AttributeError`; otherwise `"type"`, `"sketch_name"`, `"sketch_version"` as substrings lead to
`s["..."]` → `TypeError`.  On a list with one of the four names as an element: `TypeError`
(`list.pop("sensor_id")`, `l["type"]`).  Numbers, bools, null: `TypeError` from `in`. -/
def nodePreLoad : Json → Except PyExn Json
  | .obj kvs =>
    let k1 := moveKey cs!"sensor_id" cs!"node_id" id kvs
    let k2 := moveKey cs!"type" cs!"node_type"
      (fun v => if v.isNull then .int legacyGatewayType else v) k1
    .ok (.obj (nullToEmpty cs!"sketch_version" (nullToEmpty cs!"sketch_name" k2)))
  | .str s =>
    if hasSub cs!"sensor_id" s then .error .AttributeError
    else if hasSub cs!"type" s || hasSub cs!"sketch_name" s || hasSub cs!"sketch_version" s then
      .error .TypeError
    else .ok (.str s)
  | .arr xs =>
    if xs.any (Json.isStr cs!"sensor_id") || xs.any (Json.isStr cs!"type") ||
       xs.any (Json.isStr cs!"sketch_name") || xs.any (Json.isStr cs!"sketch_version") then
      .error .TypeError
    else .ok (.arr xs)
  | _ => .error .TypeError

/-! ### Whole records -/

/-- The child schema has no nested field; a table that gives it one is outside the model. -/
def noNested : Json → Except PyExn Child := fun _ => .error .Exception

/-- `ChildSchema().load(j)` -/
def loadChild (j : Json) : Except PyExn Child :=
  match childPreLoad j with
  | .error e => .error e
  | .ok (.obj kvs) => (loadRecord Gen.childSchema noNested kvs).bind mkChild
  | .ok _ => soft                                                    -- "Invalid input type."

/-- `NodeSchema().load(j)` -/
def loadNode (j : Json) : Except PyExn (Int × Node) :=
  match nodePreLoad j with
  | .error e => .error e
  | .ok (.obj kvs) => (loadRecord Gen.nodeSchema loadChild kvs).bind mkNode
  | .ok _ => soft

/-! ### Dump (no validation runs on dump) -/

def dumpVal (nestedDump : Child → Json) : Val → Json
  | .int n => .int n
  | .str s => .str s
  | .bool b => .bool b
  | .strDict d => .obj (d.map fun kv => (dec kv.1, .str kv.2))
  | .childDict d => .obj (d.map fun kv => (dec kv.1, nestedDump kv.2))

/-- `Schema.dump`: every declared field the object has as an attribute, in declaration order.
Dict keys stay integers in marshmallow's output and become `str(key)` in `json.dumps`. -/
def dumpRecord (specs : List FieldSpec) (attr : String → Option Val) (nestedDump : Child → Json) : Json :=
  .obj (specs.filterMap fun f => (attr f.name).map fun v => (f.name.toList, dumpVal nestedDump v))

def childAttr (c : Child) : String → Option Val
  | "child_id" => some (.int c.cid)
  | "child_type" => some (.int c.ctype)
  | "description" => some (.str c.desc)
  | "values" => some (.strDict c.values)
  | _ => none

def nodeAttr (id : Int) (n : Node) : String → Option Val
  | "node_id" => some (.int id)
  | "node_type" => some (.int n.ntype)
  | "protocol_version" => some (.str n.pv)
  | "children" => some (.childDict n.children)
  | "sketch_name" => some (.str n.sketchName)
  | "sketch_version" => some (.str n.sketchVersion)
  | "battery_level" => some (.int n.battery)
  | "heartbeat" => some (.int n.heartbeat)
  | "sleeping" => some (.bool n.sleeping)
  | _ => none

/-- `ChildSchema().dump(child)` -/
def saveChild (c : Child) : Json := dumpRecord Gen.childSchema (childAttr c) (fun _ => .null)

/-- `NodeSchema().dump(node)` -/
def saveNode (id : Int) (n : Node) : Json := dumpRecord Gen.nodeSchema (nodeAttr id n) saveChild

end AioMySensors.Schema
