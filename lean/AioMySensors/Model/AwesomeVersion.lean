/-
`awesomeversion` 24.6.0, as far as `get_protocol` uses it: `AwesomeVersion(s) < AwesomeVersion(key)` for an
ARBITRARY Python `str` `s` on the left and a plain `"major.minor"` key (ASCII decimal, no leading zeros) on
the right.

What the library does (`awesomeversion.py`, `strategy.py`, `comparehandlers/*`, `utils/regex.py`):

* `__init__`: `_version = str(version).strip()`, then ONE trailing `.` is removed (`avNorm`).
* `string`: `_version` without a leading `v` / `V` (`avString`; the prefixes `"v."`, `"V."` are never reached
  because `"v"` matches first).
* `strategy`: the first of BuildVer, CalVer, HexVer, SemVer, SpecialContainer, SimpleVer, PEP 440 whose pattern
  `^…$` matches `string`; otherwise `unknown`.  Python's `$` also matches before one trailing `\n`, and no pattern
  can consume a `\n`, so matching is a full match of `chomp string`.  `\d` is any Unicode decimal digit (category
  Nd, `pyDigit?`), `\w` any alphanumeric character or `_` (`Gen.pyWordRanges`, read from `re` itself); every
  other class is ASCII.
* `__lt__(self, key)`: equal `string`s give `False`; an `unknown` strategy on either side raises
  `AwesomeVersionCompareException`; otherwise `_compare_versions(key, self)` = "key > self" through the handlers
  container → simple → sections → semver-modifier.  With a `"major.minor"` key on the other side (SimpleVer,
  two sections, no modifier) this is:
    - SpecialContainer on the left (`latest`, `dev`, `stable`, `beta`): `False`;
    - `compare_base_sections`: for `idx < max(2, self.sections)` compare `key.section(idx)` (major, minor, 0, …)
      with `self.section(idx)`; the first difference decides.  (The `simple` handler runs the same loop first when
      both sides are "simple"; its result, and its exceptions, are those of the sections handler, so `simple` has no
      influence on the outcome and is not modelled.)
    - all sections equal: `compare_modifier_section` gives `True` iff the left side has a modifier (the key has
      none); the semver-modifier handler never fires (the key has no modifier type); otherwise `False`.
* `sections`: 3 for SemVer; otherwise the number of non-empty `.`-separated sections that differ from the modifier.
  The list comprehension evaluates `section.split(self.modifier_type)[-1]` for each of them: with no modifier type
  this is `section.split(None)[-1]`, an **`IndexError`** when the section consists of white space only (possible:
  CalVer `"20.1.2.\n"`, from the input `"20.1.2.\n."`).
* `section(idx)`: HexVer → `int(string, 16)` for `idx = 0`, else 0; otherwise, when `idx < sections`, the first
  digit run of `string.split(".")[idx]` after leading `[a-z]*` (`RE_DIGIT.match`), through `int()` — a
  **`ValueError`** beyond the interpreter's digit limit — and 0 when there is none.  The raw split is indexed while
  `sections` counts filtered sections; the model does the same.
* `modifier`: none for SpecialContainer / HexVer; for SemVer the pre-release group, reduced to group 2 of
  `RE_MODIFIER` when that matches (and kept whole otherwise: the cached-attribute quirk of the property); for the
  others group 2 of `RE_MODIFIER` on the last `.`-section.

Sections are evaluated lazily, in order, exactly as the loop does: a digit run beyond the limit raises only if the
loop reaches it.
-/
import AioMySensors.Model.PyNum

namespace AioMySensors

/-! ## A small regular-expression matcher (membership only)

Used for the two patterns that are not deterministic enough to transcribe by hand (CalVer, PEP 440).  `step r s act`
maps the set of active positions of `s` (a bitmap of length `s.length + 1`) to the set of positions reachable by
matching `r`; greedy/lazy makes no difference for membership. -/

inductive Re where
  | eps
  | cls (p : Char → Bool)
  | seq (a b : Re)
  | alt (a b : Re)
  | opt (a : Re)
  /-- `[p]*` -/
  | many (p : Char → Bool)
  | star (a : Re)

namespace Re

def orB : List Bool → List Bool → List Bool := List.zipWith (· || ·)

/-- `[p]*` in one pass: a position is active if it was, or if its predecessor is and carries a `p` character. -/
def sweep (p : Char → Bool) : Str → List Bool → Bool → List Bool
  | _, [], _ => []
  | [], b :: _, carry => [b || carry]
  | c :: s, b :: bs, carry => (b || carry) :: sweep p s bs ((b || carry) && p c)

/-- Least fixed point of `cur ↦ cur ∪ f cur`, at most `fuel` rounds (`s.length + 1` suffice). -/
def iter (f : List Bool → List Bool) : Nat → List Bool → List Bool
  | 0, cur => cur
  | n + 1, cur =>
    let nxt := orB cur (f cur)
    if nxt == cur then cur else iter f n nxt

def step : Re → Str → List Bool → List Bool
  | eps, _, act => act
  | cls p, s, act => false :: List.zipWith (fun c b => b && p c) s act
  | seq a b, s, act => step b s (step a s act)
  | alt a b, s, act => orB (step a s act) (step b s act)
  | opt a, s, act => orB act (step a s act)
  | many p, s, act => sweep p s act false
  | star a, s, act => iter (step a s) (s.length + 1) act

/-- `re.fullmatch(r, s) is not None`. -/
def fullMatch (r : Re) (s : Str) : Bool :=
  (step r s (true :: List.replicate s.length false)).getLast? == some true

def seqs : List Re → Re
  | [] => eps
  | [r] => r
  | r :: rs => seq r (seqs rs)

def alts : List Re → Re
  | [] => cls fun _ => false
  | [r] => r
  | r :: rs => alt r (alts rs)

def chr (c : Char) : Re := cls (· == c)

def lit (w : String) : Re := seqs (w.toList.map chr)

end Re

/-! ## Character classes -/

/-- `\d` of a `str` pattern: a Unicode decimal digit (the characters `int()` reads as digits). -/
def isPyDigitC (c : Char) : Bool := (pyDigit? c).isSome

/-- `\w` of a `str` pattern. -/
def isPyWord (c : Char) : Bool :=
  if c.toNat < 128 then c.isAlphanum || c == '_'
  else Gen.pyWordRanges.any fun r => r.1 ≤ c.toNat && c.toNat ≤ r.2

/-- `[a-z]` -/
def isLowerAz (c : Char) : Bool := 'a' ≤ c && c ≤ 'z'

/-- `[0-9a-zA-Z-]` -/
def isAlnumHyphen (c : Char) : Bool := c.isAlphanum || c == '-'

/-- `[A-Fa-f0-9]` -/
def hexDigit? (c : Char) : Option Nat :=
  if '0' ≤ c ∧ c ≤ '9' then some (c.toNat - 48)
  else if 'a' ≤ c ∧ c ≤ 'f' then some (c.toNat - 87)
  else if 'A' ≤ c ∧ c ≤ 'F' then some (c.toNat - 55)
  else none

/-! ## Normalisation -/

/-- `AwesomeVersion(s)._version`: stripped, one trailing dot removed. -/
def avNorm (s : Str) : Str :=
  let t := strip s
  if t.getLast? = some '.' then t.dropLast else t

/-- `AwesomeVersion.string`: without the prefix `v` / `V`. -/
def avString : Str → Str
  | [] => []
  | c :: r => if c = 'v' ∨ c = 'V' then r else c :: r

/-- What a pattern `^…$` sees: `$` also matches before one trailing newline. -/
def chomp (t : Str) : Str := if t.getLast? = some '\n' then t.dropLast else t

/-! ## The strategy patterns -/

inductive AvStrategy where
  | buildVer | calVer | hexVer | semVer | specialContainer | simpleVer | pep440 | unknown
  deriving DecidableEq, Repr

/-- `\d+` -/
def isBuildVer (t : Str) : Bool := !t.isEmpty && t.all isPyDigitC

/-- `(\d{2}|\d{4})\.\d{1,2}?(\.?\d{1,2}?\.?)?(\.\d)?(\d*(\w+\d+)?)` -/
def reCalVer : Re :=
  let d := Re.cls isPyDigitC
  let w := Re.cls isPyWord
  let dot := Re.chr '.'
  Re.seqs [Re.alt (Re.seqs [d, d]) (Re.seqs [d, d, d, d]), dot, d, Re.opt d,
    Re.opt (Re.seqs [Re.opt dot, d, Re.opt d, Re.opt dot]),
    Re.opt (Re.seqs [dot, d]),
    Re.many isPyDigitC, Re.opt (Re.seqs [w, Re.many isPyWord, d, Re.many isPyDigitC])]

/-- `0x[A-Fa-f0-9]+`; the validator `int(value, 16)` accepts every such string (also with the trailing newline
`$` tolerates, and without a digit limit: base 16 is a power of two). -/
def isHexVer : Str → Bool
  | '0' :: 'x' :: r => !r.isEmpty && r.all fun c => (hexDigit? c).isSome
  | _ => false

/-- `0|[1-9]\d*` -/
def svNum : Str → Bool
  | ['0'] => true
  | c :: r => ('1' ≤ c && c ≤ '9') && r.all isPyDigitC
  | [] => false

/-- `0|[1-9]\d*|\d*[a-zA-Z-][0-9a-zA-Z-]*` (the split point is forced: the first non-digit). -/
def svIdent (p : Str) : Bool :=
  svNum p ||
  match p.dropWhile isPyDigitC with
  | c :: r => (c.isAlpha || c == '-') && r.all isAlnumHyphen
  | [] => false

/-- `[0-9a-zA-Z-]+(?:\.[0-9a-zA-Z-]+)*` -/
def svBuildOK (b : Str) : Bool := (splitOn '.' b).all fun p => !p.isEmpty && p.all isAlnumHyphen

def notSignC (c : Char) : Bool := c != '-' && c != '+'

/-- The SemVer pattern
`(0|[1-9]\d*)\.(0|[1-9]\d*)\.(0|[1-9]\d*)(?:-(PRE))?(?:\+(BUILD))?`: `none` = no match, `some g` = match with
pre-release group `g` (group 4).  The core contains neither `-` nor `+` and is followed by one of them or the
end, so it is the longest prefix without them; `PRE` contains no `+`. -/
def semverPre? (t : Str) : Option (Option Str) :=
  let core := t.takeWhile notSignC
  let rest := t.dropWhile notSignC
  match splitOn '.' core with
  | [a, b, c] =>
    if svNum a && svNum b && svNum c then
      match rest with
      | [] => some none
      | '-' :: r =>
        let pre := r.takeWhile (· != '+')
        if (splitOn '.' pre).all svIdent then
          match r.dropWhile (· != '+') with
          | [] => some (some pre)
          | _ :: bld => if svBuildOK bld then some (some pre) else none
        else none
      | _ :: bld => if svBuildOK bld then some none else none
    else none
  | _ => none

/-- `(latest|dev|stable|beta)` -/
def isSpecialContainer (t : Str) : Bool :=
  t == "latest".toList || t == "dev".toList || t == "stable".toList || t == "beta".toList

/-- `[v|V]?((\d+)(\.\d+)+)` — the class `[v|V]` contains the bar. -/
def isSimpleVer (t : Str) : Bool :=
  let u := match t with
    | c :: r => if c = 'v' ∨ c = '|' ∨ c = 'V' then r else c :: r
    | [] => []
  let ps := splitOn '.' u
  decide (2 ≤ ps.length) && ps.all fun p => !p.isEmpty && p.all isPyDigitC

/-- PEP 440 (ASCII only):
`([1-9][0-9]*!)?(0|[1-9][0-9]*)(\.(0|[1-9][0-9]*))*([-_\.]?(alpha|beta|c|pre|preview|a|b|rc)(0|[1-9][0-9]*))?`
`([-_\.]?(post|r|rev)(0|[1-9][0-9]*))?([-_\.]?(d|dev)(0|[1-9][0-9]*))?(?:\+([a-z0-9]+(?:[-_\.][a-z0-9]+)*))?` -/
def rePep440 : Re :=
  let d19 := Re.cls fun c => '1' ≤ c && c ≤ '9'
  let d09 : Char → Bool := fun c => '0' ≤ c && c ≤ '9'
  let num := Re.alt (Re.chr '0') (Re.seq d19 (Re.many d09))
  let sep := Re.opt (Re.cls fun c => c == '-' || c == '_' || c == '.')
  let sep1 := Re.cls fun c => c == '-' || c == '_' || c == '.'
  let loc : Char → Bool := fun c => isLowerAz c || d09 c
  Re.seqs [Re.opt (Re.seqs [d19, Re.many d09, Re.chr '!']), num, Re.star (Re.seq (Re.chr '.') num),
    Re.opt (Re.seqs [sep, Re.alts (["alpha", "beta", "c", "pre", "preview", "a", "b", "rc"].map Re.lit), num]),
    Re.opt (Re.seqs [sep, Re.alts (["post", "r", "rev"].map Re.lit), num]),
    Re.opt (Re.seqs [sep, Re.alts (["d", "dev"].map Re.lit), num]),
    Re.opt (Re.seqs [Re.chr '+', Re.cls loc, Re.many loc, Re.star (Re.seqs [sep1, Re.cls loc, Re.many loc])])]

/-- `AwesomeVersion.strategy` of a version whose `string` is `str` (the order is `VERSION_STRATEGIES`). -/
def avStrategy (str : Str) : AvStrategy :=
  let t := chomp str
  if isBuildVer t then .buildVer
  else if Re.fullMatch reCalVer t then .calVer
  else if isHexVer t then .hexVer
  else if (semverPre? t).isSome then .semVer
  else if isSpecialContainer t then .specialContainer
  else if isSimpleVer t then .simpleVer
  else if Re.fullMatch rePep440 t then .pep440
  else .unknown

/-! ## Modifier, sections -/

/-- `RE_MODIFIER = ^((?:\d+\-|\d|))(([a-z]+)\.?(\d*))$`: groups 2, 3, 4.  Group 2 starts at the first `[a-z]`
character (group 1 cannot contain one), the letter run is maximal, an optional dot and digits follow. -/
def reModifier (m : Str) : Option (Str × Str × Str) :=
  let t := chomp m
  let pre := t.takeWhile fun c => !isLowerAz c
  let rest := t.dropWhile fun c => !isLowerAz c
  if rest.isEmpty then none
  else if !(pre.isEmpty || (pre.length == 1 && pre.all isPyDigitC) ||
      (decide (2 ≤ pre.length) && pre.getLast? == some '-' && pre.dropLast.all isPyDigitC)) then none
  else
    let after := rest.dropWhile isLowerAz
    let digits := match after with
      | '.' :: r => r
      | _ => after
    if digits.all isPyDigitC then some (rest, rest.takeWhile isLowerAz, digits) else none

/-- `AwesomeVersion.modifier` (for a known strategy). -/
def avModifier (st : AvStrategy) (str : Str) : Option Str :=
  if st = .specialContainer ∨ st = .hexVer then none
  else if st = .semVer then
    match semverPre? (chomp str) with
    | some (some g4) =>
      match reModifier g4 with
      | some g => some g.1
      | none => some g4
    | _ => none
  else
    let last := (splitOn '.' str).getLast?.getD []
    if last.isEmpty then none else (reModifier last).map (·.1)

/-- `AwesomeVersion.modifier_type`. -/
def avModifierType (st : AvStrategy) (str : Str) : Option Str :=
  if st = .hexVer then none else (reModifier ((avModifier st str).getD [])).map (·.2.1)

/-- What a comparison of a version against a key can raise. -/
inductive AvErr where
  /-- `AwesomeVersionCompareException` -/
  | compare
  /-- `ValueError` (`int()` beyond the digit limit) -/
  | value
  /-- `IndexError` (`"\n".split(None)[-1]` in `sections`) -/
  | index
  deriving DecidableEq, Repr

/-- The sections `AwesomeVersion.sections` counts (non-SemVer). -/
def avCounted (st : AvStrategy) (str : Str) : List Str :=
  (splitOn '.' str).filter fun p => !p.isEmpty && (match avModifier st str with | none => true | some m => p != m)

/-- `AwesomeVersion.sections`. -/
def avSections (st : AvStrategy) (str : Str) : Except AvErr Nat :=
  if st = .semVer then .ok 3
  else if (avModifierType st str).isNone && (avCounted st str).any (fun p => p.all isPySpace) then .error .index
  else .ok (avCounted st str).length

/-- `RE_DIGIT.match(p)` = `[a-z]*(\d+)[a-z]*`, group 1. -/
def reDigit (p : Str) : Option Str :=
  let g := (p.dropWhile isLowerAz).takeWhile isPyDigitC
  if g.isEmpty then none else some g

/-- `int(g)` for a run of decimal digits (any script). -/
def digitsVal (g : Str) : Nat := g.foldl (fun acc c => 10 * acc + (pyDigit? c).getD 0) 0

/-- `int(t, 16)` for hexadecimal digits. -/
def hexVal (t : Str) : Nat := t.foldl (fun acc c => 16 * acc + (hexDigit? c).getD 0) 0

/-- The value of one `.`-section: `int()` of its first digit run (`ValueError` beyond the digit limit), 0 without one. -/
def avSectionOf (p : Str) : Except AvErr Nat :=
  match reDigit p with
  | some g => if g.length ≤ Gen.pyMaxStrDigits then .ok (digitsVal g) else .error .value
  | none => .ok 0

/-- `AwesomeVersion.section(idx)`, given `sections = n`. -/
def avSection (st : AvStrategy) (str : Str) (n idx : Nat) : Except AvErr Nat :=
  if st = .hexVer then .ok (if idx = 0 then hexVal ((chomp str).drop 2) else 0)
  else if idx + 1 ≤ n then avSectionOf ((splitOn '.' str).getD idx [])
  else .ok 0

/-! ## Comparison against a `"major.minor"` key -/

/-- The key's `string`. -/
def keyStr (a b : Nat) : Str := Nat.toDigits 10 a ++ '.' :: Nat.toDigits 10 b

/-- The key's `section(idx)`. -/
def keySec (a b : Nat) : Nat → Nat
  | 0 => a
  | 1 => b
  | _ => 0

/-- `compare_base_sections(key, self)`: `some true` = the key is greater, `none` = all compared sections equal.
`n` sections remain, starting at `idx`. -/
def avBase (a b : Nat) (sec : Nat → Except AvErr Nat) : Nat → Nat → Except AvErr (Option Bool)
  | 0, _ => .ok none
  | n + 1, idx =>
    match sec idx with
    | .error e => .error e
    | .ok x => if keySec a b idx = x then avBase a b sec n (idx + 1) else .ok (some (decide (x < keySec a b idx)))

/-- `self < key` for a version with `string = str` and strategy `st`. -/
def avLtKeyOf (str : Str) (st : AvStrategy) (a b : Nat) : Except AvErr Bool :=
  if str = keyStr a b then .ok false
  else if st = .unknown then .error .compare
  else if st = .specialContainer then .ok false
  else
    match avSections st str with
    | .error e => .error e
    | .ok n =>
      match avBase a b (avSection st str n) (max 2 n) 0 with
      | .error e => .error e
      | .ok (some r) => .ok r
      | .ok none => .ok (avModifier st str).isSome

/-- `AwesomeVersion(s) < AwesomeVersion("a.b")`. -/
def avLtKey (s : Str) (a b : Nat) : Except AvErr Bool :=
  avLtKeyOf (avString (avNorm s)) (avStrategy (avString (avNorm s))) a b

end AioMySensors
