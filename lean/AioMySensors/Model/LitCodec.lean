/-
The object-level vocabulary for the decoder half of `model/message.py`, the target of the third part of the body
translator (`tools/translate.py: translate_codec`).  The repository's own functions — `validate_command`,
`validate_message_type`, `validate_child_id`, `CommandField.validate_command`, `MessageSchema.to_dict` — are compiled
into `Generated/CodecBodies.lean` in this vocabulary; what marshmallow does around them (`Schema.load`: required
fields, `fields.Int` / `fields.Str` deserialisation, `Range` / `OneOf` validators, error collection) is the constant
glue `schemaLoad` below, with the field declarations read from the generated tables.
`Lemmas/CodecBodiesEq.lean` proves `schemaLoad = decode` — including that no exception other than marshmallow's
`ValidationError` can leave `MessageSchema.load`, which the `Option`-valued `decode` cannot even express.
-/
import AioMySensors.Model.Codec
import AioMySensors.Model.Effects

namespace AioMySensors.LC

/-- How a validator stops: marshmallow's `ValidationError`, or any other Python exception. -/
inductive CErr where
  | validation
  | foreign (c : PyExn)
  deriving DecidableEq, Repr

abbrev CM (α : Type) := Except CErr α

/-- The dict `to_dict` builds: field name ↦ raw text. -/
abbrev Data := List (String × Str)

/-- `data[key]`: `KeyError` when absent. -/
def dataAt (d : Data) (key : String) : CM Str :=
  match d.lookup key with
  | some s => .ok s
  | none => .error (.foreign .KeyError)

/-- `int(text)` -/
def pyIntC (s : Str) : CM Int :=
  match pyInt? s with
  | some n => .ok n
  | none => .error (.foreign .ValueError)

/-- `try: x except (classes) as exc: raise ValidationError(...) from exc` -/
def catchV (x : CM α) (classes : List PyExn) : CM α :=
  match x with
  | .error (.foreign c) => if pyCaught c classes then .error .validation else .error (.foreign c)
  | r => r

def bind (x : CM α) (f : α → CM β) : CM β :=
  match x with
  | .ok a => f a
  | .error e => .error e

def seq (x : CM Unit) (y : CM β) : CM β := bind x fun _ => y

/-- `validate.Range(min=lo, max=hi)(x)` -/
def rangeV (lo hi x : Int) : CM Unit :=
  if lo ≤ x ∧ x ≤ hi then .ok () else .error .validation

/-- `dict(zip(names, values, strict=False))` -/
def zipDict (names : List String) (values : List Str) : Data := names.zip values

/-- `[str(data[field]) for field in names]`: `KeyError` at the first missing field. -/
def mapFields (d : Data) : List String → CM (List Str)
  | [] => .ok []
  | k :: ks =>
    match d.lookup k with
    | none => .error (.foreign .KeyError)
    | some t =>
      match mapFields d ks with
      | .ok ts => .ok (t :: ts)
      | .error e => .error e

/-- What marshmallow's `dump` hands to `to_string`: the six attributes by field name (numbers printed as `str` prints them). -/
def dumpData (m : Msg) : Data :=
  [("node_id", dec m.node), ("child_id", dec m.child), ("command", dec m.cmd), ("ack", dec m.ack),
   ("message_type", dec m.type), ("payload", m.payload)]

/-! ### marshmallow's `Schema.load` around the repository's validators (constant glue)

`child` and `command` are the two custom fields (`ChildIdField`, `CommandField`), whose `_deserialize` calls the
repository's `validate_child_id` / `CommandField.validate_command` (passed in as `vChild`, `vCommand`: the generated
definitions).  Every declared field is required; a missing one is a `ValidationError`.  marshmallow collects
`ValidationError`s field by field and goes on, so an exception of another class raised by a LATER field still
propagates. -/

/-- One field's result: the value, a collected `ValidationError` (`none`), or another exception (propagates). -/
abbrev FieldRes (α : Type) := Except PyExn (Option α)

def fieldOf (x : CM α) : FieldRes α :=
  match x with
  | .ok a => .ok (some a)
  | .error .validation => .ok none
  | .error (.foreign c) => .error c

/-- A required field: missing → `ValidationError`; present → its deserialiser. -/
def required (d : Data) (key : String) (deser : Str → CM α) : FieldRes α :=
  match d.lookup key with
  | none => .ok none
  | some raw => fieldOf (deser raw)

/-- `fields.Int(validate=…)`: `int(text)` (`ValueError`/`TypeError` → `ValidationError`), then the validator. -/
def intField (check : Int → Bool) (raw : Str) : CM Int :=
  match pyInt? raw with
  | none => .error .validation
  | some n => if check n then .ok n else .error .validation

/-- `Schema.load` of `MessageSchema` on the dict `to_dict` produced. -/
def schemaLoad (vChild : Str → Data → CM Int) (vCommand : Str → Data → CM Int) (d : Data) : Except PyExn (Option Msg) :=
  match required d "node_id" (intField fun n => decide (Gen.nodeIdMin ≤ n) && decide (n ≤ Gen.nodeIdMax)) with
  | .error c => .error c
  | .ok node =>
  match required d "child_id" (fun raw => vChild raw d) with
  | .error c => .error c
  | .ok child =>
  match required d "command" (fun raw => vCommand raw d) with
  | .error c => .error c
  | .ok cmd =>
  match required d "ack" (intField fun n => Gen.ackValues.contains n) with
  | .error c => .error c
  | .ok ack =>
  match required d "message_type" (intField fun _ => true) with
  | .error c => .error c
  | .ok type =>
  match required d "payload" (fun raw => (.ok raw : CM Str)) with
  | .error c => .error c
  | .ok payload =>
    match node, child, cmd, ack, type, payload with
    | some node, some child, some cmd, some ack, some type, some payload => .ok (some ⟨node, child, cmd, ack, type, payload⟩)
    | _, _, _, _, _, _ => .ok none

end AioMySensors.LC
