/-
Python `str` operations used by the codec and the transports, over `List Char`.
`splitOn d s` is `s.split(d)` and `splitN d n s` is `s.split(d, n)` for a one-character
separator; `rstrip` is `s.rstrip()` with no argument (strips `str.isspace()` characters).
-/
import AioMySensors.Generated.Tables

namespace AioMySensors

abbrev Str := List Char

/-- `c.isspace()` in Python: membership in the table read from the running interpreter. -/
def isPySpace (c : Char) : Bool := Gen.pySpaces.contains c.toNat

/-- `s.split(d, n)`: at most `n` splits, never an empty list. -/
def splitN (d : Char) : Nat → Str → List Str
  | 0, s => [s]
  | _ + 1, [] => [[]]
  | n + 1, c :: cs =>
    if c = d then [] :: splitN d n cs
    else match splitN d (n + 1) cs with
      | f :: fs => (c :: f) :: fs
      | [] => [[c]]

/-- `s.split(d)`. -/
def splitOn (d : Char) : Str → List Str
  | [] => [[]]
  | c :: cs =>
    if c = d then [] :: splitOn d cs
    else match splitOn d cs with
      | f :: fs => (c :: f) :: fs
      | [] => [[c]]

/-- `d.join(fs)`. -/
def joinWith (d : Char) : List Str → Str
  | [] => []
  | [f] => f
  | f :: g :: fs => f ++ d :: joinWith d (g :: fs)

/-- Drop trailing characters satisfying `p` (structural, so that proofs go by induction). -/
def dropTrailing (p : Char → Bool) : Str → Str
  | [] => []
  | c :: cs =>
    match dropTrailing p cs with
    | [] => if p c then [] else [c]
    | r => c :: r

/-- `s.rstrip()`. -/
def rstrip (s : Str) : Str := dropTrailing isPySpace s

/-- `s.strip()`. -/
def strip (s : Str) : Str := rstrip (s.dropWhile isPySpace)

/-- `s.replace(a, b)` for single characters. -/
def replaceChar (a b : Char) (s : Str) : Str := s.map fun c => if c = a then b else c

end AioMySensors
