/-
The effect type of handlers: state, a fault schedule for transport writes, the log of write
attempts, and exceptions.  State changes and writes survive a raised exception, as in Python.
-/
import AioMySensors.Model.State

namespace AioMySensors

/-- Library errors (`exceptions.py`), all derived from `AIOMySensorsError`. -/
inductive LibErr where
  | invalidMessage
  | missingNode (node : Int)
  | missingChild (child : Int)
  | tooManyNodes
  | unsupported
  | transportFailed
  deriving DecidableEq, Repr

/-- What can propagate: a library error, or any other Python exception (`foreign`). -/
inductive Exn where
  | lib (e : LibErr)
  | foreign (c : PyExn)
  deriving DecidableEq, Repr

/-- One attempt to write a line to the transport, and whether it succeeded. -/
structure WriteEvt where
  line : Str
  ok : Bool
  deriving DecidableEq, Repr

/-- What happens at one coming write attempt.
* `pass`: the write completes;
* `fail`: the transport raises `TransportFailedError`;
* `cancel`: the task is cancelled while it waits in the write: `asyncio.CancelledError` (a
  `BaseException`, caught by no `except Exception` / library clause) is raised at that await, the
  line does not count as written. -/
inductive Fault where
  | pass | fail | cancel
  deriving DecidableEq, Repr

/-- The exception a fault makes the write raise. -/
def Fault.exn : Fault → Option Exn
  | .pass => none
  | .fail => some (.lib .transportFailed)
  | .cancel => some (.foreign .CancelledError)

/-- The world a handler runs in. `faults`: one entry per coming write attempt (the list running
out means success). -/
structure W where
  st : St
  faults : List Fault := []
  writes : List WriteEvt := []
  deriving Repr

abbrev M (α : Type) := W → Except Exn α × W

/-- The exception an outcome carries, if any. -/
def errOf (r : Except Exn α) : Option Exn :=
  match r with
  | .ok _ => none
  | .error e => some e

namespace M

@[inline] def pure (a : α) : M α := fun w => (.ok a, w)
@[inline] def raise (e : Exn) : M α := fun w => (.error e, w)

@[inline] def bind (x : M α) (f : α → M β) : M β := fun w =>
  match x w with
  | (.ok a, w') => f a w'
  | (.error e, w') => (.error e, w')

/-- `x` then `y` -/
@[inline] def seq (x : M Unit) (y : M β) : M β := bind x fun _ => y

@[inline] def getSt : M St := fun w => (.ok w.st, w)
@[inline] def modifySt (f : St → St) : M Unit := fun w => (.ok (), { w with st := f w.st })

/-- `try: x finally: fin` — `fin` runs whatever the outcome; if it raises, that exception wins. -/
def tryFinally (x : M α) (fin : Except Exn α → M Unit) : M α := fun w =>
  match x w with
  | (r, w') =>
    match fin r w' with
    | (.ok (), w'') => (r, w'')
    | (.error e, w'') => (.error e, w'')

/-- `try: x except <handled by h>: ...` — `h e = none` means the clause does not match. -/
def tryCatch (x : M α) (h : Exn → Option (M α)) : M α := fun w =>
  match x w with
  | (.ok a, w') => (.ok a, w')
  | (.error e, w') =>
    match h e with
    | some k => k w'
    | none => (.error e, w')

/-- `await transport.write(line)`: consumes one entry of the fault schedule. -/
def transportWrite (line : Str) : M Unit := fun w =>
  match w.faults with
  | .fail :: rest => (.error (.lib .transportFailed), { w with faults := rest, writes := w.writes ++ [⟨line, false⟩] })
  | .cancel :: rest => (.error (.foreign .CancelledError), { w with faults := rest, writes := w.writes ++ [⟨line, false⟩] })
  | .pass :: rest => (.ok (), { w with faults := rest, writes := w.writes ++ [⟨line, true⟩] })
  | [] => (.ok (), { w with writes := w.writes ++ [⟨line, true⟩] })

end M

/-- Is Python class `c` caught by an `except (classes)` clause?  Uses the generated subclass table. -/
def pyCaught (c : PyExn) (classes : List PyExn) : Bool :=
  match Gen.pyExnSupers.lookup c with
  | some sups => classes.any fun k => sups.contains k
  | none => classes.contains c

/-- The n-th `except` clause of a generated table (no clause: catches nothing). -/
def clause (t : List (List PyExn)) (n : Nat) : List PyExn := t.getD n []

/-- `try: x except <clause> as err: raise <lib error> from err` -/
def convertExn (classes : List PyExn) (e : LibErr) (x : Except PyExn α) : M α :=
  match x with
  | .ok a => M.pure a
  | .error c => if pyCaught c classes then M.raise (.lib e) else M.raise (.foreign c)

end AioMySensors
