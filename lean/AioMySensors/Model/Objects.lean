/-
The caller's `Message` objects (C12).

`Gateway.send(message)` is handed one of the CALLER's objects.  A `Message` is an ordinary mutable Python object: the
caller keeps it, may assign to its attributes (`msg.payload = "0"`, `msg.child_id = 1`) and hand the same instance to
`send` again — a command object used as a template, a switch turned on and off with one object.  Two facts of the code
(`gateway.py: send`, `protocol_14.py: OutgoingMessageHandler.handle_set`, `protocol_20.py: _handle_sleep_buffer`):

* `send` encodes the object AS IT IS AT THE CALL (`self._message_schema.dump(message)`) and keeps no record of earlier
  calls: the same instance sent again after an assignment is the send of the message it now is;
* a set command held for a sleeping node is held as THAT OBJECT (`set_messages[key] = message`), not as a copy, under
  the key it had at the call; the release (`gateway.send(buffer_message, message_buffer=False)`) encodes it again, as
  it is at the wake, selects by its `node_id` as it is at the wake, and removes the entry by identity.  An assignment
  to an object that is being held is therefore seen by the buffer: the entry stays where it is, under its old key,
  and reads as the object reads now.

`St` holds message VALUES (`sbuf : PDict Key Msg`); this layer adds the identities on top of it: the caller's objects
(`heap`), and which entries of the sleep buffer ARE which of them (`refs`, Python's `is`).  An object of the caller is
named by a number; a message built for one call and dropped (`gateway.send(Message(...))`) needs no name: nothing can
assign to it afterwards (`Op.send`, as before).
-/
import AioMySensors.Model.Gateway

namespace AioMySensors

/-- Identity of one of the caller's `Message` objects. -/
abbrev ObjId := Nat

structure OSt where
  /-- the gateway -/
  gw : St := {}
  /-- the caller's objects, as they read now -/
  heap : PDict ObjId Msg := []
  /-- `set_messages[key] is <object>`: the entries of the sleep buffer that are one of the caller's objects -/
  refs : PDict Key ObjId := []
  deriving Repr, Inhabited

inductive OOp where
  /-- a received line, or a `send` of an object nobody else refers to (or of something that is no message) -/
  | plain (op : Op)
  /-- the caller creates object `h` reading `m`, or assigns to attributes of its object `h`: it now reads `m` -/
  | assign (h : ObjId) (m : Msg)
  /-- `await gateway.send(obj_h, message_buffer=buffer)` -/
  | sendObj (h : ObjId) (buffer : Bool) (faults : List Fault)

/-- The call returned normally without a write attempt: by `C12.send_trichotomy` the message is held. -/
def Obs.held (o : Obs) : Bool :=
  o.writes.isEmpty && (match o.out with | .ok _ => true | .error _ => false)

/-- The buffer after an assignment to object `h`: every entry that IS `h` reads `m`; keys and order stay. -/
def assignSbuf (refs : PDict Key ObjId) (h : ObjId) (m : Msg) (sbuf : PDict Key Msg) : PDict Key Msg :=
  sbuf.map fun e => if refs.get? e.1 = some h then (e.1, m) else e

def ostep (o : OSt) : OOp → OSt × Obs
  | .assign h m =>
    ({ o with heap := o.heap.set h m, gw := { o.gw with sbuf := assignSbuf o.refs h m o.gw.sbuf } }, ⟨.ok none, []⟩)
  | .sendObj h buffer faults =>
    -- the send of the message the object is now (an identity the caller never created: not a message)
    let r := stepOp o.gw (.send (o.heap.get? h) buffer faults)
    match o.heap.get? h with
    | some m => ({ o with gw := r.1, refs := if r.2.held then o.refs.set m.key h else o.refs }, r.2)
    | none => ({ o with gw := r.1 }, r.2)
  | .plain (.send obj buffer faults) =>
    let r := stepOp o.gw (.send obj buffer faults)
    match obj with
    | some m => ({ o with gw := r.1, refs := if r.2.held then o.refs.erase m.key else o.refs }, r.2)
    | none => ({ o with gw := r.1 }, r.2)
  | .plain (.recv env line faults) =>
    -- a receive only ever removes entries (`C12.recv_only_erases`): what is left of `refs` is what is still there
    let r := stepOp o.gw (.recv env line faults)
    ({ o with gw := r.1, refs := o.refs.filter fun e => r.1.sbuf.has e.1 }, r.2)

/-- Run a history over the caller's objects; the final state and the observations in order. -/
def orun (o : OSt) : List OOp → OSt × List Obs
  | [] => (o, [])
  | op :: ops =>
    let (o', ob) := ostep o op
    let (o'', obs) := orun o' ops
    (o'', ob :: obs)

end AioMySensors
