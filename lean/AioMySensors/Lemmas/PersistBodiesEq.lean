/-
The tie between the generated `Persistence.load` / `Persistence.save` (`Generated/PersistBodies.lean`, written by
`tools/translate.py` from `persistence.py` of the working tree on every run of C13 / C14 / C15) and the hand-written
`Persist.loadFile` (what C13's and C14's theorems speak about) and `FileOps.saveOps` (the operation sequence whose crash
states C15's theorems speak about).
-/
import AioMySensors.Generated.PersistBodies

set_option linter.unusedSimpArgs false

namespace AioMySensors.PersistBodiesEq
open AioMySensors Persist

/-- What the clauses of the first `try` of `load`, as translated (any number of them, classes in any order), do with an
exception of class `c` is what the persistence model does reading the generated table by position (clause 0: create the
file; clause 1: `PersistenceReadError`; the extractor counts adjacent clauses with the same body as one).  Checked class
by class. -/
theorem firstTry_action (c : PyExn) :
    ((GenPersist.loadClauses.find? fun cl => pyCaught c cl.1).map fun cl => cl.2) =
      if pyCaught c (clause Gen.excPersistLoad 0) then some .saveAndReturn
      else if pyCaught c (clause Gen.excPersistLoad 1) then some .raiseRead else none := by
  cases c <;> decide

/-- The classes of the second `try` of `load`, as translated, catch what the generated clause 2 catches. -/
theorem secondTry_caught (c : PyExn) :
    pyCaught c GenPersist.loadRestoreClasses = pyCaught c (clause Gen.excPersistLoad 2) := by
  cases c <;> decide

theorem clause_save0 : clause Gen.excPersistSave 0 = [.OSError] := rfl

/-- `Persistence.load`, as translated: the two `try` statements with their handlers in source order. -/
theorem load_eq (cur : PDict Int Node) (fs : FileState) : GenPersist.load cur fs = loadFile cur fs := by
  simp only [GenPersist.load, loadFile, LP.tryRead, LP.openReadParse, LP.catchRead, LP.loadEach, loadInto, mapRead,
    secondTry_caught]
  cases hr : readFile fs with
  | ok j =>
    cases hl : loadRaw cur j with
    | ok r => simp [hl]
    | error c => cases hc : pyCaught c (clause Gen.excPersistLoad 2) <;> simp [hl, hc]
  | error c =>
    have ha := firstTry_action c
    cases hf : GenPersist.loadClauses.find? (fun cl => pyCaught c cl.1) with
    | none =>
      rw [hf] at ha
      cases h0 : pyCaught c (clause Gen.excPersistLoad 0) <;> cases h1 : pyCaught c (clause Gen.excPersistLoad 1) <;>
        simp [h0, h1, hf] at ha ⊢
    | some cl =>
      obtain ⟨cls, act⟩ := cl
      rw [hf] at ha
      cases act <;> cases h0 : pyCaught c (clause Gen.excPersistLoad 0) <;>
        cases h1 : pyCaught c (clause Gen.excPersistLoad 1) <;> simp [h0, h1, hf] at ha ⊢

/-- The file operations of `Persistence.save`, as translated, are the sequence whose crash states C15 analyses. -/
theorem saveOps_eq : GenPersist.saveOps = FileOps.saveOps := rfl

/-- … and its `except` clause is the generated table's. -/
theorem saveErr_eq (c : PyExn) : GenPersist.saveErr c = LP.writeErr (clause Gen.excPersistSave 0) c := rfl

end AioMySensors.PersistBodiesEq
