/-
The tie between the generated `Persistence.load` / `Persistence.save` (`Generated/PersistBodies.lean`, written by
`tools/translate.py` from `persistence.py` of the working tree on every run of C13 / C14 / C15) and the hand-written
`Persist.loadFile` (what C13's and C14's theorems speak about) and `FileOps.saveOps` (the operation sequence whose crash
states C15's theorems speak about).
-/
import AioMySensors.Generated.PersistBodies

set_option linter.unusedSimpArgs false

namespace AioMySensors.PersistBodiesEq
open AioMySensors Persist

theorem clause_load0 : clause Gen.excPersistLoad 0 = [.FileNotFoundError] := rfl
theorem clause_load1 : clause Gen.excPersistLoad 1 = [.OSError, .ValueError, .RecursionError] := rfl
theorem clause_load2 : clause Gen.excPersistLoad 2 = [.AttributeError, .TypeError, .ValidationError] := rfl
theorem clause_save0 : clause Gen.excPersistSave 0 = [.OSError] := rfl

/-- `Persistence.load`, as translated: the two `try` statements with their handlers in source order. -/
theorem load_eq (cur : PDict Int Node) (fs : FileState) : GenPersist.load cur fs = loadFile cur fs := by
  simp only [GenPersist.load, loadFile, LP.tryRead, LP.openReadParse, LP.catchRead, LP.loadEach, loadInto, mapRead,
    clause_load0, clause_load1, clause_load2]
  cases hr : readFile fs with
  | ok j =>
    cases hl : loadRaw cur j with
    | ok r => simp [hl]
    | error c => cases hc : pyCaught c [.AttributeError, .TypeError, .ValidationError] <;> simp [hl, hc]
  | error c =>
    cases h0 : pyCaught c [.FileNotFoundError] <;> cases h1 : pyCaught c [.OSError, .ValueError, .RecursionError] <;>
      simp [List.find?, h0, h1]

/-- The file operations of `Persistence.save`, as translated, are the sequence whose crash states C15 analyses. -/
theorem saveOps_eq : GenPersist.saveOps = FileOps.saveOps := rfl

/-- … and its `except` clause is the generated table's. -/
theorem saveErr_eq (c : PyExn) : GenPersist.saveErr c = LP.writeErr (clause Gen.excPersistSave 0) c := rfl

end AioMySensors.PersistBodiesEq
